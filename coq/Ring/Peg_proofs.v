(* Lemmas about the primitives of the PEG interpreter (C09) and finite
   certificates about the regenerated grammar. *)
From Coq Require Import List NArith Arith Bool Lia.
From PG Require Import Common.Strs Ring.Peg Gen.RingGrammar.
Import ListNotations.
Definition Reader_lit_Fragment : str := [70;114;97;103;109;101;110;116]%N.
Definition Reader_lit_Rule : str := [82;101;97;99;116;105;111;110;82;117;108;101]%N.

Lemma forallb_rev {A} (f : A -> bool) l : forallb f (rev l) = forallb f l.
Proof.
  induction l as [|x l IH]; simpl; auto.
  rewrite forallb_app, IH. simpl. rewrite andb_true_r. apply andb_comm.
Qed.

Section Prim.
Variable xdigit : N -> bool.
Variable xdecimal : N -> option N.
Variable xalpha : N -> bool.

(* every character accepted by Digit()/Number() is convertible by int() *)
Lemma digit_value_of_decimal c : isdecimal xdecimal c = true ->
  exists v, digit_value xdecimal c = Some v.
Proof.
  unfold isdecimal, digit_value. destruct (is_ascii_digit c); [eauto|].
  destruct (xdecimal c); [eauto|discriminate].
Qed.

Theorem int_of_decimal ds : forall acc,
  forallb (isdecimal xdecimal) ds = true -> exists v, int_of xdecimal ds acc = Some v.
Proof.
  induction ds as [|c ds IH]; intros acc H; simpl in *; [eauto|].
  apply andb_true_iff in H. destruct H as [Hc Hd].
  destruct (digit_value_of_decimal c Hc) as [v ->]. apply IH; auto.
Qed.

Lemma run_digit_decimal n : forall st acc ds st',
  forallb (isdecimal xdecimal) acc = true ->
  run_digit xdecimal n st acc = (st', Some ds) -> forallb (isdecimal xdecimal) ds = true.
Proof.
  induction n as [|n IH]; intros st acc ds st' Ha H; simpl in H.
  - inversion H; subst. rewrite forallb_rev. exact Ha.
  - destruct (rest st) as [|c r]; [discriminate|].
    destruct (isdecimal xdecimal c) eqn:E; [|discriminate].
    eapply IH; [|exact H]. simpl. rewrite E. exact Ha.
Qed.
End Prim.

(* the identifier scanner stays inside the text (termination of String()) *)
Section Scan.
Variable xdigit : N -> bool.
Variable xalpha : N -> bool.
Theorem ident_len_le r : ident_len xdigit xalpha r <= length r.
Proof. induction r as [|c r IH]; simpl; [lia|]. destruct (ident_char xdigit xalpha c); lia. Qed.
End Scan.

(* positions only move forward, by at least the characters taken *)
Lemma skip_filler_sidx r : forall i l c, i <= sidx (skip_filler r i l c).
Proof.
  induction r as [|x r IH]; intros i l c; simpl; [lia|].
  destruct (N.eqb x NL); [specialize (IH (S i) (S l) 1); lia|].
  destruct (is_filler x); [specialize (IH (S i) l (S c)); lia|simpl; lia].
Qed.

Lemma advance_sidx n : forall r i l c, i + n <= sidx (advance n r i l c).
Proof.
  induction n as [|n IH]; intros r i l c; simpl.
  - pose proof (skip_filler_sidx r i l c). lia.
  - destruct r as [|x r].
    + pose proof (skip_filler_sidx [] (i + S n) l c). lia.
    + destruct (N.eqb x NL); [specialize (IH r (S i) (S l) 1)|specialize (IH r (S i) l (S c))]; lia.
Qed.

Theorem take_progress n st : sidx st + n <= sidx (take n st).
Proof. unfold take. apply advance_sidx. Qed.

(* line numbers never decrease and columns stay positive *)
Lemma skip_filler_line r : forall i l c, 1 <= c -> l <= line (skip_filler r i l c) /\ 1 <= col (skip_filler r i l c).
Proof.
  induction r as [|x r IH]; intros i l c Hc; simpl; [lia|].
  destruct (N.eqb x NL); [specialize (IH (S i) (S l) 1); lia|].
  destruct (is_filler x); [specialize (IH (S i) l (S c)); lia|simpl; lia].
Qed.

(* what remains after skipping is a suffix of what was there *)
Lemma skip_filler_suffix r : forall i l c, exists p, r = p ++ rest (skip_filler r i l c)
  /\ sidx (skip_filler r i l c) = i + length p.
Proof.
  induction r as [|x r IH]; intros i l c; simpl.
  - exists []. simpl. split; auto.
  - destruct (N.eqb x NL).
    + destruct (IH (S i) (S l) 1) as (p & E & S'). exists (x :: p). simpl. split; [congruence|lia].
    + destruct (is_filler x).
      * destruct (IH (S i) l (S c)) as (p & E & S'). exists (x :: p). simpl. split; [congruence|lia].
      * exists []. simpl. split; auto.
Qed.

(* ---------- finite certificates on the regenerated grammar ---------- *)
Fixpoint nts (e : peg) : list str :=
  match e with
  | PNT n => [n]
  | POpt e' => nts e'
  | PAll es | PEither es => (fix go (l : list peg) := match l with [] => [] | x :: r => nts x ++ go r end) es
  | _ => []
  end.
Fixpoint has_empty_either (e : peg) : bool :=
  match e with
  | PEither [] => true
  | PLiterals [] _ => true
  | POpt e' => has_empty_either e'
  | PAll es | PEither es => (fix go (l : list peg) := match l with [] => false | x :: r => has_empty_either x || go r end) es
  | _ => false
  end.
Definition defined (rules : list (str * peg)) (n : str) : bool := existsb (fun kv => str_eqb (fst kv) n) rules.
Definition undefined_nts (rules : list (str * peg)) : list str :=
  filter (fun n => negb (defined rules n)) (flat_map (fun kv => nts (snd kv)) rules).

(* every alternative list is non-empty: `raise stream.current_error` always has an error to raise *)
Theorem no_empty_alternatives :
  forallb (fun kv => negb (has_empty_either (snd kv))) enhanced_grammar_rules = true
  /\ forallb (fun kv => negb (has_empty_either (snd kv))) strict_grammar_rules = true.
Proof. vm_compute. split; reflexivity. Qed.

(* the root rule exists and requires the end of the input after the query *)
Theorem root_requires_eos :
  rule_get enhanced_grammar_rules enhanced_grammar_root
  = Some (PAll [PEither [PNT (Reader_lit_Fragment); PNT (Reader_lit_Rule)]; PEOS]).
Proof. vm_compute. reflexivity. Qed.

(* names used but not defined by the grammar: at most the three known ones,
   all inside the (unsupported) constraint part of reaction rules *)
Definition known_undefined : list str :=
  [ [67;95;67;121;99;108;105;99]%N;                                                   (* C_Cyclic *)
    [67;95;68;101;99;108;97;114;101;100;67;104;97;114;97;99;116;101;114;105;115;116;105;99]%N;  (* C_DeclaredCharacteristic *)
    [69;108;101;109;101;110;116;83;121;109;98;111;108]%N ].                            (* ElementSymbol *)
Theorem undefined_nts_known :
  forallb (fun n => existsb (str_eqb n) known_undefined) (undefined_nts enhanced_grammar_rules) = true.
Proof. vm_compute. reflexivity. Qed.
