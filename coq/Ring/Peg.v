(* Executable model of pgradd/RINGParser/Parser.py: the combinators and
   ParseState (take / peek / skip_filler, backtracking with furthest-error
   merging).  The grammar is data (Gen/RingGrammar.v).  No proofs here. *)
From Coq Require Import List NArith Arith Bool.
From PG Require Import Common.Strs.
Import ListNotations.

Inductive peg :=
| PLit (tok : str) (no_error : bool)
| PFill (tok : str)
| PDigit (n : nat)
| PNumber
| PString
| PEOS
| POpt (e : peg)
| PAll (es : list peg)
| PEither (es : list peg)
| PLiterals (alts : list str) (name : option str)
| PNT (name : str).

(* parse trees: [RINGToken(name), child, ...], strings and ints *)
Inductive ptree := TNode (name : str) (kids : list ptree) | TStr (s : str) | TInt (n : N).

(* stream position: remaining input, index, line, column *)
Record pst := { rest : str; sidx : nat; line : nat; col : nat }.

Inductive ierr := IValueError | IKeyError | ITypeError | IRecursion.
Definition cerr := option (nat * nat).          (* current_error position *)

Inductive pres :=
| ROk (st : pst) (ce : cerr) (out : list ptree)
| RErr (pos : nat * nat) (ce : cerr)              (* RINGSyntaxError raised at pos *)
| RInternal (k : ierr)                            (* an exception the parser did not intend *)
| RHang.                                          (* fuel exhausted *)

Definition NL : N := 10%N.
Definition is_filler (c : N) : bool := N.eqb c 32 || N.eqb c 10 || N.eqb c 9.

Fixpoint skip_filler (r : str) (i l c : nat) : pst :=
  match r with
  | x :: r' => if N.eqb x NL then skip_filler r' (S i) (S l) 1
               else if is_filler x then skip_filler r' (S i) l (S c)
               else {| rest := r; sidx := i; line := l; col := c |}
  | [] => {| rest := r; sidx := i; line := l; col := c |}
  end.

(* take(n): advance over n characters (fewer at the end), counting lines and
   columns, then skip fillers *)
Fixpoint advance (n : nat) (r : str) (i l c : nat) : pst :=
  match n, r with
  | S n', x :: r' => if N.eqb x NL then advance n' r' (S i) (S l) 1
                     else advance n' r' (S i) l (S c)
  | S n', [] => skip_filler r (i + S n') l c      (* sidx += n regardless *)
  | O, _ => skip_filler r i l c
  end.
Definition take (n : nat) (st : pst) : pst := advance n (rest st) (sidx st) (line st) (col st).
Definition peek (n : nat) (st : pst) : str := firstn n (rest st).
Definition init (s : str) : pst := skip_filler s 0 1 1.

(* furthest-error merging: RINGSyntaxError.update + ParseState.__exit__ *)
Definition pos_ltb (a b : nat * nat) : bool :=
  Nat.ltb (fst a) (fst b) || (Nat.eqb (fst a) (fst b) && Nat.ltb (snd a) (snd b)).
Definition merge (e : nat * nat) (ce : cerr) : cerr :=
  match ce with
  | None => Some e
  | Some c => if pos_ltb e c then Some c else Some e
  end.
Definition here (st : pst) : nat * nat := (line st, col st).

Section Run.
(* str.isdigit / isalpha / int() of one character: ASCII computed, other
   code points supplied with the case (the Unicode database is an oracle) *)
Variable xdigit : N -> bool.          (* non-ASCII c with c.isdigit()   *)
Variable xdecimal : N -> option N.    (* non-ASCII c accepted by int(): its value *)
Variable xalpha : N -> bool.          (* non-ASCII c with c.isalpha()   *)
Variable rules : list (str * peg).

Definition isdigit (c : N) : bool := is_ascii_digit c || xdigit c.
Definition isdecimal (c : N) : bool :=
  is_ascii_digit c || match xdecimal c with Some _ => true | None => false end.
Definition isalpha (c : N) : bool :=
  (N.leb 65 c && N.leb c 90) || (N.leb 97 c && N.leb c 122) || xalpha c.
Definition ident_char (c : N) : bool := isalpha c || isdigit c || N.eqb c 95.

Definition digit_value (c : N) : option N :=
  if is_ascii_digit c then Some (c - 48)%N else xdecimal c.
(* int(out) *)
(* CPython converts at most sys.get_int_max_str_digits() = 4300 digits (int(out) raises ValueError beyond);
   Number() reports that as a syntax error after the digits (fix: of the ValueError escaping) *)
Definition too_long (ds : str) : bool := N.ltb 4300 (N.of_nat (length ds)).
Fixpoint int_of (s : str) (acc : N) : option N :=
  match s with
  | [] => Some acc
  | c :: r => match digit_value c with
              | Some v => int_of r (10 * acc + v)%N
              | None => None
              end
  end.

Fixpoint rule_get (l : list (str * peg)) (n : str) : option peg :=
  match l with
  | [] => None
  | (k, v) :: r => if str_eqb k n then Some v else rule_get r n
  end.

(* Digit(n): n times { peek().isdecimal() else error; take() } ; int() *)
Fixpoint run_digit (n : nat) (st : pst) (acc : str) : pst * option str :=
  match n with
  | O => (st, Some (rev acc))
  | S n' => match rest st with
            | c :: _ => if isdecimal c then run_digit n' (take 1 st) (c :: acc) else (st, None)
            | [] => (st, None)
            end
  end.

(* Number(): first char then `while peek().isdecimal(): out += take()`;
   the loop is bounded by the remaining length *)
Fixpoint run_number (fuel : nat) (st : pst) (acc : str) : pst * str :=
  match fuel with
  | O => (st, rev acc)
  | S f => match rest st with
           | c :: _ => if isdecimal c then run_number f (take 1 st) (c :: acc) else (st, rev acc)
           | [] => (st, rev acc)
           end
  end.

(* String(): the run of identifier characters starting here (after the fix of
   the scanner it stops at the end of the text) *)
Fixpoint ident_len (r : str) : nat :=
  match r with
  | c :: r' => if ident_char c then S (ident_len r') else O
  | [] => O
  end.

Fixpoint prefix_eqb (tok r : str) : bool :=
  match tok, r with
  | [], _ => true
  | t :: tok', c :: r' => N.eqb t c && prefix_eqb tok' r'
  | _ :: _, [] => false
  end.

Fixpoint run (fuel : nat) : peg -> pst -> cerr -> list ptree -> pres :=
  match fuel with
  | O => fun _ _ _ _ => RHang
  | S f =>
      fix go (e : peg) (st : pst) (ce : cerr) (out : list ptree) {struct e} : pres :=
        match e with
        | PLit tok _ =>
            if prefix_eqb tok (rest st) then ROk (take (length tok) st) ce (out ++ [TStr tok])
            else RErr (here st) ce
        | PFill tok =>
            if prefix_eqb tok (rest st) then ROk (take (length tok) st) ce out
            else RErr (here st) ce
        | PDigit n =>
            match run_digit n st [] with
            | (_, None) => RErr (here st) ce      (* error raised at the failing position: see note *)
            | (st', Some ds) => match int_of ds 0 with
                                | Some v => ROk st' ce (out ++ [TInt v])
                                | None => RInternal IValueError
                                end
            end
        | PNumber =>
            match rest st with
            | c :: _ =>
                if isdecimal c then
                  let '(st', ds) := run_number (length (rest st)) (take 1 st) [c] in
                  if too_long ds then RErr (here st') ce else
                  match int_of ds 0 with
                  | Some v => ROk st' ce (out ++ [TInt v])
                  | None => RInternal IValueError
                  end
                else RErr (here st) ce
            | [] => RErr (here st) ce
            end
        | PString =>
            match ident_len (rest st) with
            | O => RErr (here st) ce
            | n => ROk (take n st) ce (out ++ [TStr (firstn n (rest st))])
            end
        | PEOS => match rest st with [] => ROk st ce out | _ => RErr (here st) ce end
        | POpt e' =>
            match go e' st ce out with
            | RErr p ce' => ROk st (merge p ce') out
            | other => other
            end
        | PAll es =>
            (fix all (l : list peg) (st : pst) (ce : cerr) (out : list ptree) : pres :=
               match l with
               | [] => ROk st ce out
               | x :: r => match go x st ce out with
                           | ROk st' ce' out' => all r st' ce' out'
                           | other => other
                           end
               end) es st ce out
        | PEither es =>
            (fix alt (l : list peg) (ce : cerr) : pres :=
               match l with
               | [] => match ce with
                       | Some p => RErr p ce           (* raise stream.current_error *)
                       | None => RInternal ITypeError  (* raise None *)
                       end
               | x :: r => match go x st ce out with
                           | RErr p ce' => alt r (merge p ce')
                           | other => other
                           end
               end) es ce
        | PLiterals alts name =>
            (fix alt (l : list str) (ce : cerr) : pres :=
               match l with
               | [] => match name with
                       | Some _ => RErr (here st) ce
                       | None => match ce with
                                 | Some p => RErr p ce
                                 | None => RInternal ITypeError
                                 end
                       end
               | tok :: r => if prefix_eqb tok (rest st)
                             then ROk (take (length tok) st) ce (out ++ [TStr tok])
                             else alt r (merge (here st) ce)
               end) alts ce
        | PNT name =>
            match rule_get rules name with
            | None => RInternal IKeyError
            | Some body =>
                match run f body st ce [] with
                | ROk st' ce' kids => ROk st' ce' (out ++ [TNode name kids])
                | other => other
                end
            end
        end
  end.

End Run.
