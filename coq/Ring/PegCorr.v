(* helpers for the generated correspondence files of C09 *)
From Coq Require Import List NArith Arith Bool.
From PG Require Import Common.Strs Ring.Peg.
Import ListNotations.

Fixpoint ptree_eqb (a b : ptree) {struct a} : bool :=
  match a, b with
  | TStr x, TStr y => str_eqb x y
  | TInt x, TInt y => N.eqb x y
  | TNode n ks, TNode m ls =>
      str_eqb n m &&
      (fix go (k : list ptree) (l : list ptree) : bool :=
         match k, l with
         | [], [] => true
         | x :: k', y :: l' => ptree_eqb x y && go k' l'
         | _, _ => false
         end) ks ls
  | _, _ => false
  end.

(* the outcome of Parser.parse as the harness reports it *)
Inductive pout :=
| OTree (t : ptree)
| OSyntax (line col : nat)
| OInternal (k : ierr)
| OHang.

Definition assoc_b (l : list N) (c : N) : bool := existsb (N.eqb c) l.
Fixpoint assoc_v (l : list (N * N)) (c : N) : option N :=
  match l with [] => None | (k, v) :: r => if N.eqb k c then Some v else assoc_v r c end.

Definition parse_text (xd : list N) (xdec : list (N * N)) (xa : list N)
           (rules : list (str * peg)) (root : str) (fuel : nat) (s : str) : pout :=
  match run (assoc_b xd) (assoc_v xdec) (assoc_b xa) rules fuel (PNT root) (init s) None [] with
  | ROk _ _ [t] => OTree t
  | ROk _ _ _ => OInternal ITypeError
  | RErr (l, c) _ => OSyntax l c
  | RInternal k => OInternal k
  | RHang => OHang
  end.

Definition pout_same (m i : pout) : bool :=
  match m, i with
  | OTree a, OTree b => ptree_eqb a b
  | OSyntax l c, OSyntax l' c' => Nat.eqb l l' && Nat.eqb c c'
  | OInternal IValueError, OInternal IValueError | OInternal IKeyError, OInternal IKeyError
  | OInternal ITypeError, OInternal ITypeError | OInternal IRecursion, OInternal IRecursion => true
  | OHang, OHang => true
  | _, _ => false
  end.

(* ---------- reading (C09) and matching (C08) ---------- *)
From Coq Require Import String.
From PG Require Import Ring.Reader Graph.Mol Graph.Match.

Inductive rout :=
| OFrag (f : fragment)
| ORule (t : ptree)
| ORSyntax (line col : nat)
| ORReader | ORNotImpl | ORInternal | ORHang.

Definition read_text (xd : list N) (xdec : list (N * N)) (xa xl : list N)
           (rules : list (str * peg)) (root : str) (elements : list (str * N))
           (fuel : nat) (s : str) : rout :=
  match parse_text xd xdec xa rules root fuel s with
  | OTree t =>
      match kids t with
      | [c] => if is_node "Fragment"%string c then
                 match read_fragment elements (assoc_b xl) c with
                 | ROk' f => OFrag f
                 | RErr' EReader => ORReader
                 | RErr' ENotImpl => ORNotImpl
                 | RErr' EInternal => ORInternal
                 end
               else if is_node "ReactionRule"%string c then ORule c
               else ORInternal
      | _ => ORInternal
      end
  | OSyntax l c => ORSyntax l c
  | OInternal _ => ORInternal
  | OHang => ORHang
  end.

(* outcome classes as the harness reports them: 0 query, 1 syntax, 2 reader,
   3 not-implemented, 4 internal, 5 hang, 6 rule (compared by C16) *)
Definition rout_same (m : rout) (cls : nat) (l c : nat) : bool :=
  match m, cls with
  | OFrag _, 0%nat => true
  | ORSyntax l' c', 1%nat => Nat.eqb l l' && Nat.eqb c c'
  | ORReader, 2%nat => true
  | ORNotImpl, 3%nat => true
  | ORInternal, 4%nat => true
  | ORHang, 5%nat => true
  | ORule _, _ => true
  | _, _ => false
  end.

Fixpoint nats_eqb (a b : list nat) : bool :=
  match a, b with
  | [], [] => true
  | x :: a', y :: b' => Nat.eqb x y && nats_eqb a' b'
  | _, _ => false
  end.
Definition subset (a b : list (list nat)) : bool :=
  forallb (fun x => existsb (nats_eqb x) b) a.
Definition same_matches (a b : list (list nat)) : bool :=
  Nat.eqb (List.length a) (List.length b) && subset a b && subset b a.
