(* helpers for the generated correspondence files of C09 *)
From Coq Require Import List NArith Arith Bool.
From PG Require Import Common.Strs Ring.Peg.
Import ListNotations.

Fixpoint ptree_eqb (a b : ptree) {struct a} : bool :=
  match a, b with
  | TStr x, TStr y => str_eqb x y
  | TInt x, TInt y => N.eqb x y
  | TNode n ks, TNode m ls =>
      str_eqb n m &&
      (fix go (k : list ptree) (l : list ptree) : bool :=
         match k, l with
         | [], [] => true
         | x :: k', y :: l' => ptree_eqb x y && go k' l'
         | _, _ => false
         end) ks ls
  | _, _ => false
  end.

(* the outcome of Parser.parse as the harness reports it *)
Inductive pout :=
| OTree (t : ptree)
| OSyntax (line col : nat)
| OInternal (k : ierr)
| OHang.

Definition assoc_b (l : list N) (c : N) : bool := existsb (N.eqb c) l.
Fixpoint assoc_v (l : list (N * N)) (c : N) : option N :=
  match l with [] => None | (k, v) :: r => if N.eqb k c then Some v else assoc_v r c end.

Definition parse_text (xd : list N) (xdec : list (N * N)) (xa : list N)
           (rules : list (str * peg)) (root : str) (fuel : nat) (s : str) : pout :=
  match run (assoc_b xd) (assoc_v xdec) (assoc_b xa) rules fuel (PNT root) (init s) None [] with
  | ROk _ _ [t] => OTree t
  | ROk _ _ _ => OInternal ITypeError
  | RErr (l, c) _ => OSyntax l c
  | RInternal k => OInternal k
  | RHang => OHang
  end.

Definition pout_same (m i : pout) : bool :=
  match m, i with
  | OTree a, OTree b => ptree_eqb a b
  | OSyntax l c, OSyntax l' c' => Nat.eqb l l' && Nat.eqb c c'
  | OInternal IValueError, OInternal IValueError | OInternal IKeyError, OInternal IKeyError
  | OInternal ITypeError, OInternal ITypeError | OInternal IRecursion, OInternal IRecursion => true
  | OHang, OHang => true
  | _, _ => false
  end.
