(* Whole-interpreter theorems about the PEG interpreter (C09): results are
   classified, positions stay inside the text, and - for every grammar that
   passes the boolean certificate check `cert_ok` (no left recursion through
   nullable prefixes: a nullable table and a rank function are the
   certificate) - the interpreter never runs out of fuel once the fuel
   exceeds an explicit bound linear in the length of the text. *)
From Coq Require Import List NArith Arith Bool Lia.
From PG Require Import Common.Strs Common.Strs_proofs Ring.Peg Ring.Peg_proofs.
Import ListNotations.

(* induction principle for the nested type *)
Section PegInd.
Variable P : peg -> Prop.
Hypothesis HLit : forall t b, P (PLit t b).
Hypothesis HFill : forall t, P (PFill t).
Hypothesis HDigit : forall n, P (PDigit n).
Hypothesis HNumber : P PNumber.
Hypothesis HString : P PString.
Hypothesis HEOS : P PEOS.
Hypothesis HOpt : forall e, P e -> P (POpt e).
Hypothesis HAll : forall es, Forall P es -> P (PAll es).
Hypothesis HEither : forall es, Forall P es -> P (PEither es).
Hypothesis HLits : forall a n, P (PLiterals a n).
Hypothesis HNT : forall n, P (PNT n).
Fixpoint peg_ind' (e : peg) : P e :=
  match e with
  | PLit t b => HLit t b | PFill t => HFill t | PDigit n => HDigit n
  | PNumber => HNumber | PString => HString | PEOS => HEOS
  | POpt e' => HOpt e' (peg_ind' e')
  | PAll es => HAll es ((fix go (l : list peg) : Forall P l :=
                           match l with [] => Forall_nil P | x :: r => Forall_cons x (peg_ind' x) (go r) end) es)
  | PEither es => HEither es ((fix go (l : list peg) : Forall P l :=
                           match l with [] => Forall_nil P | x :: r => Forall_cons x (peg_ind' x) (go r) end) es)
  | PLiterals a n => HLits a n
  | PNT n => HNT n
  end.
End PegInd.

Section T.
Variable xdigit : N -> bool.
Variable xdecimal : N -> option N.
Variable xalpha : N -> bool.
Variable rules : list (str * peg).
Notation run := (run xdigit xdecimal xalpha rules).

(* unfolding equations of the interpreter *)
Lemma run_all_nil f st ce out : run (S f) (PAll []) st ce out = ROk st ce out.
Proof. reflexivity. Qed.
Lemma run_all_cons f x r st ce out :
  run (S f) (PAll (x :: r)) st ce out =
  match run (S f) x st ce out with
  | ROk st' ce' out' => run (S f) (PAll r) st' ce' out'
  | other => other
  end.
Proof. reflexivity. Qed.
Lemma run_either_nil f st ce out :
  run (S f) (PEither []) st ce out =
  match ce with Some p => RErr p ce | None => RInternal ITypeError end.
Proof. reflexivity. Qed.
Lemma run_either_cons f x r st ce out :
  run (S f) (PEither (x :: r)) st ce out =
  match run (S f) x st ce out with
  | RErr p ce' => run (S f) (PEither r) st (merge p ce') out
  | other => other
  end.
Proof. reflexivity. Qed.
Lemma run_opt f e st ce out :
  run (S f) (POpt e) st ce out =
  match run (S f) e st ce out with
  | RErr p ce' => ROk st (merge p ce') out
  | other => other
  end.
Proof. reflexivity. Qed.
Lemma run_nt f name st ce out :
  run (S f) (PNT name) st ce out =
  match rule_get rules name with
  | None => RInternal IKeyError
  | Some body => match run f body st ce [] with
                 | ROk st' ce' kids => ROk st' ce' (out ++ [TNode name kids])
                 | other => other
                 end
  end.
Proof. reflexivity. Qed.

(* ---------- consumption ---------- *)
Definition rem (st : pst) : nat := length (rest st).

Lemma skip_filler_rem r : forall i l c, rem (skip_filler r i l c) <= length r.
Proof.
  induction r as [|x r IH]; intros i l c; simpl; [unfold rem; simpl; lia|].
  destruct (N.eqb x NL); [specialize (IH (S i) (S l) 1); lia|].
  destruct (is_filler x); [specialize (IH (S i) l (S c)); lia|unfold rem; simpl; lia].
Qed.

Lemma advance_rem n : forall r i l c, rem (advance n r i l c) <= length r - n.
Proof.
  induction n as [|n IH]; intros r i l c; simpl.
  - pose proof (skip_filler_rem r i l c). lia.
  - destruct r as [|x r].
    + pose proof (skip_filler_rem [] (i + S n) l c). simpl in *. lia.
    + destruct (N.eqb x NL); [specialize (IH r (S i) (S l) 1)|specialize (IH r (S i) l (S c))]; simpl; lia.
Qed.

Lemma take_rem n st : rem (take n st) <= rem st - n.
Proof. unfold take, rem at 2. apply advance_rem. Qed.

Lemma prefix_eqb_length tok r : prefix_eqb tok r = true -> length tok <= length r.
Proof.
  revert r; induction tok as [|t tok IH]; intros r H; simpl in *; [lia|].
  destruct r as [|c r]; [discriminate|]. apply andb_true_iff in H. destruct H as [_ H].
  specialize (IH r H). simpl. lia.
Qed.

Lemma run_digit_rem n : forall st acc st' ds, run_digit xdecimal n st acc = (st', Some ds) ->
  rem st' <= rem st - n /\ n <= rem st.
Proof.
  induction n as [|n IH]; intros st acc st' ds H; simpl in H.
  - inversion H; subst. lia.
  - destruct (rest st) as [|c r] eqn:E; [discriminate|].
    destruct (isdecimal xdecimal c); [|discriminate].
    destruct (IH _ _ _ _ H) as [A B]. pose proof (take_rem 1 st).
    assert (rem st = S (length r)) by (unfold rem; rewrite E; reflexivity). lia.
Qed.

Lemma run_number_rem fuel : forall st acc st' ds, run_number xdecimal fuel st acc = (st', ds) -> rem st' <= rem st.
Proof.
  induction fuel as [|f IH]; intros st acc st' ds H; simpl in H.
  - inversion H; subst. lia.
  - destruct (rest st) as [|c r] eqn:E; [inversion H; subst; lia|].
    destruct (isdecimal xdecimal c); [|inversion H; subst; lia].
    specialize (IH _ _ _ _ H). pose proof (take_rem 1 st). lia.
Qed.

(* ---------- nullability and the certificate ---------- *)
Variable nul : str -> bool.          (* certificate: non-terminals that may succeed without consuming *)
Variable rank : str -> nat.          (* certificate: ranking of the non-terminals *)

Definition isnil' (s : str) : bool := match s with [] => true | _ => false end.

Fixpoint nullable (e : peg) : bool :=
  match e with
  | PLit tok _ | PFill tok => isnil' tok
  | PDigit n => Nat.eqb n 0
  | PNumber | PString => false
  | PEOS => true
  | POpt _ => true
  | PAll es => forallb nullable es
  | PEither es => existsb nullable es
  | PLiterals alts _ => existsb isnil' alts
  | PNT n => nul n
  end.

(* non-terminals that may be entered before anything has been consumed *)
Fixpoint first (e : peg) : list str :=
  match e with
  | PNT n => [n]
  | POpt e' => first e'
  | PAll es => (fix go (l : list peg) : list str :=
                  match l with [] => [] | x :: r => first x ++ (if nullable x then go r else []) end) es
  | PEither es => flat_map first es
  | _ => []
  end.

Definition cert_ok : bool :=
  forallb (fun kv => implb (nullable (snd kv)) (nul (fst kv))
                     && forallb (fun b => Nat.ltb (rank b) (rank (fst kv))) (first (snd kv))) rules.

Lemma rule_get_in name body : rule_get rules name = Some body -> In (name, body) rules.
Proof.
  induction rules as [|[k v] r IH]; simpl; [discriminate|].
  destruct (str_eqb k name) eqn:E.
  - intros H; inversion H; subst. apply str_eqb_eq in E. subst. left. reflexivity.
  - intros H. right. apply IH. exact H.
Qed.

Hypothesis Hcert : cert_ok = true.

Lemma cert_rule name body : rule_get rules name = Some body ->
  (nullable body = true -> nul name = true) /\ (forall b, In b (first body) -> rank b < rank name).
Proof.
  intros H. apply rule_get_in in H. unfold cert_ok in Hcert. rewrite forallb_forall in Hcert.
  specialize (Hcert _ H). simpl in Hcert. apply andb_true_iff in Hcert. destruct Hcert as [A B]. split.
  - intros N. rewrite N in A. exact A.
  - intros b Hb. rewrite forallb_forall in B. apply Nat.ltb_lt. apply B. exact Hb.
Qed.

(* success never moves backwards, and success without consumption implies nullable *)
Lemma run_rem n : forall e st ce out st' ce' out',
  run n e st ce out = ROk st' ce' out' ->
  rem st' <= rem st /\ (rem st' = rem st -> nullable e = true).
Proof.
  induction n as [|f IHf]; [discriminate|].
  intros e. induction e as [t b|t|k| | | |e IHe|es HF|es HF|a nm|nm] using peg_ind'; intros st ce out st' ce' out' H.
  - (* PLit *) simpl in H. destruct (prefix_eqb t (rest st)) eqn:E; [|discriminate]. inversion H; subst; clear H.
    pose proof (take_rem (length t) st). pose proof (prefix_eqb_length _ _ E). unfold rem in *. simpl.
    split; [lia|]. intros. destruct t; [reflexivity|simpl in *; lia].
  - (* PFill *) simpl in H. destruct (prefix_eqb t (rest st)) eqn:E; [|discriminate]. inversion H; subst; clear H.
    pose proof (take_rem (length t) st). pose proof (prefix_eqb_length _ _ E). unfold rem in *. simpl.
    split; [lia|]. intros. destruct t; [reflexivity|simpl in *; lia].
  - (* PDigit *) simpl in H. destruct (run_digit xdecimal k st []) as [st1 [ds|]] eqn:E; [|discriminate].
    destruct (int_of xdecimal ds 0); [|discriminate]. inversion H; subst; clear H.
    destruct (run_digit_rem _ _ _ _ _ E) as [A B]. split; [lia|]. intros. simpl. apply Nat.eqb_eq. lia.
  - (* PNumber *) simpl in H. destruct (rest st) as [|c r] eqn:E; [discriminate|].
    destruct (isdecimal xdecimal c); [|discriminate].
    destruct (run_number xdecimal (length (c :: r)) (take 1 st) [c]) as [st1 ds] eqn:E1.
    destruct (too_long ds); [discriminate|].
    destruct (int_of xdecimal ds 0); [|discriminate]. inversion H; subst; clear H.
    pose proof (run_number_rem _ _ _ _ _ E1). pose proof (take_rem 1 st).
    assert (rem st = S (length r)) by (unfold rem; rewrite E; reflexivity). split; [lia|lia].
  - (* PString *) simpl in H. destruct (ident_len xdigit xalpha (rest st)) as [|k] eqn:E; [discriminate|].
    inversion H; subst; clear H. pose proof (take_rem (S k) st). pose proof (ident_len_le xdigit xalpha (rest st)).
    unfold rem in *. split; lia.
  - (* PEOS *) simpl in H. destruct (rest st); [|discriminate]. inversion H; subst. split; [lia|reflexivity].
  - (* POpt *) rewrite run_opt in H. destruct (run (S f) e st ce out) as [s1 c1 o1|p c1|k|] eqn:E; try discriminate.
    + inversion H; subst. destruct (IHe _ _ _ _ _ _ E). split; [lia|reflexivity].
    + inversion H; subst. split; [lia|reflexivity].
  - (* PAll *) revert st ce out H. induction HF as [|x r Hx Hr IHr]; intros st ce out H.
    + rewrite run_all_nil in H. inversion H; subst. split; [lia|reflexivity].
    + rewrite run_all_cons in H. destruct (run (S f) x st ce out) as [s1 c1 o1|p c1|k|] eqn:E; try discriminate.
      destruct (Hx _ _ _ _ _ _ E) as [A1 B1]. destruct (IHr _ _ _ H) as [A2 B2].
      split; [lia|]. intros Heq. simpl. rewrite B1 by lia. simpl in B2. rewrite B2 by lia. reflexivity.
  - (* PEither *) revert ce H. induction HF as [|x r Hx Hr IHr]; intros ce H.
    + rewrite run_either_nil in H. destruct ce; discriminate.
    + rewrite run_either_cons in H. destruct (run (S f) x st ce out) as [s1 c1 o1|p c1|k|] eqn:E; try discriminate.
      * inversion H; subst. destruct (Hx _ _ _ _ _ _ E) as [A1 B1]. split; [lia|]. intros Heq. simpl. rewrite B1 by lia. reflexivity.
      * destruct (IHr _ H) as [A2 B2]. split; [lia|]. intros Heq. simpl. simpl in B2. rewrite B2 by lia. apply orb_true_r.
  - (* PLiterals *) simpl in H. revert ce H. induction a as [|tok r IHr]; intros ce H.
    + destruct nm; [discriminate|destruct ce; discriminate].
    + destruct (prefix_eqb tok (rest st)) eqn:E.
      * inversion H; subst; clear H. pose proof (take_rem (length tok) st). pose proof (prefix_eqb_length _ _ E).
        unfold rem in *. split; [lia|]. intros. simpl. destruct tok; [reflexivity|simpl in *; lia].
      * destruct (IHr _ H) as [A B]. split; [exact A|]. intros Heq. simpl. simpl in B. rewrite B by exact Heq. apply orb_true_r.
  - (* PNT *) rewrite run_nt in H. destruct (rule_get rules nm) as [body|] eqn:E; [|discriminate].
    destruct (run f body st ce []) as [s1 c1 o1|p c1|k|] eqn:E1; try discriminate.
    inversion H; subst; clear H. destruct (IHf _ _ _ _ _ _ _ E1) as [A B]. split; [exact A|].
    intros Heq. simpl. destruct (cert_rule _ _ E) as [C _]. apply C. apply B. exact Heq.
Qed.

(* ---------- fuel adequacy ---------- *)
Variable K : nat.
Hypothesis HK : forall name body, rule_get rules name = Some body -> S (rank name) <= K.

Definition rk (b : str) : nat := match rule_get rules b with Some _ => S (rank b) | None => 0 end.

Lemma rk_le_K b : rk b <= K.
Proof. unfold rk. destruct (rule_get rules b) eqn:E; [eapply HK; eauto|lia]. Qed.

Lemma first_all_cons x r : first (PAll (x :: r)) = first x ++ (if nullable x then first (PAll r) else []).
Proof. reflexivity. Qed.
Lemma first_either_cons x r : first (PEither (x :: r)) = first x ++ first (PEither r).
Proof. reflexivity. Qed.

Lemma run_no_hang n : forall e st m,
  (forall b, In b (first e) -> rk b <= m) -> 1 + rem st * K + m <= n ->
  forall ce out, run n e st ce out <> RHang.
Proof.
  induction n as [|f IHf]; [intros; lia|].
  intros e. induction e as [t b|t|k| | | |e IHe|es HF|es HF|a nm|nm] using peg_ind'; intros st m Hm Hn ce out.
  - simpl. destruct (prefix_eqb t (rest st)); discriminate.
  - simpl. destruct (prefix_eqb t (rest st)); discriminate.
  - simpl. destruct (run_digit xdecimal k st []) as [st1 [ds|]]; [|discriminate]. destruct (int_of xdecimal ds 0); discriminate.
  - simpl. destruct (rest st) as [|c r]; [discriminate|]. destruct (isdecimal xdecimal c); [|discriminate].
    destruct (run_number xdecimal (length (c :: r)) (take 1 st) [c]) as [st1 ds]. destruct (too_long ds); [discriminate|]. destruct (int_of xdecimal ds 0); discriminate.
  - simpl. destruct (ident_len xdigit xalpha (rest st)); discriminate.
  - simpl. destruct (rest st); discriminate.
  - rewrite run_opt. specialize (IHe st m Hm Hn ce out).
    destruct (run (S f) e st ce out); try discriminate. exact IHe.
  - revert st m Hm Hn ce out. induction HF as [|x r Hx Hr IHr]; intros st m Hm Hn ce out.
    + rewrite run_all_nil. discriminate.
    + rewrite run_all_cons. rewrite first_all_cons in Hm.
      assert (Hx' := Hx st m (fun b Hb => Hm b (in_or_app _ _ _ (or_introl Hb))) Hn ce out).
      destruct (run (S f) x st ce out) as [s1 c1 o1|p c1|k|] eqn:E; try discriminate; [|contradiction].
      destruct (run_rem _ _ _ _ _ _ _ _ E) as [A B].
      destruct (Nat.eq_dec (rem s1) (rem st)) as [Heq|Hne].
      * apply (IHr s1 m); [|rewrite Heq; exact Hn]. intros b Hb. apply Hm. apply in_or_app. right. rewrite (B Heq). exact Hb.
      * apply (IHr s1 K); [intros; apply rk_le_K|]. assert (rem s1 < rem st) by lia. nia.
  - revert m Hm Hn ce. induction HF as [|x r Hx Hr IHr]; intros m Hm Hn ce.
    + rewrite run_either_nil. destruct ce; discriminate.
    + rewrite run_either_cons. rewrite first_either_cons in Hm.
      assert (Hx' := Hx st m (fun b Hb => Hm b (in_or_app _ _ _ (or_introl Hb))) Hn ce out).
      destruct (run (S f) x st ce out) as [s1 c1 o1|p c1|k|] eqn:E; try discriminate; [|contradiction].
      apply (IHr m); [|exact Hn]. intros b Hb. apply Hm. apply in_or_app. right. exact Hb.
  - simpl. clear Hm. revert ce. induction a as [|tok r IHr]; intros ce.
    + destruct nm; [discriminate|destruct ce; discriminate].
    + destruct (prefix_eqb tok (rest st)); [discriminate|apply IHr].
  - rewrite run_nt. destruct (rule_get rules nm) as [body|] eqn:E; [|discriminate].
    assert (Hb : rk nm <= m) by (apply Hm; simpl; auto). unfold rk in Hb. rewrite E in Hb.
    destruct (cert_rule _ _ E) as [_ C].
    assert (G : run f body st ce [] <> RHang).
    { apply (IHf body st (rank nm)); [|lia]. intros b Hbin. unfold rk. destruct (rule_get rules b); [|lia]. specialize (C b Hbin). lia. }
    destruct (run f body st ce []); try discriminate. contradiction.
Qed.

(* ---------- no unintended exception ---------- *)
Lemma run_number_decimal fuel : forall st acc st' ds,
  forallb (isdecimal xdecimal) acc = true ->
  run_number xdecimal fuel st acc = (st', ds) -> forallb (isdecimal xdecimal) ds = true.
Proof.
  induction fuel as [|f IH]; intros st acc st' ds Ha H; simpl in H.
  - inversion H; subst. rewrite forallb_rev. exact Ha.
  - destruct (rest st) as [|c r]; [inversion H; subst; rewrite forallb_rev; exact Ha|].
    destruct (isdecimal xdecimal c) eqn:E; [|inversion H; subst; rewrite forallb_rev; exact Ha].
    eapply IH; [|exact H]. simpl. rewrite E. exact Ha.
Qed.

Lemma merge_some p c : exists q, merge p c = Some q.
Proof. unfold merge. destruct c as [c0|]; [destruct (pos_ltb p c0)|]; eauto. Qed.

Lemma no_empty_all x r : has_empty_either (PAll (x :: r)) = has_empty_either x || has_empty_either (PAll r).
Proof. reflexivity. Qed.
Lemma no_empty_either x r : has_empty_either (PEither (x :: r)) = false ->
  has_empty_either x = false /\ (r = [] \/ has_empty_either (PEither r) = false).
Proof.
  simpl. intros H. apply orb_false_iff in H. destruct H as [A B]. split; [exact A|].
  destruct r as [|y r]; [left; reflexivity|right]. simpl. exact B.
Qed.

Hypothesis Hne : forall name body, rule_get rules name = Some body -> has_empty_either body = false.

(* the only exception that is not a RING syntax error is the KeyError of an
   undefined non-terminal *)
Lemma run_internal n : forall e st ce out k,
  has_empty_either e = false -> run n e st ce out = RInternal k -> k = IKeyError.
Proof.
  induction n as [|f IHf]; [discriminate|].
  intros e. induction e as [t b|t|d| | | |e IHe|es HF|es HF|a nm|nm] using peg_ind'; intros st ce out k He H.
  - simpl in H. destruct (prefix_eqb t (rest st)); discriminate.
  - simpl in H. destruct (prefix_eqb t (rest st)); discriminate.
  - simpl in H. destruct (run_digit xdecimal d st []) as [st1 [ds|]] eqn:E; [|discriminate].
    destruct (int_of_decimal xdecimal ds 0 (run_digit_decimal xdecimal d st [] ds st1 eq_refl E)) as [v Hv].
    rewrite Hv in H. discriminate.
  - simpl in H. destruct (rest st) as [|c r]; [discriminate|]. destruct (isdecimal xdecimal c) eqn:Ec; [|discriminate].
    destruct (run_number xdecimal (length (c :: r)) (take 1 st) [c]) as [st1 ds] eqn:E.
    assert (Hd : forallb (isdecimal xdecimal) ds = true) by (eapply run_number_decimal; [|exact E]; simpl; rewrite Ec; reflexivity).
    destruct (too_long ds); [discriminate|].
    destruct (int_of_decimal xdecimal ds 0 Hd) as [v Hv]. rewrite Hv in H. discriminate.
  - simpl in H. destruct (ident_len xdigit xalpha (rest st)); discriminate.
  - simpl in H. destruct (rest st); discriminate.
  - rewrite run_opt in H. destruct (run (S f) e st ce out) eqn:E; try discriminate.
    inversion H; subst. eapply IHe; eauto.
  - revert st ce out He H. induction HF as [|x r Hx Hr IHr]; intros st ce out He H.
    + rewrite run_all_nil in H. discriminate.
    + rewrite run_all_cons in H. rewrite no_empty_all in He. apply orb_false_iff in He. destruct He as [Hex Her].
      destruct (run (S f) x st ce out) as [s1 c1 o1|p c1|k1|] eqn:E; try discriminate.
      * eapply IHr; eauto.
      * inversion H; subst. eapply Hx; eauto.
  - assert (G : forall ce, (es <> [] \/ ce <> None) -> (es = [] \/ has_empty_either (PEither es) = false) ->
                run (S f) (PEither es) st ce out = RInternal k -> k = IKeyError).
    { clear He H. induction HF as [|x r Hx Hr IHr]; intros ce0 Hc Hem H.
      - rewrite run_either_nil in H. destruct ce0; [discriminate|]. destruct Hc as [Hc|Hc]; contradiction.
      - rewrite run_either_cons in H. destruct Hem as [Hem|Hem]; [discriminate|].
        destruct (no_empty_either _ _ Hem) as [Hex Her].
        destruct (run (S f) x st ce0 out) as [s1 c1 o1|p c1|k1|] eqn:E; try discriminate.
        + destruct (merge_some p c1) as [q Hq]. apply (IHr (merge p c1)); auto. right. rewrite Hq. discriminate.
        + inversion H; subst. eapply Hx; eauto. }
    destruct es as [|x r]; [simpl in He; discriminate|]. apply (G ce); auto. left. discriminate.
  - simpl in H. destruct a as [|tok r]; [simpl in He; discriminate|]. clear He.
    assert (G : forall (l : list str) ce0, (l <> [] \/ ce0 <> None) ->
      (fix alt (l : list str) (ce : cerr) {struct l} : pres :=
         match l with
         | [] => match nm with
                 | Some _ => RErr (here st) ce
                 | None => match ce with Some p => RErr p ce | None => RInternal ITypeError end
                 end
         | tok :: r => if prefix_eqb tok (rest st) then ROk (take (length tok) st) ce (out ++ [TStr tok])
                       else alt r (merge (here st) ce)
         end) l ce0 = RInternal k -> k = IKeyError).
    { induction l as [|t0 l IHl]; intros ce0 Hc HH.
      - destruct nm; [discriminate|]. destruct ce0; [discriminate|]. destruct Hc as [Hc|Hc]; contradiction.
      - destruct (prefix_eqb t0 (rest st)); [discriminate|].
        destruct (merge_some (here st) ce0) as [q Hq]. apply (IHl (merge (here st) ce0)); auto. right. rewrite Hq. discriminate. }
    apply (G (tok :: r) ce); auto. left. discriminate.
  - rewrite run_nt in H. destruct (rule_get rules nm) as [body|] eqn:E; [|inversion H; reflexivity].
    destruct (run f body st ce []) eqn:E1; try discriminate. inversion H; subst.
    eapply IHf; [|exact E1]. eapply Hne; eauto.
Qed.

(* ---------- every reported position is a position of the text ---------- *)
Fixpoint nlr (rp : str) : nat := match rp with [] => 0 | x :: r => if N.eqb x NL then S (nlr r) else nlr r end.
Fixpoint colr (rp : str) : nat := match rp with [] => 0 | x :: r => if N.eqb x NL then 0 else S (colr r) end.

(* st is the stream state after exactly the characters rev rp of the text s *)
Definition Pos (s : str) (st : pst) : Prop :=
  exists rp, s = rev rp ++ rest st /\ line st = 1 + nlr rp /\ col st = 1 + colr rp.
Definition At (s : str) (p : nat * nat) : Prop := exists st, Pos s st /\ p = here st.
Definition CE (s : str) (ce : cerr) : Prop := forall p, ce = Some p -> At s p.

Lemma skip_filler_pos s r : forall rp i l c,
  s = rev rp ++ r -> l = 1 + nlr rp -> c = 1 + colr rp -> Pos s (skip_filler r i l c).
Proof.
  induction r as [|x r IH]; intros rp i l c Hs Hl Hc; simpl.
  - exists rp. simpl. auto.
  - destruct (N.eqb x NL) eqn:E.
    + apply (IH (x :: rp)); simpl; [rewrite <- app_assoc; exact Hs|rewrite E; lia|rewrite E; reflexivity].
    + destruct (is_filler x).
      * apply (IH (x :: rp)); simpl; [rewrite <- app_assoc; exact Hs|rewrite E; lia|rewrite E; lia].
      * exists rp. simpl. auto.
Qed.

Lemma advance_pos s n : forall r rp i l c,
  s = rev rp ++ r -> l = 1 + nlr rp -> c = 1 + colr rp -> Pos s (advance n r i l c).
Proof.
  induction n as [|n IH]; intros r rp i l c Hs Hl Hc; simpl.
  - eapply skip_filler_pos; eauto.
  - destruct r as [|x r]; [eapply skip_filler_pos; eauto|].
    destruct (N.eqb x NL) eqn:E.
    + apply (IH r (x :: rp)); simpl; [rewrite <- app_assoc; exact Hs|rewrite E; lia|rewrite E; reflexivity].
    + apply (IH r (x :: rp)); simpl; [rewrite <- app_assoc; exact Hs|rewrite E; lia|rewrite E; lia].
Qed.

Lemma take_pos s n st : Pos s st -> Pos s (take n st).
Proof. intros (rp & A & B & C). unfold take. eapply advance_pos; eauto. Qed.

Lemma init_pos s : Pos s (init s).
Proof. unfold init. apply (skip_filler_pos s s []); reflexivity. Qed.

Lemma run_digit_pos s n : forall st acc st' o, Pos s st -> run_digit xdecimal n st acc = (st', o) -> Pos s st'.
Proof.
  induction n as [|n IH]; intros st acc st' o P H; simpl in H.
  - inversion H; subst. exact P.
  - destruct (rest st) as [|c r]; [inversion H; subst; exact P|].
    destruct (isdecimal xdecimal c); [|inversion H; subst; exact P].
    eapply IH; [|exact H]. apply take_pos. exact P.
Qed.

Lemma run_number_pos s fuel : forall st acc st' ds, Pos s st -> run_number xdecimal fuel st acc = (st', ds) -> Pos s st'.
Proof.
  induction fuel as [|f IH]; intros st acc st' ds P H; simpl in H.
  - inversion H; subst. exact P.
  - destruct (rest st) as [|c r]; [inversion H; subst; exact P|].
    destruct (isdecimal xdecimal c); [|inversion H; subst; exact P].
    eapply IH; [|exact H]. apply take_pos. exact P.
Qed.

Lemma merge_CE s p ce : At s p -> CE s ce -> CE s (merge p ce).
Proof.
  intros Hp Hc q Hq. unfold merge in Hq. destruct ce as [c|].
  - destruct (pos_ltb p c); inversion Hq; subst; [apply Hc; reflexivity|exact Hp].
  - inversion Hq; subst. exact Hp.
Qed.

Lemma here_at s st : Pos s st -> At s (here st).
Proof. intros P. exists st. auto. Qed.

Definition res_pos (s : str) (r : pres) : Prop :=
  match r with
  | ROk st' ce' _ => Pos s st' /\ CE s ce'
  | RErr p ce' => At s p /\ CE s ce'
  | _ => True
  end.

Lemma run_pos s n : forall e st ce out, Pos s st -> CE s ce -> res_pos s (run n e st ce out).
Proof.
  induction n as [|f IHf]; [intros; exact I|].
  intros e. induction e as [t b|t|d| | | |e IHe|es HF|es HF|a nm|nm] using peg_ind'; intros st ce out P C.
  - simpl. destruct (prefix_eqb t (rest st)); simpl; split; auto using take_pos, here_at.
  - simpl. destruct (prefix_eqb t (rest st)); simpl; split; auto using take_pos, here_at.
  - simpl. destruct (run_digit xdecimal d st []) as [st1 [ds|]] eqn:E; simpl; [|split; auto using here_at].
    destruct (int_of xdecimal ds 0); simpl; [|exact I]. split; [eapply run_digit_pos; eauto|exact C].
  - simpl. destruct (rest st) as [|c r] eqn:Er; [cbn [res_pos]; split; auto using here_at|].
    destruct (isdecimal xdecimal c); [|cbn [res_pos]; split; auto using here_at].
    destruct (run_number xdecimal (length (c :: r)) (take 1 st) [c]) as [st1 ds] eqn:E.
    assert (P1 : Pos s st1) by (eapply run_number_pos; [|exact E]; apply take_pos; exact P).
    destruct (too_long ds); [cbn [res_pos]; split; auto using here_at|].
    destruct (int_of xdecimal ds 0); cbn [res_pos]; [|exact I]. split; [exact P1|exact C].
  - simpl. destruct (ident_len xdigit xalpha (rest st)); simpl; split; auto using take_pos, here_at.
  - simpl. destruct (rest st); simpl; split; auto using here_at.
  - rewrite run_opt. specialize (IHe st ce out P C). destruct (run (S f) e st ce out); simpl in *; auto.
    destruct IHe as [A B]. split; [exact P|apply merge_CE; auto].
  - revert st ce out P C. induction HF as [|x r Hx Hr IHr]; intros st ce out P C.
    + rewrite run_all_nil. simpl. auto.
    + rewrite run_all_cons. specialize (Hx st ce out P C).
      destruct (run (S f) x st ce out); simpl in *; auto. destruct Hx as [A B]. apply IHr; auto.
  - revert ce C. induction HF as [|x r Hx Hr IHr]; intros ce C.
    + rewrite run_either_nil. destruct ce as [p|]; simpl; [|exact I]. split; [apply C; reflexivity|exact C].
    + rewrite run_either_cons. specialize (Hx st ce out P C).
      destruct (run (S f) x st ce out); simpl in *; auto. destruct Hx as [A B]. apply IHr. apply merge_CE; auto.
  - simpl. revert ce C. induction a as [|tok r IHr]; intros ce C.
    + destruct nm; simpl; [split; auto using here_at|]. destruct ce as [p|]; simpl; [|exact I]. split; [apply C; reflexivity|exact C].
    + destruct (prefix_eqb tok (rest st)); simpl; [split; auto using take_pos|].
      apply IHr. apply merge_CE; auto using here_at.
  - rewrite run_nt. destruct (rule_get rules nm) as [body|]; simpl; [|exact I].
    specialize (IHf body st ce [] P C). destruct (run f body st ce []); simpl in *; auto.
Qed.

(* a position of the text lies inside it *)
Fixpoint nls (s : str) : nat := match s with [] => 0 | x :: r => if N.eqb x NL then S (nls r) else nls r end.
Lemma nlr_rev_app rp : forall r, nls (rev rp ++ r) = nlr rp + nls r.
Proof.
  induction rp as [|x rp IH]; intros r; simpl; [reflexivity|].
  rewrite <- app_assoc, IH. simpl. destruct (N.eqb x NL); lia.
Qed.
Lemma colr_le rp : colr rp <= length rp.
Proof. induction rp as [|x rp IH]; simpl; [lia|]. destruct (N.eqb x NL); lia. Qed.

Theorem at_inside s l c : At s (l, c) -> 1 <= l <= 1 + nls s /\ 1 <= c <= 1 + length s.
Proof.
  intros (st & (rp & Hs & Hl & Hc) & Hp). inversion Hp; subst l c. clear Hp.
  pose proof (nlr_rev_app rp (rest st)) as A. rewrite <- Hs in A.
  pose proof (colr_le rp) as B.
  assert (length s = length rp + length (rest st)) by (rewrite Hs, app_length, rev_length; reflexivity).
  lia.
Qed.

(* ---------- a closed grammar raises no KeyError ---------- *)
Lemma nts_all_cons x r : nts (PAll (x :: r)) = nts x ++ nts (PAll r).
Proof. reflexivity. Qed.
Lemma nts_either_cons x r : nts (PEither (x :: r)) = nts x ++ nts (PEither r).
Proof. reflexivity. Qed.

Hypothesis Hclosed : forall name body, rule_get rules name = Some body ->
  forall b, In b (nts body) -> rule_get rules b <> None.

Lemma run_no_keyerror n : forall e st ce out,
  (forall b, In b (nts e) -> rule_get rules b <> None) -> run n e st ce out <> RInternal IKeyError.
Proof.
  induction n as [|f IHf]; [discriminate|].
  intros e. induction e as [t b|t|d| | | |e IHe|es HF|es HF|a nm|nm] using peg_ind'; intros st ce out Hd.
  - simpl. destruct (prefix_eqb t (rest st)); discriminate.
  - simpl. destruct (prefix_eqb t (rest st)); discriminate.
  - simpl. destruct (run_digit xdecimal d st []) as [st1 [ds|]]; [|discriminate]. destruct (int_of xdecimal ds 0); discriminate.
  - simpl. destruct (rest st) as [|c r]; [discriminate|]. destruct (isdecimal xdecimal c); [|discriminate].
    destruct (run_number xdecimal (length (c :: r)) (take 1 st) [c]) as [st1 ds]. destruct (too_long ds); [discriminate|]. destruct (int_of xdecimal ds 0); discriminate.
  - simpl. destruct (ident_len xdigit xalpha (rest st)); discriminate.
  - simpl. destruct (rest st); discriminate.
  - rewrite run_opt. specialize (IHe st ce out Hd). destruct (run (S f) e st ce out); try discriminate. exact IHe.
  - revert st ce out Hd. induction HF as [|x r Hx Hr IHr]; intros st ce out Hd.
    + rewrite run_all_nil. discriminate.
    + rewrite run_all_cons. rewrite nts_all_cons in Hd.
      assert (Hx' := Hx st ce out (fun b Hb => Hd b (in_or_app _ _ _ (or_introl Hb)))).
      destruct (run (S f) x st ce out); try discriminate; [|exact Hx'].
      apply IHr. intros b Hb. apply Hd. apply in_or_app. right. exact Hb.
  - revert ce Hd. induction HF as [|x r Hx Hr IHr]; intros ce Hd.
    + rewrite run_either_nil. destruct ce; discriminate.
    + rewrite run_either_cons. rewrite nts_either_cons in Hd.
      assert (Hx' := Hx st ce out (fun b Hb => Hd b (in_or_app _ _ _ (or_introl Hb)))).
      destruct (run (S f) x st ce out); try discriminate; [|exact Hx'].
      apply IHr. intros b Hb. apply Hd. apply in_or_app. right. exact Hb.
  - simpl. clear Hd. revert ce. induction a as [|tok r IHr]; intros ce.
    + destruct nm; [discriminate|destruct ce; discriminate].
    + destruct (prefix_eqb tok (rest st)); [discriminate|apply IHr].
  - rewrite run_nt. destruct (rule_get rules nm) as [body|] eqn:E; [|exfalso; apply (Hd nm); simpl; auto].
    assert (G := IHf body st ce [] (Hclosed _ _ E)). destruct (run f body st ce []); try discriminate. exact G.
Qed.
End T.

(* ---------- computing a certificate for a concrete grammar ---------- *)
Section Cert.
Variable rules : list (str * peg).
Definition in_tab (t : list str) (a : str) : bool := existsb (str_eqb a) t.
Fixpoint tab_get (t : list (str * nat)) (a : str) : nat :=
  match t with [] => 0 | (k, v) :: r => if str_eqb k a then v else tab_get r a end.

(* least fixed point of nullability by iteration (evaluate once: Eval vm_compute) *)
Fixpoint nul_iter (n : nat) (t : list str) : list str :=
  match n with
  | O => t
  | S n' => nul_iter n' (map fst (filter (fun kv => nullable (in_tab t) (snd kv)) rules))
  end.
Definition nul_table : list str := nul_iter (S (length rules)) [].

(* longest chain of "enterable before consuming" by iteration *)
Fixpoint rank_iter (nul : str -> bool) (n : nat) (t : list (str * nat)) : list (str * nat) :=
  match n with
  | O => t
  | S n' => rank_iter nul n' (map (fun kv => (fst kv, S (list_max (map (tab_get t) (first nul (snd kv)))))) rules)
  end.
Definition rank_table (nul : str -> bool) : list (str * nat) := rank_iter nul (S (length rules)) [].
Definition K_of (rank : str -> nat) : nat := S (list_max (map (fun kv => rank (fst kv)) rules)).

Lemma K_of_ok rank name body : rule_get rules name = Some body -> S (rank name) <= K_of rank.
Proof.
  intros H. apply rule_get_in in H. unfold K_of. apply le_n_S.
  assert (G : forall l, In (name, body) l -> rank name <= list_max (map (fun kv => rank (fst kv)) l)).
  { induction l as [|x l IH]; intros Hin; [destruct Hin|]. simpl. destruct Hin as [->|Hin]; [simpl; lia|].
    specialize (IH Hin). lia. }
  apply G. exact H.
Qed.

Definition closed : bool :=
  forallb (fun kv => forallb (fun b => match rule_get rules b with Some _ => true | None => false end) (nts (snd kv))) rules.
Definition no_empty : bool := forallb (fun kv => negb (has_empty_either (snd kv))) rules.

Lemma no_empty_rule : no_empty = true -> forall name body, rule_get rules name = Some body -> has_empty_either body = false.
Proof.
  intros H name body Hr. apply rule_get_in in Hr. unfold no_empty in H. rewrite forallb_forall in H.
  specialize (H _ Hr). simpl in H. apply negb_true_iff in H. exact H.
Qed.
Lemma closed_rule : closed = true -> forall name body, rule_get rules name = Some body ->
  forall b, In b (nts body) -> rule_get rules b <> None.
Proof.
  intros H name body Hr b Hb. apply rule_get_in in Hr. unfold closed in H. rewrite forallb_forall in H.
  specialize (H _ Hr). simpl in H. rewrite forallb_forall in H. specialize (H b Hb).
  destruct (rule_get rules b); [discriminate|discriminate].
Qed.
End Cert.
