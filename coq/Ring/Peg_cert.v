(* The certificate for the grammar REGENERATED from /repo (Gen/RingGrammar.v),
   computed and checked inside Coq on every run, and the resulting totality
   theorem for Parser.parse on every text. *)
From Coq Require Import List NArith Arith Bool Lia.
From PG Require Import Common.Strs Ring.Peg Ring.Peg_proofs Ring.Peg_total Ring.PegCorr Gen.RingGrammar.
Import ListNotations.

Definition G := enhanced_grammar_rules.
Definition root := enhanced_grammar_root.

(* the certificate, computed once by the virtual machine from the regenerated grammar *)
Definition nul_tab : list str := Eval vm_compute in nul_table G.
Definition nul_of : str -> bool := in_tab nul_tab.
Definition rank_tab : list (str * nat) := Eval vm_compute in rank_table G nul_of.
Definition rank_of : str -> nat := tab_get rank_tab.
Definition KG : nat := Eval vm_compute in K_of G rank_of.
Lemma KG_eq : KG = K_of G rank_of.
Proof. vm_compute. reflexivity. Qed.

(* no left recursion through nullable prefixes: nullable table + ranking *)
Lemma grammar_cert : cert_ok G nul_of rank_of = true.
Proof. vm_compute. reflexivity. Qed.
(* every non-terminal that is used is defined *)
Lemma grammar_closed : closed G = true.
Proof. vm_compute. reflexivity. Qed.
Lemma grammar_no_empty : no_empty G = true.
Proof. vm_compute. reflexivity. Qed.
Lemma root_defined : rule_get G root <> None.
Proof. vm_compute. discriminate. Qed.

Definition fuel_bound (s : str) : nat := 2 + (length s + 1) * KG.

Theorem parse_text_total xd xdec xa s fuel :
  fuel_bound s <= fuel ->
  match parse_text xd xdec xa G root fuel s with
  | OTree _ => True
  | OSyntax l c => 1 <= l <= 1 + nls s /\ 1 <= c <= 1 + length s
  | OInternal _ => False
  | OHang => False
  end.
Proof.
  intros Hf. unfold parse_text.
  set (xd' := assoc_b xd). set (xdec' := assoc_v xdec). set (xa' := assoc_b xa).
  destruct fuel as [|f]; [unfold fuel_bound in Hf; lia|].
  pose proof (run_no_hang xd' xdec' xa' G nul_of rank_of grammar_cert (K_of G rank_of) (K_of_ok G rank_of)
                (S f) (PNT root) (init s) (K_of G rank_of)) as NH.
  pose proof (run_internal xd' xdec' xa' G (no_empty_rule G grammar_no_empty) (S f) (PNT root) (init s) None []) as NI.
  pose proof (run_no_keyerror xd' xdec' xa' G (closed_rule G grammar_closed) (S f) (PNT root) (init s) None []) as NK.
  pose proof (run_pos xd' xdec' xa' G s (S f) (PNT root) (init s) None [] (init_pos s)) as NP.
  assert (Hrem : rem (init s) <= length s) by (unfold init; apply skip_filler_rem).
  assert (NH' : run xd' xdec' xa' G (S f) (PNT root) (init s) None [] <> RHang).
  { apply NH.
    - intros b _. apply rk_le_K. apply K_of_ok.
    - unfold fuel_bound in Hf. rewrite KG_eq in Hf. nia. }
  clear NH. rewrite run_nt in *. destruct (rule_get G root) as [body|] eqn:ER; [|exfalso; apply root_defined; exact ER].
  destruct (run xd' xdec' xa' G f body (init s) None []) as [st' ce' kids|[l c] ce'|k|] eqn:ERun.
  - simpl. exact I.
  - assert (CE0 : CE s None) by (intros p Hp; discriminate).
    destruct (NP CE0) as [A _]. apply at_inside. exact A.
  - assert (k = IKeyError) by (apply (NI k); reflexivity). subst k. apply NK; [|reflexivity].
    intros b [<-|[]]. exact root_defined.
  - apply NH'. reflexivity.
Qed.
