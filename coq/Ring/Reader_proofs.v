(* Well-formedness of what the RING reader produces (used by C08): every
   query bond of a fragment that reads joins two DIFFERENT declared atoms. *)
From Coq Require Import List NArith ZArith Arith Bool Lia String.
From PG Require Import Common.Strs Ring.Peg Ring.Reader Graph.Mol Graph.Match Graph.Match_proofs.
Import ListNotations.
Notation length := List.length.

Definition WInv (st : rst) : Prop :=
  length (names st) = length (f_atoms (frag st)) /\ wf_bonds (frag st).

Lemma index_of_lt s l i : index_of s l = Some i -> i < length l.
Proof.
  revert i; induction l as [|k l IH]; intros i H; simpl in H; [discriminate|].
  destruct (str_eqb k s).
  - inversion H; simpl; lia.
  - destruct (index_of s l) as [j|]; [|discriminate]. inversion H; subst. simpl. specialize (IH j eq_refl). lia.
Qed.

Lemma add_atom_inv st q cs l : WInv st ->
  WInv (fst (add_atom st q cs l)) /\ snd (add_atom st q cs l) = length (f_atoms (frag st))
  /\ length (f_atoms (frag (fst (add_atom st q cs l)))) = S (length (f_atoms (frag st))).
Proof.
  intros [Hn Hw]. unfold add_atom. simpl. split; [|split; [reflexivity|rewrite app_length; simpl; lia]].
  split; simpl.
  - rewrite !app_length. simpl. lia.
  - intros i j t Hin. simpl in Hin. destruct (Hw i j t Hin) as (A & B & C).
    simpl. rewrite app_length. simpl. repeat split; lia.
Qed.

Lemma add_cons_inv st idx cs : WInv st -> WInv (add_cons st idx cs).
Proof. intros [Hn Hw]. split; simpl; [exact Hn|exact Hw]. Qed.

Lemma add_cons_len st idx cs : length (f_atoms (frag (add_cons st idx cs))) = length (f_atoms (frag st)).
Proof. reflexivity. Qed.

Lemma add_bond_inv st i j bt st' : add_bond st i j bt = ROk' st' -> WInv st ->
  i < length (f_atoms (frag st)) -> j < length (f_atoms (frag st)) ->
  WInv st' /\ length (f_atoms (frag st')) = length (f_atoms (frag st)).
Proof.
  unfold add_bond. intros H [Hn Hw] Hi Hj.
  destruct (Nat.eqb i j || has_bond (frag st) i j) eqn:E; [discriminate|].
  apply orb_false_iff in E. destruct E as [E _]. apply Nat.eqb_neq in E.
  destruct (bkind_of bt) as [k|]; [|discriminate].
  destruct (match k with KSingle => _ | _ => _ end) as [qt bc]. inversion H; subst; clear H. simpl.
  split; [|reflexivity]. split; simpl; [exact Hn|].
  intros a b t Hin. simpl in Hin. apply in_app_or in Hin. destruct Hin as [Hin|[Heq|[]]].
  - exact (Hw a b t Hin).
  - inversion Heq; subst. simpl. auto.
Qed.

Ltac brk H := repeat match type of H with
  | (if ?x then _ else _) = _ => destruct x eqn:?
  | rbind ?x _ = _ => destruct x eqn:?; cbn [rbind] in H
  | match ?x with _ => _ end = _ => destruct x eqn:?
  | (let '(_, _) := ?x in _) = _ => destruct x eqn:?
  end; try discriminate.

Section R.
Variable elements : list (str * N).
Variable xlower : N -> bool.

Lemma read_atom_inv st t st' : read_atom elements xlower st t = ROk' st' -> WInv st -> WInv st'.
Proof.
  unfold read_atom. intros H I. brk H. inversion H; subst; clear H.
  match goal with E : add_atom ?s ?q ?c ?l = (?r, ?n) |- _ =>
    pose proof (add_atom_inv s q c l I) as (A & _ & _); rewrite E in A; simpl in A end.
  apply add_cons_inv. exact A.
Qed.

Lemma read_bonded_inv st t st' : read_bonded elements xlower st t = ROk' st' -> WInv st -> WInv st'.
Proof.
  unfold read_bonded. intros H I. brk H. inversion H; subst; clear H.
  match goal with E : add_atom ?s ?q ?c ?l = (?r, ?n) |- _ =>
    pose proof (add_atom_inv s q c l I) as (A & B & C); rewrite E in A, B, C; simpl in A, B, C end.
  match goal with E : add_bond _ _ _ _ = ROk' _ |- _ => apply add_bond_inv in E; auto end.
  - apply add_cons_inv. tauto.
  - lia.
  - match goal with E : index_of _ _ = Some _ |- _ => apply index_of_lt in E end.
    destruct A as [A _]. lia.
Qed.

Lemma read_ringbond_inv st t st' : read_ringbond st t = ROk' st' -> WInv st -> WInv st'.
Proof.
  unfold read_ringbond. intros H I. brk H.
  repeat match goal with E : index_of _ _ = Some _ |- _ => apply index_of_lt in E end.
  destruct I as [A W]. apply add_bond_inv in H; [tauto|split; auto|lia|lia].
Qed.

Lemma read_stereo_inv st t st' : read_stereo st t = ROk' st' -> WInv st -> WInv st'.
Proof.
  unfold read_stereo. intros H [A W]. brk H. all: inversion H; subst; clear H; split; simpl; auto.
Qed.

Lemma read_atomchain_inv fuel : forall st t st', read_atomchain elements xlower fuel st t = ROk' st' -> WInv st -> WInv st'.
Proof.
  induction fuel as [|f IH]; intros st t st' H I; simpl in H; [discriminate|].
  destruct (kids t) as [|x rest]; [discriminate|].
  match type of H with rbind ?r _ = _ => destruct r as [st1|] eqn:E; [|discriminate] end. cbn [rbind] in H.
  assert (I1 : WInv st1).
  { destruct (is_node "BondedAtom" x); [eapply read_bonded_inv; eauto|].
    destruct (is_node "RingBond" x); [eapply read_ringbond_inv; eauto|].
    destruct (is_node "StereoDoubleBond" x); [eapply read_stereo_inv; eauto|discriminate]. }
  destruct rest as [|nxt ?]; [inversion H; subst; exact I1|]. eapply IH; eauto.
Qed.

(* every fragment the reader accepts has well-formed bonds *)
Theorem read_fragment_wf t f : read_fragment elements xlower t = ROk' f -> wf_bonds f.
Proof.
  unfold read_fragment. intros H. brk H.
  inversion H; subst; clear H.
  match goal with E : read_atom _ _ ?s0 _ = ROk' ?s |- _ =>
    assert (I0 : WInv s) by (eapply read_atom_inv; [exact E|]; split; [reflexivity|intros ? ? ? []]) end.
  match goal with E : match ?l with [] => _ | _ => _ end = ROk' ?s |- _ =>
    assert (I1 : WInv s) by (destruct l; [inversion E; subst; exact I0|eapply read_atomchain_inv; eauto]) end.
  destruct I1 as [_ W]. exact W.
Qed.
End R.
