(* Well-formedness of what the RING reader produces (used by C08): every
   query bond of a fragment that reads joins two DIFFERENT declared atoms. *)
From Coq Require Import List NArith ZArith Arith Bool Lia String.
From PG Require Import Common.Strs Ring.Peg Ring.Reader Graph.Mol Graph.Match Graph.Match_proofs.
Import ListNotations.
Notation length := List.length.

Definition WInv (st : rst) : Prop :=
  length (names st) = length (f_atoms (frag st)) /\ wf_bonds (frag st).

Lemma index_of_lt s l i : index_of s l = Some i -> i < length l.
Proof.
  revert i; induction l as [|k l IH]; intros i H; simpl in H; [discriminate|].
  destruct (str_eqb k s).
  - inversion H; simpl; lia.
  - destruct (index_of s l) as [j|]; [|discriminate]. inversion H; subst. simpl. specialize (IH j eq_refl). lia.
Qed.

Lemma add_atom_inv st q cs l : WInv st ->
  WInv (fst (add_atom st q cs l)) /\ snd (add_atom st q cs l) = length (f_atoms (frag st))
  /\ length (f_atoms (frag (fst (add_atom st q cs l)))) = S (length (f_atoms (frag st))).
Proof.
  intros [Hn Hw]. unfold add_atom. simpl. split; [|split; [reflexivity|rewrite app_length; simpl; lia]].
  split; simpl.
  - rewrite !app_length. simpl. lia.
  - intros i j t Hin. simpl in Hin. destruct (Hw i j t Hin) as (A & B & C).
    simpl. rewrite app_length. simpl. repeat split; lia.
Qed.

Lemma add_cons_inv st idx cs : WInv st -> WInv (add_cons st idx cs).
Proof. intros [Hn Hw]. split; simpl; [exact Hn|exact Hw]. Qed.

Lemma add_cons_len st idx cs : length (f_atoms (frag (add_cons st idx cs))) = length (f_atoms (frag st)).
Proof. reflexivity. Qed.

Lemma add_bond_inv st i j bt st' : add_bond st i j bt = ROk' st' -> WInv st ->
  i < length (f_atoms (frag st)) -> j < length (f_atoms (frag st)) ->
  WInv st' /\ length (f_atoms (frag st')) = length (f_atoms (frag st)).
Proof.
  unfold add_bond. intros H [Hn Hw] Hi Hj.
  destruct (Nat.eqb i j || has_bond (frag st) i j) eqn:E; [discriminate|].
  apply orb_false_iff in E. destruct E as [E _]. apply Nat.eqb_neq in E.
  destruct (bkind_of bt) as [k|]; [|discriminate].
  destruct (match k with KSingle => _ | _ => _ end) as [qt bc]. inversion H; subst; clear H. simpl.
  split; [|reflexivity]. split; simpl; [exact Hn|].
  intros a b t Hin. simpl in Hin. apply in_app_or in Hin. destruct Hin as [Hin|[Heq|[]]].
  - exact (Hw a b t Hin).
  - inversion Heq; subst. simpl. auto.
Qed.

Ltac brk H := repeat match type of H with
  | (if ?x then _ else _) = _ => destruct x eqn:?
  | rbind ?x _ = _ => destruct x eqn:?; cbn [rbind] in H
  | match ?x with _ => _ end = _ => destruct x eqn:?
  | (let '(_, _) := ?x in _) = _ => destruct x eqn:?
  end; try discriminate.

Section R.
Variable elements : list (str * N).
Variable xlower : N -> bool.

Lemma read_atom_inv st t st' : read_atom elements xlower st t = ROk' st' -> WInv st -> WInv st'.
Proof.
  unfold read_atom. intros H I. brk H. inversion H; subst; clear H.
  match goal with E : add_atom ?s ?q ?c ?l = (?r, ?n) |- _ =>
    pose proof (add_atom_inv s q c l I) as (A & _ & _); rewrite E in A; simpl in A end.
  apply add_cons_inv. exact A.
Qed.

Lemma read_bonded_inv st t st' : read_bonded elements xlower st t = ROk' st' -> WInv st -> WInv st'.
Proof.
  unfold read_bonded. intros H I. brk H. inversion H; subst; clear H.
  match goal with E : add_atom ?s ?q ?c ?l = (?r, ?n) |- _ =>
    pose proof (add_atom_inv s q c l I) as (A & B & C); rewrite E in A, B, C; simpl in A, B, C end.
  match goal with E : add_bond _ _ _ _ = ROk' _ |- _ => apply add_bond_inv in E; auto end.
  - apply add_cons_inv. tauto.
  - lia.
  - match goal with E : index_of _ _ = Some _ |- _ => apply index_of_lt in E end.
    destruct A as [A _]. lia.
Qed.

Lemma read_ringbond_inv st t st' : read_ringbond st t = ROk' st' -> WInv st -> WInv st'.
Proof.
  unfold read_ringbond. intros H I. brk H.
  repeat match goal with E : index_of _ _ = Some _ |- _ => apply index_of_lt in E end.
  destruct I as [A W]. apply add_bond_inv in H; [tauto|split; auto|lia|lia].
Qed.

Lemma read_stereo_inv st t st' : read_stereo st t = ROk' st' -> WInv st -> WInv st'.
Proof.
  unfold read_stereo. intros H [A W]. brk H. all: inversion H; subst; clear H; split; simpl; auto.
Qed.

Lemma read_atomchain_inv fuel : forall st t st', read_atomchain elements xlower fuel st t = ROk' st' -> WInv st -> WInv st'.
Proof.
  induction fuel as [|f IH]; intros st t st' H I; simpl in H; [discriminate|].
  destruct (kids t) as [|x rest]; [discriminate|].
  match type of H with rbind ?r _ = _ => destruct r as [st1|] eqn:E; [|discriminate] end. cbn [rbind] in H.
  assert (I1 : WInv st1).
  { destruct (is_node "BondedAtom" x); [eapply read_bonded_inv; eauto|].
    destruct (is_node "RingBond" x); [eapply read_ringbond_inv; eauto|].
    destruct (is_node "StereoDoubleBond" x); [eapply read_stereo_inv; eauto|discriminate]. }
  destruct rest as [|nxt ?]; [inversion H; subst; exact I1|]. eapply IH; eauto.
Qed.

(* ---------- connectedness: every declared atom but the first is bonded to an earlier one ---------- *)
Lemma add_bond_shape st i j bt st' : add_bond st i j bt = ROk' st' ->
  i <> j /\ f_atoms (frag st') = f_atoms (frag st) /\ exists qt, f_bonds (frag st') = f_bonds (frag st) ++ [(i, j, qt)].
Proof.
  unfold add_bond. intros H.
  destruct (Nat.eqb i j || has_bond (frag st) i j) eqn:E; [discriminate|].
  apply orb_false_iff in E. destruct E as [E _]. apply Nat.eqb_neq in E.
  destruct (bkind_of bt) as [k|]; [|discriminate].
  destruct (match k with KSingle => _ | _ => _ end) as [qt bc]. inversion H; subst; clear H. simpl.
  split; [exact E|]. split; [reflexivity|]. exists qt. reflexivity.
Qed.

Lemma connected_more_bonds f g : f_atoms g = f_atoms f -> (forall x, In x (f_bonds f) -> In x (f_bonds g)) ->
  connected f -> connected g.
Proof.
  intros Ha Hb C k Hk. rewrite Ha in Hk. destruct (C k Hk) as (j & t & Hj & [H|H]); exists j, t; split; auto.
Qed.

Lemma read_bonded_conn st t st' : read_bonded elements xlower st t = ROk' st' -> WInv st ->
  connected (frag st) -> connected (frag st').
Proof.
  unfold read_bonded. intros H I C. brk H. inversion H; subst; clear H.
  match goal with E : add_atom ?s ?q ?c ?l = (?r, ?n) |- _ =>
    pose proof (add_atom_inv s q c l I) as (A & B & D); rewrite E in A, B, D; simpl in A, B, D;
    assert (Hb1 : f_bonds (frag r) = f_bonds (frag s)) by (unfold add_atom in E; inversion E; reflexivity);
    assert (Ha1 : f_atoms (frag r) = f_atoms (frag s) ++ [q]) by (unfold add_atom in E; inversion E; reflexivity) end.
  match goal with E : add_bond _ _ _ _ = ROk' _ |- _ => destruct (add_bond_shape _ _ _ _ _ E) as (Hne & Ha2 & qt & Hb2) end.
  match goal with E : index_of _ _ = Some _ |- _ => apply index_of_lt in E; rename E into Hj end.
  destruct A as [An _]. rewrite An, D in Hj.
  intros k Hk. simpl in Hk. rewrite Ha2, Ha1, app_length in Hk. simpl in Hk. simpl. rewrite Hb2, Hb1.
  destruct (Nat.eq_dec k (length (f_atoms (frag st)))) as [->|Hne'].
  - subst n. eexists. exists qt. split; [|left; apply in_or_app; right; left; reflexivity]. lia.
  - destruct (C k) as (j & t' & Hjk & [Hin|Hin]); [lia| |]; exists j, t'; (split; [exact Hjk|]);
      [left|right]; apply in_or_app; left; exact Hin.
Qed.

Lemma read_ringbond_conn st t st' : read_ringbond st t = ROk' st' -> connected (frag st) -> connected (frag st').
Proof.
  unfold read_ringbond. intros H C. brk H.
  destruct (add_bond_shape _ _ _ _ _ H) as (_ & Ha & qt & Hb).
  eapply connected_more_bonds; [exact Ha| |exact C]. intros x Hx. rewrite Hb. apply in_or_app. left. exact Hx.
Qed.

Lemma read_stereo_conn st t st' : read_stereo st t = ROk' st' -> connected (frag st) -> connected (frag st').
Proof.
  unfold read_stereo. intros H C. brk H. all: inversion H; subst; clear H; exact C.
Qed.

Lemma read_atomchain_conn fuel : forall st t st', read_atomchain elements xlower fuel st t = ROk' st' -> WInv st ->
  connected (frag st) -> connected (frag st').
Proof.
  induction fuel as [|f IH]; intros st t st' H I C; simpl in H; [discriminate|].
  destruct (kids t) as [|x rest]; [discriminate|].
  match type of H with rbind ?r _ = _ => destruct r as [st1|] eqn:E; [|discriminate] end. cbn [rbind] in H.
  assert (I1 : WInv st1 /\ connected (frag st1)).
  { destruct (is_node "BondedAtom" x); [split; [eapply read_bonded_inv|eapply read_bonded_conn]; eauto|].
    destruct (is_node "RingBond" x); [split; [eapply read_ringbond_inv|eapply read_ringbond_conn]; eauto|].
    destruct (is_node "StereoDoubleBond" x); [split; [eapply read_stereo_inv|eapply read_stereo_conn]; eauto|discriminate]. }
  destruct I1 as [I1 C1]. destruct rest as [|nxt ?]; [inversion H; subst; exact C1|]. eapply IH; eauto.
Qed.

Lemma read_atom_first t st' : read_atom elements xlower {| names := []; frag := empty_frag |} t = ROk' st' ->
  length (f_atoms (frag st')) = 1 /\ connected (frag st').
Proof.
  unfold read_atom. intros H. brk H. inversion H; subst; clear H.
  match goal with E : add_atom _ _ _ _ = _ |- _ => unfold add_atom in E; inversion E; subst; clear E end.
  simpl. split; [reflexivity|]. intros k Hk. simpl in Hk. lia.
Qed.

Lemma read_atomchain_len fuel : forall st t st', read_atomchain elements xlower fuel st t = ROk' st' ->
  length (f_atoms (frag st)) <= length (f_atoms (frag st')).
Proof.
  induction fuel as [|f IH]; intros st t st' H; simpl in H; [discriminate|].
  destruct (kids t) as [|x rest]; [discriminate|].
  match type of H with rbind ?r _ = _ => destruct r as [st1|] eqn:E; [|discriminate] end. cbn [rbind] in H.
  assert (L : length (f_atoms (frag st)) <= length (f_atoms (frag st1))).
  { destruct (is_node "BondedAtom" x).
    - unfold read_bonded in E. brk E. inversion E; subst; clear E.
      match goal with E1 : add_atom _ _ _ _ = _, E2 : add_bond _ _ _ _ = ROk' _ |- _ =>
        destruct (add_bond_shape _ _ _ _ _ E2) as (_ & Ha & _); unfold add_atom in E1; inversion E1; subst; clear E1 end.
      simpl. rewrite Ha. simpl. rewrite app_length. lia.
    - destruct (is_node "RingBond" x).
      + unfold read_ringbond in E. brk E. destruct (add_bond_shape _ _ _ _ _ E) as (_ & Ha & _). rewrite Ha. lia.
      + destruct (is_node "StereoDoubleBond" x); [|discriminate].
        unfold read_stereo in E. brk E. all: inversion E; subst; simpl; lia. }
  destruct rest as [|nxt ?]; [inversion H; subst; exact L|]. specialize (IH _ _ _ H). lia.
Qed.

(* every fragment the reader accepts is connected and has at least one atom *)
Theorem read_fragment_connected t f : read_fragment elements xlower t = ROk' f -> connected f /\ f_atoms f <> [].
Proof.
  unfold read_fragment. intros H. brk H. inversion H; subst; clear H.
  match goal with E : read_atom _ _ ?s0 _ = ROk' ?s |- _ =>
    destruct (read_atom_first _ _ E) as [L0 C0];
    assert (I0 : WInv s) by (eapply read_atom_inv; [exact E|]; split; [reflexivity|intros ? ? ? []]) end.
  match goal with E : match ?l with [] => _ | _ => _ end = ROk' ?s |- _ =>
    assert (G : connected (frag s) /\ 1 <= length (f_atoms (frag s)));
      [destruct l; [inversion E; subst; split; [exact C0|lia]
                   |split; [eapply read_atomchain_conn; eauto|apply read_atomchain_len in E; lia]]|] end.
  destruct G as [C L]. split.
  - intros k Hk. simpl in *. destruct (C k Hk) as (j & t' & Hj & Hin). exists j, t'. auto.
  - simpl. intros Hnil. rewrite Hnil in L. simpl in L. lia.
Qed.

(* every fragment the reader accepts has well-formed bonds *)
Theorem read_fragment_wf t f : read_fragment elements xlower t = ROk' f -> wf_bonds f.
Proof.
  unfold read_fragment. intros H. brk H.
  inversion H; subst; clear H.
  match goal with E : read_atom _ _ ?s0 _ = ROk' ?s |- _ =>
    assert (I0 : WInv s) by (eapply read_atom_inv; [exact E|]; split; [reflexivity|intros ? ? ? []]) end.
  match goal with E : match ?l with [] => _ | _ => _ end = ROk' ?s |- _ =>
    assert (I1 : WInv s) by (destruct l; [inversion E; subst; exact I0|eapply read_atomchain_inv; eauto]) end.
  destruct I1 as [_ W]. exact W.
Qed.
End R.
