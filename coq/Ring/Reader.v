(* Executable model of pgradd/RINGParser/Reader.py + MolQueryRead.py: parse
   tree -> fragment (Graph/Mol.v), with the library's error classes.  The
   model follows the code after the fixes recorded in known_findings.json
   (lowercase symbols are aromatic query atoms; self-bonds, duplicate bonds
   and unknown groups are reader errors).  No proofs here. *)
From Coq Require Import List NArith ZArith Arith Bool String Ascii.
From PG Require Import Common.Strs Ring.Peg Graph.Mol.
Import ListNotations.

Definition lit (s : string) : str := List.map N_of_ascii (list_ascii_of_string s).

Inductive rerr := EReader | ENotImpl | EInternal.
Inductive rres (A : Type) := ROk' (a : A) | RErr' (e : rerr).
Arguments ROk' {A} a.
Arguments RErr' {A} e.
Definition rbind {A B} (x : rres A) (f : A -> rres B) : rres B :=
  match x with ROk' a => f a | RErr' e => RErr' e end.

Definition is_node (nm : string) (t : ptree) : bool :=
  match t with TNode n _ => str_eqb n (lit nm) | _ => false end.
Definition kids (t : ptree) : list ptree := match t with TNode _ k => k | _ => [] end.
Definition str_of (t : ptree) : option str := match t with TStr s => Some s | _ => None end.
Definition is (s : str) (x : string) : bool := str_eqb s (lit x).

Section Read.
Variable elements : list (str * N).
Variable xlower : N -> bool.      (* non-ASCII c with c.islower() *)

Fixpoint elem_get (l : list (str * N)) (s : str) : option N :=
  match l with [] => None | (k, v) :: r => if str_eqb k s then Some v else elem_get r s end.

Definition read_cnum (t : ptree) : rres cnum :=
  match kids t with
  | [TStr op; TInt n] =>
      let o := if is op ">" then Some CGt else if is op "<" then Some CLt
               else if is op ">=" then Some CGe else if is op "<=" then Some CLe
               else if is op "=" then Some CEq else None in
      match o with Some o' => ROk' {| cn_op := o'; cn_n := Z.of_N n |} | None => RErr' EInternal end
  | [TInt n] => ROk' {| cn_op := CEq; cn_n := Z.of_N n |}
  | _ => RErr' EInternal
  end.

(* optional leading Boolean node: only '!' is supported *)
Definition read_neg (l : list ptree) : rres (bool * list ptree) :=
  match l with
  | t :: r => if is_node "Boolean" t then
                match kids t with
                | [TStr s] => if is s "!" then ROk' (true, r) else RErr' ENotImpl
                | _ => RErr' EInternal
                end
              else ROk' (false, l)
  | [] => ROk' (false, l)
  end.

Definition bkind_of (s : str) : option bkind :=
  if is s "single" then Some KSingle else if is s "double" then Some KDouble
  else if is s "triple" then Some KTriple else if is s "quadruple" then Some KQuad
  else if is s "ring" then Some KRing else if is s "nonring" then Some KNonRing
  else if is s "aromatic" then Some KArom else if is s "any" then Some KAny
  else if is s "strong" then Some KStrong else if is s "partial" then Some KPartial
  else None.

Definition upper (c : N) : N := if N.leb 97 c && N.leb c 122 then (c - 32)%N else c.
Definition ascii_lower (c : N) : bool := N.leb 97 c && N.leb c 122.

Definition read_symbols (t : ptree) : rres symcls :=
  match kids t with
  | [TStr s] =>
      if is s "any atom" || is s "$" then ROk' SAny
      else if is s "heteroatom" || is s "&" then ROk' SHetero
      else if is s "heavy atom" || is s "X" then ROk' SHeavy
      else match s with
           | c :: r =>
               if ascii_lower c then
                 match elem_get elements (upper c :: r) with
                 | Some z => ROk' (SLower z) | None => RErr' EReader end
               else if xlower c then RErr' EReader
               else if is s "M" then ROk' SMetal
               else match elem_get elements s with
                    | Some z => ROk' (SElem z) | None => RErr' EReader end
           | [] => RErr' EInternal
           end
  | _ => RErr' EInternal
  end.

Definition cn_eq (n : Z) : cnum := {| cn_op := CEq; cn_n := n |}.

(* AtomType children -> (query atom, its constraints) *)
Definition read_atomtype (t : ptree) : rres (qatom * list aconstr) :=
  let ks := kids t in
  let '(pre, ks1) :=
    match ks with
    | p :: r => if is_node "AtomPrefix" p then (Some p, r) else (None, ks)
    | [] => (None, ks)
    end in
  let prefix_c : rres (list aconstr) :=
    match pre with
    | None => ROk' []
    | Some p => match kids p with
                | [TStr s] =>
                    if is s "aromatic" then ROk' [AAromatic false]
                    else if is s "nonaromatic" then ROk' [AAromatic true]
                    else if is s "ringatom" then ROk' [AInRing false]
                    else if is s "nonringatom" then ROk' [AInRing true]
                    else if is s "allylic" then ROk' [AAllylic false]
                    else RErr' EInternal
                | _ => RErr' EInternal
                end
    end in
  rbind prefix_c (fun pc =>
  match ks1 with
  | sy :: rest =>
      if negb (is_node "Symbols" sy) then RErr' EInternal else
      rbind (read_symbols sy) (fun sc =>
        match rest with
        | [] => ROk' ({| qa_sym := sc; qa_chg := Some 0%Z |}, pc ++ [ARadical false (cn_eq 0)])
        | su :: _ =>
            match kids su with
            | [TStr x] =>
                let mk c rc := ROk' ({| qa_sym := sc; qa_chg := c |},
                                     pc ++ match rc with Some n => [ARadical false (cn_eq n)] | None => [] end) in
                if is x "+." then mk (Some 1%Z) (Some 1%Z)
                else if is x "-." then mk (Some (-1)%Z) (Some 1%Z)
                else if is x "+" then mk (Some 1%Z) None
                else if is x "-" then mk (Some (-1)%Z) None
                else if is x "." then mk None (Some 1%Z)
                else if is x ":" then mk None (Some 2%Z)
                else if is x ":." then mk None (Some 3%Z)
                else if is x "*" then mk None None
                else if is x "?" then mk None None
                else RErr' ENotImpl
            | _ => RErr' EInternal
            end
        end)
  | [] => RErr' EInternal
  end).

(* one AtomConstraints node *)
Definition read_constraint (t : ptree) : rres aconstr :=
  match kids t with
  | [c] =>
      let body := kids c in
      if is_node "AtomConstraintConnectivity" c then
        rbind (read_neg body) (fun nb =>
          let '(neg, l1) := nb in
          let cnr : rres (cnum * list ptree) :=
            match l1 with
            | x :: r => if is_node "ConstraintNumber" x
                        then rbind (read_cnum x) (fun cn => ROk' (cn, r))
                        else ROk' ({| cn_op := CGe; cn_n := 1 |}, l1)
            | [] => RErr' EInternal
            end in
          rbind cnr (fun cl =>
            let '(cn, l2) := cl in
            match l2 with
            | x :: r =>
                if is_node "AtomType" x then
                  rbind (read_atomtype x) (fun qa =>
                    let bk : rres bkind :=
                      match r with
                      | [] => ROk' KSingle
                      | [b] => match kids b with
                               | [TStr s] => match bkind_of s with Some k => ROk' k | None => RErr' ENotImpl end
                               | _ => RErr' EInternal
                               end
                      | _ => ROk' KSingle
                      end in
                    rbind bk (fun k => ROk' (AConn neg cn (fst qa) (snd qa) k)))
                else if is_node "GroupName" x then RErr' EReader     (* no group table *)
                else RErr' EInternal
            | [] => RErr' EInternal
            end))
      else
        rbind (read_neg body) (fun nb =>
          let '(neg, l1) := nb in
          match l1 with
          | x :: _ =>
              if is_node "ConstraintNumber" x then
                rbind (read_cnum x) (fun cn =>
                  if is_node "AtomConstraintRing" c then ROk' (ARingSize neg cn)
                  else if is_node "AtomConstraintRadical" c then ROk' (ARadical neg cn)
                  else if is_node "AtomConstraintNRing" c then ROk' (ANRing neg cn)
                  else RErr' EInternal)
              else RErr' EInternal
          | [] => RErr' EInternal
          end)
  | _ => RErr' EInternal
  end.

(* AtomConstraintChain: AtomConstraints [AtomConstraintChain] ; fuel = depth *)
Fixpoint read_chain (fuel : nat) (t : ptree) : rres (list aconstr) :=
  match fuel with
  | O => RErr' EInternal
  | S f =>
      match kids t with
      | c :: rest =>
          rbind (read_constraint c) (fun a =>
            match rest with
            | [] => ROk' [a]
            | nxt :: _ => rbind (read_chain f nxt) (fun l => ROk' (a :: l))
            end)
      | [] => RErr' EInternal
      end
  end.

(* reader state *)
Record rst := { names : list str; frag : fragment }.
Definition empty_frag : fragment :=
  {| f_atoms := []; f_bonds := []; f_bcons := []; f_acons := []; f_stereo := []; f_mol := [] |}.

Fixpoint index_of (s : str) (l : list str) : option nat :=
  match l with
  | [] => None
  | k :: r => if str_eqb k s then Some 0
              else match index_of s r with Some i => Some (S i) | None => None end
  end.

Definition add_atom (st : rst) (q : qatom) (cs : list aconstr) (label : str) : rst * nat :=
  let f := frag st in
  let idx := List.length (f_atoms f) in
  ({| names := names st ++ [label];
      frag := {| f_atoms := f_atoms f ++ [q]; f_bonds := f_bonds f; f_bcons := f_bcons f;
                 f_acons := f_acons f ++ List.map (fun c => (idx, c)) cs;
                 f_stereo := f_stereo f; f_mol := f_mol f |} |}, idx).

Definition add_cons (st : rst) (idx : nat) (cs : list aconstr) : rst :=
  let f := frag st in
  {| names := names st;
     frag := {| f_atoms := f_atoms f; f_bonds := f_bonds f; f_bcons := f_bcons f;
                f_acons := f_acons f ++ List.map (fun c => (idx, c)) cs;
                f_stereo := f_stereo f; f_mol := f_mol f |} |}.

Definition has_bond (f : fragment) (i j : nat) : bool :=
  existsb (fun b => let '(x, y, _) := b in
                    (Nat.eqb x i && Nat.eqb y j) || (Nat.eqb x j && Nat.eqb y i)) (f_bonds f).

(* ReadBondTypeBondedAtom *)
Definition add_bond (st : rst) (i j : nat) (bt : str) : rres rst :=
  let f := frag st in
  if Nat.eqb i j || has_bond f i j then RErr' EReader else
  match bkind_of bt with
  | None => RErr' ENotImpl
  | Some k =>
      let '(qt, bc) :=
        match k with
        | KSingle => (BtSingle, []) | KDouble => (BtDouble, []) | KTriple => (BtTriple, [])
        | KQuad => (BtQuad, []) | KArom => (BtArom, []) | KAny => (BtUnspec, [])
        | KRing | KNonRing | KStrong | KPartial => (BtUnspec, [(i, j, k)])
        end in
      ROk' {| names := names st;
              frag := {| f_atoms := f_atoms f; f_bonds := f_bonds f ++ [(i, j, qt)];
                         f_bcons := f_bcons f ++ bc; f_acons := f_acons f;
                         f_stereo := f_stereo f; f_mol := f_mol f |} |}
  end.

Definition label_of (t : ptree) : rres str :=
  match kids t with [TStr s] => ROk' s | _ => RErr' EInternal end.

Definition opt_chain (l : list ptree) : rres (list aconstr) :=
  match l with
  | [] => ROk' []
  | c :: _ => read_chain 200 c
  end.

(* Atom: AtomType AtomLabel [AtomConstraintChain] *)
Definition read_atom (st : rst) (t : ptree) : rres rst :=
  match kids t with
  | at_ :: lb :: rest =>
      rbind (read_atomtype at_) (fun qa =>
      rbind (label_of lb) (fun l =>
      rbind (opt_chain rest) (fun cs =>
        let '(st1, idx) := add_atom st (fst qa) (snd qa) l in
        ROk' (add_cons st1 idx cs))))
  | _ => RErr' EInternal
  end.

(* BondedAtom: AtomType AtomLabel BondType AtomLabel [AtomConstraintChain] *)
Definition read_bonded (st : rst) (t : ptree) : rres rst :=
  match kids t with
  | at_ :: lb :: bt :: tgt :: rest =>
      rbind (read_atomtype at_) (fun qa =>
      rbind (label_of lb) (fun l =>
        (* the duplicate-label check of the code compares the token name
           'AtomLabel' with the declared labels: duplicates are accepted
           (shipped schemes rely on that), and a label literally named
           AtomLabel makes the check fire and fail with TypeError while
           building its message (known finding) *)
        match (if existsb (fun n => is n "AtomLabel") (names st) then Some tt else None) with
        | Some _ => RErr' EInternal
        | None =>
            let '(st1, idx) := add_atom st (fst qa) (snd qa) l in
            rbind (label_of bt) (fun b =>
            rbind (label_of tgt) (fun tl =>
              match index_of tl (names st1) with
              | None => RErr' EReader
              | Some j =>
                  rbind (add_bond st1 idx j b) (fun st2 =>
                  rbind (opt_chain rest) (fun cs => ROk' (add_cons st2 idx cs)))
              end))
        end))
  | _ => RErr' EInternal
  end.

Definition read_ringbond (st : rst) (t : ptree) : rres rst :=
  match kids t with
  | [l1; bt; l2] =>
      rbind (label_of l1) (fun a =>
        match index_of a (names st) with
        | None => RErr' EReader
        | Some i =>
            rbind (label_of bt) (fun b =>
            rbind (label_of l2) (fun c =>
              match index_of c (names st) with
              | None => RErr' EReader
              | Some j => add_bond st i j b
              end))
        end)
  | _ => RErr' EInternal
  end.

Definition qbond_type (f : fragment) (i j : nat) : option btype :=
  match find (fun b => let '(x, y, _) := b in
                       (Nat.eqb x i && Nat.eqb y j) || (Nat.eqb x j && Nat.eqb y i)) (f_bonds f) with
  | Some (_, _, t) => Some t
  | None => None
  end.

(* StereoDoubleBond: AtomLabel [Boolean] DoubleBondStereoType AtomLabel AtomLabel AtomLabel *)
Definition read_stereo (st : rst) (t : ptree) : rres rst :=
  match kids t with
  | l1 :: rest =>
      rbind (label_of l1) (fun a =>
      match index_of a (names st) with
      | None => RErr' EReader
      | Some i1 =>
          rbind (read_neg rest) (fun nb =>
            let '(neg, r1) := nb in
            match r1 with
            | [ty; l2; l3; l4] =>
                rbind (label_of ty) (fun k =>
                  let kind := if is k "cis" then Some StZ else if is k "trans" then Some StE
                              else if is k "notspecified" then Some StNone else None in
                  match kind with
                  | None => RErr' ENotImpl
                  | Some sk =>
                      rbind (label_of l2) (fun b => match index_of b (names st) with None => RErr' EReader | Some i2 =>
                      rbind (label_of l3) (fun c => match index_of c (names st) with None => RErr' EReader | Some i3 =>
                      rbind (label_of l4) (fun d => match index_of d (names st) with None => RErr' EReader | Some i4 =>
                        let f := frag st in
                        match qbond_type f i3 i4 with
                        | None => RErr' EReader
                        | Some bt =>
                            if negb (btype_eqb bt BtDouble) then RErr' EReader else
                            let b13 := has_bond f i1 i3 in let b14 := has_bond f i1 i4 in
                            let b23 := has_bond f i2 i3 in let b24 := has_bond f i2 i4 in
                            if (b13 && b23) || (b14 && b24) then RErr' EReader
                            else if negb b13 && negb b14 then RErr' EReader
                            else if negb b23 && negb b24 then RErr' EReader
                            else ROk' {| names := names st;
                                         frag := {| f_atoms := f_atoms f; f_bonds := f_bonds f; f_bcons := f_bcons f;
                                                    f_acons := f_acons f;
                                                    f_stereo := f_stereo f ++ [{| s1 := i1; s2 := i2; s3 := i3; s4 := i4;
                                                                                 s_neg := neg; s_kind := sk |}];
                                                    f_mol := f_mol f |} |}
                        end end) end) end)
                  end)
            | _ => RErr' EInternal
            end)
      end)
  | [] => RErr' EInternal
  end.

(* AtomChain: (BondedAtom | RingBond | StereoDoubleBond) [AtomChain] *)
Fixpoint read_atomchain (fuel : nat) (st : rst) (t : ptree) : rres rst :=
  match fuel with
  | O => RErr' EInternal
  | S f =>
      match kids t with
      | x :: rest =>
          let r := if is_node "BondedAtom" x then read_bonded st x
                   else if is_node "RingBond" x then read_ringbond st x
                   else if is_node "StereoDoubleBond" x then read_stereo st x
                   else RErr' EInternal in
          rbind r (fun st' => match rest with
                              | [] => ROk' st'
                              | nxt :: _ => read_atomchain f st' nxt
                              end)
      | [] => RErr' EInternal
      end
  end.

(* Prefix node -> molecule constraints *)
Definition read_molprefix (t : ptree) : rres (list mconstr) :=
  let ss := List.map str_of (kids t) in
  let one (o : option str) : list mconstr :=
    match o with
    | Some s =>
        if is s "positive" then [MCharge (cn_eq 1)] else if is s "negative" then [MCharge (cn_eq (-1))]
        else if is s "neutral" then [MCharge (cn_eq 0)]
        else if is s "aromatic" then [MAromatic] else if is s "olefinic" then [MOlefinic]
        else if is s "paraffinic" then [MParaffinic]
        else if is s "cyclic" then [MCyclic] else if is s "linear" then [MLinear] else []
    | None => []
    end in
  ROk' (flat_map one ss).

(* Fragment children: Prefix FragmentName MolQuery *)
Definition read_fragment (t : ptree) : rres fragment :=
  match kids t with
  | [pre; _; mq] =>
      rbind (read_molprefix pre) (fun mc =>
        match kids mq with
        | a :: rest =>
            rbind (read_atom {| names := []; frag := empty_frag |} a) (fun st =>
            rbind (match rest with
                   | [] => ROk' st
                   | ch :: _ => read_atomchain 2000 st ch
                   end) (fun st' =>
              let f := frag st' in
              ROk' {| f_atoms := f_atoms f; f_bonds := f_bonds f; f_bcons := f_bcons f;
                      f_acons := f_acons f; f_stereo := f_stereo f; f_mol := mc |}))
        | [] => RErr' EInternal
        end)
  | _ => RErr' EInternal
  end.

End Read.
