(* C03 - descriptors do not depend on how the molecule is written.
   Statements only (lemmas in Graph/Embed.v, Graph/Embed_inst.v,
   Ring/Reader_proofs.v, Graph/Scheme_proofs.v).  The matcher-level core is
   proved for every fragment the reader accepts that carries no molecule
   prefix and every well-formed molecule graph: renumbering the atoms of the
   molecule (any permutation phi with inverse psi) renumbers the matches and
   nothing else - Permutation (matches f (rename m)) (map (map phi) (matches f m)).
   The step that consumes an ORDERED ring list (Benson aromatisation) is
   spelling-free for a single ring and order dependent for fused rings
   (refutation = known finding).  The centre assignment is numbering
   independent too (C03_centres_renumbering).  PARTIAL: the last step to the
   descriptor dictionary (group naming is local, counts are sums over atoms)
   and RDKit producing isomorphic prepared graphs for equivalent
   spellings are decided on the implementation by the spelling oracle. *)
From Coq Require Import List NArith ZArith Arith Bool.
From Coq Require Import Permutation.
From PG Require Import Common.Strs Ring.Peg Ring.Reader Ring.Reader_proofs Graph.Mol Graph.Match Graph.Match_proofs Graph.Embed Graph.Embed_inst Graph.Scheme Graph.Scheme_proofs Graph.Centres_proofs Graph.Centres_equiv Graph.Remap_proofs Graph.Descr_equiv Graph.Arom_equiv.
From Coq Require QArith.
Import ListNotations.

(* ---------- matching commutes with renumbering ---------- *)
Theorem C03_renumbered_molecule_embeds : forall m phi psi, wf_mol m -> wf_rings m ->
  (forall i, i < natom m -> phi i < natom m /\ psi (phi i) = i) ->
  (forall k, k < natom m -> psi k < natom m /\ phi (psi k) = k) ->
  embeds phi m (rename_mol phi psi m).
Proof. intros m phi psi W R P1 _. apply embeds_rename; assumption. Qed.
Print Assumptions C03_renumbered_molecule_embeds.

Theorem C03_matches_renumbering : forall elements xlower t f m phi psi,
  read_fragment elements xlower t = ROk' f -> f_mol f = [] ->
  wf_mol m -> wf_rings m ->
  (forall i, i < natom m -> phi i < natom m /\ psi (phi i) = i) ->
  (forall k, k < natom m -> psi k < natom m /\ phi (psi k) = k) ->
  Permutation (matches f (rename_mol phi psi m)) (map (map phi) (matches f m)).
Proof.
  intros elements xlower t f m phi psi H Hm W R P1 P2.
  destruct (read_fragment_connected elements xlower t f H) as [C N].
  apply matches_rename; auto. eapply read_fragment_wf; eauto.
Qed.
Print Assumptions C03_matches_renumbering.

(* one level up: WHICH centre pattern classifies an atom is numbering independent.  For a scheme whose pattern
   fragments are what the reader produces (good_frag: C03_reader_gives_good_frag) the renumbered molecule is
   decomposable iff the molecule is, and atom phi a carries the centre / peripheral names atom a carried. *)
Theorem C03_reader_gives_good_frag : forall elements xlower t f,
  read_fragment elements xlower t = ROk' f -> f_mol f = [] -> good_frag f.
Proof.
  intros elements xlower t f H Hm. destruct (read_fragment_connected elements xlower t f H) as [C N].
  split; [eapply read_fragment_wf; eauto|]. split; [exact Hm|]. split; [exact C|exact N].
Qed.

Theorem C03_centres_renumbering : forall m phi psi sch, wf_mol m -> wf_rings m ->
  (forall i, i < natom m -> phi i < natom m /\ psi (phi i) = i) ->
  (forall k, k < natom m -> psi k < natom m /\ phi (psi k) = k) ->
  (forall p, In p (s_patterns sch) -> good_frag (p_frag p)) ->
  ((exists nm, assign_centres sch m = SOk nm) <-> (exists NM, assign_centres sch (rename_mol phi psi m) = SOk NM))
  /\ (forall nm NM, assign_centres sch m = SOk nm -> assign_centres sch (rename_mol phi psi m) = SOk NM ->
        forall a, a < natom m -> nth_error NM (phi a) = nth_error nm a).
Proof. intros m phi psi sch W R P1 P2. exact (assign_centres_rename m phi psi W R P1 P2 sch). Qed.
Print Assumptions C03_centres_renumbering.

(* the general form: any component embedding (renumbering, or a molecule inside a larger graph) *)
Theorem C03_matches_under_embedding : forall phi m M, embeds phi m M -> forall f img, wf_bonds f -> f_mol f = [] ->
  In img (matches f m) -> In (map phi img) (matches f M).
Proof. exact matches_fwd. Qed.

(* non-vacuity: ethanol skeleton C-C-O renumbered by the rotation 0->1->2->0 *)
Example C03_rename_example :
  let c := {| a_z := 6; a_chg := 0; a_rad := 0; a_arom := false |} in
  let o := {| a_z := 8; a_chg := 0; a_rad := 0; a_arom := false |} in
  let m := {| atoms := [c; c; o]; bonds := [{| b_u := 0; b_v := 1; b_t := BtSingle; b_st := StNone; b_sa := [] |};
                                             {| b_u := 1; b_v := 2; b_t := BtSingle; b_st := StNone; b_sa := [] |}]; rings := [] |} in
  let phi := fun i => match i with 0 => 1 | 1 => 2 | _ => 0 end in
  let psi := fun i => match i with 1 => 0 | 2 => 1 | _ => 2 end in
  let f := {| f_atoms := [{| qa_sym := SElem 8; qa_chg := None |}; {| qa_sym := SElem 6; qa_chg := None |}];
              f_bonds := [(1, 0, BtSingle)]; f_bcons := []; f_acons := []; f_stereo := []; f_mol := [] |} in
  matches f m = [[2; 1]] /\ matches f (rename_mol phi psi m) = [[0; 2]] /\ map (map phi) (matches f m) = [[0; 2]].
Proof. vm_compute. repeat split; reflexivity. Qed.

(* the Benson aromatisation depends on the order of fused alternating rings:
   formal statement of the known finding (naphthalene skeleton) *)
Theorem C03_aromatize_order_refuted :
  exists m o1 o2, (forall r, In r o1 <-> In r o2) /\
    map b_t (bonds (aromatize o1 m)) <> map b_t (bonds (aromatize o2 m)).
Proof. exact aromatize_order_refuted. Qed.
Print Assumptions C03_aromatize_order_refuted.

(* a single alternating ring is aromatised from every start atom and in both
   directions (finite: six spellings of the ring) *)
Example C03_benzene_any_ring_spelling :
  forallb (fun r => forallb (fun b => btype_eqb (b_t b) BtArom) (bonds (aromatize [r] benz)))
          [[0;1;2;3;4;5]; [1;2;3;4;5;0]; [2;3;4;5;0;1]; [5;4;3;2;1;0]; [3;2;1;0;5;4]; [0;5;4;3;2;1]] = true.
Proof. exact benzene_any_ring_spelling. Qed.

(* correction descriptors are counted per SET of atoms: permuting a match
   tuple does not create a new count *)
Theorem C03_same_set_perm : forall a b, same_set a b = true -> same_set b a = true.
Proof. intros a b H. unfold same_set in *. apply andb_true_iff in H. destruct H as [H1 H2]. rewrite H1, H2. reflexivity. Qed.

(* ---------- the whole descriptor dictionary is numbering independent ---------- *)
(* what GetDescriptors returns is descriptors_of on the prepared (aromatised) graph *)
Theorem C03_descriptors_is : forall sch sssr m0 nm, assign_centres sch (aromatize sssr m0) = SOk nm ->
  get_descriptors sch sssr m0 = SOk (descriptors_of sch (aromatize sssr m0) nm).
Proof. intros sch sssr m0 nm H. unfold get_descriptors. rewrite H. reflexivity. Qed.

(* for every scheme whose patterns and descriptors are reader-produced fragments without molecule prefix and whose remap
   table is chain free (the finite theorem C02_all_schemes_ok for the shipped ones), every well-formed prepared graph m
   and every renumbering phi (inverse psi): the descriptor dictionary of the renumbered graph is the same map.  Groups,
   correction descriptors, remaps and the final groups.update(descriptors) are all covered. *)
Theorem C03_descriptors_renumbering : forall m phi psi sch, wf_mol m -> wf_rings m ->
  (forall i, i < natom m -> phi i < natom m /\ psi (phi i) = i) ->
  (forall k, k < natom m -> psi k < natom m /\ phi (psi k) = k) ->
  (forall p, In p (s_patterns sch) -> good_frag (p_frag p)) ->
  (forall ds, In ds (s_descr sch) -> good_frag (d_frag ds)) ->
  chain_free (s_remaps sch) ->
  forall nm NM, assign_centres sch m = SOk nm -> assign_centres sch (rename_mol phi psi m) = SOk NM ->
  forall k, QArith_base.Qeq (dict_get (descriptors_of sch (rename_mol phi psi m) NM) k) (dict_get (descriptors_of sch m nm) k).
Proof. intros m phi psi sch W R P1 P2. exact (descriptors_rename m phi psi W R P1 P2 sch). Qed.
Print Assumptions C03_descriptors_renumbering.

(* ---------- at the level of GetDescriptors: the only spelling dependence is the ORDER of the ring list ---------- *)
(* the Benson aromatisation commutes with the renumbering when the ring list is carried along in the same order *)
Theorem C03_aromatize_renumbering : forall phi psi m0, wf_mol m0 -> wf_rings m0 ->
  (forall i, i < natom m0 -> phi i < natom m0 /\ psi (phi i) = i) ->
  (forall k, k < natom m0 -> psi k < natom m0 /\ phi (psi k) = k) ->
  forall sssr, (forall r x, In r sssr -> In x r -> x < natom m0) ->
  aromatize (map (map phi) sssr) (rename_mol phi psi m0) = rename_mol phi psi (aromatize sssr m0).
Proof. exact aromatize_rename. Qed.

(* GetDescriptors (model) on the renumbered input graph with the renumbered ring list: fails exactly when the original call fails,
   and otherwise returns the same map - for every scheme with reader-produced prefix-free patterns and a chain-free remap table.
   (C03_aromatize_order_refuted shows that a different ORDER of the rings can change the result: the known finding.) *)
Theorem C03_get_descriptors_renumbering : forall phi psi m0, wf_mol m0 -> wf_rings m0 ->
  (forall i, i < natom m0 -> phi i < natom m0 /\ psi (phi i) = i) ->
  (forall k, k < natom m0 -> psi k < natom m0 /\ phi (psi k) = k) ->
  forall sch, (forall p, In p (s_patterns sch) -> good_frag (p_frag p)) -> (forall ds, In ds (s_descr sch) -> good_frag (d_frag ds)) ->
  chain_free (s_remaps sch) ->
  forall sssr, (forall r x, In r sssr -> In x r -> x < natom m0) ->
  ((exists e, get_descriptors sch sssr m0 = SRaise e) <-> (exists e, get_descriptors sch (map (map phi) sssr) (rename_mol phi psi m0) = SRaise e))
  /\ (forall d D, get_descriptors sch sssr m0 = SOk d -> get_descriptors sch (map (map phi) sssr) (rename_mol phi psi m0) = SOk D ->
        forall k, QArith_base.Qeq (dict_get D k) (dict_get d k)).
Proof. exact get_descriptors_rename. Qed.
Print Assumptions C03_get_descriptors_renumbering.
