(* C03 - descriptors do not depend on how the molecule is written.
   Statements only.  PARTIAL: the invariance over spellings is decided on the
   implementation by the spelling oracle of this check; the theorems here
   concern the one step that consumes an ORDERED ring list. *)
From Coq Require Import List NArith ZArith Arith Bool.
From PG Require Import Common.Strs Graph.Mol Graph.Match Graph.Scheme Graph.Scheme_proofs.
Import ListNotations.

(* the Benson aromatisation depends on the order of fused alternating rings:
   formal statement of the known finding (naphthalene skeleton) *)
Theorem C03_aromatize_order_refuted :
  exists m o1 o2, (forall r, In r o1 <-> In r o2) /\
    map b_t (bonds (aromatize o1 m)) <> map b_t (bonds (aromatize o2 m)).
Proof. exact aromatize_order_refuted. Qed.
Print Assumptions C03_aromatize_order_refuted.

(* a single alternating ring is aromatised from every start atom and in both
   directions (finite: six spellings of the ring) *)
Example C03_benzene_any_ring_spelling :
  forallb (fun r => forallb (fun b => btype_eqb (b_t b) BtArom) (bonds (aromatize [r] benz)))
          [[0;1;2;3;4;5]; [1;2;3;4;5;0]; [2;3;4;5;0;1]; [5;4;3;2;1;0]; [3;2;1;0;5;4]; [0;5;4;3;2;1]] = true.
Proof. exact benzene_any_ring_spelling. Qed.

(* correction descriptors are counted per SET of atoms: permuting a match
   tuple does not create a new count *)
Theorem C03_same_set_perm : forall a b, same_set a b = true -> same_set b a = true.
Proof. intros a b H. unfold same_set in *. apply andb_true_iff in H. destruct H as [H1 H2]. rewrite H1, H2. reflexivity. Qed.
