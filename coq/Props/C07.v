(* C07 - dimensional results are the non-dimensional ones times R (and T).
   Statements only (lemmas in Thermo/Dimensional_proofs.v).  R(u) is pmutt's
   gas-constant table: an external, entering as an arbitrary real Ru. *)
From Coq Require Import List NArith Bool Reals Lra Permutation.
From PG Require Import Thermo.Num Thermo.Estimate Thermo.Estimate_proofs Thermo.Dimensional_proofs.
Import ListNotations.
Local Open Scope R_scope.

Theorem C07_H_dim : forall h T Ru, dim_H (K:=Rops) h T Ru = h * T * Ru.
Proof. reflexivity. Qed.
Theorem C07_S_dim : forall s Ru, dim_S (K:=Rops) s Ru = s * Ru.
Proof. reflexivity. Qed.
Theorem C07_Cp_dim : forall cp Ru, dim_Cp (K:=Rops) cp Ru = cp * Ru.
Proof. reflexivity. Qed.

Theorem C07_G_is_H_minus_TS : forall h s T Ru,
  dim_G (K:=Rops) h s T Ru = dim_H (K:=Rops) h T Ru - T * dim_S (K:=Rops) s Ru.
Proof. exact G_is_H_minus_TS. Qed.
Print Assumptions C07_G_is_H_minus_TS.

Theorem C07_unit_ratio_H : forall h T R1 R2,
  dim_H (K:=Rops) h T R1 * R2 = dim_H (K:=Rops) h T R2 * R1.
Proof. exact unit_ratio_H. Qed.
Theorem C07_unit_ratio_S : forall s R1 R2,
  dim_S (K:=Rops) s R1 * R2 = dim_S (K:=Rops) s R2 * R1.
Proof. exact unit_ratio_S. Qed.
Theorem C07_unit_ratio_G : forall h s T R1 R2,
  dim_G (K:=Rops) h s T R1 * R2 = dim_G (K:=Rops) h s T R2 * R1.
Proof. exact unit_ratio_G. Qed.
Theorem C07_unit_conversion_H : forall h T R1 R2, R2 <> 0 ->
  dim_H (K:=Rops) h T R1 = dim_H (K:=Rops) h T R2 * (R1 / R2).
Proof. exact unit_conversion_H. Qed.
Print Assumptions C07_unit_conversion_H.

(* elemental reference *)
Theorem C07_s_elements_is_sum : forall tbl atoms a,
  sum_tbl tbl atoms = Some a -> s_elements (K:=Rops) tbl atoms 0 = Ok a.
Proof. exact s_elements_is_sum. Qed.
Theorem C07_s_elements_atom_order : forall tbl a1 a2,
  Permutation a1 a2 ->
  s_elements (K:=Rops) tbl a1 0 = s_elements (K:=Rops) tbl a2 0.
Proof. exact s_elements_atom_order. Qed.
Theorem C07_elements_offset_S : forall tv s_ele,
  est_S (K:=Rops) (map okterm tv) s_ele = Ok (wsum tv - s_ele, anywarn tv).
Proof. exact elements_offset_S. Qed.
Theorem C07_elements_offset_G : forall hv hw sv sw s_ele,
  est_G (K:=Rops) (Ok (hv, hw)) (Ok (sv - s_ele, sw)) = Ok ((hv - sv) + s_ele, hw || sw).
Proof. exact elements_offset_G. Qed.
Print Assumptions C07_elements_offset_G.

Example C07_example :
  sum_tbl [(1%N, 7); (6%N, 2)] [6%N; 1%N; 1%N] = Some (2 + (7 + (7 + 0))).
Proof. reflexivity. Qed.
