(* C09 - reading RING text always ends with a query or a RING error.
   Statements only (lemmas in Ring/Peg_proofs.v, Ring/Peg_total.v,
   Ring/Peg_cert.v).  The grammar object is regenerated from /repo on every
   run; its certificate (nullable table + ranking: no left recursion through
   nullable prefixes; closed; no empty alternative list) is COMPUTED AND
   CHECKED inside Coq on every run, and C09_parse_total then holds for EVERY
   text: Parser.parse ends (the interpreter never runs out of fuel above an
   explicit linear bound), with a parse tree or a syntax error whose position
   lies inside the text - never with another exception.  The reader stage
   (tree -> query) is total by construction (structural recursion / fuel) and
   classified by its result type.  Wall-clock time and the host recursion
   limit are runtime (known finding for very long chains). *)
From Coq Require Import List NArith Arith Bool.
From PG Require Import Common.Strs Ring.Peg Ring.Peg_proofs Ring.Peg_total Ring.Peg_cert Ring.PegCorr Gen.RingGrammar.
Import ListNotations.

(* whatever Digit()/Number() accept, int() converts: no ValueError *)
Theorem C09_int_of_decimal : forall xdecimal ds acc,
  forallb (isdecimal xdecimal) ds = true -> exists v, int_of xdecimal ds acc = Some v.
Proof. exact int_of_decimal. Qed.
Print Assumptions C09_int_of_decimal.

Theorem C09_digits_are_decimal : forall xdecimal n st acc ds st',
  forallb (isdecimal xdecimal) acc = true ->
  run_digit xdecimal n st acc = (st', Some ds) -> forallb (isdecimal xdecimal) ds = true.
Proof. exact run_digit_decimal. Qed.

(* the identifier scanner never looks beyond the end of the text *)
Theorem C09_ident_len_le : forall xdigit xalpha r, ident_len xdigit xalpha r <= length r.
Proof. exact ident_len_le. Qed.
Print Assumptions C09_ident_len_le.

(* every take(n) moves the position forward by at least n *)
Theorem C09_take_progress : forall n st, sidx st + n <= sidx (take n st).
Proof. exact take_progress. Qed.

Theorem C09_skip_filler_suffix : forall r i l c,
  exists p, r = p ++ rest (skip_filler r i l c) /\ sidx (skip_filler r i l c) = i + length p.
Proof. exact skip_filler_suffix. Qed.

Theorem C09_line_col_monotone : forall r i l c, 1 <= c ->
  l <= line (skip_filler r i l c) /\ 1 <= col (skip_filler r i l c).
Proof. exact skip_filler_line. Qed.
Print Assumptions C09_line_col_monotone.

(* grammar certificates (regenerated data) *)
Theorem C09_no_empty_alternatives :
  forallb (fun kv => negb (has_empty_either (snd kv))) enhanced_grammar_rules = true
  /\ forallb (fun kv => negb (has_empty_either (snd kv))) strict_grammar_rules = true.
Proof. exact no_empty_alternatives. Qed.

(* accepted text has been consumed in full: the root demands the end of input *)
Theorem C09_root_requires_eos :
  rule_get enhanced_grammar_rules enhanced_grammar_root
  = Some (PAll [PEither [PNT Reader_lit_Fragment; PNT Reader_lit_Rule]; PEOS]).
Proof. exact root_requires_eos. Qed.

Theorem C09_undefined_nts_known :
  forallb (fun n => existsb (str_eqb n) known_undefined) (undefined_nts enhanced_grammar_rules) = true.
Proof. exact undefined_nts_known. Qed.
Print Assumptions C09_undefined_nts_known.

(* ---------- the whole interpreter ---------- *)
(* for ANY grammar with a valid certificate: enough fuel => never out of fuel *)
Theorem C09_no_hang_any_grammar : forall xdigit xdecimal xalpha rules nul rank,
  cert_ok rules nul rank = true ->
  forall K, (forall name body, rule_get rules name = Some body -> S (rank name) <= K) ->
  forall n e st m, (forall b, In b (first nul e) -> rk rules rank b <= m) ->
  1 + rem st * K + m <= n ->
  forall ce out, run xdigit xdecimal xalpha rules n e st ce out <> RHang.
Proof. exact run_no_hang. Qed.
Print Assumptions C09_no_hang_any_grammar.

(* success never moves backwards; success without consumption only for nullable expressions *)
Theorem C09_progress : forall xdigit xdecimal xalpha rules nul rank,
  cert_ok rules nul rank = true ->
  forall n e st ce out st' ce' out',
  run xdigit xdecimal xalpha rules n e st ce out = ROk st' ce' out' ->
  rem st' <= rem st /\ (rem st' = rem st -> nullable nul e = true).
Proof. exact run_rem. Qed.

(* every position the interpreter reports (state, raised error, remembered
   furthest error) is the (line, column) of a character offset of the text *)
Theorem C09_positions : forall xdigit xdecimal xalpha rules s n e st ce out,
  Pos s st -> CE s ce -> res_pos s (run xdigit xdecimal xalpha rules n e st ce out).
Proof. exact run_pos. Qed.
Theorem C09_position_inside : forall s l c, At s (l, c) -> 1 <= l <= 1 + nls s /\ 1 <= c <= 1 + length s.
Proof. exact at_inside. Qed.
Print Assumptions C09_positions.

(* the regenerated grammar: certificate computed and checked by the kernel *)
Theorem C09_grammar_certificate :
  cert_ok G nul_of rank_of = true /\ closed G = true /\ no_empty G = true /\ rule_get G root <> None.
Proof. exact (conj grammar_cert (conj grammar_closed (conj grammar_no_empty root_defined))). Qed.

(* Parser.parse on EVERY text, for every classification of non-ASCII characters *)
Theorem C09_parse_total : forall xd xdec xa s fuel,
  fuel_bound s <= fuel ->
  match parse_text xd xdec xa G root fuel s with
  | OTree _ => True
  | OSyntax l c => 1 <= l <= 1 + nls s /\ 1 <= c <= 1 + length s
  | OInternal _ => False
  | OHang => False
  end.
Proof. exact parse_text_total. Qed.
Print Assumptions C09_parse_total.

Example C09_fuel_bound_example : fuel_bound [102; 32]%N = 2 + 3 * KG /\ Nat.leb KG 60 = true.
Proof. split; reflexivity. Qed.

Example C09_example :
  rest (init [32; 10; 102; 32]%N) = [102; 32]%N /\ line (init [32; 10; 102; 32]%N) = 2
  /\ ident_len (fun _ => false) (fun _ => false) [97; 95; 49; 123]%N = 3.
Proof. vm_compute. repeat split; reflexivity. Qed.
