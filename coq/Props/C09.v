(* C09 - reading RING text always ends with a query or a RING error.
   Statements only (lemmas in Ring/Peg_proofs.v).  The grammar object is
   regenerated from /repo on every run; the last three theorems are finite
   certificates about it.  PARTIAL: the theorems cover the primitives of the
   interpreter (digits, identifier scanner, position bookkeeping) and the
   grammar certificates; totality of the whole interpreter on every text
   (peg_never_stuck of DESIGN 5/C09) is decided by the correspondence with
   time-outs, not yet by a theorem. *)
From Coq Require Import List NArith Arith Bool.
From PG Require Import Common.Strs Ring.Peg Ring.Peg_proofs Gen.RingGrammar.
Import ListNotations.

(* whatever Digit()/Number() accept, int() converts: no ValueError *)
Theorem C09_int_of_decimal : forall xdecimal ds acc,
  forallb (isdecimal xdecimal) ds = true -> exists v, int_of xdecimal ds acc = Some v.
Proof. exact int_of_decimal. Qed.
Print Assumptions C09_int_of_decimal.

Theorem C09_digits_are_decimal : forall xdecimal n st acc ds st',
  forallb (isdecimal xdecimal) acc = true ->
  run_digit xdecimal n st acc = (st', Some ds) -> forallb (isdecimal xdecimal) ds = true.
Proof. exact run_digit_decimal. Qed.

(* the identifier scanner never looks beyond the end of the text *)
Theorem C09_ident_len_le : forall xdigit xalpha r, ident_len xdigit xalpha r <= length r.
Proof. exact ident_len_le. Qed.
Print Assumptions C09_ident_len_le.

(* every take(n) moves the position forward by at least n *)
Theorem C09_take_progress : forall n st, sidx st + n <= sidx (take n st).
Proof. exact take_progress. Qed.

Theorem C09_skip_filler_suffix : forall r i l c,
  exists p, r = p ++ rest (skip_filler r i l c) /\ sidx (skip_filler r i l c) = i + length p.
Proof. exact skip_filler_suffix. Qed.

Theorem C09_line_col_monotone : forall r i l c, 1 <= c ->
  l <= line (skip_filler r i l c) /\ 1 <= col (skip_filler r i l c).
Proof. exact skip_filler_line. Qed.
Print Assumptions C09_line_col_monotone.

(* grammar certificates (regenerated data) *)
Theorem C09_no_empty_alternatives :
  forallb (fun kv => negb (has_empty_either (snd kv))) enhanced_grammar_rules = true
  /\ forallb (fun kv => negb (has_empty_either (snd kv))) strict_grammar_rules = true.
Proof. exact no_empty_alternatives. Qed.

(* accepted text has been consumed in full: the root demands the end of input *)
Theorem C09_root_requires_eos :
  rule_get enhanced_grammar_rules enhanced_grammar_root
  = Some (PAll [PEither [PNT Reader_lit_Fragment; PNT Reader_lit_Rule]; PEOS]).
Proof. exact root_requires_eos. Qed.

Theorem C09_undefined_nts_known :
  forallb (fun n => existsb (str_eqb n) known_undefined) (undefined_nts enhanced_grammar_rules) = true.
Proof. exact undefined_nts_known. Qed.
Print Assumptions C09_undefined_nts_known.

Example C09_example :
  rest (init [32; 10; 102; 32]%N) = [102; 32]%N /\ line (init [32; 10; 102; 32]%N) = 2
  /\ ident_len (fun _ => false) (fun _ => false) [97; 95; 49; 123]%N = 3.
Proof. vm_compute. repeat split; reflexivity. Qed.
