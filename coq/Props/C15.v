(* C15 - results do not depend on what the library object did before.
   Statements only (lemmas in Lib/History_proofs.v).  The model carries the
   state a library object keeps between calls; decomposition, estimation and
   the elemental entropies are arbitrary pure functions.  State inside
   third-party libraries is outside the model (differential test). *)
From Coq Require Import List Arith Bool.
From PG Require Import Lib.History Lib.History_proofs.
Import ListNotations.

(* computing anything but a merge alters no library's data *)
Theorem C15_contents_only_changed_by_merge : forall D V descr value sub merge ls o,
  is_merge o = false -> map contents (fst (step D V descr value sub merge ls o)) = map contents ls.
Proof. exact contents_only_changed_by_merge. Qed.
Theorem C15_run_contents : forall D V descr value sub merge ls ops,
  forallb (fun o => negb (is_merge o)) ops = true -> map contents (run D V descr value sub merge ls ops) = map contents ls.
Proof. exact run_contents. Qed.
Print Assumptions C15_run_contents.

(* descriptors and evaluated properties (without the elemental reference) are
   the same after ANY merge-free history as on the fresh state *)
Theorem C15_decompose_history_free : forall D V descr value sub merge ls ops l m,
  forallb (fun o => negb (is_merge o)) ops = true ->
  snd (step D V descr value sub merge (run D V descr value sub merge ls ops) (Decompose l m))
  = snd (step D V descr value sub merge ls (Decompose l m)).
Proof. exact decompose_history_free. Qed.
Theorem C15_eval_history_free : forall D V descr value sub merge ls ops l m,
  forallb (fun o => negb (is_merge o)) ops = true ->
  snd (step D V descr value sub merge (run D V descr value sub merge ls ops) (Eval l m false))
  = snd (step D V descr value sub merge ls (Eval l m false)).
Proof. exact eval_history_free. Qed.
Print Assumptions C15_eval_history_free.

(* with the elemental reference the library's LAST decomposed molecule is used ... *)
Theorem C15_eval_elements_uses_last : forall D V descr value sub merge ls l m m' x,
  nth_error ls l = Some x ->
  snd (step D V descr value sub merge (fst (step D V descr value sub merge ls (Decompose l m'))) (Eval l m true))
  = OVal D V (sub (value (contents x) (descr (contents x) m)) m').
Proof. exact eval_elements_uses_last. Qed.

(* ... so history-freedom fails there: the known finding, formally *)
Theorem C15_eval_elements_history_free_refuted :
  exists (descr : nat -> nat -> nat) (value : nat -> nat -> nat) (sub : nat -> nat -> nat) (merge : nat -> nat -> nat) ls ops l m,
    forallb (fun o => negb (is_merge o)) ops = true /\
    snd (step nat nat descr value sub merge (run nat nat descr value sub merge ls (Decompose l m :: ops)) (Eval l m true))
    <> snd (step nat nat descr value sub merge (run nat nat descr value sub merge ls [Decompose l m]) (Eval l m true)).
Proof. exact eval_elements_history_free_refuted. Qed.
Print Assumptions C15_eval_elements_history_free_refuted.
