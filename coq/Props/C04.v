(* C04 - a mixture's descriptors are the sum of its components'.
   Statements only.  PARTIAL: the additivity is decided on the implementation
   by the mixture oracle of this check; the theorem side gives the finite
   fact that makes matching component-local for the shipped schemes, and
   soundness facts of the matcher it rests on. *)
From Coq Require Import List NArith ZArith QArith Arith Bool.
From PG Require Import Common.Strs Graph.Mol Graph.Match Graph.Match_proofs Graph.Scheme Graph.SchemeLoad Graph.Scheme_proofs Gen.Schemes.
Import ListNotations.

(* no shipped pattern or descriptor has a molecule-level prefix (part of scheme_ok) *)
Theorem C04_no_mol_prefix : forall kv, In kv all_raw ->
  match load_scheme (snd kv) with Some s => no_mol_prefix s = true | None => False end.
Proof.
  intros kv H. pose proof (all_schemes_ok kv H) as E. unfold scheme_ok in E.
  destruct (load_scheme (snd kv)); [|discriminate].
  apply andb_true_iff in E. destruct E as [E _]. apply andb_true_iff in E. destruct E as [E _].
  apply andb_true_iff in E. tauto.
Qed.
Print Assumptions C04_no_mol_prefix.

(* every declared bond of a match lies inside the molecule: a match never
   straddles two components unless the fragment is disconnected *)
Theorem C04_declared_bonds_exist : forall f m qall img, placed f m qall img ->
  forall k c, nth_error img k = Some c ->
  forall j t, In (j, t) (bonds_into f k) ->
    exists cj b, nth_error img j = Some cj /\ bond_between m c cj = Some b /\ qbond_ok t b = true.
Proof. exact placed_bonds_ok. Qed.

(* descriptor totals add entry-wise *)
Theorem C04_dict_add_get : forall d k v k',
  dict_get (dict_add d k v) k' == (if str_eqb k k' then dict_get d k' + v else dict_get d k').
Proof. exact dict_add_get. Qed.
