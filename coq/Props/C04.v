(* C04 - a mixture's descriptors are the sum of its components'.
   Statements only (lemmas in Graph/Embed.v, Graph/Embed_inst.v,
   Ring/Reader_proofs.v).  The matcher-level core is proved for every fragment
   the reader accepts that carries no molecule-level prefix (none of the
   shipped ones does: C04_no_mol_prefix, finite, regenerated) and all
   well-formed component graphs: the matches of a pattern in the mixture are
   exactly the matches in the first component together with the shifted
   matches in the second, each once (a match never straddles components and
   is not influenced by the other component - ring membership, ring counts,
   neighbour counts and stereo are local); the mixture is decomposable iff every
   component is and each atom keeps its centre (C04_centres_of_mixture).
   PARTIAL: the last step to the descriptor dictionary (naming, counting,
   remaps, the update of groups by descriptors) is decided
   on the implementation by the mixture oracle of this check. *)
From Coq Require Import List NArith ZArith QArith Arith Bool.
From Coq Require Import Permutation.
From PG Require Import Common.Strs Ring.Peg Ring.Reader Ring.Reader_proofs Graph.Mol Graph.Match Graph.Match_proofs Graph.Embed Graph.Embed_inst Graph.Centres_proofs Graph.Centres_equiv Graph.Scheme Graph.SchemeLoad Graph.Scheme_proofs Graph.Remap_proofs Graph.Descr_equiv Graph.Arom_equiv Gen.Schemes.
Import ListNotations.

(* no shipped pattern or descriptor has a molecule-level prefix (part of scheme_ok) *)
Theorem C04_no_mol_prefix : forall kv, In kv all_raw ->
  match load_scheme (snd kv) with Some s => no_mol_prefix s = true | None => False end.
Proof.
  intros kv H. pose proof (all_schemes_ok kv H) as E. unfold scheme_ok in E.
  destruct (load_scheme (snd kv)); [|discriminate].
  apply andb_true_iff in E. destruct E as [E _]. apply andb_true_iff in E. destruct E as [E _].
  apply andb_true_iff in E. tauto.
Qed.
Print Assumptions C04_no_mol_prefix.

(* every declared bond of a match lies inside the molecule: a match never
   straddles two components unless the fragment is disconnected *)
Theorem C04_declared_bonds_exist : forall f m qall img, placed f m qall img ->
  forall k c, nth_error img k = Some c ->
  forall j t, In (j, t) (bonds_into f k) ->
    exists cj b, nth_error img j = Some cj /\ bond_between m c cj = Some b /\ qbond_ok t b = true.
Proof. exact placed_bonds_ok. Qed.

(* ---------- matching in a mixture ---------- *)
(* the components embed into the mixture: atoms, bonds, neighbourhoods, rings preserved, no bond leaves a component *)
Theorem C04_components_embed : forall m1 m2, wf_mol m1 -> wf_mol m2 -> wf_rings m1 -> wf_rings m2 ->
  embeds (fun i => i) m1 (union m1 m2) /\ embeds (shift (natom m1)) m2 (union m1 m2).
Proof. intros m1 m2 W1 W2 R1 R2. split; [apply embeds_left|apply embeds_right]; assumption. Qed.
Print Assumptions C04_components_embed.

Theorem C04_matches_of_mixture : forall elements xlower t f m1 m2,
  read_fragment elements xlower t = ROk' f -> f_mol f = [] ->
  wf_mol m1 -> wf_mol m2 -> wf_rings m1 -> wf_rings m2 ->
  Permutation (matches f (union m1 m2))
              (matches f m1 ++ map (map (shift (natom m1))) (matches f m2)).
Proof.
  intros elements xlower t f m1 m2 H Hm W1 W2 R1 R2.
  destruct (read_fragment_connected elements xlower t f H) as [C N].
  apply matches_union_perm; auto. eapply read_fragment_wf; eauto.
Qed.
Print Assumptions C04_matches_of_mixture.

Theorem C04_match_count_additive : forall elements xlower t f m1 m2,
  read_fragment elements xlower t = ROk' f -> f_mol f = [] ->
  wf_mol m1 -> wf_mol m2 -> wf_rings m1 -> wf_rings m2 ->
  (length (matches f (union m1 m2)) = length (matches f m1) + length (matches f m2))%nat.
Proof.
  intros elements xlower t f m1 m2 H Hm W1 W2 R1 R2.
  destruct (read_fragment_connected elements xlower t f H) as [C N].
  apply matches_union_count; auto. eapply read_fragment_wf; eauto.
Qed.

(* one level up: the mixture is decomposable iff every component is, and then each atom keeps the centre and
   peripheral names it has in its own component (so a pair of decomposable components always decomposes) *)
Theorem C04_centres_of_mixture : forall m1 m2 sch, wf_mol m1 -> wf_mol m2 -> wf_rings m1 -> wf_rings m2 ->
  (forall p, In p (s_patterns sch) -> good_frag (p_frag p)) ->
  ((exists NM, assign_centres sch (union m1 m2) = SOk NM) <->
   (exists nm1, assign_centres sch m1 = SOk nm1) /\ (exists nm2, assign_centres sch m2 = SOk nm2))
  /\ (forall NM nm1 nm2, assign_centres sch (union m1 m2) = SOk NM -> assign_centres sch m1 = SOk nm1 ->
        assign_centres sch m2 = SOk nm2 -> NM = nm1 ++ nm2).
Proof. intros m1 m2 sch W1 W2 R1 R2. exact (assign_centres_union m1 m2 W1 W2 R1 R2 sch). Qed.
Print Assumptions C04_centres_of_mixture.

(* non-vacuity: two one-atom "molecules", the pattern C matches once in each *)
Example C04_union_example :
  let a := {| atoms := [{| a_z := 6; a_chg := 0; a_rad := 4; a_arom := false |}]; bonds := []; rings := [] |} in
  let f := {| f_atoms := [{| qa_sym := SElem 6; qa_chg := None |}]; f_bonds := []; f_bcons := []; f_acons := []; f_stereo := []; f_mol := [] |} in
  matches f (union a a) = [[0]; [1]]%nat /\ matches f a = [[0]]%nat.
Proof. vm_compute. split; reflexivity. Qed.

(* descriptor totals add entry-wise *)
Theorem C04_dict_add_get : forall d k v k',
  dict_get (dict_add d k v) k' == (if str_eqb k k' then dict_get d k' + v else dict_get d k').
Proof. exact dict_add_get. Qed.

(* ---------- the descriptor dictionary of a mixture ---------- *)
(* correction descriptors (distinct matched atom sets, then remaps): the sum over the components *)
Theorem C04_correction_descriptors_additive : forall m1 m2 sch, wf_mol m1 -> wf_mol m2 -> wf_rings m1 -> wf_rings m2 ->
  (forall ds, In ds (s_descr sch) -> good_frag (d_frag ds)) -> chain_free (s_remaps sch) ->
  forall k, dict_get (assign_descr sch (union m1 m2)) k == dict_get (assign_descr sch m1) k + dict_get (assign_descr sch m2) k.
Proof. intros m1 m2 sch W1 W2 R1 R2 Gd CF. exact (assign_descr_union m1 m2 W1 W2 R1 R2 sch Gd CF). Qed.
Print Assumptions C04_correction_descriptors_additive.

(* groups (centre name + neighbours' peripheral names, then remaps): the sum over the components *)
Theorem C04_groups_additive : forall m1 m2 sch, wf_mol m1 -> wf_mol m2 -> wf_rings m1 -> wf_rings m2 ->
  chain_free (s_remaps sch) -> forall nm1 nm2, length nm1 = natom m1 -> length nm2 = natom m2 ->
  forall k, dict_get (assign_groups sch (union m1 m2) (nm1 ++ nm2)) k
            == dict_get (assign_groups sch m1 nm1) k + dict_get (assign_groups sch m2 nm2) k.
Proof. intros m1 m2 sch W1 W2 R1 R2 CF nm1 nm2 L1 L2. exact (assign_groups_union m1 m2 W1 W2 R1 R2 sch CF nm1 nm2 L1 L2). Qed.
Print Assumptions C04_groups_additive.

(* the returned dictionary: groups.update(descriptors) REPLACES a group count by the correction-descriptor count of the
   same name, so the whole dictionary is additive exactly when no correction-descriptor name that occurs is also a group
   name that occurs (names_apart); the centre names of the mixture are nm1 ++ nm2 by C04_centres_of_mixture *)
Theorem C04_descriptors_additive : forall m1 m2 sch, wf_mol m1 -> wf_mol m2 -> wf_rings m1 -> wf_rings m2 ->
  (forall ds, In ds (s_descr sch) -> good_frag (d_frag ds)) -> chain_free (s_remaps sch) ->
  forall nm1 nm2, length nm1 = natom m1 -> length nm2 = natom m2 ->
  names_apart m1 m2 sch nm1 nm2 ->
  forall k, dict_get (descriptors_of sch (union m1 m2) (nm1 ++ nm2)) k
            == dict_get (descriptors_of sch m1 nm1) k + dict_get (descriptors_of sch m2 nm2) k.
Proof. intros m1 m2 sch W1 W2 R1 R2 Gd CF nm1 nm2 L1 L2. exact (descriptors_union m1 m2 W1 W2 R1 R2 sch Gd CF nm1 nm2 L1 L2). Qed.
Print Assumptions C04_descriptors_additive.

(* ---------- at the level of GetDescriptors ---------- *)
(* the aromatisation of a mixture acts component by component (ring list = the components' ring lists one after the other) *)
Theorem C04_aromatize_of_mixture : forall m1 m2 s1 s2, wf_mol m1 -> wf_mol m2 -> wf_rings m1 -> wf_rings m2 ->
  (forall r x, In r s1 -> In x r -> (x < natom m1)%nat) -> (forall r x, In r s2 -> In x r -> (x < natom m2)%nat) ->
  aromatize (s1 ++ map (map (shift (natom m1))) s2) (union m1 m2) = union (aromatize s1 m1) (aromatize s2 m2).
Proof. exact aromatize_union. Qed.

(* GetDescriptors (model) on a mixture: it succeeds exactly when it succeeds on both components ("if either component cannot be
   decomposed, neither can the pair"), and then returns the entry-wise sum (names_apart: see C04_descriptors_additive) *)
Theorem C04_get_descriptors_of_mixture : forall m1 m2, wf_mol m1 -> wf_mol m2 -> wf_rings m1 -> wf_rings m2 ->
  forall sch, (forall p, In p (s_patterns sch) -> good_frag (p_frag p)) -> (forall ds, In ds (s_descr sch) -> good_frag (d_frag ds)) ->
  chain_free (s_remaps sch) ->
  forall s1 s2, (forall r x, In r s1 -> In x r -> (x < natom m1)%nat) -> (forall r x, In r s2 -> In x r -> (x < natom m2)%nat) ->
  let U := union m1 m2 in let sU := (s1 ++ map (map (shift (natom m1))) s2)%list in
  ((exists D, get_descriptors sch sU U = SOk D) <->
   (exists d1, get_descriptors sch s1 m1 = SOk d1) /\ (exists d2, get_descriptors sch s2 m2 = SOk d2))
  /\ (forall D d1 d2 nm1 nm2, get_descriptors sch sU U = SOk D -> get_descriptors sch s1 m1 = SOk d1 -> get_descriptors sch s2 m2 = SOk d2 ->
        assign_centres sch (aromatize s1 m1) = SOk nm1 -> assign_centres sch (aromatize s2 m2) = SOk nm2 ->
        names_apart (aromatize s1 m1) (aromatize s2 m2) sch nm1 nm2 ->
        forall k, dict_get D k == dict_get d1 k + dict_get d2 k).
Proof. exact get_descriptors_union. Qed.
Print Assumptions C04_get_descriptors_of_mixture.
