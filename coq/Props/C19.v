(* C19 - Group identity is the centre plus the multiset of peripherals.
   Only statements; every proof is `exact <lemma>` (lemmas in
   Group/GroupName_proofs.v).  Guard of the theorems: the centre contains no
   parenthesis, peripheral names are non-empty, contain no parenthesis and are
   not made of ASCII digits only; code points whose str.isdigit() differs from
   the ASCII test are outside the model (stated in the evidence). *)
From Coq Require Import List NArith Bool Permutation.
From PG Require Import Common.Strs Common.Strs_proofs Group.GroupName Group.GroupName_proofs.
Import ListNotations.

(* equal (as Python ==)  <->  same centre and same multiset *)
Theorem C19_group_eq_iff : forall c ps c' ps',
  paren_free c = true -> forallb wf_name ps = true ->
  paren_free c' = true -> forallb wf_name ps' = true ->
  (group_eqb c ps c' ps' = true <-> c = c' /\ Permutation ps ps').
Proof. exact group_eq_iff. Qed.
Print Assumptions C19_group_eq_iff.

Theorem C19_canon_perm : forall c ps ps',
  Permutation ps ps' -> canon c ps = canon c ps'.
Proof. exact canon_perm. Qed.
Print Assumptions C19_canon_perm.

Theorem C19_canon_inj : forall c ps c' ps',
  paren_free c = true -> forallb wf_name ps = true ->
  paren_free c' = true -> forallb wf_name ps' = true ->
  canon c ps = canon c' ps' -> c = c' /\ Permutation ps ps'.
Proof. exact canon_inj. Qed.
Print Assumptions C19_canon_inj.

(* equal groups hash alike, whatever the host's string hash is *)
Theorem C19_hash_compat : forall (H : Type) (h : str -> H) c ps c' ps',
  group_eqb c ps c' ps' = true -> group_hash h c ps = group_hash h c' ps'.
Proof. exact @group_hash_compat. Qed.
Print Assumptions C19_hash_compat.

(* the canonical name parses back to the same group *)
Theorem C19_parse_canon : forall c ps,
  paren_free c = true -> forallb wf_name ps = true ->
  parse (canon c ps) = Ok (c, sort ps).
Proof. exact parse_canon. Qed.
Print Assumptions C19_parse_canon.

Theorem C19_parse_name_canon : forall c ps,
  paren_free c = true -> forallb wf_name ps = true ->
  parse_name (canon c ps) = Ok (canon c ps).
Proof. exact parse_name_canon. Qed.
Print Assumptions C19_parse_name_canon.

(* every ordering and every run-length spelling (explicit counts incl. 0 and 1,
   repeated runs of one name) of a multiset parses to the same group *)
Theorem C19_parse_spellings : forall c rs ps,
  paren_free c = true -> forallb wf_run rs = true ->
  Permutation (expand rs) ps ->
  parse_name (spell c rs) = Ok (canon c ps).
Proof. exact parse_spellings. Qed.
Print Assumptions C19_parse_spellings.

(* a group compares equal to exactly one plain string: its canonical name *)
Theorem C19_str_interop : forall c ps s,
  group_eqb_str c ps s = true <-> canon c ps = s.
Proof. exact str_interop. Qed.
Print Assumptions C19_str_interop.

(* parsing never ends in anything but a group or GroupSyntaxError *)
Theorem C19_parse_outcome_classified : forall text,
  match parse text with
  | Ok _ => True | Raise GroupSyntax => True | Raise InternalErr => False end.
Proof. exact parse_outcome_classified. Qed.
Print Assumptions C19_parse_outcome_classified.

(* non-vacuity: concrete well-formed names, a real permutation, a real
   run-length spelling *)
Definition s_C : str := [67]%N.
Definition s_H : str := [72]%N.
Definition s_Cd : str := [67; 91; 100; 93]%N.           (* C[d] *)
Example C19_hyps_satisfiable :
  paren_free s_C = true /\ forallb wf_name [s_H; s_Cd; s_H; s_C] = true
  /\ canon s_C [s_H; s_Cd; s_H; s_C] = canon s_C [s_C; s_H; s_H; s_Cd]
  /\ canon s_C [s_H; s_Cd; s_H; s_C]
     = [67;40;67;41;40;67;91;100;93;41;40;72;41;50]%N   (* C(C)(C[d])(H)2 *)
  /\ parse_name (spell s_C [(s_H, Some 1); (s_Cd, None); (s_H, None); (s_C, Some 1)])
     = Ok (canon s_C [s_C; s_H; s_H; s_Cd])
  /\ group_eqb s_C [s_H; s_H] s_C [s_H] = false.
Proof. vm_compute. repeat split; reflexivity. Qed.
