(* C01 - Estimate is the exact count-weighted sum of group contributions.
   Statements only; proofs are `exact <lemma>` (Thermo/Estimate_proofs.v).
   Number type: the reals (the model is the same Gallina term that the
   correspondence executes over exact rationals). *)
From Coq Require Import List NArith Bool Reals Permutation.
From PG Require Import Common.Strs Thermo.Num Thermo.Estimate Thermo.Estimate_proofs.
Import ListNotations.
Local Open Scope R_scope.

(* every constituent evaluates (value v_d, warning flag) => the estimate is
   the weighted sum, with the union of the warnings; holds for Cp/R, H/RT and
   S/R alike (est_prop is the one model of the three getters) *)
Theorem C01_est_is_weighted_sum : forall tv : list (R * R * bool),
  est_prop (K:=Rops) (map okterm tv) = Ok (wsum tv, anywarn tv).
Proof. exact est_is_weighted_sum. Qed.
Print Assumptions C01_est_is_weighted_sum.

(* the estimate raises e  <->  some constituent raises e and all before it
   (in mapping order) evaluate *)
Theorem C01_est_error_iff : forall terms e,
  est_prop (K:=Rops) terms = Raise e <->
  exists pre c post, terms = pre ++ (c, Raise e) :: post /\ Forall is_ok pre.
Proof. exact est_error_iff. Qed.
Print Assumptions C01_est_error_iff.

Theorem C01_est_never_partial : forall terms,
  (exists c e, In (c, Raise e) terms) ->
  exists e, est_prop (K:=Rops) terms = Raise e.
Proof. exact est_never_partial. Qed.
Print Assumptions C01_est_never_partial.

Theorem C01_est_perm : forall tv tv',
  Permutation tv tv' ->
  est_prop (K:=Rops) (map okterm tv) = est_prop (K:=Rops) (map okterm tv').
Proof. exact est_perm. Qed.
Print Assumptions C01_est_perm.

Theorem C01_G_is_H_minus_S : forall hv hw sv sw,
  est_G (K:=Rops) (Ok (hv, hw)) (Ok (sv, sw)) = Ok (hv - sv, hw || sw).
Proof. exact est_G_is_H_minus_S. Qed.
Print Assumptions C01_G_is_H_minus_S.

Theorem C01_G_error : forall h s,
  (exists e, h = Raise e) \/ (exists e, s = Raise e) ->
  exists e, est_G (K:=Rops) h s = Raise e.
Proof. exact est_G_error. Qed.
Print Assumptions C01_G_error.

(* missing-data error names exactly the descriptors without the property set,
   in mapping order; and it is raised as soon as one descriptor lacks it *)
Theorem C01_missing_exact : forall (lib : list (str * bool)) keys l,
  estimate_check lib keys = Raise (MissingData l) <->
  l <> [] /\ l = missing lib keys.
Proof. exact estimate_missing_exact. Qed.
Print Assumptions C01_missing_exact.

Theorem C01_ok_iff_all_present : forall (lib : list (str * bool)) keys,
  estimate_check lib keys = Ok tt <->
  forall d, In d keys -> lib_has lib d = true.
Proof. exact estimate_ok_iff. Qed.
Print Assumptions C01_ok_iff_all_present.

Theorem C01_never_partial : forall (lib : list (str * bool)) keys d,
  In d keys -> lib_has lib d = false ->
  exists l, estimate_check lib keys = Raise (MissingData l) /\ In d l
            /\ forall x, In x l <-> In x keys /\ lib_has lib x = false.
Proof. exact estimate_never_partial. Qed.
Print Assumptions C01_never_partial.

(* non-vacuity: a three-descriptor mapping, one constituent without S *)
Example C01_example :
  est_prop (K:=Rops) (map okterm [(2, 3, false); (1/2, 4, true)]) = Ok (2*3 + (1/2*4 + 0), true)
  /\ (exists e, est_prop (K:=Rops) [(2, Ok (3, false)); (1, Raise IncompleteData)] = Raise e)
  /\ estimate_check [([67%N], true); ([72%N], false)] [[67%N]; [72%N]; [90%N]]
     = Raise (MissingData [[72%N]; [90%N]]).
Proof.
  split; [apply est_is_weighted_sum|]. split; [exists IncompleteData; reflexivity|].
  vm_compute. reflexivity.
Qed.
