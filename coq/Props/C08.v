(* C08 - RING fragment matching returns exactly the embeddings it denotes.
   Statements only (lemmas in Graph/Match_proofs.v, Ring/Reader_proofs.v).
   Soundness AND completeness are proved for every fragment the reader accepts
   and every molecule: a tuple is returned iff it is an embedding the fragment
   denotes (declarative `Denotes`: distinct atoms of the declared classes,
   every declared bond present with a matching type - no reference to
   enumeration order) that passes the molecule prefix and the bond / atom /
   stereo constraints; and no tuple is returned twice.  Layout and label
   independence of the READER (text -> fragment) are decided by the variant
   oracle and the correspondence of this check. *)
From Coq Require Import List NArith ZArith Arith Bool Lia.
From PG Require Import Common.Strs Ring.Peg Ring.Reader Ring.Reader_proofs Graph.Mol Graph.Match Graph.Match_proofs.
Import ListNotations.

Theorem C08_matches_sound : forall f m img, In img (matches f m) ->
  forallb (mcon_ok m) (f_mol f) = true
  /\ length img = length (f_atoms f) /\ placed f m (f_atoms f) img /\ NoDup img
  /\ bcons_ok f m img = true /\ acons_ok f m img = true /\ scons_ok f m img = true.
Proof. exact matches_sound. Qed.
Print Assumptions C08_matches_sound.

(* position k of a returned tuple is the image of the k-th declared atom and
   satisfies that atom's element class and charge *)
Theorem C08_match_tuple_order : forall f m qall img, placed f m qall img ->
  forall k c, nth_error img k = Some c ->
    exists q a, nth_error qall k = Some q /\ atom_at m c = Some a /\ qatom_ok q a = true.
Proof. exact placed_atoms_ok. Qed.

Theorem C08_declared_bonds_exist : forall f m qall img, placed f m qall img ->
  forall k c, nth_error img k = Some c ->
  forall j t, In (j, t) (bonds_into f k) ->
    exists cj b, nth_error img j = Some cj /\ bond_between m c cj = Some b /\ qbond_ok t b = true.
Proof. exact placed_bonds_ok. Qed.
Print Assumptions C08_declared_bonds_exist.

Theorem C08_distinct_atoms : forall f m qall img, placed f m qall img -> NoDup img.
Proof. exact placed_injective. Qed.

Theorem C08_molprefix_gate : forall f m,
  forallb (mcon_ok m) (f_mol f) = false -> matches f m = [].
Proof. exact molprefix_gate. Qed.

Theorem C08_matches_complete_wrt_raw : forall f m img,
  forallb (mcon_ok m) (f_mol f) = true -> In img (raw_embeddings f m) ->
  bcons_ok f m img = true -> acons_ok f m img = true -> scons_ok f m img = true ->
  In img (matches f m).
Proof. exact matches_complete_wrt_raw. Qed.
Print Assumptions C08_matches_complete_wrt_raw.

(* the enumeration returns exactly the legally placed tuples *)
Theorem C08_raw_embeddings_exact : forall f m img,
  In img (raw_embeddings f m) <-> length img = length (f_atoms f) /\ placed f m (f_atoms f) img.
Proof. exact raw_embeddings_iff. Qed.
Print Assumptions C08_raw_embeddings_exact.

(* EXACTLY the denoted embeddings: for every fragment the reader accepts *)
Theorem C08_matches_exactly_denoted : forall elements xlower t f m img,
  read_fragment elements xlower t = ROk' f ->
  (In img (matches f m) <->
   forallb (mcon_ok m) (f_mol f) = true /\ Denotes f m img
   /\ bcons_ok f m img = true /\ acons_ok f m img = true /\ scons_ok f m img = true).
Proof. intros elements xlower t f m img H. apply matches_iff. eapply read_fragment_wf; eauto. Qed.
Print Assumptions C08_matches_exactly_denoted.

Theorem C08_matches_iff_wf : forall f m img, wf_bonds f ->
  (In img (matches f m) <->
   forallb (mcon_ok m) (f_mol f) = true /\ Denotes f m img
   /\ bcons_ok f m img = true /\ acons_ok f m img = true /\ scons_ok f m img = true).
Proof. exact matches_iff. Qed.

Theorem C08_reader_fragments_wellformed : forall elements xlower t f,
  read_fragment elements xlower t = ROk' f -> wf_bonds f.
Proof. exact read_fragment_wf. Qed.

(* no embedding is reported twice *)
Theorem C08_matches_nodup : forall f m, NoDup (matches f m).
Proof. exact matches_nodup. Qed.
Print Assumptions C08_matches_nodup.

(* non-vacuity: C-C in ethane's heavy-atom skeleton matches both ways *)
Definition cc : fragment :=
  {| f_atoms := [{| qa_sym := SElem 6; qa_chg := Some 0%Z |}; {| qa_sym := SElem 6; qa_chg := Some 0%Z |}];
     f_bonds := [(1, 0, BtSingle)]; f_bcons := []; f_acons := [(0, ARadical false {| cn_op := CEq; cn_n := 0 |})];
     f_stereo := []; f_mol := [] |}.
Definition skel : mol :=
  {| atoms := [{| a_z := 6; a_chg := 0; a_rad := 0; a_arom := false |}; {| a_z := 6; a_chg := 0; a_rad := 0; a_arom := false |}];
     bonds := [{| b_u := 0; b_v := 1; b_t := BtSingle; b_st := StNone; b_sa := [] |}]; rings := [] |}.
Example C08_example : matches cc skel = [[0; 1]; [1; 0]].
Proof. vm_compute. reflexivity. Qed.

Example C08_example_wf : wf_bonds cc.
Proof. intros i j t [H|[]]. inversion H; subst. simpl. repeat split; lia. Qed.
Example C08_example_denotes : Denotes cc skel [1; 0].
Proof.
  apply placed_denotes; [exact C08_example_wf|reflexivity|].
  apply raw_embeddings_sound. vm_compute. right. left. reflexivity.
Qed.
