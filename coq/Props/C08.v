(* C08 - RING fragment matching returns exactly the embeddings it denotes.
   Statements only (lemmas in Graph/Match_proofs.v).  PARTIAL: soundness
   ("nothing violating the pattern is returned") is proved in full for every
   fragment and molecule; completeness is proved relative to the raw
   embedding enumeration (filters drop nothing that passes) - completeness of
   the enumeration itself, layout and label independence are decided by the
   bounded-exhaustive correspondence and the variant oracle of this check. *)
From Coq Require Import List NArith ZArith Arith Bool.
From PG Require Import Common.Strs Graph.Mol Graph.Match Graph.Match_proofs.
Import ListNotations.

Theorem C08_matches_sound : forall f m img, In img (matches f m) ->
  forallb (mcon_ok m) (f_mol f) = true
  /\ length img = length (f_atoms f) /\ placed f m (f_atoms f) img /\ NoDup img
  /\ bcons_ok f m img = true /\ acons_ok f m img = true /\ scons_ok f m img = true.
Proof. exact matches_sound. Qed.
Print Assumptions C08_matches_sound.

(* position k of a returned tuple is the image of the k-th declared atom and
   satisfies that atom's element class and charge *)
Theorem C08_match_tuple_order : forall f m qall img, placed f m qall img ->
  forall k c, nth_error img k = Some c ->
    exists q a, nth_error qall k = Some q /\ atom_at m c = Some a /\ qatom_ok q a = true.
Proof. exact placed_atoms_ok. Qed.

Theorem C08_declared_bonds_exist : forall f m qall img, placed f m qall img ->
  forall k c, nth_error img k = Some c ->
  forall j t, In (j, t) (bonds_into f k) ->
    exists cj b, nth_error img j = Some cj /\ bond_between m c cj = Some b /\ qbond_ok t b = true.
Proof. exact placed_bonds_ok. Qed.
Print Assumptions C08_declared_bonds_exist.

Theorem C08_distinct_atoms : forall f m qall img, placed f m qall img -> NoDup img.
Proof. exact placed_injective. Qed.

Theorem C08_molprefix_gate : forall f m,
  forallb (mcon_ok m) (f_mol f) = false -> matches f m = [].
Proof. exact molprefix_gate. Qed.

Theorem C08_matches_complete_wrt_raw : forall f m img,
  forallb (mcon_ok m) (f_mol f) = true -> In img (raw_embeddings f m) ->
  bcons_ok f m img = true -> acons_ok f m img = true -> scons_ok f m img = true ->
  In img (matches f m).
Proof. exact matches_complete_wrt_raw. Qed.
Print Assumptions C08_matches_complete_wrt_raw.

(* non-vacuity: C-C in ethane's heavy-atom skeleton matches both ways *)
Definition cc : fragment :=
  {| f_atoms := [{| qa_sym := SElem 6; qa_chg := Some 0%Z |}; {| qa_sym := SElem 6; qa_chg := Some 0%Z |}];
     f_bonds := [(1, 0, BtSingle)]; f_bcons := []; f_acons := [(0, ARadical false {| cn_op := CEq; cn_n := 0 |})];
     f_stereo := []; f_mol := [] |}.
Definition skel : mol :=
  {| atoms := [{| a_z := 6; a_chg := 0; a_rad := 0; a_arom := false |}; {| a_z := 6; a_chg := 0; a_rad := 0; a_arom := false |}];
     bonds := [{| b_u := 0; b_v := 1; b_t := BtSingle; b_st := StNone; b_sa := [] |}]; rings := [] |}.
Example C08_example : matches cc skel = [[0; 1]; [1; 0]].
Proof. vm_compute. reflexivity. Qed.
