(* C06 - no property is returned outside the valid range unsignalled.
   Statements only (lemmas in Thermo/*_proofs.v). *)
From Coq Require Import List Bool Reals Lra.
From PG Require Import Thermo.Num Thermo.RawData Thermo.RawData_proofs
     Thermo.Estimate Thermo.Estimate_proofs Thermo.Incomplete_proofs.
Import ListNotations.
Local Open Scope R_scope.

(* the estimate's range is the intersection of its constituents' ranges *)
Theorem C06_est_range_is_intersection : forall rs ab T,
  est_range (K:=Rops) rs = Ok (Some ab) ->
  (inR ab T <->
   Forall (fun r => match r with None => True | Some c => inR c T end) rs).
Proof. exact est_range_is_intersection. Qed.
Print Assumptions C06_est_range_is_intersection.

Theorem C06_est_range_none_iff : forall rs,
  est_range (K:=Rops) rs = Ok None <-> Forall (fun r => r = None) rs.
Proof. exact est_range_none_iff. Qed.
Print Assumptions C06_est_range_none_iff.

(* raw-data correlation: outside => OutsideCorrelationError, for Cp, H and S *)
Theorem C06_raw_outside_raises : forall spl splint quadS (c : @raw Rops) T,
  T < r_lo c \/ r_hi c < T ->
  raw_cp (K:=Rops) spl c T = Raise OutsideCorrelation
  /\ raw_h (K:=Rops) splint c T = Raise OutsideCorrelation
  /\ raw_s (K:=Rops) quadS lnrR c T = Raise OutsideCorrelation.
Proof. exact raw_outside_raises. Qed.
Print Assumptions C06_raw_outside_raises.

(* inside the range every property is defined (a real number in exact
   arithmetic; float overflow is outside the model, tested by the oracle) *)
Theorem C06_raw_inside_defined : forall spl splint quadS (c : @raw Rops) T,
  r_lo c <= T <= r_hi c ->
  (exists v, raw_cp (K:=Rops) spl c T = Ok v)
  /\ (exists v, raw_h (K:=Rops) splint c T = Ok v)
  /\ (exists v, raw_s (K:=Rops) quadS lnrR c T = Ok v).
Proof. exact raw_inside_defined. Qed.
Print Assumptions C06_raw_inside_defined.

(* group correlation with a table: outside => IncompleteDataError *)
Theorem C06_inc_outside_with_table : forall spl splint quadS (i : @inc Rops) (c : @raw Rops) T,
  T < r_lo c \/ r_hi c < T ->
  inc_cp (K:=Rops) spl i (Some c) T = Raise IncompleteData
  /\ inc_h (K:=Rops) splint i (Some c) T = Raise IncompleteData
  /\ inc_s (K:=Rops) quadS lnrR i (Some c) T = Raise IncompleteData
  /\ inc_g (K:=Rops) splint quadS lnrR i (Some c) T = Raise IncompleteData.
Proof. exact inc_outside_with_table. Qed.
Print Assumptions C06_inc_outside_with_table.

(* without a table: reference value + warning exactly when T <> T_ref *)
Theorem C06_inc_no_table : forall spl splint quadS (i : @inc Rops) T,
  inc_cp (K:=Rops) spl i None T = Raise IncompleteData
  /\ (forall h, i_H i = Some h ->
        inc_h (K:=Rops) splint i None T = Ok (h, if Req_EM_T T (i_Tref i) then false else true))
  /\ (forall s, i_S i = Some s ->
        inc_s (K:=Rops) quadS lnrR i None T = Ok (s, if Req_EM_T T (i_Tref i) then false else true))
  /\ (i_H i = None -> inc_h (K:=Rops) splint i None T = Raise IncompleteData)
  /\ (i_S i = None -> inc_s (K:=Rops) quadS lnrR i None T = Raise IncompleteData).
Proof. exact inc_no_table. Qed.
Print Assumptions C06_inc_no_table.

Theorem C06_inc_outside_signalled : forall (spl : R -> R) splint (quadS : R -> R -> R) (i : @inc Rops) (r : option (@raw Rops)) T h,
  i_H i = Some h ->
  (forall c, r = Some c -> T < r_lo c \/ r_hi c < T) ->
  T <> i_Tref i ->
  inc_h (K:=Rops) splint i r T = Raise IncompleteData
  \/ inc_h (K:=Rops) splint i r T = Ok (h, true).
Proof. exact inc_outside_signalled. Qed.
Print Assumptions C06_inc_outside_signalled.

(* the hypothesis T <> T_ref above cannot be dropped (known finding) *)
Theorem C06_inc_no_table_silent_at_Tref_refuted : forall splint,
  exists (i : @inc Rops) T lo hi h,
    i_range i = Some (lo, hi) /\ (T < lo \/ hi < T) /\ i_tab i = []
    /\ inc_h (K:=Rops) splint i None T = Ok (h, false).
Proof. exact inc_no_table_silent_at_Tref_refuted. Qed.
Print Assumptions C06_inc_no_table_silent_at_Tref_refuted.

(* estimate: a raising constituent makes it raise (C01), a warning
   constituent makes it warn *)
Theorem C06_est_raise_propagates : forall terms,
  (exists c e, In (c, Raise e) terms) ->
  exists e, est_prop (K:=Rops) terms = Raise e.
Proof. exact est_never_partial. Qed.
Print Assumptions C06_est_raise_propagates.

Theorem C06_est_warning_propagates : forall (tv : list (R * R * bool)) c v,
  In (c, v, true) tv ->
  exists x, est_prop (K:=Rops) (map okterm tv) = Ok (x, true).
Proof. exact est_signal_propagates. Qed.
Print Assumptions C06_est_warning_propagates.

Example C06_example :
  est_range (K:=Rops) [Some (100, 1500); None; Some (200, 1000)] = Ok (Some (Rmax 100 200, Rmin 1500 1000)).
Proof.
  unfold est_range; simpl. rewrite nmax_R, nmin_R.
  unfold Rltb. destruct (Rlt_dec (Rmin 1500 1000) (Rmax 100 200)) as [H|H]; auto.
  exfalso. unfold Rmin, Rmax in H.
  destruct (Rle_dec 1500 1000), (Rle_dec 100 200); lra.
Qed.
