(* C10 - unit expressions evaluate to the exact SI value and dimension.
   Statements only.  The unit and prefix tables (Gen/UnitsTable.v) are
   regenerated from /repo on every run; the first three theorems are finite
   facts about them, proved by evaluation of the model and lifted with
   forallb_forall. *)
From Coq Require Import List NArith ZArith QArith Bool.
From PG Require Import Common.Strs Units.Model Units.DB Units.SIspec
     Units.Table_proofs Units.Qty_proofs Units.Parser_proofs.
Import ListNotations.

(* every documented unit evaluates to its SI definition (value and 7 exponents) *)
Theorem C10_unit_table_SI : forall s, In s si_table -> entry_ok s = true.
Proof. exact unit_table_SI. Qed.
Print Assumptions C10_unit_table_SI.

Theorem C10_names_covered : names_covered = true.
Proof. exact names_covered_true. Qed.

(* every prefix is the power of ten the SI assigns to it *)
Theorem C10_prefix_table : forall p, In p si_prefixes -> prefix_ok p = true.
Proof. exact prefix_table. Qed.

(* every prefix x every unit (exhaustive): 10^k times the unit, unless the
   spelling is a documented name itself or has a second reading *)
Theorem C10_lookup_prefixed : forall pu, In pu pairs -> pair_ok pu = true.
Proof. exact lookup_prefixed. Qed.
Print Assumptions C10_lookup_prefixed.

(* conversion: ratio of magnitudes; incompatible => UnitsError *)
Theorem C10_in_units_ratio : forall a u, ~ qval u == 0 ->
  dim_zero (dim_div (qdim a) (qdim u)) = true ->
  exists x, q_in_units a u = UOk x /\ x == qval a / qval u.
Proof. exact in_units_ratio. Qed.
Theorem C10_in_units_incompatible : forall a u, ~ qval u == 0 ->
  dim_zero (dim_div (qdim a) (qdim u)) = false ->
  q_in_units a u = URaise UnitsErr.
Proof. exact in_units_incompatible. Qed.
Theorem C10_convert_roundtrip : forall x u, ~ qval u == 0 ->
  x * qval u / qval u == x.
Proof. exact convert_roundtrip. Qed.
Theorem C10_convert_there_and_back : forall v u w, ~ qval u == 0 -> ~ qval w == 0 ->
  ((v / qval u) * qval u) / qval w == v / qval w.
Proof. exact convert_there_and_back. Qed.
Print Assumptions C10_convert_there_and_back.

(* parsing ends with a tree or the units parse error - no internal exception *)
Theorem C10_parse_classified : forall xs xa text,
  parse_class (parse xs xa text).
Proof. exact parse_classified. Qed.
Print Assumptions C10_parse_classified.

(* ... and it never runs out of fuel: for EVERY text the parser ends with a tree
   or the units parse error (progress of every factor; fuel = tokens + 2) *)
Theorem C10_parse_total : forall xs xa text,
  match parse xs xa text with UOk _ | URaise UnitsParse => True | URaise _ => False end.
Proof. exact parse_total. Qed.
Print Assumptions C10_parse_total.

(* the whole evaluator on every text: a value, the units parse error, division
   by zero, exponentiation by a quantity, or a host floating-point power
   outside the oracle table - never out of fuel, never another exception *)
Theorem C10_eval_text_total : forall rpow xs xa ps db text,
  match eval_text rpow xs xa ps db text with
  | UOk _ | URaise UnitsParse | URaise ZeroDiv | URaise TypeErr | URaise NoOracle => True
  | URaise _ => False
  end.
Proof.
  intros rpow xs xa ps db text. unfold eval_text.
  pose proof (parse_total xs xa text) as P.
  destruct (parse xs xa text) as [t|e]; [|destruct e; simpl in *; auto].
  simpl. pose proof (eval_classified rpow ps db t) as E. unfold eval_class in E.
  destruct (eval rpow ps db t) as [v|e]; [exact I|destruct e; auto].
Qed.
Print Assumptions C10_eval_text_total.

(* evaluation ends with a value, the parse error (unknown name), one of the
   two arithmetic guards (division by zero, fractional power of a negative), or
   NoOracle: a non-integer power of a magnitude, which is the host's floating
   point and enters the model as a partial table *)
Theorem C10_eval_classified : forall rpow ps db t, eval_class (eval rpow ps db t).
Proof. exact eval_classified. Qed.
Print Assumptions C10_eval_classified.

Example C10_example :
  eval_ascii [107;74;47;109;111;108]%N = UOk (Qty 1000 [2; 1; -2; 0; 0; -1; 0])   (* kJ/mol *)
  /\ eval_ascii [100;97;109]%N = UOk (Qty 10 [1; 0; 0; 0; 0; 0; 0])              (* dam *)
  /\ eval_ascii [110;97;110]%N = URaise UnitsParse.                              (* nan *)
Proof. vm_compute. repeat split; reflexivity. Qed.
