(* C16 - a RING reaction rule applies exactly its declared edit per match.
   Statements only (lemmas in Graph/Reaction_proofs.v).  PARTIAL: atom
   conservation, the frame property for atoms and the one-product-per-match
   count are proved for every rule, molecule and match, and so is the
   rejection of every rule that leaves a labelled atom unbalanced (against an
   independent specification `contrib` of what each edit does to an atom's
   electrons), and so are the effect of each edit on the pair / atom it names
   and the frame for all other pairs of atoms.  The model (rule reader + edit
   application) is tied to the code by the correspondence on every run. *)
From Coq Require Import List NArith ZArith Arith Bool.
From PG Require Import Common.Strs Ring.Peg Ring.Reader Graph.Mol Graph.Match Graph.Reaction Graph.Reaction_proofs.
Import ListNotations.

(* the atoms of every element are conserved by every edit sequence that applies *)
Theorem C16_apply_conserves_atoms : forall img es m m',
  apply_edits img m es = Some m' -> elems m' = elems m.
Proof. exact apply_edits_conserve. Qed.
Print Assumptions C16_apply_conserves_atoms.

Theorem C16_apply_edit_conserves : forall img m e m',
  apply_edit img m e = Some m' -> elems m' = elems m.
Proof. exact apply_edit_conserves. Qed.

(* nothing else: an atom that is not the image of a labelled atom is untouched *)
Theorem C16_apply_edit_frame_atoms : forall img m e m' k,
  apply_edit img m e = Some m' -> ~ In k img -> nth_error (atoms m') k = nth_error (atoms m) k.
Proof. exact apply_edit_frame_atoms. Qed.
Print Assumptions C16_apply_edit_frame_atoms.

(* ... and every pair of atoms other than the pair a bond edit names keeps its bond *)
Theorem C16_apply_edit_frame_bonds : forall img m e m' u v,
  apply_edit img m e = Some m' ->
  (forall i j a b, edit_pair e = Some (i, j) -> nth_error img i = Some a -> nth_error img j = Some b -> ~ same_pair u v a b) ->
  bond_between m' u v = bond_between m u v.
Proof. exact apply_edit_frame_bonds. Qed.
Print Assumptions C16_apply_edit_frame_bonds.

(* ... and through a whole edit sequence (one product set): atoms outside the match and pairs no bond edit names are as in the reactant *)
Theorem C16_product_frame_atoms : forall img es m m' k, apply_edits img m es = Some m' -> ~ In k img ->
  nth_error (atoms m') k = nth_error (atoms m) k.
Proof. exact apply_edits_frame_atoms. Qed.
Theorem C16_product_frame_bonds : forall img es m m' u v, apply_edits img m es = Some m' ->
  (forall e i j a b, In e es -> edit_pair e = Some (i, j) -> nth_error img i = Some a -> nth_error img j = Some b -> ~ same_pair u v a b) ->
  bond_between m' u v = bond_between m u v.
Proof. exact apply_edits_frame_bonds. Qed.
Print Assumptions C16_product_frame_bonds.

(* precisely the declared edit on the named pair / atom *)
Theorem C16_break_effect : forall img m i j m', apply_edit img m (EBreak i j) = Some m' ->
  exists a b, nth_error img i = Some a /\ nth_error img j = Some b /\ bond_between m' a b = None /\ atoms m' = atoms m.
Proof. exact edit_break_effect. Qed.
Theorem C16_form_effect : forall img m i j t m', apply_edit img m (EForm i j t) = Some m' ->
  exists a b bd, nth_error img i = Some a /\ nth_error img j = Some b /\ a <> b /\ bond_between m a b = None
                 /\ bond_between m' a b = Some bd /\ b_t bd = t /\ atoms m' = atoms m.
Proof. exact edit_form_effect. Qed.
Theorem C16_modify_effect : forall img m i j t m', apply_edit img m (EModify i j t) = Some m' ->
  exists a b bd, nth_error img i = Some a /\ nth_error img j = Some b
                 /\ bond_between m' a b = Some bd /\ b_t bd = t /\ atoms m' = atoms m.
Proof. exact edit_modify_effect. Qed.
Theorem C16_increase_effect : forall img m i j m', apply_edit img m (EInc i j) = Some m' ->
  exists a b old bd t', nth_error img i = Some a /\ nth_error img j = Some b
    /\ bond_between m a b = Some old /\ inc_type (b_t old) = Some t'
    /\ bond_between m' a b = Some bd /\ b_t bd = t' /\ atoms m' = atoms m.
Proof. exact edit_inc_effect. Qed.
Theorem C16_decrease_effect : forall img m i j m', apply_edit img m (EDec i j) = Some m' ->
  exists a b old, nth_error img i = Some a /\ nth_error img j = Some b /\ bond_between m a b = Some old
    /\ atoms m' = atoms m
    /\ match dec_type (b_t old) with
       | Some (Some t') => exists bd, bond_between m' a b = Some bd /\ b_t bd = t'
       | Some None => bond_between m' a b = None
       | None => False
       end.
Proof. exact edit_dec_effect. Qed.
Theorem C16_atom_edit_effect : forall img m e m', apply_edit img m e = Some m' -> edit_pair e = None ->
  bonds m' = bonds m /\
  exists i a, nth_error img i = Some a /\
    forall x, nth_error (atoms m) a = Some x ->
      exists y, nth_error (atoms m') a = Some y /\ a_z y = a_z x /\ a_arom y = a_arom x /\
        match e with
        | ESetRad _ n => a_rad y = n /\ a_chg y = 0%Z
        | ERadInc _ => a_rad y = (a_rad x + 1)%N /\ a_chg y = a_chg x
        | ERadDec _ => a_rad y = (a_rad x - 1)%N /\ a_rad x <> 0%N /\ a_chg y = a_chg x
        | EChgInc _ => a_chg y = (a_chg x + 1)%Z /\ a_rad y = a_rad x
        | EChgDec _ => a_chg y = (a_chg x - 1)%Z /\ a_rad y = a_rad x
        | _ => True
        end.
Proof. exact edit_atom_effect. Qed.
Print Assumptions C16_atom_edit_effect.

(* one product set per match of the reactant pattern *)
Theorem C16_one_product_per_match : forall r m,
  length (run_rule r m) = length (matches (r_frag r) m).
Proof. exact one_product_per_match. Qed.

(* A rule that is accepted leaves the electrons of EVERY labelled atom balanced:
   rule_balance r k sums, over the rule's edits, the specification `contrib`
   (bond formed: - its order's electrons on both ends; broken: + the order the
   reactant pattern declares; order +-1: -+2; radical or charge +-1: -+2 ...),
   all in doubled units so that aromatic = 3.  Equivalently, a rule with some
   unbalanced labelled atom is rejected when read (whatever the other atoms do:
   imbalances that cancel over the whole rule do not help). *)
Theorem C16_accepted_rule_balanced : forall elements xlower t r,
  read_rule elements xlower t = ROk' r ->
  forall k, k < List.length (r_names r) -> rule_balance r k = 0%Z.
Proof. exact accepted_rule_balanced. Qed.
Print Assumptions C16_accepted_rule_balanced.

Theorem C16_unbalanced_rule_rejected : forall elements xlower t r k,
  k < List.length (r_names r) -> rule_balance r k <> 0%Z -> read_rule elements xlower t <> ROk' r.
Proof. exact unbalanced_rule_rejected. Qed.
Print Assumptions C16_unbalanced_rule_rejected.

(* non-vacuity of the balance specification: C-H scission with both radical
   increments is balanced on both labels; moving one increment to the other
   atom keeps the total but unbalances both *)
Example C16_balance_example :
  let f := {| f_atoms := []; f_bonds := [(0, 1, BtSingle)]; f_bcons := []; f_acons := []; f_stereo := []; f_mol := [] |} in
  let ok := {| r_frag := f; r_names := [[99%N]; [104%N]]; r_edits := [EBreak 0 1; ERadInc 0; ERadInc 1] |} in
  let hop := {| r_frag := f; r_names := [[99%N]; [104%N]]; r_edits := [EBreak 0 1; ERadInc 0; ERadInc 0] |} in
  (rule_balance ok 0 = 0 /\ rule_balance ok 1 = 0 /\ rule_balance hop 0 = -2 /\ rule_balance hop 1 = 2)%Z.
Proof. vm_compute. repeat split; reflexivity. Qed.

(* non-vacuity: C-H scission on the C-H of a two-atom graph *)
Definition ch : mol :=
  {| atoms := [{| a_z := 6; a_chg := 0; a_rad := 3; a_arom := false |}; {| a_z := 1; a_chg := 0; a_rad := 0; a_arom := false |}];
     bonds := [{| b_u := 0; b_v := 1; b_t := BtSingle; b_st := StNone; b_sa := [] |}]; rings := [] |}.
Example C16_example :
  match apply_edits [0; 1] ch [EBreak 0 1; ERadInc 0; ERadInc 1] with
  | Some m => bonds m = [] /\ map a_rad (atoms m) = [4; 1]%N /\ elems m = [6; 1]%N
  | None => False end.
Proof. vm_compute. repeat split; reflexivity. Qed.
