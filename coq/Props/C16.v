(* C16 - a RING reaction rule applies exactly its declared edit per match.
   Statements only (lemmas in Graph/Reaction_proofs.v).  PARTIAL: atom
   conservation, the frame property for atoms and the one-product-per-match
   count are proved for every rule, molecule and match, and so is the
   rejection of every rule that leaves a labelled atom unbalanced (against an
   independent specification `contrib` of what each edit does to an atom's
   electrons); that the edit on the NAMED atoms/bonds is exactly the declared
   one is decided by the correspondence of the executable model (rule reader
   + edit application) on every run. *)
From Coq Require Import List NArith ZArith Arith Bool.
From PG Require Import Common.Strs Ring.Peg Ring.Reader Graph.Mol Graph.Match Graph.Reaction Graph.Reaction_proofs.
Import ListNotations.

(* the atoms of every element are conserved by every edit sequence that applies *)
Theorem C16_apply_conserves_atoms : forall img es m m',
  apply_edits img m es = Some m' -> elems m' = elems m.
Proof. exact apply_edits_conserve. Qed.
Print Assumptions C16_apply_conserves_atoms.

Theorem C16_apply_edit_conserves : forall img m e m',
  apply_edit img m e = Some m' -> elems m' = elems m.
Proof. exact apply_edit_conserves. Qed.

(* nothing else: an atom that is not the image of a labelled atom is untouched *)
Theorem C16_apply_edit_frame_atoms : forall img m e m' k,
  apply_edit img m e = Some m' -> ~ In k img -> nth_error (atoms m') k = nth_error (atoms m) k.
Proof. exact apply_edit_frame_atoms. Qed.
Print Assumptions C16_apply_edit_frame_atoms.

(* one product set per match of the reactant pattern *)
Theorem C16_one_product_per_match : forall r m,
  length (run_rule r m) = length (matches (r_frag r) m).
Proof. exact one_product_per_match. Qed.

(* A rule that is accepted leaves the electrons of EVERY labelled atom balanced:
   rule_balance r k sums, over the rule's edits, the specification `contrib`
   (bond formed: - its order's electrons on both ends; broken: + the order the
   reactant pattern declares; order +-1: -+2; radical or charge +-1: -+2 ...),
   all in doubled units so that aromatic = 3.  Equivalently, a rule with some
   unbalanced labelled atom is rejected when read (whatever the other atoms do:
   imbalances that cancel over the whole rule do not help). *)
Theorem C16_accepted_rule_balanced : forall elements xlower t r,
  read_rule elements xlower t = ROk' r ->
  forall k, k < List.length (r_names r) -> rule_balance r k = 0%Z.
Proof. exact accepted_rule_balanced. Qed.
Print Assumptions C16_accepted_rule_balanced.

Theorem C16_unbalanced_rule_rejected : forall elements xlower t r k,
  k < List.length (r_names r) -> rule_balance r k <> 0%Z -> read_rule elements xlower t <> ROk' r.
Proof. exact unbalanced_rule_rejected. Qed.
Print Assumptions C16_unbalanced_rule_rejected.

(* non-vacuity of the balance specification: C-H scission with both radical
   increments is balanced on both labels; moving one increment to the other
   atom keeps the total but unbalances both *)
Example C16_balance_example :
  let f := {| f_atoms := []; f_bonds := [(0, 1, BtSingle)]; f_bcons := []; f_acons := []; f_stereo := []; f_mol := [] |} in
  let ok := {| r_frag := f; r_names := [[99%N]; [104%N]]; r_edits := [EBreak 0 1; ERadInc 0; ERadInc 1] |} in
  let hop := {| r_frag := f; r_names := [[99%N]; [104%N]]; r_edits := [EBreak 0 1; ERadInc 0; ERadInc 0] |} in
  (rule_balance ok 0 = 0 /\ rule_balance ok 1 = 0 /\ rule_balance hop 0 = -2 /\ rule_balance hop 1 = 2)%Z.
Proof. vm_compute. repeat split; reflexivity. Qed.

(* non-vacuity: C-H scission on the C-H of a two-atom graph *)
Definition ch : mol :=
  {| atoms := [{| a_z := 6; a_chg := 0; a_rad := 3; a_arom := false |}; {| a_z := 1; a_chg := 0; a_rad := 0; a_arom := false |}];
     bonds := [{| b_u := 0; b_v := 1; b_t := BtSingle; b_st := StNone; b_sa := [] |}]; rings := [] |}.
Example C16_example :
  match apply_edits [0; 1] ch [EBreak 0 1; ERadInc 0; ERadInc 1] with
  | Some m => bonds m = [] /\ map a_rad (atoms m) = [4; 1]%N /\ elems m = [6; 1]%N
  | None => False end.
Proof. vm_compute. repeat split; reflexivity. Qed.
