(* C12 - loading a library does not depend on the units its data use.
   Statements only (lemmas in Units/Loader_proofs.v). *)
From Coq Require Import List NArith ZArith QArith Bool.
From PG Require Import Common.Strs Units.Model Units.DB Units.Loader Units.Loader_proofs.
Import ListNotations.

(* the gas constant the loader divides by is what Consts.py declares *)
Theorem C12_Rconst : Rconst = Qty (1039309 # 125000) d_molar_entropy.
Proof. exact Rconst_val. Qed.

(* any molar enthalpy (any compatible unit: the quantity carries its SI
   magnitude) over R*T_ref is a PLAIN number with the expected value *)
Theorem C12_nd_H_plain : forall h t, ~ t == 0 ->
  exists x, nd_H (Qty h d_molar_energy) (Qty t d_temp) = UOk (Num x)
            /\ x == h / ((1039309 # 125000) * t).
Proof. exact nd_H_plain. Qed.
Print Assumptions C12_nd_H_plain.

Theorem C12_nd_S_plain : forall s,
  exists x, nd_S (Qty s d_molar_entropy) = UOk (Num x) /\ x == s / (1039309 # 125000).
Proof. exact nd_S_plain. Qed.

(* presentations denoting the same SI quantity load to the same number *)
Theorem C12_presentation_independent : forall h1 h2 t, h1 == h2 -> ~ t == 0 ->
  exists x1 x2, nd_H (Qty h1 d_molar_energy) (Qty t d_temp) = UOk (Num x1)
             /\ nd_H (Qty h2 d_molar_energy) (Qty t d_temp) = UOk (Num x2) /\ x1 == x2.
Proof. exact presentation_independent. Qed.
Print Assumptions C12_presentation_independent.

Theorem C12_missing_unit_rejected : forall x, qty_load None (YNum x) = LRaise LInputData.
Proof. exact missing_unit_rejected. Qed.

Theorem C12_explicit_unit_needs_no_default : forall s x d,
  eval_ascii s = UOk (Qty x d) -> forall ku, qty_load ku (YStr s) = LOk (Qty x d).
Proof. exact explicit_unit_needs_no_default. Qed.

(* the value zero is treated like any other value *)
Example C12_zero_enthalpy_is_quantity :
  with_units 0 [107;99;97;108;47;109;111;108]%N = LOk (Qty 0 d_molar_energy)
  /\ (exists x, ubind (match with_units 0 [107;99;97;108;47;109;111;108]%N with LOk h => UOk h | _ => URaise InternalErr end)
                      (fun h => nd_H h (Qty 298 d_temp)) = UOk (Num x)).
Proof. exact zero_enthalpy_is_quantity. Qed.
