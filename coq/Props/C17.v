(* C17 - a generated network is the duplicate-free closure of its seeds.
   Statements only (lemmas in Graph/Network_proofs.v).  The work list is
   abstract in the species: `expand` is any function from a species to the
   products the rules give on it (after the valence filter).  Hypothesis of
   every theorem: the seeds are pairwise distinct. *)
From Coq Require Import List Arith Bool.
From PG Require Import Graph.Network Graph.Network_proofs.
Import ListNotations.

Theorem C17_net_contains_seeds : forall expand seeds, NoDup seeds ->
  forall fuel res, generate expand fuel seeds = Some res -> forall s, In s seeds -> In s res.
Proof. exact net_contains_seeds. Qed.
Print Assumptions C17_net_contains_seeds.

Theorem C17_net_closed : forall expand seeds, NoDup seeds ->
  forall fuel res, generate expand fuel seeds = Some res ->
  forall x y, In x res -> In y (expand x) -> In y res.
Proof. exact net_closed. Qed.

(* every species obtainable by repeatedly applying the rules is listed ... *)
Theorem C17_net_complete : forall expand seeds, NoDup seeds ->
  forall fuel res, generate expand fuel seeds = Some res -> forall x, reach expand seeds x -> In x res.
Proof. exact net_complete. Qed.
Print Assumptions C17_net_complete.

(* ... and nothing else ... *)
Theorem C17_net_only_reachable : forall expand seeds, NoDup seeds ->
  forall fuel res, generate expand fuel seeds = Some res -> forall x, In x res -> reach expand seeds x.
Proof. exact net_only_reachable. Qed.

(* ... and no species twice *)
Theorem C17_net_nodup : forall expand seeds, NoDup seeds ->
  forall fuel res, generate expand fuel seeds = Some res -> NoDup res.
Proof. exact net_nodup. Qed.
Print Assumptions C17_net_nodup.

(* generation terminates whenever the closure is finite: with U listing every
   reachable species, |U|+1 iterations of the work list suffice *)
Theorem C17_net_terminates : forall expand seeds, NoDup seeds ->
  forall U, NoDup U -> (forall x, reach expand seeds x -> In x U) ->
  exists res, generate expand (S (length U)) seeds = Some res.
Proof. exact net_terminates. Qed.
Print Assumptions C17_net_terminates.

(* non-vacuity: a -> {b, c}, c -> {b}: the case in which checking only the
   processed list listed b twice *)
Definition ex_expand (x : nat) : list nat := match x with 0 => [1; 2] | 2 => [1] | _ => [] end.
Example C17_example : generate ex_expand 5 [0] = Some [1; 2; 0].
Proof. reflexivity. Qed.
