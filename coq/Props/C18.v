(* C18 - a correlation written to YAML reads back as the same correlation.
   Statements only (lemmas in Thermo/YamlRound_proofs.v).  The text layer
   (formatter output accepted by the YAML loader) is executed, not modelled:
   see the correspondence / oracle of this check. *)
From Coq Require Import List NArith ZArith QArith Qabs Qround Bool.
From PG Require Import Thermo.YamlRound Thermo.YamlRound_proofs.
Import ListNotations.

(* what "to the six significant digits written" means: relative error <= 5e-6 *)
Theorem C18_round6_error : forall x r, is_round6 x r ->
  Qabs (Qabs r - Qabs x) <= (5 # 1000000) * Qabs x.
Proof. exact round6_error. Qed.
Print Assumptions C18_round6_error.

(* the nearest integer used by the reference rounding is a correct rounding *)
Theorem C18_nearest_rounds : forall y, rounds_to y (Qfloor (y + (1 # 2))).
Proof. exact nearest_rounds. Qed.
Print Assumptions C18_nearest_rounds.

Theorem C18_presence_same_refl : forall a, presence_same a a.
Proof. exact presence_same_refl. Qed.

(* non-vacuity: 1234.5678 rounds to 1234.57 with k = 2 *)
Example C18_round6_example : is_round6 (12345678 # 10000) (123457 # 100).
Proof.
  exists 2%Z, 123457%Z. repeat split; vm_compute; intros; discriminate.
Qed.
