(* C18 - a correlation written to YAML reads back as the same correlation.
   Statements only (lemmas in Thermo/YamlRound_proofs.v).  The text layer
   (formatter output accepted by the YAML loader) is executed, not modelled:
   see the correspondence / oracle of this check. *)
From Coq Require Import List NArith ZArith QArith Qabs Qround Bool.
From Coq Require Import Reals.
From PG Require Import Thermo.YamlRound Thermo.YamlRound_proofs Thermo.YamlRound_real.
Import ListNotations.

(* what "to the six significant digits written" means: relative error <= 5e-6 *)
Theorem C18_round6_error : forall x r, is_round6 x r ->
  Qabs (Qabs r - Qabs x) <= (5 # 1000000) * Qabs x.
Proof. exact round6_error. Qed.
Print Assumptions C18_round6_error.

(* the nearest integer used by the reference rounding is a correct rounding *)
Theorem C18_nearest_rounds : forall y, rounds_to y (Qfloor (y + (1 # 2))).
Proof. exact nearest_rounds. Qed.
Print Assumptions C18_nearest_rounds.

Theorem C18_presence_same_refl : forall a, presence_same a a.
Proof. exact presence_same_refl. Qed.

(* non-vacuity: 1234.5678 rounds to 1234.57 with k = 2 *)
Example C18_round6_example : is_round6 (12345678 # 10000) (123457 # 100).
Proof.
  exists 2%Z, 123457%Z. repeat split; vm_compute; intros; discriminate.
Qed.

(* value level, over the reals: a value written in ANY unit of positive SI size to relative error eps reads back in SI to the
   same relative error (choosing other units loses nothing) ... *)
Theorem C18_unit_scaling_keeps_digits : forall x f r eps : R, (0 < f)%R ->
  (Rabs (r - x / f) <= eps * Rabs (x / f))%R -> (Rabs (r * f - x) <= eps * Rabs x)%R.
Proof. exact scale_round. Qed.
(* ... and a non-dimensional value recomputed from two written values (H / (R T_ref), S / R, Cp / R with rounded T_ref) is off
   by at most 2 eps / (1 - eps): "six significant digits" of the dimensional form, twice *)
Theorem C18_quotient_of_written_values : forall a b a' b' eps : R, (0 <= eps < 1)%R -> b <> 0%R ->
  (Rabs (a' - a) <= eps * Rabs a)%R -> (Rabs (b' - b) <= eps * Rabs b)%R ->
  b' <> 0%R /\ (Rabs (a' / b' - a / b) <= (2 * eps / (1 - eps)) * Rabs (a / b))%R.
Proof. exact quotient_round. Qed.
Print Assumptions C18_quotient_of_written_values.
