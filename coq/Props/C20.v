(* C20 - standard errors are the scaled quadratic form of the descriptors.
   Statements only (lemmas in Thermo/SE_proofs.v, Lib/Psd_cert.v).  The hypothesis 0 <= x'Mx of C20_se_value is DISCHARGED for
   the shipped libraries: their regenerated matrices carry a kernel-checked certificate of positive semi-definiteness (C14). *)
From Coq Require Import List NArith Bool Reals Lra Permutation.
From Coq Require Import ZArith.
From PG Require Import Common.Strs Thermo.Num Thermo.Estimate Thermo.SE_proofs Lib.Psd Lib.Psd_cert Gen.UqMats.
Import ListNotations.
Local Open Scope R_scope.

(* SE^2 = RMSE(T)^2 * x'Mx with x placed in basis order *)
Theorem C20_se_square_def : forall rmse basis M g x,
  count_vector (K:=Rops) basis g = Ok x ->
  se_square (K:=Rops) rmse basis M g = Ok (rmse * rmse * quad_form (K:=Rops) x M).
Proof. intros rmse basis M g x H. unfold se_square. rewrite H. reflexivity. Qed.
Print Assumptions C20_se_square_def.

(* SE = |RMSE(T)| * sqrt(x'Mx) whenever the quadratic form is non-negative *)
Theorem C20_se_value : forall rmse q, 0 <= q ->
  sqrt (rmse * rmse * q) = Rabs rmse * sqrt q.
Proof. exact se_value. Qed.
Print Assumptions C20_se_value.

Theorem C20_se_nonneg : forall x, 0 <= sqrt x.
Proof. exact se_nonneg. Qed.

(* a common factor k on all counts scales SE^2 by k^2 and SE by |k| *)
Theorem C20_se_square_scale : forall k rmse basis M g,
  se_square (K:=Rops) rmse basis M (scale_map k g) =
  match se_square (K:=Rops) rmse basis M g with
  | Ok v => Ok (k * k * v) | Raise e => Raise e end.
Proof. exact se_square_scale. Qed.
Print Assumptions C20_se_square_scale.

Theorem C20_se_scaling : forall k rmse q, 0 <= q ->
  sqrt (rmse * rmse * (k * k * q)) = Rabs k * sqrt (rmse * rmse * q).
Proof. exact se_scaling. Qed.

(* the order of the mapping does not matter *)
Theorem C20_se_order_free : forall rmse basis M g g',
  Permutation g g' -> NoDup (map fst g) ->
  se_square (K:=Rops) rmse basis M g = se_square (K:=Rops) rmse basis M g'.
Proof. exact se_order_free. Qed.
Print Assumptions C20_se_order_free.

(* a descriptor outside the basis is an error, never ignored *)
Theorem C20_out_of_basis_error : forall basis g x d c,
  In (d, c) g -> index_of d basis = None ->
  place (K:=Rops) basis g x = Raise ValueErr.
Proof. exact out_of_basis_error. Qed.
Print Assumptions C20_out_of_basis_error.

Example C20_example :
  count_vector (K:=Rops) [[65%N]; [66%N]] [([66%N], 2); ([65%N], 3)] = Ok [3; 2]
  /\ quad_form (K:=Rops) [3; 2] [[1; 0]; [0; 1]] = 3 * (1 * 3 + (0 * 2 + 0)) + (2 * (0 * 3 + (1 * 2 + 0)) + 0).
Proof. split; reflexivity. Qed.

(* for every shipped library with uncertainty data (matrix = regenerated integers / 2^s), every mapping over its basis and every
   RMSE value: the standard error is defined - SE^2 = RMSE^2 * x'Mx is non-negative *)
Theorem C20_shipped_se_square_nonneg : forall kv, In kv uq_all ->
  let '(n, m, M, L) := snd kv in
  forall s basis g rmse v, (0 <= s)%Z -> length basis = n ->
  se_square (K:=Rops) rmse basis (uq_real s M) g = Ok v -> 0 <= v.
Proof. exact uq_se_square_nonneg. Qed.
Print Assumptions C20_shipped_se_square_nonneg.
