(* C05 - correlations are thermodynamically consistent with their data.
   Statements only (lemmas in Thermo/RawData_proofs.v, Thermo/Integrals.v).
   The SciPy spline enters as three functions (value, integral, integral of
   spline(t)/t) about which the hypotheses of each theorem say what is
   assumed - nothing is assumed globally. *)
From Coq Require Import List Bool Reals Lra Permutation.
From Coquelicot Require Import Coquelicot.
From PG Require Import Thermo.Num Thermo.RawData Thermo.RawData_proofs Thermo.Integrals.
Import ListNotations.
Local Open Scope R_scope.

(* tabulated Cp/R is reproduced at its temperature (spline interpolates) *)
Theorem C05_cp_at_knots : forall (spl : R -> R) pts range H S Tref c,
  construct (K:=Rops) pts range H S Tref = Ok c ->
  (forall p, In p pts -> spl (fst p) = snd p) ->
  forall p, In p pts -> r_lo c <= fst p <= r_hi c ->
  raw_cp (K:=Rops) spl c (fst p) = Ok (snd p).
Proof. exact cp_at_knots. Qed.
Print Assumptions C05_cp_at_knots.

(* Cp is held at the end values outside the tabulated span *)
Theorem C05_cp_clamped : forall (spl : R -> R) (c : @raw Rops) T,
  r_lo c <= T <= r_hi c ->
  (T < r_minT c -> raw_cp (K:=Rops) spl c T = Ok (r_mincp c)) /\
  (r_maxT c < T -> r_minT c <= T -> raw_cp (K:=Rops) spl c T = Ok (r_maxcp c)) /\
  (r_minT c <= T <= r_maxT c -> raw_cp (K:=Rops) spl c T = Ok (spl T)).
Proof. exact cp_clamped. Qed.
Print Assumptions C05_cp_clamped.

(* reference values at the reference temperature, wherever it lies *)
Theorem C05_h_at_Tref : forall (splint : R -> R -> R),
  (forall a, splint a a = 0) ->
  forall pts range H S Tref c,
  construct (K:=Rops) pts range H S Tref = Ok c -> 0 < r_lo c ->
  raw_h (K:=Rops) splint c Tref = Ok H.
Proof. exact h_at_Tref. Qed.
Print Assumptions C05_h_at_Tref.

Theorem C05_s_at_Tref : forall (quadS : R -> R -> R),
  (forall a, quadS a a = 0) ->
  forall pts range H S Tref c,
  construct (K:=Rops) pts range H S Tref = Ok c -> 0 < r_lo c ->
  raw_s (K:=Rops) quadS lnrR c Tref = Ok S.
Proof. exact s_at_Tref. Qed.
Print Assumptions C05_s_at_Tref.

Theorem C05_g_is_h_minus_s : forall splint quadS (c : @raw Rops) T h s,
  raw_h (K:=Rops) splint c T = Ok h -> raw_s (K:=Rops) quadS lnrR c T = Ok s ->
  raw_g (K:=Rops) splint quadS lnrR c T = Ok (h - s).
Proof. exact g_is_h_minus_s. Qed.
Print Assumptions C05_g_is_h_minus_s.

(* the order in which the data points are supplied does not matter *)
Theorem C05_construct_order_independent : forall pts pts' range H S Tref,
  Permutation pts pts' -> NoDup (map fst pts) ->
  construct (K:=Rops) pts range H S Tref = construct (K:=Rops) pts' range H S Tref.
Proof. exact construct_order_independent. Qed.
Print Assumptions C05_construct_order_independent.

(* every data point lies within [min_T, max_T] of the constructed object *)
Theorem C05_construct_span : forall pts range H S Tref c,
  construct (K:=Rops) pts range H S Tref = Ok c ->
  forall p, In p pts -> r_minT c <= fst p <= r_maxT c.
Proof. exact construct_span. Qed.
Print Assumptions C05_construct_span.

(* ---- integral clauses (Coquelicot's Riemann integral is_RInt) ----
   cp_ext spl c is the heat capacity get_CpoR reports (C05_cp_is_integrand);
   T*H/RT and S/R are the reference value plus its integral (resp. of Cp/T)
   from T_ref to T for EVERY placement of T_ref and T relative to the table,
   and hence differences between two temperatures are integrals too.
   Hypotheses = the contract of SciPy's spline.integral and of quad. *)
Theorem C05_cp_is_integrand : forall (spl : R -> R) (c : @raw Rops) T,
  r_lo c <= T <= r_hi c -> raw_cp (K:=Rops) spl c T = Ok (cp_ext spl c T).
Proof. exact cp_is_cp_ext. Qed.
Print Assumptions C05_cp_is_integrand.

Theorem C05_h_is_integral_from_Tref : forall (spl : R -> R) (splint : R -> R -> R) (c : @raw Rops),
  r_minT c <= r_maxT c ->
  (forall a b, r_minT c <= a <= r_maxT c -> r_minT c <= b <= r_maxT c -> is_RInt spl a b (splint a b)) ->
  forall T, r_lo c <= T <= r_hi c -> T <> 0 ->
  exists I, raw_h (K:=Rops) splint c T = Ok ((r_H c * r_Tref c + I) / T)
            /\ is_RInt (cp_ext spl c) (r_Tref c) T I.
Proof. exact raw_h_integral. Qed.
Print Assumptions C05_h_is_integral_from_Tref.

Theorem C05_h_difference_is_integral : forall (spl : R -> R) (splint : R -> R -> R) (c : @raw Rops),
  r_minT c <= r_maxT c ->
  (forall a b, r_minT c <= a <= r_maxT c -> r_minT c <= b <= r_maxT c -> is_RInt spl a b (splint a b)) ->
  forall T1 T2 h1 h2, r_lo c <= T1 <= r_hi c -> r_lo c <= T2 <= r_hi c -> T1 <> 0 -> T2 <> 0 ->
  raw_h (K:=Rops) splint c T1 = Ok h1 -> raw_h (K:=Rops) splint c T2 = Ok h2 ->
  is_RInt (cp_ext spl c) T1 T2 (T2 * h2 - T1 * h1).
Proof. exact h_integral. Qed.
Print Assumptions C05_h_difference_is_integral.

Theorem C05_s_is_integral_from_Tref : forall (spl : R -> R) (c : @raw Rops) (quadS : R -> R -> R),
  r_minT c <= r_maxT c ->
  (forall a b, r_minT c <= a <= r_maxT c -> r_minT c <= b <= r_maxT c ->
               is_RInt (fun t => spl t / t) a b (quadS a b)) ->
  0 < r_minT c -> 0 < r_Tref c ->
  forall T, r_lo c <= T <= r_hi c -> 0 < T ->
  exists I, raw_s (K:=Rops) quadS lnrR c T = Ok (r_S c + I)
            /\ is_RInt (cpt spl c) (r_Tref c) T I.
Proof. intros spl c quadS Hs Hq. exact (raw_s_integral spl c Hs quadS lnrR (fun b a _ _ => eq_refl) Hq). Qed.
Print Assumptions C05_s_is_integral_from_Tref.

Theorem C05_s_difference_is_integral : forall (spl : R -> R) (c : @raw Rops) (quadS : R -> R -> R),
  r_minT c <= r_maxT c ->
  (forall a b, r_minT c <= a <= r_maxT c -> r_minT c <= b <= r_maxT c ->
               is_RInt (fun t => spl t / t) a b (quadS a b)) ->
  0 < r_minT c -> 0 < r_Tref c ->
  forall T1 T2 s1 s2, r_lo c <= T1 <= r_hi c -> r_lo c <= T2 <= r_hi c -> 0 < T1 -> 0 < T2 ->
  raw_s (K:=Rops) quadS lnrR c T1 = Ok s1 -> raw_s (K:=Rops) quadS lnrR c T2 = Ok s2 ->
  is_RInt (cpt spl c) T1 T2 (s2 - s1).
Proof. intros spl c quadS Hs Hq. exact (s_integral spl c Hs quadS lnrR (fun b a _ _ => eq_refl) Hq). Qed.
Print Assumptions C05_s_difference_is_integral.

(* non-vacuity of the integral hypotheses: a constant spline with its exact
   integrals satisfies both contracts *)
Example C05_integral_hyps_satisfiable :
  let c := Build_raw (K:=Rops) 300 400 200 500 2 2 1 2 300 in
  (forall a b, r_minT c <= a <= r_maxT c -> r_minT c <= b <= r_maxT c ->
     is_RInt (fun _ => 2) a b ((b - a) * 2)) /\
  (forall a b, r_minT c <= a <= r_maxT c -> r_minT c <= b <= r_maxT c ->
     is_RInt (fun t => 2 / t) a b (2 * ln (b / a))).
Proof.
  simpl. split; intros a b Ha Hb.
  - apply is_RInt_const_R.
  - apply int_inv; lra.
Qed.

(* non-vacuity: a two-point table supplied in descending order constructs *)
Example C05_example :
  exists c, construct (K:=Rops) [(400, 3); (300, 2)] (Some (200, 500)) 1 2 300 = Ok c
            /\ r_minT c = 300 /\ r_maxT c = 400 /\ r_mincp c = 2 /\ 0 < r_lo c.
Proof.
  assert (E1 : Rleb 400 300 = false)
    by (unfold Rleb; destruct (Rle_dec 400 300); [exfalso; lra|reflexivity]).
  assert (L : forall a b, ~ a < b -> Rltb a b = false)
    by (intros a b H; unfold Rltb; destruct (Rlt_dec a b); [contradiction|reflexivity]).
  exists (Build_raw (K:=Rops) 300 400 200 500 2 3 1 2 300).
  unfold construct, sort_pts. cbn [fold_left ins fst nleb Rops].
  rewrite E1. cbn [last nltb Rops orb].
  rewrite (L 300 200), (L 500 400) by lra. cbn [orb].
  rewrite (L 300 200), (L 500 300), (L 500 200) by lra. cbn [orb].
  repeat split; cbn; lra.
Qed.
