(* C13 - merging library files is a conflict-checked, order-free union.
   Statements only (lemmas in Thermo/Merge_proofs.v).  The update step of the
   model returns the new state together with what was raised, so atomicity
   is a statement and not an artefact of the model's type.  Order-freeness is
   proved for the Cp table (acceptance and result) and the valid range;
   for the reference enthalpy under a shared reference temperature the merged
   value is characterised (C13_update_H_same_Tref).  PARTIAL: the entropy
   analogue and whole include trees are decided by the tree oracle and the
   correspondence of this check. *)
From Coq Require Import List NArith Bool Reals Lra Permutation.
From PG Require Import Common.Strs Thermo.Num Thermo.RawData Thermo.RawData_proofs Thermo.Merge Thermo.Merge_proofs Thermo.Merge_lib_proofs Thermo.Merge_perm_proofs.
Import ListNotations.
Local Open Scope R_scope.

(* a rejected merge (read-only-data or incomplete-data error) leaves the
   correlation unchanged *)
Theorem C13_update_rejection_atomic : forall splint quadS lnr isclose self other ow e,
  snd (corr_update (K:=Rops) splint quadS lnr isclose self other ow) = Some e ->
  e = ReadOnlyData \/ e = IncompleteData ->
  fst (corr_update (K:=Rops) splint quadS lnr isclose self other ow) = self.
Proof. exact update_rejection_atomic. Qed.
Print Assumptions C13_update_rejection_atomic.

(* a successful merge: union of the ranges, reference temperature kept,
   nothing touched that the other correlation does not give *)
Theorem C13_update_ok_shape : forall splint quadS lnr isclose self other ow new,
  corr_update (K:=Rops) splint quadS lnr isclose self other ow = (new, None) ->
  i_Tref new = i_Tref self
  /\ i_range new = range_union (i_range self) (i_range other)
  /\ (i_tab other = [] -> i_tab new = i_tab self)
  /\ (i_H other = None -> i_S other = None -> i_H new = i_H self /\ i_S new = i_S self).
Proof. exact update_ok_shape. Qed.
Print Assumptions C13_update_ok_shape.

(* the merged heat-capacity table is the union: the other's datum where it
   gives one, this correlation's datum elsewhere *)
Theorem C13_update_table_is_union : forall splint quadS lnr isclose self other ow new,
  corr_update (K:=Rops) splint quadS lnr isclose self other ow = (new, None) ->
  i_tab other <> [] ->
  forall T, tab_get (K:=Rops) (i_tab new) T =
            match last_get (i_tab other) T with
            | Some v => Some v
            | None => tab_get (K:=Rops) (i_tab self) T
            end.
Proof. exact update_table_is_union. Qed.
Print Assumptions C13_update_table_is_union.

Theorem C13_conflict_rejected : forall self merged T v m s rest,
  tab_get (K:=Rops) self T = Some s -> tab_get (K:=Rops) merged T = Some m -> v <> m ->
  merge_tab (K:=Rops) self merged ((T, v) :: rest) false = Raise ReadOnlyData.
Proof. exact merge_tab_conflict_head. Qed.

Theorem C13_overwrite_never_rejected : forall self other merged,
  exists t, merge_tab (K:=Rops) self merged other true = Ok t.
Proof. exact merge_tab_overwrite. Qed.

(* ---------- order-freeness (Cp table and valid range) ----------
   x, y: the tables two files give for one group (dict keys: no temperature
   twice); a: what is already there.  Whether both merges are accepted does
   not depend on the order, and when they are, the merged table is the same
   map and the merged range the same interval. *)
Theorem C13_table_acceptance_order_free : forall a x y,
  NoDup (map fst x) -> NoDup (map fst y) ->
  ((exists ax axy, merge_tab (K:=Rops) a a x false = Ok ax /\ merge_tab (K:=Rops) ax ax y false = Ok axy) <->
   (exists ay ayx, merge_tab (K:=Rops) a a y false = Ok ay /\ merge_tab (K:=Rops) ay ay x false = Ok ayx)).
Proof. exact table_acceptance_order_free. Qed.
Print Assumptions C13_table_acceptance_order_free.

Theorem C13_table_order_free : forall a x y ax axy ay ayx,
  NoDup (map fst x) -> NoDup (map fst y) ->
  merge_tab (K:=Rops) a a x false = Ok ax -> merge_tab (K:=Rops) ax ax y false = Ok axy ->
  merge_tab (K:=Rops) a a y false = Ok ay -> merge_tab (K:=Rops) ay ay x false = Ok ayx ->
  forall T, tab_get (K:=Rops) axy T = tab_get (K:=Rops) ayx T.
Proof. exact table_order_free. Qed.
Print Assumptions C13_table_order_free.

(* accepted iff the file's data agree with what is there: the exact rejection criterion *)
Theorem C13_table_accepted_iff_compatible : forall s o, NoDup (map fst o) ->
  ((exists t, merge_tab (K:=Rops) s s o false = Ok t) <->
   (forall T v sv, In (T, v) o -> tab_get (K:=Rops) s T = Some sv -> v = sv)).
Proof. exact merge_tab_ok_iff. Qed.

Theorem C13_range_order_free : forall a x y : option (R * R),
  range_union (K:=Rops) (range_union (K:=Rops) a x) y = range_union (K:=Rops) (range_union (K:=Rops) a y) x.
Proof. exact range_union_order_free. Qed.
Print Assumptions C13_range_order_free.

(* the merged reference enthalpy when the files share one reference temperature
   (the property's quantifier): the other file's value where it gives one - and
   then it has passed the tolerance comparison with the value already there -,
   the value already there otherwise.  Hence the value that results from two
   files is one of the values given, and any two given values were compared. *)
Theorem C13_update_H_same_Tref : forall splint quadS isclose,
  (forall a, splint a a = 0) ->
  forall self other new,
  corr_update (K:=Rops) splint quadS lnrR isclose self other false = (new, None) ->
  i_Tref other = i_Tref self ->
  (forall pts rg H S T c, construct (K:=Rops) pts rg H S T = Ok c -> 0 < r_lo c) ->
  i_H new = match i_H other with Some h => Some h | None => i_H self end
  /\ (forall h h0, i_H other = Some h -> i_H self = Some h0 -> isclose h h0 = true).
Proof. intros splint quadS isclose Hs. exact (update_H_same_Tref splint quadS isclose Hs). Qed.
Print Assumptions C13_update_H_same_Tref.

(* ... and the merged reference entropy in the same way *)
Theorem C13_update_S_same_Tref : forall splint quadS isclose,
  (forall a, quadS a a = 0) ->
  forall self other new,
  corr_update (K:=Rops) splint quadS lnrR isclose self other false = (new, None) ->
  i_Tref other = i_Tref self ->
  (forall pts rg H S T c, construct (K:=Rops) pts rg H S T = Ok c -> 0 < r_lo c) ->
  i_S new = match i_S other with Some s => Some s | None => i_S self end
  /\ (forall s s0, i_S other = Some s -> i_S self = Some s0 -> isclose s s0 = true).
Proof. intros splint quadS isclose Hs. exact (update_S_same_Tref splint quadS isclose Hs). Qed.
Print Assumptions C13_update_S_same_Tref.

(* one file naming a group twice (two spellings canonicalise to one name, C19)
   is rejected; distinct names are all accepted *)
Theorem C13_duplicate_group_rejected : forall gs acc g c1 c2 pre mid post,
  gs = pre ++ (g, c1) :: mid ++ (g, c2) :: post ->
  own_groups (K:=Rops) gs acc = Raise KeyErr.
Proof. exact duplicate_group_rejected. Qed.
Print Assumptions C13_duplicate_group_rejected.

Theorem C13_distinct_groups_accepted : forall gs acc,
  NoDup (map fst gs) -> (forall g, In g (map fst gs) -> lib_get (K:=Rops) acc g = None) ->
  own_groups (K:=Rops) gs acc = Ok (acc ++ gs).
Proof. exact distinct_groups_accepted. Qed.

Example C13_example :
  merge_tab (K:=Rops) [(300, 1)] [(300, 1)] [(400, 2); (300, 1)] false
  = Ok [(300, 1); (400, 2)].
Proof.
  cbn [merge_tab tab_get tab_set neqb Rops negb andb].
  rewrite !Reqb_refl.
  assert (E : Reqb 300 400 = false) by (apply Reqb_false; lra).
  cbn [negb andb]. rewrite ?E. cbn. rewrite ?E, ?Reqb_refl. reflexivity.
Qed.

(* ---------- "merging the same data twice changes nothing" ---------- *)
Theorem C13_table_merge_twice : forall a x ax, NoDup (map fst x) ->
  merge_tab (K:=Rops) a a x false = Ok ax -> merge_tab (K:=Rops) ax ax x false = Ok ax.
Proof. exact table_idempotent. Qed.
Theorem C13_range_merge_twice : forall a x : option (R * R),
  range_union (K:=Rops) (range_union (K:=Rops) a x) x = range_union (K:=Rops) a x.
Proof. exact range_union_idempotent. Qed.
(* the whole correlation (table, range, reference enthalpy and entropy, the re-fit): a second merge of the same
   correlation succeeds and returns the same correlation; isclose x x holds for every finite x *)
Theorem C13_update_twice : forall splint quadS lnr isclose, (forall a, isclose a a = true) ->
  forall self other new, NoDup (map fst (i_tab other)) ->
  corr_update (K:=Rops) splint quadS lnr isclose self other false = (new, None) ->
  corr_update (K:=Rops) splint quadS lnr isclose new other false = (new, None).
Proof. exact update_idempotent. Qed.
Print Assumptions C13_update_twice.

(* ---------- whole libraries: "whatever the include order" ---------- *)
(* GroupLibrary.Update works group by group: what a group holds afterwards depends only on the data given for that group *)
Theorem C13_library_update_groupwise : forall splint quadS lnr isclose other, NoDup (map fst other) ->
  forall self res g, lib_update (K:=Rops) splint quadS lnr isclose self other false = (res, None) ->
  match lib_get (K:=Rops) other g with
  | None => lib_get (K:=Rops) res g = lib_get (K:=Rops) self g
  | Some c => match lib_get (K:=Rops) self g with
              | None => lib_get (K:=Rops) res g = Some c
              | Some mine => exists new, corr_update (K:=Rops) splint quadS lnr isclose mine c false = (new, None) /\ lib_get (K:=Rops) res g = Some new
              end
  end.
Proof. exact lib_update_get. Qed.

(* two included libraries merged into a library in either order (both orders accepted): every group ends with the same
   heat-capacity table (as a map from temperature to value) and the same valid range.  Keys of a library and temperatures of a
   table are unique (they are dict keys). *)
Theorem C13_library_order_free : forall splint quadS lnr isclose a x y ax axy ay ayx,
  NoDup (map fst x) -> NoDup (map fst y) ->
  (forall g c, lib_get (K:=Rops) x g = Some c -> NoDup (map fst (i_tab c))) ->
  (forall g c, lib_get (K:=Rops) y g = Some c -> NoDup (map fst (i_tab c))) ->
  lib_update (K:=Rops) splint quadS lnr isclose a x false = (ax, None) -> lib_update (K:=Rops) splint quadS lnr isclose ax y false = (axy, None) ->
  lib_update (K:=Rops) splint quadS lnr isclose a y false = (ay, None) -> lib_update (K:=Rops) splint quadS lnr isclose ay x false = (ayx, None) ->
  forall g, same_group (lib_get (K:=Rops) axy g) (lib_get (K:=Rops) ayx g).
Proof. exact lib_order_free. Qed.
Print Assumptions C13_library_order_free.

(* a library file that includes two files, in either order: when both orders load, every group ends with the same table and the
   same valid range ("whatever the include order") *)
Theorem C13_two_includes_order_free : forall splint quadS lnr isclose gs f1 f2 L12 L21,
  (forall l g c, load (K:=Rops) splint quadS lnr isclose f1 = Ok l -> lib_get (K:=Rops) l g = Some c -> NoDup (map fst (i_tab c))) ->
  (forall l g c, load (K:=Rops) splint quadS lnr isclose f2 = Ok l -> lib_get (K:=Rops) l g = Some c -> NoDup (map fst (i_tab c))) ->
  load (K:=Rops) splint quadS lnr isclose (File gs [f1; f2]) = Ok L12 -> load (K:=Rops) splint quadS lnr isclose (File gs [f2; f1]) = Ok L21 ->
  forall g, same_group (lib_get (K:=Rops) L12 g) (lib_get (K:=Rops) L21 g).
Proof. exact two_includes_order_free. Qed.
(* the keys of a loaded library are unique *)
Theorem C13_loaded_keys_unique : forall splint quadS lnr isclose f l,
  load (K:=Rops) splint quadS lnr isclose f = Ok l -> NoDup (map fst l).
Proof. exact load_keys. Qed.
Print Assumptions C13_two_includes_order_free.

(* ---------- any number of libraries, any order (round 4) ---------- *)
(* "holds, for every group, the union of the data given for it in all the files": after an accepted sequence of merges of the
   libraries xs into a, a group exists iff somebody gives it, and its heat-capacity table maps T to v exactly if a or one of the
   xs maps T to v for that group.  No bound on the number of libraries, groups or table points. *)
Theorem C13_library_sequence_is_union : forall splint quadS lnr isclose a xs r,
  Forall (fun x => NoDup (map fst x)) xs ->
  Forall (fun x => forall g c, lib_get (K:=Rops) x g = Some c -> NoDup (map fst (i_tab c))) xs ->
  lupd_seq splint quadS lnr isclose a xs = Some r -> forall g,
  match lib_get (K:=Rops) r g with
  | None => lib_get (K:=Rops) a g = None /\ forall x, In x xs -> lib_get (K:=Rops) x g = None
  | Some c => forall T v, tab_get (K:=Rops) (i_tab c) T = Some v <->
                exists l cs, In l (a :: xs) /\ lib_get (K:=Rops) l g = Some cs /\ tab_get (K:=Rops) (i_tab cs) T = Some v
  end.
Proof. exact lib_seq_union. Qed.
Print Assumptions C13_library_sequence_is_union.

(* ... and the group's valid range is the union of the ranges given for it (range_union folded over the sources in list order;
   C13_library_any_order below shows that the order is immaterial) *)
Theorem C13_library_sequence_range : forall splint quadS lnr isclose a xs r,
  Forall (fun x => NoDup (map fst x)) xs ->
  Forall (fun x => forall g c, lib_get (K:=Rops) x g = Some c -> NoDup (map fst (i_tab c))) xs ->
  lupd_seq splint quadS lnr isclose a xs = Some r -> forall g c, lib_get (K:=Rops) r g = Some c ->
  i_range c = fold_left (range_union (K:=Rops)) (map i_range (srcs g xs)) (orange (lib_get (K:=Rops) a g)).
Proof. exact lib_seq_range. Qed.
Print Assumptions C13_library_sequence_range.

(* "whatever the include order": two accepted merge sequences over lists of libraries that are permutations of each other leave
   every group with the same table (as a map) and the same valid range *)
Theorem C13_library_any_order : forall splint quadS lnr isclose a xs ys r1 r2, Permutation xs ys ->
  Forall (fun x => NoDup (map fst x)) xs ->
  Forall (fun x => forall g c, lib_get (K:=Rops) x g = Some c -> NoDup (map fst (i_tab c))) xs ->
  lupd_seq splint quadS lnr isclose a xs = Some r1 -> lupd_seq splint quadS lnr isclose a ys = Some r2 ->
  forall g, same_group (lib_get (K:=Rops) r1 g) (lib_get (K:=Rops) r2 g).
Proof. exact lib_perm_order_free. Qed.
Print Assumptions C13_library_any_order.

(* a library file with any number of includes, listed in any order (both orders load): same tables, same ranges *)
Theorem C13_includes_any_order : forall splint quadS lnr isclose gs incs incs' L L', Permutation incs incs' ->
  (forall i l g c, In i incs -> load (K:=Rops) splint quadS lnr isclose i = Ok l -> lib_get (K:=Rops) l g = Some c -> NoDup (map fst (i_tab c))) ->
  load (K:=Rops) splint quadS lnr isclose (File gs incs) = Ok L -> load (K:=Rops) splint quadS lnr isclose (File gs incs') = Ok L' ->
  forall g, same_group (lib_get (K:=Rops) L g) (lib_get (K:=Rops) L' g).
Proof. exact includes_perm_order_free. Qed.
Print Assumptions C13_includes_any_order.

(* non-vacuity of the any-order statements: three libraries giving three different groups merge in two different orders, and the
   hypotheses of C13_library_any_order hold for them *)
Example C13_any_order_example : forall splint quadS lnr isclose,
  let c1 := Build_inc (K:=Rops) None None [(300, 1)] 298 None in
  let c2 := Build_inc (K:=Rops) None None [(400, 2)] 298 None in
  let c3 := Build_inc (K:=Rops) None None [(500, 3); (600, 4)] 298 None in
  let x := [([1%N], c1)] in let y := [([2%N], c2)] in let z := [([3%N], c3); ([4%N], c1)] in
  lupd_seq splint quadS lnr isclose [] [x; y; z] = Some [([1%N], c1); ([2%N], c2); ([3%N], c3); ([4%N], c1)]
  /\ lupd_seq splint quadS lnr isclose [] [z; x; y] = Some [([3%N], c3); ([4%N], c1); ([1%N], c1); ([2%N], c2)]
  /\ Permutation [x; y; z] [z; x; y].
Proof.
  intros. split; [reflexivity|split; [reflexivity|]].
  apply Permutation_sym. change [z; x; y] with ([z] ++ [x; y]). change [x; y; z] with ([x; y] ++ [z]). apply Permutation_app_comm.
Qed.
