(* C11 - incompatible quantities never combine; compatible ones act as numbers.
   Statements only (lemmas in Units/Qty_proofs.v); finite over the operators,
   universal over magnitudes and exponent vectors. *)
From Coq Require Import List NArith ZArith QArith Bool.
From PG Require Import Common.Strs Units.Model Units.Qty_proofs.
Import ListNotations.

Theorem C11_incompatible_dims : forall a v d,
  dim_eqb (qdim a) d = false -> incompatible a (Qty v d).
Proof. exact incompatible_dims. Qed.

Theorem C11_incompatible_bare_nonzero : forall a v,
  Qeq_bool v 0 = false -> dim_zero (qdim a) = false -> incompatible a (Num v).
Proof. exact incompatible_bare. Qed.

Theorem C11_incompatible_ops_raise : forall a b, incompatible a b ->
  q_add a b = URaise UnitsErr /\ q_sub a b = URaise UnitsErr
  /\ q_radd a b = URaise UnitsErr /\ q_rsub a b = URaise UnitsErr
  /\ q_lt a b = URaise UnitsErr /\ q_le a b = URaise UnitsErr
  /\ q_gt a b = URaise UnitsErr /\ q_ge a b = URaise UnitsErr
  /\ q_eq a b = false /\ q_ne a b = true.
Proof. exact incompatible_ops_raise. Qed.
Print Assumptions C11_incompatible_ops_raise.

Theorem C11_bare_zero_accepted : forall a, compatible a (Num 0) = true.
Proof. exact bare_zero_accepted. Qed.

Theorem C11_compatible_ops_agree : forall a b, compatible a b = true ->
  q_add a b = UOk (build (qval a + qval b) (qdim a))
  /\ q_sub a b = UOk (build (qval a - qval b) (qdim a))
  /\ q_lt a b = UOk (Qltb (qval a) (qval b))
  /\ q_le a b = UOk (Qle_bool (qval a) (qval b))
  /\ q_gt a b = UOk (Qltb (qval b) (qval a))
  /\ q_ge a b = UOk (Qle_bool (qval b) (qval a))
  /\ q_eq a b = Qeq_bool (qval a) (qval b)
  /\ q_ne a b = negb (Qeq_bool (qval a) (qval b)).
Proof. exact compatible_ops_agree. Qed.
Print Assumptions C11_compatible_ops_agree.

Theorem C11_order_is_order_of_magnitudes : forall a b, compatible a b = true ->
  (q_lt a b = UOk true <-> qval a < qval b) /\
  (q_gt a b = UOk true <-> qval b < qval a) /\
  (q_le a b = UOk true <-> qval a <= qval b) /\
  (q_ge a b = UOk true <-> qval b <= qval a).
Proof. exact lt_is_strict_order. Qed.
Print Assumptions C11_order_is_order_of_magnitudes.

Theorem C11_mul_dims : forall a b,
  qdim (q_mul a b) = (if dim_zero (dim_mul (qdim a) (qdim b)) then dim0
                      else dim_mul (qdim a) (qdim b))
  /\ qval (q_mul a b) == qval a * qval b.
Proof. exact mul_dims. Qed.

Theorem C11_div_dims : forall a b, ~ qval b == 0 ->
  exists r, q_div a b = UOk r
  /\ qdim r = (if dim_zero (dim_div (qdim a) (qdim b)) then dim0
               else dim_div (qdim a) (qdim b))
  /\ qval r == qval a / qval b.
Proof. exact div_dims. Qed.

Theorem C11_dimensionless_is_number : forall v d,
  dim_zero d = true -> build v d = Num (Qred v).
Proof. exact dimensionless_is_number. Qed.
Theorem C11_dimensional_is_quantity : forall v d,
  dim_zero d = false -> build v d = Qty (Qred v) d.
Proof. exact dimensional_is_quantity. Qed.
Print Assumptions C11_dimensional_is_quantity.

Example C11_example :
  let m := Qty 1 (prim 0) in let s := Qty 0 (prim 2) in
  q_add m s = URaise UnitsErr /\ q_eq (Qty 0 (prim 0)) s = false
  /\ q_add m (Num 0) = UOk (Qty 1 (prim 0)) /\ q_lt m (Qty 2 (prim 0)) = UOk true
  /\ q_div m m = UOk (Num 1).
Proof. vm_compute. repeat split; reflexivity. Qed.
