(* C02 - descriptors equal the scheme file's declared decomposition.
   Statements only (lemmas in Graph/Scheme_proofs.v, Graph/Match_proofs.v).
   The nine scheme files are regenerated from /repo on every run and read by
   the Coq parser and reader: the first theorem is a finite fact about them.
   For every scheme and molecule graph: a decomposition is returned only if
   EVERY atom is hit by exactly one centre pattern (whose names it then
   carries), and an atom hit by none or by several makes the call fail with
   the pattern-match error (Graph/Centres_proofs.v); which tuples a pattern
   matches is characterised exactly in C08.  PARTIAL: the model
   (Graph/Scheme.v) IS the independent interpreter of the scheme file; its
   agreement with GetDescriptors is decided by the correspondence.  The other
   clauses are proved about it too: group counts before remaps
   (C02_group_counts), one count per distinct atom set
   (C02_descriptor_sets_cover, _once), remaps as linear substitutions (C02_remaps_linear). *)
From Coq Require Import List NArith ZArith QArith Arith Bool.
From PG Require Import Common.Strs Graph.Mol Graph.Match Graph.Scheme Graph.SchemeLoad Graph.Scheme_proofs Graph.Centres_proofs Graph.Remap_proofs Graph.Descr_equiv Gen.Schemes.
Import ListNotations.

(* every pattern and correction descriptor of every shipped scheme is readable
   by the independent reader, remaps are well-formed, chain-free and have
   unique sources, and no pattern carries a molecule-level prefix *)
Theorem C02_all_schemes_ok : forall kv, In kv all_raw -> scheme_ok (snd kv) = true.
Proof. exact all_schemes_ok. Qed.
Print Assumptions C02_all_schemes_ok.

(* an atom matched by a second centre pattern makes the call fail *)
Theorem C02_overlap_rejected : forall l i v w,
  nth_error l i = Some (Some w) -> set_name l i v = None.
Proof. exact overlap_rejected. Qed.

(* a centre is only ever given to an atom that had none *)
Theorem C02_set_name_fresh : forall l i v l', set_name l i v = Some l' -> nth_error l i = Some None.
Proof. exact set_name_fresh. Qed.

Theorem C02_set_name_length : forall l i v l', set_name l i v = Some l' -> length l' = length l.
Proof. exact set_name_length. Qed.

(* the only failure of a decomposition is the pattern-match error, and it
   happens exactly when centre assignment fails *)
Theorem C02_fail_iff_centres_fail : forall sch sssr m e,
  get_descriptors sch sssr m = SRaise e <-> assign_centres sch (aromatize sssr m) = SRaise e.
Proof. exact descriptors_fail_iff_centres_fail. Qed.
(* ---------- "each atom is classified by the ONE centre pattern that matches it" ---------- *)
(* hit_list m ps a = the centre patterns (in scheme order) having a match whose first atom is a *)
Theorem C02_one_centre_per_atom : forall sch m nm, assign_centres sch m = SOk nm ->
  length nm = natom m /\
  forall a, (a < natom m)%nat -> exists p, hit_list m (s_patterns sch) a = [p] /\ nth_error nm a = Some (p_center p, p_periph p).
Proof. exact assign_centres_unique. Qed.
Print Assumptions C02_one_centre_per_atom.

(* "matched by no centre pattern, or by more than one: the call fails with the pattern-match error" *)
Theorem C02_no_or_many_centres_fail : forall sch m a, (a < natom m)%nat ->
  length (hit_list m (s_patterns sch) a) <> 1%nat -> assign_centres sch m = SRaise PatternMatch.
Proof. exact assign_centres_fails. Qed.
Print Assumptions C02_no_or_many_centres_fail.

(* "each atom with a named centre contributes one group formed from its centre name and the multiset of its neighbours'
   peripheral names": before the remaps the count of a group name is the number of atoms contributing it *)
Theorem C02_groups_before_remaps : forall sch m nm,
  assign_groups sch m nm = apply_remaps (s_remaps sch) (raw_groups m nm).
Proof. exact assign_groups_is. Qed.
Theorem C02_group_counts : forall m nm k,
  dict_get (raw_groups m nm) k == fold_right (fun i s => occ k (group_of m nm i) + s) 0 (seq 0 (natom m)).
Proof. exact raw_groups_count. Qed.
Print Assumptions C02_group_counts.

(* "each correction descriptor is counted once per distinct set of matched atoms": the tuples that are counted represent
   every match (same atom set) and no atom set twice; the count is their number *)
Theorem C02_descriptor_sets_cover : forall l x, In x l -> exists y, In y (distinct_sets l) /\ same_set x y = true.
Proof. exact distinct_sets_cover. Qed.
Theorem C02_descriptor_sets_once : forall l, ForallOrdPairs (fun a b => same_set a b = false) (distinct_sets l).
Proof. exact distinct_sets_distinct. Qed.
Theorem C02_same_set_is_set_equality : forall a b, same_set a b = true <-> (forall x, In x a <-> In x b).
Proof. exact same_set_spec. Qed.
Print Assumptions C02_descriptor_sets_once.

(* "remap rules are applied as linear substitutions": for a dictionary with unique keys and a chain-free remap table
   (no target is itself remapped - part of the finite theorem C02_all_schemes_ok for the shipped schemes), a remapped
   name disappears and every other name keeps its count plus, from each remapped name present, count x coefficient *)
Theorem C02_remaps_linear : forall rm d, chain_free rm -> NoDup (map fst d) -> forall k,
  dict_get (apply_remaps rm d) k
  == (if src rm k && memk k (map fst d) then 0 else dict_get d k)
     + fold_right (fun s t => term rm d s k + t) 0 (map fst d).
Proof. intros rm d CF. exact (apply_remaps_linear rm CF d). Qed.
Print Assumptions C02_remaps_linear.

Theorem C02_only_pattern_error : forall sch m e, assign_centres sch m = SRaise e -> e = PatternMatch.
Proof. exact centres_only_pattern_error. Qed.
Print Assumptions C02_only_pattern_error.

(* counting into the result dictionary is addition on the named entry only *)
Theorem C02_dict_add_get : forall d k v k',
  dict_get (dict_add d k v) k' == (if str_eqb k k' then dict_get d k' + v else dict_get d k').
Proof. exact dict_add_get. Qed.
Print Assumptions C02_dict_add_get.

(* ---------- the whole decomposition in one statement ---------- *)
(* dterm m k ds = the number of distinct matched atom sets of descriptor ds in m if ds is named k, else 0 *)
Theorem C02_decomposition_spec : forall sch sssr m0 d, chain_free (s_remaps sch) -> get_descriptors sch sssr m0 = SOk d ->
  let m := aromatize sssr m0 in
  exists nm,
    assign_centres sch m = SOk nm /\ length nm = natom m
    /\ (forall a, (a < natom m)%nat -> exists p, hit_list m (s_patterns sch) a = [p] /\ nth_error nm a = Some (p_center p, p_periph p))
    /\ (forall k, dict_get (raw_groups m nm) k == fold_right (fun i s => occ k (group_of m nm i) + s) 0 (seq 0 (natom m)))
    /\ (forall k, dict_get (raw_descr sch m) k == fold_right (fun ds s => dterm m k ds + s) 0 (s_descr sch))
    /\ (forall k, let G := apply_remaps (s_remaps sch) (raw_groups m nm) in
                  let D := apply_remaps (s_remaps sch) (raw_descr sch m) in
                  dict_get d k == (if has_key D k then dict_get D k else dict_get G k))
    /\ (forall raw, NoDup (map fst raw) -> forall k,
          dict_get (apply_remaps (s_remaps sch) raw) k
          == (if src (s_remaps sch) k && memk k (map fst raw) then 0 else dict_get raw k)
             + fold_right (fun s t => term (s_remaps sch) raw s k + t) 0 (map fst raw)).
Proof. exact decomposition_spec. Qed.
Print Assumptions C02_decomposition_spec.
