(* C14 - every shipped database loads, is self-consistent and relocatable.
   Statements only.  PARTIAL: the theorems cover (i) finite facts about the
   nine scheme files regenerated from /repo on every run and (ii) the
   data-directory cache and the name-or-path decision; loading in the three
   ways with identical contents and evaluation of every group are exhaustive
   runs on the implementation in this check; (iii) the uncertainty matrices,
   regenerated from the data files as exact integer matrices (entry = double
   x 2^scale): square, symmetric and POSITIVE SEMI-DEFINITE by a certificate
   the kernel checks on every run (Lib/Psd.v: M = L L^T + D with D symmetric
   and diagonally dominant; the factor L is untrusted input). *)
From Coq Require Import List NArith ZArith Bool Reals.
From PG Require Import Common.Strs Graph.Scheme Graph.SchemeLoad Graph.Scheme_proofs Gen.Schemes Lib.DataDir Lib.DataDir_proofs.
From PG Require Import Thermo.Num Thermo.Estimate Lib.Psd Lib.Psd_proofs Lib.Psd_link Lib.Psd_cert Gen.UqMats.
Import ListNotations.

(* every pattern of every shipped scheme is readable; remaps are well-formed,
   chain-free and have unique sources *)
Theorem C14_all_schemes_ok : forall kv, In kv all_raw -> scheme_ok (snd kv) = true.
Proof. exact all_schemes_ok. Qed.
Print Assumptions C14_all_schemes_ok.

Theorem C14_nine_schemes : length all_raw = 9.
Proof. reflexivity. Qed.

(* the data directory, once determined, never changes - whatever the environment does *)
Theorem C14_data_dir_cached : forall p ws,
  fst (calls ws (Some p)) = repeat (Some p) (length ws) /\ snd (calls ws (Some p)) = Some p.
Proof. exact data_dir_cached. Qed.
Theorem C14_first_success_fixes_answer : forall w c p c' ws,
  get_data_dir w c = (Some p, c') -> fst (calls ws c') = repeat (Some p) (length ws).
Proof. exact first_success_fixes_answer. Qed.
Print Assumptions C14_first_success_fixes_answer.

Theorem C14_override_wins : forall w p, env w = Some p -> isdir w p = true -> get_data_dir w None = (Some p, Some p).
Proof. exact override_wins. Qed.
Theorem C14_failure_not_cached : forall w, fst (get_data_dir w None) = None -> snd (get_data_dir w None) = None.
Proof. exact failure_not_cached. Qed.

(* a builtin name resolves to the same path below whichever data directory is in force *)
Theorem C14_resolve_relocatable : forall ex d1 d2 p f, is_builtin_name ex p = true ->
  exists tail, resolve ex d1 p f = d1 ++ tail /\ resolve ex d2 p f = d2 ++ tail.
Proof. exact resolve_relocatable. Qed.
Theorem C14_path_like_is_path : forall ex p, existsb (N.eqb SEP) p = true \/ existsb (N.eqb DOT) p = true ->
  forall d f, resolve ex d p f = p.
Proof. exact path_like_is_path. Qed.
Print Assumptions C14_path_like_is_path.

(* ---------- the uncertainty matrices ---------- *)
(* any integer matrix with a factor passing the check is positive semi-definite (x : index -> real) *)
Theorem C14_certificate_sound : forall n m M L, cert_ok n m M L = true ->
  forall x : nat -> R, (0 <= quadf n (fun i j => IZR (entZ M i j)) x)%R.
Proof. exact cert_psd. Qed.
Print Assumptions C14_certificate_sound.

(* the regenerated matrices of the shipped libraries: square n x n (n = size of the basis), symmetric, certificate accepted *)
Theorem C14_uq_certificates : forall kv, In kv uq_all -> uq_entry_ok (snd kv) = true.
Proof. exact uq_entries_ok. Qed.
Theorem C14_three_uq_libraries : length uq_all = 3%nat.
Proof. reflexivity. Qed.

(* hence x'Mx >= 0 for the matrix the library uses (integers / 2^scale), every real count vector of the size of the basis:
   the quadratic form is the list-based quad_form of the estimate model (C20) *)
Theorem C14_uq_psd : forall kv, In kv uq_all ->
  let '(n, m, M, L) := snd kv in
  forall s : Z, (0 <= s)%Z -> forall xs : list R, length xs = n -> (0 <= quad_form (K:=Rops) xs (uq_real s M))%R.
Proof. exact uq_psd. Qed.
Print Assumptions C14_uq_psd.

Example C14_certificate_example : cert_ok 2 2 [[6; 2]; [2; 2]]%Z [[2; 1]; [1; 0]]%Z = true.
Proof. reflexivity. Qed.
