(* The two instances of a component embedding (Graph/Embed.v): a molecule
   inside a mixture (disjoint union) and a renumbered molecule. *)
From Coq Require Import List NArith ZArith Arith Bool Lia Permutation FinFun.
From PG Require Import Common.Strs Graph.Mol Graph.Match Graph.Match_proofs Graph.Embed.
Import ListNotations.

Definition btw (u v : nat) (b : mbond) : bool :=
  (Nat.eqb (b_u b) u && Nat.eqb (b_v b) v) || (Nat.eqb (b_u b) v && Nat.eqb (b_v b) u).
Lemma bond_between_btw m u v : bond_between m u v = find (btw u v) (bonds m).
Proof. reflexivity. Qed.

Definition wf_rings (m : mol) : Prop := forall r x, In r (rings m) -> In x r -> x < natom m.

(* ---------- bonds / rings renamed by a map that is injective on the atoms ---------- *)
Section Ren.
Variable phi : nat -> nat.
Variable n : nat.
Hypothesis inj : forall i j, i < n -> j < n -> phi i = phi j -> i = j.

Lemma eqb_phi i j : i < n -> j < n -> Nat.eqb (phi i) (phi j) = Nat.eqb i j.
Proof.
  intros Hi Hj. destruct (Nat.eqb_spec i j) as [->|Hne]; [apply Nat.eqb_refl|].
  apply Nat.eqb_neq. intros H. apply Hne. apply inj; auto.
Qed.

Lemma find_map {A B} (p : B -> bool) (g : A -> B) l : find p (map g l) = option_map g (find (fun x => p (g x)) l).
Proof. induction l as [|x l IH]; simpl; auto. destruct (p (g x)); auto. Qed.

Lemma find_ext_in {A} (p q : A -> bool) l : (forall x, In x l -> p x = q x) -> find p l = find q l.
Proof.
  induction l as [|x l IH]; intros H; simpl; auto. rewrite (H x) by (left; reflexivity).
  destruct (q x); auto. apply IH. intros y Hy. apply H. right. exact Hy.
Qed.

Lemma find_rn (bs : list mbond) i j : (forall b, In b bs -> b_u b < n /\ b_v b < n) -> i < n -> j < n ->
  find (btw (phi i) (phi j)) (map (rn_bond phi) bs) = option_map (rn_bond phi) (find (btw i j) bs).
Proof.
  intros Hb Hi Hj. rewrite find_map. f_equal. apply find_ext_in. intros b Hin.
  destruct (Hb b Hin) as [A B]. unfold btw. simpl. rewrite !eqb_phi by assumption. reflexivity.
Qed.

Lemma mem_nat_rn x (r : list nat) : x < n -> (forall y, In y r -> y < n) -> mem_nat (phi x) (map phi r) = mem_nat x r.
Proof.
  intros Hx Hr. unfold mem_nat. induction r as [|y r IH]; simpl; [reflexivity|].
  rewrite IH by (intros z Hz; apply Hr; right; exact Hz). rewrite eqb_phi; auto. apply Hr. left. reflexivity.
Qed.

Lemma adjacent_rn first (r : list nat) i j : first < n -> (forall y, In y r -> y < n) -> i < n -> j < n ->
  adjacent_in (phi first) (map phi r) (phi i) (phi j) = adjacent_in first r i j.
Proof.
  intros Hf Hr Hi Hj. induction r as [|x r IH]; simpl; [reflexivity|].
  assert (Hx : x < n) by (apply Hr; left; reflexivity).
  destruct r as [|y r'].
  - simpl. rewrite !eqb_phi by assumption. reflexivity.
  - assert (Hy : y < n) by (apply Hr; right; left; reflexivity).
    change (map phi (y :: r')) with (phi y :: map phi r') in *.
    rewrite !eqb_phi by assumption. f_equal. apply IH. intros z Hz. apply Hr. right. exact Hz.
Qed.
End Ren.

(* ---------- mixtures ---------- *)
Definition shift (k : nat) : nat -> nat := fun i => k + i.
Definition union (m1 m2 : mol) : mol :=
  {| atoms := atoms m1 ++ atoms m2;
     bonds := bonds m1 ++ map (rn_bond (shift (natom m1))) (bonds m2);
     rings := rings m1 ++ map (map (shift (natom m1))) (rings m2) |}.

Lemma find_app' {A} (p : A -> bool) l1 l2 :
  find p (l1 ++ l2) = match find p l1 with Some x => Some x | None => find p l2 end.
Proof. induction l1 as [|x l1 IH]; simpl; auto. destruct (p x); auto. Qed.
Lemma find_none_all {A} (p : A -> bool) l : (forall x, In x l -> p x = false) -> find p l = None.
Proof. induction l as [|x l IH]; intros H; simpl; auto. rewrite (H x) by (left; reflexivity). apply IH. intros y Hy. apply H. right. exact Hy. Qed.
Lemma flat_map_nil_all {A B} (f : A -> list B) l : (forall x, In x l -> f x = []) -> flat_map f l = [].
Proof. induction l as [|x l IH]; intros H; simpl; auto. rewrite (H x) by (left; reflexivity). apply IH. intros y Hy. apply H. right. exact Hy. Qed.
Lemma filter_nil_all {A} (p : A -> bool) l : (forall x, In x l -> p x = false) -> filter p l = [].
Proof. induction l as [|x l IH]; intros H; simpl; auto. rewrite (H x) by (left; reflexivity). apply IH. intros y Hy. apply H. right. exact Hy. Qed.
Lemma existsb_false_all {A} (p : A -> bool) l : (forall x, In x l -> p x = false) -> existsb p l = false.
Proof. induction l as [|x l IH]; intros H; simpl; auto. rewrite (H x) by (left; reflexivity). apply IH. intros y Hy. apply H. right. exact Hy. Qed.

Lemma rn_bond_id b : rn_bond (fun i => i) b = b.
Proof. destruct b; unfold rn_bond; simpl. rewrite map_id. reflexivity. Qed.

Lemma mem_nat_false x (r : list nat) : (forall y, In y r -> y <> x) -> mem_nat x r = false.
Proof.
  intros H. unfold mem_nat. apply existsb_false_all. intros y Hy. apply Nat.eqb_neq. intros ->. exact (H _ Hy eq_refl).
Qed.
Lemma adjacent_false first (r : list nat) i j : first <> i -> first <> j -> (forall y, In y r -> y <> i /\ y <> j) ->
  adjacent_in first r i j = false.
Proof.
  intros Hf1 Hf2 H. induction r as [|x r IH]; simpl; [reflexivity|].
  destruct (H x (or_introl eq_refl)) as [A B].
  assert (Nat.eqb x i = false) by (apply Nat.eqb_neq; exact A).
  assert (Nat.eqb x j = false) by (apply Nat.eqb_neq; exact B).
  destruct r as [|y r']; [rewrite H0, H1; reflexivity|].
  rewrite H0, H1. simpl. apply IH. intros z Hz. apply H. right. exact Hz.
Qed.

Lemma existsb_ext' {A} (f g : A -> bool) l : (forall x, In x l -> f x = g x) -> existsb f l = existsb g l.
Proof.
  induction l as [|x l IH]; intros H; simpl; auto. rewrite (H x) by (left; reflexivity).
  rewrite IH; auto. intros y Hy. apply H. right. exact Hy.
Qed.

Section Union.
Variables m1 m2 : mol.
Hypothesis W1 : wf_mol m1.
Hypothesis W2 : wf_mol m2.
Hypothesis R1 : wf_rings m1.
Hypothesis R2 : wf_rings m2.
Let n1 := natom m1.
Let U := union m1 m2.

Lemma union_natom : natom U = natom m1 + natom m2.
Proof. unfold natom, U, union. simpl. apply app_length. Qed.

(* a shifted bond / ring never involves an atom of the first component, and vice versa *)
Lemma shifted_bond_ge b : In b (map (rn_bond (shift n1)) (bonds m2)) -> n1 <= b_u b /\ n1 <= b_v b.
Proof. intros H. apply in_map_iff in H. destruct H as (b0 & <- & _). simpl. unfold shift. lia. Qed.
Lemma shifted_ring_ge r x : In r (map (map (shift n1)) (rings m2)) -> In x r -> n1 <= x.
Proof.
  intros H Hx. apply in_map_iff in H. destruct H as (r0 & <- & _). apply in_map_iff in Hx.
  destruct Hx as (y & <- & _). unfold shift. lia.
Qed.

Theorem embeds_left : embeds (fun i => i) m1 U.
Proof.
  constructor.
  - exact W1.
  - auto.
  - intros i Hi. unfold atom_at, U, union. simpl. apply nth_error_app1. exact Hi.
  - intros i j Hi Hj. rewrite !bond_between_btw. unfold U, union. simpl. rewrite find_app'.
    destruct (find (btw i j) (bonds m1)) as [b|]; [simpl; rewrite rn_bond_id; reflexivity|]. simpl.
    apply find_none_all. intros b Hb. destruct (shifted_bond_ge b Hb) as [A B].
    unfold btw. fold n1 in Hi, Hj.
    destruct (Nat.eqb_spec (b_u b) i); [lia|]. destruct (Nat.eqb_spec (b_u b) j); [lia|]. reflexivity.
  - intros i X b Hi H. rewrite bond_between_btw in H. apply find_some in H. destruct H as [Hin Hp].
    unfold U, union in Hin. simpl in Hin. apply in_app_or in Hin. unfold btw in Hp.
    destruct Hin as [Hin|Hin].
    + destruct (w_bonds _ W1 b Hin) as [A B]. exists X. split; [|reflexivity].
      apply orb_true_iff in Hp. destruct Hp as [Hp|Hp]; apply andb_true_iff in Hp; destruct Hp as [P Q];
        apply Nat.eqb_eq in P; apply Nat.eqb_eq in Q; lia.
    + destruct (shifted_bond_ge b Hin) as [A B]. fold n1 in Hi.
      apply orb_true_iff in Hp. destruct Hp as [Hp|Hp]; apply andb_true_iff in Hp; destruct Hp as [P Q];
        apply Nat.eqb_eq in P; apply Nat.eqb_eq in Q; lia.
  - intros i Hi. unfold bonds_of, U, union. simpl. rewrite flat_map_app.
    rewrite (flat_map_nil_all _ (map _ (bonds m2))).
    + rewrite app_nil_r. rewrite <- (map_id (flat_map _ (bonds m1))) at 1. apply map_ext. intros [b o]. simpl. rewrite rn_bond_id. reflexivity.
    + intros b Hb. destruct (shifted_bond_ge b Hb) as [A B]. fold n1 in Hi.
      destruct (Nat.eqb_spec (b_u b) i); [lia|]. destruct (Nat.eqb_spec (b_v b) i); [lia|]. reflexivity.
  - intros i Hi. unfold rings_of, U, union. simpl. rewrite filter_app.
    rewrite (filter_nil_all _ (map _ (rings m2))).
    + rewrite app_nil_r. rewrite <- (map_id (filter _ (rings m1))) at 1. apply map_ext. intros r. rewrite map_id. reflexivity.
    + intros r Hr. apply mem_nat_false. intros y Hy ->. pose proof (shifted_ring_ge r i Hr Hy). fold n1 in Hi. lia.
  - intros i Hi. unfold atom_in_ring, U, union. simpl. rewrite existsb_app.
    rewrite (existsb_false_all _ (map _ (rings m2))); [apply orb_false_r|].
    intros r Hr. apply mem_nat_false. intros y Hy ->. pose proof (shifted_ring_ge r i Hr Hy). fold n1 in Hi. lia.
  - intros i j Hi Hj. unfold bond_in_ring, U, union. simpl. rewrite existsb_app.
    rewrite (existsb_false_all _ (map _ (rings m2))); [apply orb_false_r|].
    intros r Hr. destruct r as [|x r']; [reflexivity|]. fold n1 in Hi, Hj.
    apply adjacent_false.
    + pose proof (shifted_ring_ge _ x Hr (or_introl eq_refl)). lia.
    + pose proof (shifted_ring_ge _ x Hr (or_introl eq_refl)). lia.
    + intros y Hy. pose proof (shifted_ring_ge _ y Hr Hy). lia.
Qed.

Lemma eqb_shift a b : Nat.eqb (shift n1 a) (shift n1 b) = Nat.eqb a b.
Proof. unfold shift. destruct (Nat.eqb_spec a b) as [->|H]; [apply Nat.eqb_refl|]. apply Nat.eqb_neq. lia. Qed.
Lemma shift_inj i j : i < natom m2 -> j < natom m2 -> shift n1 i = shift n1 j -> i = j.
Proof. unfold shift. lia. Qed.

Lemma flat_map_map {A B C} (f : B -> list C) (g : A -> B) l : flat_map f (map g l) = flat_map (fun x => f (g x)) l.
Proof. induction l as [|x l IH]; simpl; auto. rewrite IH. reflexivity. Qed.
Lemma map_flat_map {A B C} (g : B -> C) (f : A -> list B) l : map g (flat_map f l) = flat_map (fun x => map g (f x)) l.
Proof. induction l as [|x l IH]; simpl; auto. rewrite map_app, IH. reflexivity. Qed.
Lemma filter_map_comm {A B} (p : B -> bool) (g : A -> B) l : filter p (map g l) = map g (filter (fun x => p (g x)) l).
Proof. induction l as [|x l IH]; simpl; auto. destruct (p (g x)); simpl; rewrite IH; reflexivity. Qed.
Lemma mem_nat_shift i (r : list nat) : mem_nat (shift n1 i) (map (shift n1) r) = mem_nat i r.
Proof. unfold mem_nat. rewrite existsb_map. induction r as [|y r IH]; simpl; auto. rewrite IH, eqb_shift. reflexivity. Qed.

Theorem embeds_right : embeds (shift n1) m2 U.
Proof.
  constructor.
  - exact W2.
  - exact shift_inj.
  - intros i Hi. unfold atom_at, U, union, shift. simpl. rewrite nth_error_app2 by (unfold n1, natom; lia).
    f_equal. unfold n1, natom. lia.
  - intros i j Hi Hj. rewrite !bond_between_btw. unfold U, union. simpl. rewrite find_app'.
    rewrite (find_none_all _ (bonds m1)).
    + apply (find_rn (shift n1) (natom m2) shift_inj); auto. apply (w_bonds _ W2).
    + intros b Hb. destruct (w_bonds _ W1 b Hb) as [A B]. unfold btw, shift. fold n1 in A, B.
      destruct (Nat.eqb_spec (b_u b) (n1 + i)); [lia|]. destruct (Nat.eqb_spec (b_u b) (n1 + j)); [lia|]. reflexivity.
  - intros i X b Hi H. rewrite bond_between_btw in H. apply find_some in H. destruct H as [Hin Hp].
    unfold U, union in Hin. simpl in Hin. apply in_app_or in Hin. unfold btw, shift in Hp.
    destruct Hin as [Hin|Hin].
    + destruct (w_bonds _ W1 b Hin) as [A B]. fold n1 in A, B.
      apply orb_true_iff in Hp. destruct Hp as [Hp|Hp]; apply andb_true_iff in Hp; destruct Hp as [P Q];
        apply Nat.eqb_eq in P; apply Nat.eqb_eq in Q; lia.
    + apply in_map_iff in Hin. destruct Hin as (b0 & <- & Hb0). destruct (w_bonds _ W2 b0 Hb0) as [A B]. simpl in Hp. unfold shift in Hp.
      apply orb_true_iff in Hp. destruct Hp as [Hp|Hp]; apply andb_true_iff in Hp; destruct Hp as [P Q];
        apply Nat.eqb_eq in P; apply Nat.eqb_eq in Q.
      * exists (b_v b0). split; [exact B|]. unfold shift. lia.
      * exists (b_u b0). split; [exact A|]. unfold shift. lia.
  - intros i Hi. unfold bonds_of, U, union. simpl. rewrite flat_map_app.
    rewrite (flat_map_nil_all _ (bonds m1)).
    + simpl. rewrite flat_map_map, map_flat_map. apply flat_map_ext. intros b. simpl.
      change (n1 + b_u b) with (shift n1 (b_u b)). change (n1 + b_v b) with (shift n1 (b_v b)).
      rewrite !eqb_shift. destruct (Nat.eqb (b_u b) i); [reflexivity|]. destruct (Nat.eqb (b_v b) i); reflexivity.
    + intros b Hb. destruct (w_bonds _ W1 b Hb) as [A B]. fold n1 in A, B. unfold shift.
      destruct (Nat.eqb_spec (b_u b) (n1 + i)); [lia|]. destruct (Nat.eqb_spec (b_v b) (n1 + i)); [lia|]. reflexivity.
  - intros i Hi. unfold rings_of, U, union. simpl. rewrite filter_app.
    rewrite (filter_nil_all _ (rings m1)).
    + simpl. rewrite filter_map_comm. f_equal. apply filter_ext. intros r. apply mem_nat_shift.
    + intros r Hr. apply mem_nat_false. intros y Hy Heq. pose proof (R1 r y Hr Hy). fold n1 in H. unfold shift in Heq. lia.
  - intros i Hi. unfold atom_in_ring, U, union. simpl. rewrite existsb_app.
    rewrite (existsb_false_all _ (rings m1)).
    + simpl. rewrite existsb_map. apply existsb_ext'. intros r _. apply mem_nat_shift.
    + intros r Hr. apply mem_nat_false. intros y Hy Heq. pose proof (R1 r y Hr Hy). fold n1 in H. unfold shift in Heq. lia.
  - intros i j Hi Hj. unfold bond_in_ring, U, union. simpl. rewrite existsb_app.
    rewrite (existsb_false_all _ (rings m1)).
    + simpl. rewrite existsb_map. apply existsb_ext'. intros r Hr. destruct r as [|x r']; [reflexivity|].
      change (map (shift n1) (x :: r')) with (shift n1 x :: map (shift n1) r').
      change (shift n1 x :: map (shift n1) r') with (map (shift n1) (x :: r')).
      apply (adjacent_rn (shift n1) (natom m2) shift_inj); auto.
      * apply (R2 (x :: r')); [exact Hr|left; reflexivity].
      * intros y Hy. apply (R2 (x :: r')); assumption.
    + intros r Hr. destruct r as [|x r']; [reflexivity|]. unfold shift.
      apply adjacent_false.
      * pose proof (R1 _ x Hr (or_introl eq_refl)). fold n1 in H. lia.
      * pose proof (R1 _ x Hr (or_introl eq_refl)). fold n1 in H. lia.
      * intros y Hy. pose proof (R1 _ y Hr Hy). fold n1 in H. lia.
Qed.

(* ---------- matching in a mixture ---------- *)
Section MatchUnion.
Variable f : fragment.
Hypothesis Fwf : wf_bonds f.
Hypothesis Fmol : f_mol f = [].
Hypothesis Fconn : connected f.
Hypothesis Fne : f_atoms f <> [].

Lemma match_first M IMG : In IMG (matches f M) -> exists X, nth_error IMG 0 = Some X /\ X < natom M.
Proof.
  intros H. apply (matches_iff f M IMG Fwf) in H. destruct H as (_ & D & _).
  pose proof D as (Hl & _ & Ha & _).
  destruct IMG as [|X r]; [destruct (f_atoms f); [contradiction|discriminate]|].
  exists X. split; [reflexivity|]. destruct (f_atoms f) as [|q qs] eqn:Eq; [contradiction|].
  destruct (Ha 0 X q eq_refl eq_refl) as (a & Hat & _). eapply atom_at_lt; eauto.
Qed.

Theorem matches_union IMG :
  In IMG (matches f U) <->
  In IMG (matches f m1) \/ exists img, In img (matches f m2) /\ IMG = map (shift n1) img.
Proof.
  split.
  - intros H. destruct (match_first U IMG H) as (X & HX & Hlt). rewrite union_natom in Hlt.
    destruct (Nat.lt_ge_cases X n1) as [L|G].
    + left. destruct (matches_bwd _ m1 U embeds_left f IMG Fwf Fmol Fconn H) as (img & -> & Hin).
      * exists X. split; [exact L|exact HX].
      * rewrite map_id. exact Hin.
    + right. destruct (matches_bwd _ m2 U embeds_right f IMG Fwf Fmol Fconn H) as (img & -> & Hin).
      * exists (X - n1). split; [fold n1 in Hlt; lia|]. rewrite HX. f_equal. unfold shift. lia.
      * exists img. auto.
  - intros [H|(img & H & ->)].
    + rewrite <- (map_id IMG). apply (matches_fwd _ m1 U embeds_left f IMG Fwf Fmol H).
    + apply (matches_fwd _ m2 U embeds_right f img Fwf Fmol H).
Qed.

(* the matches of the mixture are those of the components, each exactly once *)
Theorem matches_union_perm :
  Permutation.Permutation (matches f U) (matches f m1 ++ map (map (shift n1)) (matches f m2)).
Proof.
  apply Permutation.NoDup_Permutation.
  - apply matches_nodup.
  - apply NoDup_app_intro.
    + apply matches_nodup.
    + apply FinFun.Injective_map_NoDup; [|apply matches_nodup].
      intros a b Hab. revert b Hab. induction a as [|x a IH]; intros [|y b] Hab; simpl in *; try discriminate; auto.
      inversion Hab. f_equal; [unfold shift in *; lia|apply IH; assumption].
    + intros IMG H1 H2. apply in_map_iff in H2. destruct H2 as (img & <- & H2).
      destruct (match_first m1 _ H1) as (X & HX & Hlt).
      destruct (match_first m2 _ H2) as (Y & HY & _).
      destruct img as [|y r]; [discriminate|]. simpl in HX, HY. inversion HX; inversion HY; subst. fold n1 in Hlt. unfold shift in Hlt. lia.
  - intros IMG. rewrite matches_union. rewrite in_app_iff, in_map_iff. split.
    + intros [H|(img & H & ->)]; [left; exact H|right; exists img; auto].
    + intros [H|(img & <- & H)]; [left; exact H|right; exists img; auto].
Qed.

Corollary matches_union_count :
  length (matches f U) = length (matches f m1) + length (matches f m2).
Proof. rewrite (Permutation.Permutation_length matches_union_perm), app_length, map_length. reflexivity. Qed.
End MatchUnion.
End Union.

(* ---------- renumbering ---------- *)
Definition dummy_atom : matom := {| a_z := 0; a_chg := 0; a_rad := 0; a_arom := false |}.
Definition rename_mol (phi psi : nat -> nat) (m : mol) : mol :=
  {| atoms := map (fun k => nth (psi k) (atoms m) dummy_atom) (seq 0 (natom m));
     bonds := map (rn_bond phi) (bonds m);
     rings := map (map phi) (rings m) |}.

Lemma flat_map_ext_in {A B} (f g : A -> list B) l : (forall x, In x l -> f x = g x) -> flat_map f l = flat_map g l.
Proof.
  induction l as [|x l IH]; intros H; simpl; auto. rewrite (H x) by (left; reflexivity).
  rewrite IH; auto. intros y Hy. apply H. right. exact Hy.
Qed.
Lemma filter_ext_in' {A} (f g : A -> bool) l : (forall x, In x l -> f x = g x) -> filter f l = filter g l.
Proof.
  induction l as [|x l IH]; intros H; simpl; auto. rewrite (H x) by (left; reflexivity).
  rewrite IH; auto. intros y Hy. apply H. right. exact Hy.
Qed.

Lemma Injective_map_NoDup_in' {A B} (f : A -> B) (l : list A) :
  (forall a b, In a l -> In b l -> f a = f b -> a = b) -> NoDup l -> NoDup (map f l).
Proof.
  intros H Hn. induction Hn as [|x l Hx Hn IH]; simpl; constructor.
  - intros Hin. apply in_map_iff in Hin. destruct Hin as (y & Hy & Hin).
    assert (y = x) by (apply H; [right; exact Hin|left; reflexivity|exact Hy]). subst. contradiction.
  - apply IH. intros a b Ha Hb. apply H; right; assumption.
Qed.

Section Rename.
Variable m : mol.
Variables phi psi : nat -> nat.
Hypothesis W : wf_mol m.
Hypothesis R : wf_rings m.
Let n := natom m.
Hypothesis P1 : forall i, i < n -> phi i < n /\ psi (phi i) = i.
Hypothesis P2 : forall k, k < n -> psi k < n /\ phi (psi k) = k.
Let M := rename_mol phi psi m.

Lemma phi_inj i j : i < n -> j < n -> phi i = phi j -> i = j.
Proof. intros Hi Hj H. rewrite <- (proj2 (P1 i Hi)), <- (proj2 (P1 j Hj)), H. reflexivity. Qed.

Lemma rename_natom : natom M = n.
Proof. unfold natom, M, rename_mol. simpl. rewrite map_length, seq_length. reflexivity. Qed.

Theorem embeds_rename : embeds phi m M.
Proof.
  constructor.
  - exact W.
  - exact phi_inj.
  - intros i Hi. destruct (P1 i Hi) as [A B]. unfold atom_at, M, rename_mol. simpl.
    rewrite nth_error_map. rewrite nth_error_nth' with (d := 0) by (rewrite seq_length; exact A).
    rewrite seq_nth by exact A. simpl. rewrite B. symmetry. apply nth_error_nth'. exact Hi.
  - intros i j Hi Hj. rewrite !bond_between_btw. unfold M, rename_mol. simpl.
    apply (find_rn phi n phi_inj); auto. apply (w_bonds _ W).
  - intros i X b Hi H. rewrite bond_between_btw in H. apply find_some in H. destruct H as [Hin Hp].
    unfold M, rename_mol in Hin. simpl in Hin. apply in_map_iff in Hin. destruct Hin as (b0 & <- & Hb0).
    destruct (w_bonds _ W b0 Hb0) as [A B]. unfold btw in Hp. simpl in Hp.
    apply orb_true_iff in Hp. destruct Hp as [Hp|Hp]; apply andb_true_iff in Hp; destruct Hp as [P Q];
      apply Nat.eqb_eq in P; apply Nat.eqb_eq in Q;
      [exists (b_v b0); split; [exact B|symmetry; exact Q]|exists (b_u b0); split; [exact A|symmetry; exact P]].
  - intros i Hi. unfold bonds_of, M, rename_mol. simpl. rewrite flat_map_map, map_flat_map.
    apply flat_map_ext_in. intros b Hb. destruct (w_bonds _ W b Hb) as [A B]. simpl.
    rewrite !(eqb_phi phi n phi_inj) by assumption.
    destruct (Nat.eqb (b_u b) i); [reflexivity|]. destruct (Nat.eqb (b_v b) i); reflexivity.
  - intros i Hi. unfold rings_of, M, rename_mol. simpl. rewrite filter_map_comm. f_equal.
    apply filter_ext_in'. intros r Hr. apply (mem_nat_rn phi n phi_inj); auto. intros y Hy. exact (R r y Hr Hy).
  - intros i Hi. unfold atom_in_ring, M, rename_mol. simpl. rewrite existsb_map. apply existsb_ext'.
    intros r Hr. apply (mem_nat_rn phi n phi_inj); auto. intros y Hy. exact (R r y Hr Hy).
  - intros i j Hi Hj. unfold bond_in_ring, M, rename_mol. simpl. rewrite existsb_map. apply existsb_ext'.
    intros r Hr. destruct r as [|x r']; [reflexivity|].
    change (map phi (x :: r')) with (phi x :: map phi r').
    change (phi x :: map phi r') with (map phi (x :: r')).
    apply (adjacent_rn phi n phi_inj); auto.
    + apply (R (x :: r')); [exact Hr|left; reflexivity].
    + intros y Hy. apply (R (x :: r')); assumption.
Qed.

(* matching commutes with renumbering: the matches of the renumbered molecule
   are exactly the renumbered matches *)
Theorem matches_rename f : wf_bonds f -> f_mol f = [] -> connected f -> f_atoms f <> [] ->
  Permutation (matches f M) (map (map phi) (matches f m)).
Proof.
  intros Fwf Fmol Fconn Fne. apply NoDup_Permutation.
  - apply matches_nodup.
  - apply Injective_map_NoDup_in'.
    + intros a b Ha Hb Hab.
      assert (La := denotes_lt m f a (proj1 (proj2 (proj1 (matches_iff f m a Fwf) Ha)))).
      assert (Lb := denotes_lt m f b (proj1 (proj2 (proj1 (matches_iff f m b Fwf) Hb)))).
      clear Ha Hb. revert b Lb Hab. induction a as [|x a IH]; intros [|y b] Lb Hab; simpl in *; try discriminate; auto.
      inversion Hab. f_equal.
      * apply phi_inj; auto.
      * apply IH; auto.
    + apply matches_nodup.
  - intros IMG. rewrite in_map_iff. split.
    + intros H. destruct (match_first f Fwf Fne M IMG H) as (X & HX & Hlt). rewrite rename_natom in Hlt.
      destruct (matches_bwd _ m M embeds_rename f IMG Fwf Fmol Fconn H) as (img & -> & Hin).
      * exists (psi X). destruct (P2 X Hlt) as [A B]. split; [exact A|]. rewrite B. exact HX.
      * exists img. auto.
    + intros (img & <- & H). apply (matches_fwd _ m M embeds_rename f img Fwf Fmol H).
Qed.
End Rename.
