(* Component embeddings of molecule graphs (C03, C04): if phi maps the atoms of
   m injectively onto a union of connected components of M, preserving atoms,
   bonds and ring membership, then matching a connected fragment in M inside
   the image of phi is matching it in m.  Renumbering a molecule and forming a
   mixture (disjoint union) are the two instances. *)
From Coq Require Import List NArith ZArith Arith Bool Lia.
From PG Require Import Common.Strs Graph.Mol Graph.Match Graph.Match_proofs.
Import ListNotations.

Definition rn_bond (phi : nat -> nat) (b : mbond) : mbond :=
  {| b_u := phi (b_u b); b_v := phi (b_v b); b_t := b_t b; b_st := b_st b; b_sa := map phi (b_sa b) |}.

(* every index stored in m refers to an atom of m *)
Record wf_mol (m : mol) : Prop := {
  w_bonds : forall b, In b (bonds m) -> b_u b < natom m /\ b_v b < natom m;
  w_sa : forall b x, In b (bonds m) -> In x (b_sa b) -> x < natom m }.

Record embeds (phi : nat -> nat) (m M : mol) : Prop := {
  e_wf : wf_mol m;
  e_inj : forall i j, i < natom m -> j < natom m -> phi i = phi j -> i = j;
  e_atom : forall i, i < natom m -> atom_at M (phi i) = atom_at m i;
  e_bond : forall i j, i < natom m -> j < natom m ->
           bond_between M (phi i) (phi j) = option_map (rn_bond phi) (bond_between m i j);
  e_closed : forall i X b, i < natom m -> bond_between M (phi i) X = Some b -> exists j, j < natom m /\ X = phi j;
  e_bonds_of : forall i, i < natom m ->
           bonds_of M (phi i) = map (fun bn => (rn_bond phi (fst bn), phi (snd bn))) (bonds_of m i);
  e_rings_of : forall i, i < natom m -> rings_of M (phi i) = map (map phi) (rings_of m i);
  e_in_ring : forall i, i < natom m -> atom_in_ring M (phi i) = atom_in_ring m i;
  e_bond_ring : forall i j, i < natom m -> j < natom m -> bond_in_ring M (phi i) (phi j) = bond_in_ring m i j }.

(* induction principle for the nested constraint type *)
Section AInd.
Variable P : aconstr -> Prop.
Hypothesis H1 : forall n c, P (ARadical n c).
Hypothesis H2 : forall n, P (AInRing n).
Hypothesis H3 : forall n, P (AAromatic n).
Hypothesis H4 : forall n, P (AAllylic n).
Hypothesis H5 : forall n c, P (ARingSize n c).
Hypothesis H6 : forall n c, P (ANRing n c).
Hypothesis H7 : forall n c q sub bk, Forall P sub -> P (AConn n c q sub bk).
Fixpoint aconstr_ind' (c : aconstr) : P c :=
  match c with
  | ARadical n c => H1 n c | AInRing n => H2 n | AAromatic n => H3 n | AAllylic n => H4 n
  | ARingSize n c => H5 n c | ANRing n c => H6 n c
  | AConn n c q sub bk =>
      H7 n c q sub bk ((fix go (l : list aconstr) : Forall P l :=
                          match l with [] => Forall_nil P | x :: r => Forall_cons x (aconstr_ind' x) (go r) end) sub)
  end.
End AInd.

Lemma existsb_map {A B} (f : B -> bool) (g : A -> B) l : existsb f (map g l) = existsb (fun x => f (g x)) l.
Proof. induction l; simpl; auto. rewrite IHl. reflexivity. Qed.
Lemma filter_map_length {A B} (f : B -> bool) (g : A -> B) l :
  length (filter f (map g l)) = length (filter (fun x => f (g x)) l).
Proof. induction l as [|x l IH]; simpl; auto. destruct (f (g x)); simpl; rewrite IH; reflexivity. Qed.
Lemma filter_ext_in_length {A} (f g : A -> bool) l : (forall x, In x l -> f x = g x) ->
  length (filter f l) = length (filter g l).
Proof.
  induction l as [|x l IH]; intros H; simpl; auto. rewrite (H x) by (left; reflexivity).
  destruct (g x); simpl; rewrite IH; auto; intros y Hy; apply H; right; exact Hy.
Qed.

Lemma forallb_ext' {A} (f g : A -> bool) l : (forall x, In x l -> f x = g x) -> forallb f l = forallb g l.
Proof.
  induction l as [|x l IH]; intros H; simpl; auto. rewrite (H x) by (left; reflexivity).
  rewrite IH; auto. intros y Hy. apply H. right. exact Hy.
Qed.

Section E.
Variable phi : nat -> nat.
Variables m M : mol.
Hypothesis E : embeds phi m M.

Lemma atom_lt i a : atom_at m i = Some a -> i < natom m.
Proof. apply atom_at_lt. Qed.

Lemma bond_between_in i j b : bond_between m i j = Some b -> In b (bonds m).
Proof. unfold bond_between. intros H. apply find_some in H. tauto. Qed.

Lemma bonds_of_in i b o : In (b, o) (bonds_of m i) -> In b (bonds m) /\ (o = b_u b \/ o = b_v b).
Proof.
  unfold bonds_of. intros H. apply in_flat_map in H. destruct H as (x & Hx & H).
  destruct (Nat.eqb (b_u x) i); [destruct H as [H|[]]; inversion H; subst; auto|].
  destruct (Nat.eqb (b_v x) i); [destruct H as [H|[]]; inversion H; subst; auto|destruct H].
Qed.

Lemma bonds_of_lt i b o : In (b, o) (bonds_of m i) -> o < natom m /\ b_u b < natom m /\ b_v b < natom m.
Proof.
  intros H. destruct (bonds_of_in _ _ _ H) as [Hb Ho]. destruct (w_bonds _ (e_wf _ _ _ E) b Hb) as [A B].
  destruct Ho; subst; auto.
Qed.

(* bond kinds *)
Lemma bkind_ok_rn k b : In b (bonds m) -> bkind_ok M k (rn_bond phi b) = bkind_ok m k b.
Proof.
  intros Hb. destruct (w_bonds _ (e_wf _ _ _ E) b Hb) as [A B].
  destruct k; simpl; auto; rewrite (e_bond_ring _ _ _ E) by assumption; reflexivity.
Qed.

Lemma qbond_ok_rn t b : qbond_ok t (rn_bond phi b) = qbond_ok t b.
Proof. destruct t; reflexivity. Qed.

(* atom constraints *)
Lemma acon_ok_rn : forall c i a, i < natom m -> acon_ok M c (phi i) a = acon_ok m c i a.
Proof.
  intros c. induction c as [n c|n|n|n|n c|n c|n c q sub bk HF] using aconstr_ind'; intros i a Hi; simpl.
  - reflexivity.
  - rewrite (e_in_ring _ _ _ E) by exact Hi. reflexivity.
  - reflexivity.
  - rewrite (e_bonds_of _ _ _ E) by exact Hi. rewrite existsb_map. reflexivity.
  - rewrite (e_rings_of _ _ _ E), (e_in_ring _ _ _ E) by exact Hi. rewrite existsb_map.
    assert (X : existsb (fun x => cmp c (Z.of_nat (length (map phi x)))) (rings_of m i)
                = existsb (fun r => cmp c (Z.of_nat (length r))) (rings_of m i)).
    { induction (rings_of m i) as [|r rs IH]; simpl; auto. rewrite map_length, IH. reflexivity. }
    rewrite X. reflexivity.
  - rewrite (e_rings_of _ _ _ E) by exact Hi. rewrite map_length. reflexivity.
  - f_equal. f_equal. unfold count. f_equal.
    rewrite (e_bonds_of _ _ _ E) by exact Hi. rewrite filter_map_length.
    apply filter_ext_in_length. intros [b o] Hin. simpl.
    destruct (bonds_of_lt _ _ _ Hin) as (Ho & _ & _). destruct (bonds_of_in _ _ _ Hin) as [Hb _].
    rewrite (e_atom _ _ _ E) by exact Ho. destruct (atom_at m o) as [a'|]; [|reflexivity].
    rewrite bkind_ok_rn by exact Hb. f_equal. f_equal.
    clear -HF Ho. induction HF as [|s r Hs Hr IH]; [reflexivity|]. rewrite Hs by exact Ho. rewrite IH. reflexivity.
Qed.

(* stereo constraints *)
Lemma nodup_map_inj (l : list nat) : (forall x, In x l -> x < natom m) ->
  nodup Nat.eq_dec (map phi l) = map phi (nodup Nat.eq_dec l).
Proof.
  induction l as [|x l IH]; intros H; simpl; [reflexivity|].
  assert (Hl : forall y, In y l -> y < natom m) by (intros y Hy; apply H; right; exact Hy).
  destruct (in_dec Nat.eq_dec x l) as [i|n]; destruct (in_dec Nat.eq_dec (phi x) (map phi l)) as [i'|n'].
  - apply IH; exact Hl.
  - exfalso. apply n'. apply in_map. exact i.
  - exfalso. apply in_map_iff in i'. destruct i' as (y & Hy & Hin).
    assert (y = x) by (apply (e_inj _ _ _ E); [apply Hl; exact Hin|apply H; left; reflexivity|exact Hy]).
    subst. contradiction.
  - simpl. rewrite IH by exact Hl. reflexivity.
Qed.

Lemma mem_nat_phi x l : x < natom m -> (forall y, In y l -> y < natom m) -> mem_nat (phi x) (map phi l) = mem_nat x l.
Proof.
  intros Hx Hl. unfold mem_nat. rewrite existsb_map.
  induction l as [|y l IH]; simpl; [reflexivity|]. rewrite IH by (intros z Hz; apply Hl; right; exact Hz). f_equal.
  destruct (Nat.eqb_spec x y) as [->|Hne]; [apply Nat.eqb_refl|].
  apply Nat.eqb_neq. intros Heq. apply Hne. apply (e_inj _ _ _ E); auto. apply Hl. left. reflexivity.
Qed.

Lemma nth_error_map_phi (img : list nat) k : nth_error (map phi img) k = option_map phi (nth_error img k).
Proof. apply nth_error_map. Qed.

Lemma stereo_ok_rn q img : (forall x, In x img -> x < natom m) ->
  stereo_ok M q (map phi img) = stereo_ok m q img.
Proof.
  intros Himg. unfold stereo_ok. rewrite !nth_error_map_phi.
  destruct (nth_error img (s1 q)) as [i1|] eqn:E1; [|reflexivity].
  destruct (nth_error img (s2 q)) as [i2|] eqn:E2; [|reflexivity].
  destruct (nth_error img (s3 q)) as [i3|] eqn:E3; [|reflexivity].
  destruct (nth_error img (s4 q)) as [i4|] eqn:E4; [|reflexivity]. simpl.
  assert (L1 := Himg _ (nth_error_In _ _ E1)). assert (L2 := Himg _ (nth_error_In _ _ E2)).
  assert (L3 := Himg _ (nth_error_In _ _ E3)). assert (L4 := Himg _ (nth_error_In _ _ E4)).
  rewrite (e_bond _ _ _ E) by assumption.
  destruct (bond_between m i3 i4) as [b|] eqn:Eb; [|reflexivity]. simpl.
  destruct (b_st b) eqn:Est; try reflexivity.
  all: assert (Hsa : forall x, In x (b_sa b) -> x < natom m)
         by (intros x Hx; eapply (w_sa _ (e_wf _ _ _ E)); [eapply bond_between_in; eauto|exact Hx]).
  all: rewrite (nodup_map_inj _ Hsa), filter_map_length.
  all: rewrite (filter_ext_in_length _ (fun x => mem_nat x [i1; i2])); [reflexivity|].
  all: intros x Hx; apply nodup_In in Hx; rewrite <- (mem_nat_phi x [i1; i2]); [reflexivity|apply Hsa; exact Hx|].
  all: intros y [<-|[<-|[]]]; assumption.
Qed.

(* the three filters on a renamed tuple *)
Section Filters.
Variable f : fragment.
Variable img : list nat.
Hypothesis Himg : forall x, In x img -> x < natom m.

Lemma bcons_ok_rn : bcons_ok f M (map phi img) = bcons_ok f m img.
Proof.
  unfold bcons_ok. apply forallb_ext'. intros [[i j] k] _. rewrite !nth_error_map_phi.
  destruct (nth_error img i) as [a|] eqn:Ea; [|reflexivity].
  destruct (nth_error img j) as [b|] eqn:Eb; [|reflexivity]. simpl.
  rewrite (e_bond _ _ _ E) by (apply Himg; eapply nth_error_In; eauto).
  destruct (bond_between m a b) as [bd|] eqn:Ebd; [|reflexivity]. simpl.
  apply bkind_ok_rn. eapply bond_between_in; eauto.
Qed.

Lemma acons_ok_rn : acons_ok f M (map phi img) = acons_ok f m img.
Proof.
  unfold acons_ok. apply forallb_ext'. intros [i c] _. simpl. rewrite nth_error_map_phi.
  destruct (nth_error img i) as [a|] eqn:Ea; [|reflexivity]. simpl.
  assert (La : a < natom m) by (apply Himg; eapply nth_error_In; eauto).
  rewrite (e_atom _ _ _ E) by exact La. destruct (atom_at m a); [|reflexivity].
  apply acon_ok_rn. exact La.
Qed.

Lemma scons_ok_rn : scons_ok f M (map phi img) = scons_ok f m img.
Proof. unfold scons_ok. apply forallb_ext'. intros q _. apply stereo_ok_rn. exact Himg. Qed.
End Filters.

(* ---------- embeddings the fragment denotes ---------- *)
Lemma denotes_lt f img : Denotes f m img -> forall x, In x img -> x < natom m.
Proof.
  intros (Hl & _ & Ha & _) x Hx. apply In_nth_error in Hx. destruct Hx as [k Hk].
  assert (k < length (f_atoms f)) by (rewrite <- Hl; apply nth_error_Some; congruence).
  destruct (nth_error (f_atoms f) k) as [q|] eqn:Eq; [|apply nth_error_None in Eq; lia].
  destruct (Ha _ _ _ Hk Eq) as (a & Hat & _). eapply atom_lt; eauto.
Qed.

Lemma NoDup_map_phi (l : list nat) : (forall x, In x l -> x < natom m) -> NoDup l -> NoDup (map phi l).
Proof.
  intros Hl Hn. induction Hn as [|x l Hx Hn IH]; simpl; constructor.
  - intros Hin. apply in_map_iff in Hin. destruct Hin as (y & Hy & Hin).
    assert (y = x) by (apply (e_inj _ _ _ E); [apply Hl; right; exact Hin|apply Hl; left; reflexivity|exact Hy]).
    subst. contradiction.
  - apply IH. intros y Hy. apply Hl. right. exact Hy.
Qed.

Theorem denotes_fwd f img : Denotes f m img -> Denotes f M (map phi img).
Proof.
  intros D. pose proof (denotes_lt f img D) as Hlt. destruct D as (Hl & Hn & Ha & Hb).
  split; [rewrite map_length; exact Hl|]. split; [apply NoDup_map_phi; assumption|]. split.
  - intros k C q Hk Hq. rewrite nth_error_map_phi in Hk.
    destruct (nth_error img k) as [c|] eqn:Ec; [|discriminate]. inversion Hk; subst C.
    destruct (Ha _ _ _ Ec Hq) as (a & Hat & Hok). exists a. split; [|exact Hok].
    rewrite (e_atom _ _ _ E); [exact Hat|]. apply Hlt. eapply nth_error_In; eauto.
  - intros i j t CI CJ Hin Hi Hj. rewrite nth_error_map_phi in Hi, Hj.
    destruct (nth_error img i) as [ci|] eqn:Ei; [|discriminate]. destruct (nth_error img j) as [cj|] eqn:Ej; [|discriminate].
    inversion Hi; inversion Hj; subst CI CJ.
    destruct (Hb _ _ _ _ _ Hin Ei Ej) as (b & Hbb & Hok).
    exists (rn_bond phi b). split; [|rewrite qbond_ok_rn; exact Hok].
    rewrite (e_bond _ _ _ E), Hbb; [reflexivity| |]; apply Hlt; eapply nth_error_In; eauto.
Qed.

Lemma in_image_all f IMG : connected f -> Denotes f M IMG ->
  (exists i0, i0 < natom m /\ nth_error IMG 0 = Some (phi i0)) ->
  forall k X, nth_error IMG k = Some X -> exists i, i < natom m /\ X = phi i.
Proof.
  intros Hc (Hl & Hn & Ha & Hb) (i0 & Hi0 & H0) k.
  induction k as [k IH] using lt_wf_ind. intros X Hk.
  destruct k as [|k']; [rewrite H0 in Hk; inversion Hk; eauto|].
  assert (Hlt : S k' < length (f_atoms f)) by (rewrite <- Hl; apply nth_error_Some; congruence).
  destruct (Hc (S k')) as (j & t & Hj & Hin); [lia|].
  destruct (nth_error IMG j) as [Y|] eqn:Ey; [|apply nth_error_None in Ey; lia].
  destruct (IH j Hj Y Ey) as (ij & Hij & ->).
  assert (exists b, bond_between M (phi ij) X = Some b) as [b Hbb].
  { destruct Hin as [Hin|Hin].
    - destruct (Hb _ _ _ _ _ Hin Hk Ey) as (b & Hbb & _). exists b. rewrite bond_between_sym. exact Hbb.
    - destruct (Hb _ _ _ _ _ Hin Ey Hk) as (b & Hbb & _). exists b. exact Hbb. }
  eapply (e_closed _ _ _ E); eauto.
Qed.

Lemma preimage_list (L : list nat) : (forall X, In X L -> exists i, i < natom m /\ X = phi i) ->
  exists l, L = map phi l /\ forall x, In x l -> x < natom m.
Proof.
  induction L as [|X L IH]; intros H; [exists []; split; [reflexivity|intros x []]|].
  destruct (H X (or_introl eq_refl)) as (i & Hi & ->).
  destruct IH as (l & -> & Hl); [intros Y HY; apply H; right; exact HY|].
  exists (i :: l). split; [reflexivity|]. intros x [<-|Hx]; auto.
Qed.

Theorem denotes_bwd_map f img : (forall x, In x img -> x < natom m) ->
  Denotes f M (map phi img) -> Denotes f m img.
Proof.
  intros Hlt (Hl & Hn & Ha & Hb). rewrite map_length in Hl.
  split; [exact Hl|]. split; [eapply NoDup_map_inv; eauto|]. split.
  - intros k c q Hk Hq. destruct (Ha k (phi c) q) as (a & Hat & Hok); [rewrite nth_error_map_phi, Hk; reflexivity|exact Hq|].
    exists a. split; [|exact Hok]. rewrite <- (e_atom _ _ _ E); [exact Hat|]. apply Hlt. eapply nth_error_In; eauto.
  - intros i j t ci cj Hin Hi Hj.
    destruct (Hb i j t (phi ci) (phi cj) Hin) as (B & HB & Hok);
      [rewrite nth_error_map_phi, Hi; reflexivity|rewrite nth_error_map_phi, Hj; reflexivity|].
    rewrite (e_bond _ _ _ E) in HB by (apply Hlt; eapply nth_error_In; eauto).
    destruct (bond_between m ci cj) as [b|]; [|discriminate]. simpl in HB. inversion HB; subst B.
    exists b. split; [reflexivity|]. rewrite qbond_ok_rn in Hok. exact Hok.
Qed.

Theorem denotes_bwd f IMG : connected f -> Denotes f M IMG ->
  (exists i0, i0 < natom m /\ nth_error IMG 0 = Some (phi i0)) ->
  exists img, IMG = map phi img /\ Denotes f m img.
Proof.
  intros Hc D H0.
  destruct (preimage_list IMG) as (img & -> & Hlt).
  { intros X HX. apply In_nth_error in HX. destruct HX as [k Hk]. eapply in_image_all; eauto. }
  exists img. split; [reflexivity|]. apply denotes_bwd_map; assumption.
Qed.

(* ---------- the matcher ---------- *)
Theorem matches_fwd f img : wf_bonds f -> f_mol f = [] ->
  In img (matches f m) -> In (map phi img) (matches f M).
Proof.
  intros Hwf Hm H. apply (matches_iff f m img Hwf) in H. destruct H as (_ & D & B & A & S).
  pose proof (denotes_lt f img D) as Hlt.
  apply (matches_iff f M _ Hwf). rewrite Hm. split; [reflexivity|]. split; [apply denotes_fwd; exact D|].
  rewrite bcons_ok_rn, acons_ok_rn, scons_ok_rn by exact Hlt. auto.
Qed.

Theorem matches_bwd f IMG : wf_bonds f -> f_mol f = [] -> connected f ->
  In IMG (matches f M) -> (exists i0, i0 < natom m /\ nth_error IMG 0 = Some (phi i0)) ->
  exists img, IMG = map phi img /\ In img (matches f m).
Proof.
  intros Hwf Hm Hc H H0. apply (matches_iff f M IMG Hwf) in H. destruct H as (_ & D & B & A & S).
  destruct (denotes_bwd f IMG Hc D H0) as (img & -> & Dm).
  pose proof (denotes_lt f img Dm) as Hlt.
  exists img. split; [reflexivity|]. apply (matches_iff f m img Hwf). rewrite Hm. split; [reflexivity|]. split; [exact Dm|].
  rewrite bcons_ok_rn, acons_ok_rn, scons_ok_rn in * by exact Hlt. auto.
Qed.
End E.
