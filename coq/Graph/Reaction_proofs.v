From Coq Require Import List NArith ZArith Arith Bool Lia String.
From PG Require Import Common.Strs Ring.Peg Ring.Reader Graph.Mol Graph.Match Graph.Reaction.
Import ListNotations.
Notation length := List.length.

Definition elems (m : mol) : list N := map a_z (atoms m).

Lemma upd_atom_elems l i f : (forall x, a_z (f x) = a_z x) -> map a_z (upd_atom l i f) = map a_z l.
Proof.
  intros Hf. revert i; induction l as [|a l IH]; intros [|i]; simpl; auto.
  - rewrite Hf. reflexivity.
  - rewrite IH. reflexivity.
Qed.

Lemma add_bond_elems m i j t m' : add_bond_m m i j t = Some m' -> elems m' = elems m.
Proof.
  unfold add_bond_m. destruct (Nat.eqb i j); [discriminate|].
  destruct (bond_between m i j); [discriminate|]. intros H; inversion H; reflexivity.
Qed.

(* no edit adds, removes or transmutes an atom *)
Theorem apply_edit_conserves img m e m' : apply_edit img m e = Some m' -> elems m' = elems m.
Proof.
  destruct e; simpl; intros H;
    repeat match type of H with
           | match ?x with _ => _ end = _ => destruct x eqn:?; try discriminate
           | (if ?x then _ else _) = _ => destruct x eqn:?; try discriminate
           end;
    try (apply add_bond_elems in H; exact H);
    try (inversion H; subst; reflexivity);
    try (inversion H; subst; unfold elems, set_atoms; simpl; apply upd_atom_elems; reflexivity).
Qed.

Theorem apply_edits_conserve img es : forall m m', apply_edits img m es = Some m' -> elems m' = elems m.
Proof.
  unfold apply_edits. induction es as [|e es IH]; intros m m' H; simpl in H.
  - inversion H; reflexivity.
  - destruct (apply_edit img m e) as [m1|] eqn:E.
    + rewrite (IH m1 m' H). eapply apply_edit_conserves; eauto.
    + exfalso. clear -H. induction es; simpl in H; [discriminate|auto].
Qed.

(* one product graph per match of the reactant pattern *)
Theorem one_product_per_match r m : length (run_rule r m) = length (matches (r_frag r) m).
Proof. unfold run_rule. apply map_length. Qed.

(* frame: atoms that are not images of labelled atoms keep charge and radicals *)
Lemma upd_atom_other l i f k : k <> i -> nth_error (upd_atom l i f) k = nth_error l k.
Proof.
  revert i k; induction l as [|a l IH]; intros i k H.
  - destruct i; reflexivity.
  - destruct i as [|i], k as [|k]; simpl; auto; try lia.
Qed.

Lemma add_bond_atoms m i j t m' : add_bond_m m i j t = Some m' -> atoms m' = atoms m.
Proof.
  unfold add_bond_m. destruct (Nat.eqb i j); [discriminate|].
  destruct (bond_between m i j); [discriminate|]. intros H; inversion H; reflexivity.
Qed.

Theorem apply_edit_frame_atoms img m e m' k :
  apply_edit img m e = Some m' -> ~ In k img -> nth_error (atoms m') k = nth_error (atoms m) k.
Proof.
  intros H Hk.
  assert (G : forall i a, nth_error img i = Some a -> k <> a)
    by (intros i a Hi ->; apply Hk; eapply nth_error_In; eauto).
  destruct e; simpl in H;
    repeat match type of H with
           | match ?x with _ => _ end = _ => destruct x eqn:?; try discriminate
           | (if ?x then _ else _) = _ => destruct x eqn:?; try discriminate
           end;
    try (apply add_bond_atoms in H; rewrite H; reflexivity);
    try (inversion H; subst; reflexivity);
    try (inversion H; subst; unfold set_atoms; simpl; apply upd_atom_other; eapply G; eauto).
Qed.

(* ---------- the electron balance of an accepted rule ----------
   Independent specification: what each edit does to (twice) the electron
   count of a labelled atom, read off the edit and the reactant fragment only. *)
Definition tb (t : btype) : Z := match type_bal t with Some z => z | None => 0%Z end.
Definition contrib (f : fragment) (e : edit) : list (nat * Z) :=
  match e with
  | EForm i j t => [(i, (- tb t)%Z); (j, (- tb t)%Z)]
  | EBreak i j => match qbond_type f i j with Some t => [(i, tb t); (j, tb t)] | None => [] end
  | EModify i j nt => match qbond_type f i j with
                      | Some t => [(i, (tb t - tb nt)%Z); (j, (tb t - tb nt)%Z)] | None => [] end
  | EInc i j => [(i, (-2)%Z); (j, (-2)%Z)]
  | EDec i j => [(i, 2%Z); (j, 2%Z)]
  | ESetRad i n => [(i, (- (2 * Z.of_N n))%Z)]
  | ERadInc i => [(i, (-2)%Z)] | ERadDec i => [(i, 2%Z)]
  | EChgInc i => [(i, (-2)%Z)] | EChgDec i => [(i, 2%Z)]
  end.
Definition delta_at (k : nat) (l : list (nat * Z)) : Z :=
  fold_right (fun p acc => if Nat.eqb (fst p) k then (snd p + acc)%Z else acc) 0%Z l.
Definition rule_balance (r : rule) (k : nat) : Z :=
  delta_at k (flat_map (contrib (r_frag r)) (r_edits r)).

Definition bal_fold (ds : list (nat * Z)) (b : list Z) : list Z :=
  fold_left (fun b id => bal_add b (fst id) (snd id)) ds b.

Lemma bal_add_length b i d : length (bal_add b i d) = length b.
Proof. revert i; induction b as [|x b IH]; intros [|i]; simpl; auto. Qed.

Lemma bal_add_nth b i d k : k < length b ->
  nth k (bal_add b i d) 0%Z = (nth k b 0 + (if Nat.eqb i k then d else 0))%Z.
Proof.
  revert i k; induction b as [|x b IH]; intros i k Hk; simpl in Hk; [lia|].
  destruct i as [|i], k as [|k]; simpl; try lia.
  - apply IH. lia.
Qed.

Lemma bal_fold_length ds : forall b, length (bal_fold ds b) = length b.
Proof. induction ds as [|p ds IH]; intros b; simpl; auto. unfold bal_fold in *. simpl. rewrite IH. apply bal_add_length. Qed.

Lemma bal_fold_nth ds : forall b k, k < length b ->
  nth k (bal_fold ds b) 0%Z = (nth k b 0 + delta_at k ds)%Z.
Proof.
  induction ds as [|p ds IH]; intros b k Hk; simpl; [lia|].
  unfold bal_fold in *. simpl. rewrite IH by (rewrite bal_add_length; exact Hk).
  rewrite bal_add_nth by exact Hk. destruct (Nat.eqb (fst p) k); lia.
Qed.

Lemma bal_fold_app a b l : bal_fold (a ++ b) l = bal_fold b (bal_fold a l).
Proof. unfold bal_fold. apply fold_left_app. Qed.

Lemma bond_bal_type s bt b : bond_bal s = Some (bt, b) -> tb bt = b.
Proof.
  unfold bond_bal. repeat (destruct (is s _); [intros H; inversion H; reflexivity|]). discriminate.
Qed.

(* the bookkeeping invariant of the rule reader *)
Definition RInv (n : nat) (st : rstate) : Prop :=
  st_bal st = bal_fold (flat_map (contrib (st_frag st)) (st_edits st)) (repeat 0%Z n).

Lemma with_edit_inv n st e ds : RInv n st -> ds = contrib (st_frag st) e -> RInv n (with_edit st e ds).
Proof.
  unfold RInv, with_edit. simpl. intros H ->. rewrite flat_map_app, bal_fold_app, <- H. simpl.
  rewrite app_nil_r. reflexivity.
Qed.

Lemma opt_bondtype_tb l bt b r : opt_bondtype l = ROk' (bt, b, r) -> tb bt = b.
Proof.
  unfold opt_bondtype. destruct l as [|t l]; [discriminate|].
  destruct (is_node "BondType"%string t).
  - destruct (kids t) as [|[? ?|s|?] [|? ?]]; try discriminate.
    destruct (bond_bal s) as [[bt' b']|] eqn:E; [|discriminate].
    intros H; inversion H; subst. eapply bond_bal_type; eauto.
  - intros H; inversion H; reflexivity.
Qed.

Ltac brk H := repeat match type of H with
  | (if ?x then _ else _) = _ => destruct x eqn:?
  | rbind ?x _ = _ => destruct x eqn:?; cbn [rbind] in H
  | match ?x with _ => _ end = _ => destruct x eqn:?
  end; try discriminate.

Lemma read_change_inv n st c st' : read_change st c = ROk' st' -> RInv n st ->
  RInv n st' /\ st_frag st' = st_frag st /\ st_names st' = st_names st.
Proof.
  intros H I. unfold read_change in H. brk H.
  all: inversion H; subst; clear H; (split; [|split; reflexivity]); apply with_edit_inv; try exact I.
  all: unfold contrib;
    repeat match goal with
    | H : qbond_type _ _ _ = Some _ |- _ => rewrite H; clear H
    | H : opt_bondtype _ = ROk' _ |- _ => apply opt_bondtype_tb in H
    | H : bond_bal _ = Some _ |- _ => apply bond_bal_type in H
    end; try reflexivity.
  all: try (subst; reflexivity).
  all: try (match goal with H : btype_eqb _ ?b = true |- _ => destruct b; try discriminate H end; subst; reflexivity).
  all: try (match goal with H : type_bal _ = Some ?z |- _ => cbn in H; inversion H; subst; reflexivity end).
Qed.

Lemma read_tchain_inv n fuel : forall st t st', read_tchain fuel st t = ROk' st' -> RInv n st ->
  RInv n st' /\ st_frag st' = st_frag st /\ st_names st' = st_names st.
Proof.
  induction fuel as [|f IH]; intros st t st' H I; simpl in H; [discriminate|].
  destruct (kids t) as [|cc rest]; [discriminate|].
  destruct (kids cc) as [|c [|? ?]]; try discriminate.
  destruct (read_change st c) as [st1|] eqn:E; [|discriminate]. cbn [rbind] in H.
  destruct (read_change_inv n st c st1 E I) as (I1 & F1 & N1).
  destruct rest as [|nxt ?].
  - inversion H; subst. auto.
  - destruct (IH _ _ _ H I1) as (I2 & F2 & N2). split; [exact I2|]. split; congruence.
Qed.

Lemma forallb_nth_zero l k : forallb (Z.eqb 0) l = true -> k < length l -> nth k l 0%Z = 0%Z.
Proof.
  revert k; induction l as [|x l IH]; intros k H Hk; simpl in *; [lia|].
  apply andb_prop in H. destruct H as [H1 H2]. destruct k as [|k].
  - symmetry. apply Z.eqb_eq. exact H1.
  - apply IH; [exact H2|lia].
Qed.

Lemma nth_repeat_zero n k : nth k (repeat 0%Z n) 0%Z = 0%Z.
Proof. revert k; induction n as [|n IH]; intros [|k]; simpl; auto. Qed.

(* an accepted rule leaves every labelled atom's electrons balanced *)
Theorem accepted_rule_balanced elements xlower t r :
  read_rule elements xlower t = ROk' r ->
  forall k, k < length (r_names r) -> rule_balance r k = 0%Z.
Proof.
  unfold read_rule. intros H. brk H.
  match goal with E : read_tchain _ ?st0 _ = ROk' ?st |- _ =>
    destruct (read_tchain_inv (length (st_names st0)) _ _ _ _ E) as (I & F & N); [reflexivity|] end.
  inversion H; subst; clear H. simpl in *. intros k Hk. unfold rule_balance. simpl.
  unfold RInv in I. rewrite F in I.
  match goal with Hf : forallb _ _ = true |- _ => pose proof (forallb_nth_zero _ k Hf) as Z0 end.
  rewrite I in Z0. rewrite bal_fold_length, repeat_length in Z0. specialize (Z0 Hk).
  rewrite bal_fold_nth in Z0 by (rewrite repeat_length; exact Hk).
  rewrite nth_repeat_zero in Z0. lia.
Qed.

(* contrapositive, as the property states it: an unbalanced rule is rejected *)
Corollary unbalanced_rule_rejected elements xlower t r k :
  k < length (r_names r) -> rule_balance r k <> 0%Z -> read_rule elements xlower t <> ROk' r.
Proof. intros Hk Hn H. apply Hn. eapply accepted_rule_balanced; eauto. Qed.

(* ---------- the declared edit, precisely, and nothing else (bonds) ---------- *)
Definition same_pair (u v a b : nat) : Prop := (u = a /\ v = b) \/ (u = b /\ v = a).

Lemma find_filter_keep {A} (p q : A -> bool) l : (forall x, p x = true -> q x = true) -> find p (filter q l) = find p l.
Proof.
  intros H. induction l as [|x l IH]; simpl; auto.
  destruct (q x) eqn:Q; simpl.
  - destruct (p x); auto.
  - destruct (p x) eqn:P; auto. rewrite (H x P) in Q. discriminate.
Qed.
Lemma find_filter_none {A} (p : A -> bool) l : find p (filter (fun x => negb (p x)) l) = None.
Proof.
  induction l as [|x l IH]; simpl; auto. destruct (p x) eqn:P; simpl; auto. rewrite P. exact IH.
Qed.
Lemma find_snoc {A} (p : A -> bool) l x :
  find p (l ++ [x]) = match find p l with Some y => Some y | None => if p x then Some x else None end.
Proof. induction l as [|y l IH]; simpl; [destruct (p x); reflexivity|]. destruct (p y); auto. Qed.

Definition between (u v : nat) (b : mbond) : bool :=
  (Nat.eqb (b_u b) u && Nat.eqb (b_v b) v) || (Nat.eqb (b_u b) v && Nat.eqb (b_v b) u).
Lemma bond_between_find m u v : bond_between m u v = find (between u v) (bonds m).
Proof. reflexivity. Qed.

Lemma between_pairs u v a b x : between u v x = true -> between a b x = true -> same_pair u v a b.
Proof.
  unfold between, same_pair. intros H1 H2.
  apply orb_true_iff in H1. apply orb_true_iff in H2.
  repeat match goal with
         | H : _ \/ _ |- _ => destruct H
         | H : _ && _ = true |- _ => apply andb_true_iff in H; destruct H
         | H : Nat.eqb _ _ = true |- _ => apply Nat.eqb_eq in H
         end; subst; lia || (try (left; split; congruence)); try (right; split; congruence).
Qed.

Lemma remove_bond_other m a b u v : ~ same_pair u v a b ->
  bond_between (remove_bond m a b) u v = bond_between m u v.
Proof.
  intros H. rewrite !bond_between_find. unfold remove_bond. simpl.
  apply find_filter_keep. intros x Hx. apply negb_true_iff.
  destruct ((Nat.eqb (b_u x) a && Nat.eqb (b_v x) b) || (Nat.eqb (b_u x) b && Nat.eqb (b_v x) a)) eqn:E; auto.
  exfalso. apply H. eapply between_pairs; eauto.
Qed.

Lemma remove_bond_self m a b : bond_between (remove_bond m a b) a b = None.
Proof. rewrite bond_between_find. unfold remove_bond. simpl. apply (find_filter_none (between a b)). Qed.

Lemma add_bond_other m a b t m' u v : add_bond_m m a b t = Some m' -> ~ same_pair u v a b ->
  bond_between m' u v = bond_between m u v.
Proof.
  unfold add_bond_m. destruct (Nat.eqb a b); [discriminate|].
  destruct (bond_between m a b) eqn:E; [discriminate|]. intros H Hp. inversion H; subst; clear H.
  rewrite !bond_between_find. simpl. rewrite find_snoc.
  destruct (find (between u v) (bonds m)); auto.
  destruct (between u v _) eqn:B; auto. exfalso. apply Hp.
  unfold between in B. simpl in B. apply orb_true_iff in B. unfold same_pair.
  destruct B as [B|B]; apply andb_true_iff in B; destruct B as [B1 B2];
    apply Nat.eqb_eq in B1; apply Nat.eqb_eq in B2; subst; auto.
Qed.

Lemma add_bond_self m a b t m' : add_bond_m m a b t = Some m' ->
  exists bd, bond_between m' a b = Some bd /\ b_t bd = t /\ bond_between m a b = None /\ a <> b.
Proof.
  unfold add_bond_m. destruct (Nat.eqb_spec a b) as [|Hne]; [discriminate|].
  destruct (bond_between m a b) eqn:E; [discriminate|]. intros H. inversion H; subst; clear H.
  eexists. rewrite bond_between_find. simpl. rewrite find_snoc. rewrite bond_between_find in E. rewrite E.
  unfold between at 1. simpl. rewrite !Nat.eqb_refl. simpl. repeat split; auto.
Qed.

(* the pair of matched atoms a bond edit addresses *)
Definition edit_pair (e : edit) : option (nat * nat) :=
  match e with
  | EForm i j _ | EBreak i j | EModify i j _ | EInc i j | EDec i j => Some (i, j)
  | _ => None
  end.

(* frame: every other pair of atoms keeps its bond (or absence of one) *)
Theorem apply_edit_frame_bonds img m e m' u v :
  apply_edit img m e = Some m' ->
  (forall i j a b, edit_pair e = Some (i, j) -> nth_error img i = Some a -> nth_error img j = Some b -> ~ same_pair u v a b) ->
  bond_between m' u v = bond_between m u v.
Proof.
  intros H Hp.
  destruct e; simpl in H;
    repeat match type of H with
           | match ?x with _ => _ end = _ => destruct x eqn:?; try discriminate
           | (if ?x then _ else _) = _ => destruct x eqn:?; try discriminate
           end;
    try (inversion H; subst; reflexivity);
    try (assert (NP : ~ same_pair u v n n0) by (eapply Hp; simpl; eauto)).
  all: try (erewrite add_bond_other by eauto; try apply remove_bond_other; auto; fail).
  all: try (inversion H; subst; apply remove_bond_other; auto; fail).
Qed.

(* effect: what each edit does to the pair / atom it names *)
Ltac unf H := simpl in H;
  repeat match type of H with
         | match ?x with _ => _ end = _ => destruct x eqn:?; try discriminate
         | (if ?x then _ else _) = _ => destruct x eqn:?; try discriminate
         end.

Theorem edit_break_effect img m i j m' : apply_edit img m (EBreak i j) = Some m' ->
  exists a b, nth_error img i = Some a /\ nth_error img j = Some b /\ bond_between m' a b = None /\ atoms m' = atoms m.
Proof. intros H. unf H. inversion H; subst. do 2 eexists. repeat split; eauto. apply remove_bond_self. Qed.

Theorem edit_form_effect img m i j t m' : apply_edit img m (EForm i j t) = Some m' ->
  exists a b bd, nth_error img i = Some a /\ nth_error img j = Some b /\ a <> b /\ bond_between m a b = None
                 /\ bond_between m' a b = Some bd /\ b_t bd = t /\ atoms m' = atoms m.
Proof.
  intros H. unf H. destruct (add_bond_self _ _ _ _ _ H) as (bd & A & B & C & D).
  exists n, n0, bd. repeat split; auto. eapply add_bond_atoms; eauto.
Qed.

Theorem edit_modify_effect img m i j t m' : apply_edit img m (EModify i j t) = Some m' ->
  exists a b bd, nth_error img i = Some a /\ nth_error img j = Some b
                 /\ bond_between m' a b = Some bd /\ b_t bd = t /\ atoms m' = atoms m.
Proof.
  intros H. unf H. destruct (add_bond_self _ _ _ _ _ H) as (bd & A & B & C & D).
  exists n, n0, bd. repeat split; auto. apply add_bond_atoms in H. exact H.
Qed.

Theorem edit_inc_effect img m i j m' : apply_edit img m (EInc i j) = Some m' ->
  exists a b old bd t', nth_error img i = Some a /\ nth_error img j = Some b
    /\ bond_between m a b = Some old /\ inc_type (b_t old) = Some t'
    /\ bond_between m' a b = Some bd /\ b_t bd = t' /\ atoms m' = atoms m.
Proof.
  intros H. unf H. destruct (add_bond_self _ _ _ _ _ H) as (bd & A & B & C & D).
  exists n, n0, m0, bd, b. repeat split; auto. apply add_bond_atoms in H. exact H.
Qed.

Theorem edit_dec_effect img m i j m' : apply_edit img m (EDec i j) = Some m' ->
  exists a b old, nth_error img i = Some a /\ nth_error img j = Some b /\ bond_between m a b = Some old
    /\ atoms m' = atoms m
    /\ match dec_type (b_t old) with
       | Some (Some t') => exists bd, bond_between m' a b = Some bd /\ b_t bd = t'
       | Some None => bond_between m' a b = None
       | None => False
       end.
Proof.
  intros H. unf H.
  - destruct (add_bond_self _ _ _ _ _ H) as (bd & A & B & C & D).
    exists n, n0, m0. repeat split; auto; [apply add_bond_atoms in H; exact H|]. rewrite Heqo2. eauto.
  - inversion H; subst. exists n, n0, m0. repeat split; auto. rewrite Heqo2. apply remove_bond_self.
Qed.

Lemma upd_atom_same l i f x : nth_error l i = Some x -> nth_error (upd_atom l i f) i = Some (f x).
Proof.
  revert i; induction l as [|a l IH]; intros [|i] H; simpl in *; try discriminate.
  - inversion H; reflexivity.
  - apply IH. exact H.
Qed.

Theorem edit_atom_effect img m e m' : apply_edit img m e = Some m' -> edit_pair e = None ->
  bonds m' = bonds m /\
  exists i a, nth_error img i = Some a /\
    forall x, nth_error (atoms m) a = Some x ->
      exists y, nth_error (atoms m') a = Some y /\ a_z y = a_z x /\ a_arom y = a_arom x /\
        match e with
        | ESetRad _ n => a_rad y = n /\ a_chg y = 0%Z
        | ERadInc _ => a_rad y = (a_rad x + 1)%N /\ a_chg y = a_chg x
        | ERadDec _ => a_rad y = (a_rad x - 1)%N /\ a_rad x <> 0%N /\ a_chg y = a_chg x
        | EChgInc _ => a_chg y = (a_chg x + 1)%Z /\ a_rad y = a_rad x
        | EChgDec _ => a_chg y = (a_chg x - 1)%Z /\ a_rad y = a_rad x
        | _ => True
        end.
Proof.
  intros H Hp. destruct e; try discriminate Hp; unf H; inversion H; subst; clear H; (split; [reflexivity|]);
    eexists; eexists; (split; [eassumption|]); intros x Hx; eexists; (split; [apply upd_atom_same; exact Hx|]); simpl; repeat split; auto.
  - rewrite Hx in Heqo0. inversion Heqo0; subst. apply N.eqb_neq. assumption.
Qed.

(* ---------- "and nothing else": the frame of a whole edit sequence ---------- *)
Lemma apply_edits_none img es : fold_left (fun acc e => match acc with Some x => apply_edit img x e | None => None end) es None = None.
Proof. induction es as [|e es IH]; [reflexivity|exact IH]. Qed.

Lemma apply_edits_cons img m e es : apply_edits img m (e :: es) =
  match apply_edit img m e with Some x => apply_edits img x es | None => None end.
Proof. unfold apply_edits. cbn [fold_left]. destruct (apply_edit img m e); [reflexivity|apply apply_edits_none]. Qed.

(* an atom that is not the image of a labelled atom is the same after the whole sequence *)
Theorem apply_edits_frame_atoms img es : forall m m' k, apply_edits img m es = Some m' -> ~ In k img ->
  nth_error (atoms m') k = nth_error (atoms m) k.
Proof.
  induction es as [|e es IH]; intros m m' k H Hk.
  - inversion H; reflexivity.
  - rewrite apply_edits_cons in H. destruct (apply_edit img m e) as [x|] eqn:E; [|discriminate].
    rewrite (IH x m' k H Hk). exact (apply_edit_frame_atoms img m e x k E Hk).
Qed.

(* a pair of atoms that no bond edit of the rule names keeps its bond through the whole sequence *)
Theorem apply_edits_frame_bonds img es : forall m m' u v, apply_edits img m es = Some m' ->
  (forall e i j a b, In e es -> edit_pair e = Some (i, j) -> nth_error img i = Some a -> nth_error img j = Some b -> ~ same_pair u v a b) ->
  bond_between m' u v = bond_between m u v.
Proof.
  induction es as [|e es IH]; intros m m' u v H Hp.
  - inversion H; reflexivity.
  - rewrite apply_edits_cons in H. destruct (apply_edit img m e) as [x|] eqn:E; [|discriminate].
    rewrite (IH x m' u v H); [|intros e' i j a b He'; apply (Hp e' i j a b); right; exact He'].
    apply (apply_edit_frame_bonds img m e x u v E). intros i j a b. apply (Hp e i j a b). left. reflexivity.
Qed.
