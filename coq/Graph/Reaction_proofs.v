From Coq Require Import List NArith ZArith Arith Bool Lia.
From PG Require Import Common.Strs Graph.Mol Graph.Match Graph.Reaction.
Import ListNotations.

Definition elems (m : mol) : list N := map a_z (atoms m).

Lemma upd_atom_elems l i f : (forall x, a_z (f x) = a_z x) -> map a_z (upd_atom l i f) = map a_z l.
Proof.
  intros Hf. revert i; induction l as [|a l IH]; intros [|i]; simpl; auto.
  - rewrite Hf. reflexivity.
  - rewrite IH. reflexivity.
Qed.

Lemma add_bond_elems m i j t m' : add_bond_m m i j t = Some m' -> elems m' = elems m.
Proof.
  unfold add_bond_m. destruct (Nat.eqb i j); [discriminate|].
  destruct (bond_between m i j); [discriminate|]. intros H; inversion H; reflexivity.
Qed.

(* no edit adds, removes or transmutes an atom *)
Theorem apply_edit_conserves img m e m' : apply_edit img m e = Some m' -> elems m' = elems m.
Proof.
  destruct e; simpl; intros H;
    repeat match type of H with
           | match ?x with _ => _ end = _ => destruct x eqn:?; try discriminate
           | (if ?x then _ else _) = _ => destruct x eqn:?; try discriminate
           end;
    try (apply add_bond_elems in H; exact H);
    try (inversion H; subst; reflexivity);
    try (inversion H; subst; unfold elems, set_atoms; simpl; apply upd_atom_elems; reflexivity).
Qed.

Theorem apply_edits_conserve img es : forall m m', apply_edits img m es = Some m' -> elems m' = elems m.
Proof.
  unfold apply_edits. induction es as [|e es IH]; intros m m' H; simpl in H.
  - inversion H; reflexivity.
  - destruct (apply_edit img m e) as [m1|] eqn:E.
    + rewrite (IH m1 m' H). eapply apply_edit_conserves; eauto.
    + exfalso. clear -H. induction es; simpl in H; [discriminate|auto].
Qed.

(* one product graph per match of the reactant pattern *)
Theorem one_product_per_match r m : length (run_rule r m) = length (matches (r_frag r) m).
Proof. unfold run_rule. apply map_length. Qed.

(* frame: atoms that are not images of labelled atoms keep charge and radicals *)
Lemma upd_atom_other l i f k : k <> i -> nth_error (upd_atom l i f) k = nth_error l k.
Proof.
  revert i k; induction l as [|a l IH]; intros i k H.
  - destruct i; reflexivity.
  - destruct i as [|i], k as [|k]; simpl; auto; try lia.
Qed.

Lemma add_bond_atoms m i j t m' : add_bond_m m i j t = Some m' -> atoms m' = atoms m.
Proof.
  unfold add_bond_m. destruct (Nat.eqb i j); [discriminate|].
  destruct (bond_between m i j); [discriminate|]. intros H; inversion H; reflexivity.
Qed.

Theorem apply_edit_frame_atoms img m e m' k :
  apply_edit img m e = Some m' -> ~ In k img -> nth_error (atoms m') k = nth_error (atoms m) k.
Proof.
  intros H Hk.
  assert (G : forall i a, nth_error img i = Some a -> k <> a)
    by (intros i a Hi ->; apply Hk; eapply nth_error_In; eauto).
  destruct e; simpl in H;
    repeat match type of H with
           | match ?x with _ => _ end = _ => destruct x eqn:?; try discriminate
           | (if ?x then _ else _) = _ => destruct x eqn:?; try discriminate
           end;
    try (apply add_bond_atoms in H; rewrite H; reflexivity);
    try (inversion H; subst; reflexivity);
    try (inversion H; subst; unfold set_atoms; simpl; apply upd_atom_other; eapply G; eauto).
Qed.
