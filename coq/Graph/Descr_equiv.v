(* C03 at the level of the descriptor dictionary: the decomposition of a molecule graph and of its renumbering are the same
   dictionary (as a map from names to counts).  Aromatisation consumes an ordered ring list (see the refutation in C03) and is
   not part of this statement: it is about the graph after aromatisation. *)
From Coq Require Import List NArith ZArith QArith Arith Bool Lia Permutation.
From PG Require Import Common.Strs Common.Strs_proofs Group.GroupName Graph.Mol Graph.Match Graph.Match_proofs Graph.Embed Graph.Embed_inst
                       Graph.Scheme Graph.Scheme_proofs Graph.Centres_proofs Graph.Centres_equiv Graph.Remap_proofs.
Import ListNotations.
Local Open Scope Q_scope.

(* ---------- sums over a permutation ---------- *)
Lemma sum_perm (f : nat -> Q) l l' : Permutation l l' ->
  fold_right (fun i s => f i + s) 0 l == fold_right (fun i s => f i + s) 0 l'.
Proof. intros P. induction P; simpl; try ring; [rewrite IHP; ring|rewrite IHP1; exact IHP2]. Qed.

Lemma sum_map (f : nat -> Q) (g : nat -> nat) l :
  fold_right (fun i s => f i + s) 0 (map g l) == fold_right (fun i s => f (g i) + s) 0 l.
Proof. induction l; simpl; [reflexivity|rewrite IHl; reflexivity]. Qed.

Lemma sum_ext_nat (f g : nat -> Q) l : (forall i, In i l -> f i == g i) ->
  fold_right (fun i s => f i + s) 0 l == fold_right (fun i s => g i + s) 0 l.
Proof.
  induction l as [|x l IH]; intros H; simpl; [reflexivity|].
  rewrite (H x) by (left; reflexivity). rewrite IH; [reflexivity|]. intros i Hi. apply H. right. exact Hi.
Qed.

Lemma perm_seq (phi psi : nat -> nat) n :
  (forall i, (i < n)%nat -> (phi i < n)%nat /\ psi (phi i) = i) ->
  Permutation (map phi (seq 0 n)) (seq 0 n).
Proof.
  intros P. apply NoDup_Permutation_bis.
  - apply Injective_map_NoDup_in'; [|apply seq_NoDup].
    intros a b Ha Hb E. apply in_seq in Ha, Hb. rewrite <- (proj2 (P a ltac:(lia))), <- (proj2 (P b ltac:(lia))), E. reflexivity.
  - rewrite map_length. lia.
  - intros x Hx. apply in_map_iff in Hx. destruct Hx as (i & <- & Hi). apply in_seq in Hi. apply in_seq. destruct (P i ltac:(lia)). lia.
Qed.

Section Ren.
Variable m : mol.
Variables phi psi : nat -> nat.
Hypothesis W : wf_mol m.
Hypothesis R : wf_rings m.
Hypothesis P1 : forall i, (i < natom m)%nat -> (phi i < natom m)%nat /\ psi (phi i) = i.
Hypothesis P2 : forall k, (k < natom m)%nat -> (psi k < natom m)%nat /\ phi (psi k) = k.
Let M := rename_mol phi psi m.
Variables nm NM : list (str * str).
Hypothesis Hnm : forall a, (a < natom m)%nat -> nth_error NM (phi a) = nth_error nm a.

(* the group an atom contributes only looks at its own and its neighbours' names *)
Lemma group_of_rename i : (i < natom m)%nat -> group_of M NM (phi i) = group_of m nm i.
Proof.
  intros Hi. unfold group_of. rewrite (Hnm i Hi). destruct (nth_error nm i) as [[csg per]|]; [|reflexivity].
  destruct (str_eqb csg s_none); [reflexivity|]. f_equal. f_equal.
  pose proof (embeds_rename m phi psi W R P1) as E. fold M in E.
  rewrite (e_bonds_of _ _ _ E i Hi). rewrite flat_map_concat_map, map_map, <- flat_map_concat_map.
  apply flat_map_ext_in. intros [b o] Hin. simpl.
  destruct (bonds_of_lt _ _ _ E _ _ _ Hin) as (Ho & _). rewrite (Hnm o Ho). reflexivity.
Qed.

Theorem raw_groups_rename k : dict_get (raw_groups M NM) k == dict_get (raw_groups m nm) k.
Proof.
  rewrite !raw_groups_count. assert (Hn : natom M = natom m) by (apply rename_natom). rewrite Hn.
  rewrite <- (sum_perm (fun j => occ k (group_of M NM j)) _ _ (perm_seq phi psi (natom m) P1)).
  rewrite sum_map. apply sum_ext_nat. intros i Hi. apply in_seq in Hi. rewrite group_of_rename by lia. reflexivity.
Qed.
End Ren.

(* ---------- the number of distinct atom sets does not depend on the order or the numbering ---------- *)
Local Close Scope Q_scope.
Lemma same_set_sym a b : same_set a b = same_set b a.
Proof. unfold same_set. apply andb_comm. Qed.

Lemma existsb_perm {A} (f : A -> bool) l l' : Permutation l l' -> existsb f l = existsb f l'.
Proof.
  intros P. induction P; simpl; auto; [rewrite IHP; reflexivity| |congruence].
  destruct (f x), (f y); reflexivity.
Qed.

Lemma same_class x y l : same_set x y = true -> existsb (same_set x) l = existsb (same_set y) l.
Proof.
  intros H. induction l as [|z l IH]; simpl; [reflexivity|]. rewrite IH. f_equal.
  destruct (same_set x z) eqn:A, (same_set y z) eqn:B; try reflexivity.
  - rewrite same_set_sym in H. rewrite (same_set_trans _ _ _ H A) in B. discriminate.
  - rewrite (same_set_trans _ _ _ H B) in A. discriminate.
Qed.

Theorem distinct_sets_perm l l' : Permutation l l' -> length (distinct_sets l) = length (distinct_sets l').
Proof.
  intros P. induction P; simpl; auto.
  - rewrite (existsb_perm _ _ _ P). destruct (existsb (same_set x) l'); simpl; congruence.
  - destruct (same_set y x) eqn:S.
    + rewrite (same_set_sym x y), S. simpl.
      rewrite (same_class y x l S). destruct (existsb (same_set x) l); reflexivity.
    + rewrite (same_set_sym x y), S. simpl.
      destruct (existsb (same_set y) l), (existsb (same_set x) l); reflexivity.
  - congruence.
Qed.

Lemma same_set_map (g : nat -> nat) a b : (forall x y, In x (a ++ b) -> In y (a ++ b) -> g x = g y -> x = y) ->
  same_set (map g a) (map g b) = same_set a b.
Proof.
  intros Hinj. apply Bool.eq_iff_eq_true. rewrite !same_set_spec. split; intros H x.
  - split; intros Hx.
    + assert (In (g x) (map g b)) by (apply H; apply in_map; exact Hx). apply in_map_iff in H0. destruct H0 as (y & E & Hy).
      assert (y = x) by (apply Hinj; [apply in_or_app; right; exact Hy|apply in_or_app; left; exact Hx|exact E]). subst. exact Hy.
    + assert (In (g x) (map g a)) by (apply H; apply in_map; exact Hx). apply in_map_iff in H0. destruct H0 as (y & E & Hy).
      assert (y = x) by (apply Hinj; [apply in_or_app; left; exact Hy|apply in_or_app; right; exact Hx|exact E]). subst. exact Hy.
  - rewrite !in_map_iff. split; intros (y & <- & Hy); exists y; (split; [reflexivity|apply H; exact Hy]).
Qed.

Theorem distinct_sets_map (g : nat -> nat) l :
  (forall a x y, In a l -> In x a -> forall b, In b l -> In y b -> g x = g y -> x = y) ->
  length (distinct_sets (map (map g) l)) = length (distinct_sets l).
Proof.
  induction l as [|a l IH]; intros Hinj; simpl; [reflexivity|].
  assert (E : existsb (same_set (map g a)) (map (map g) l) = existsb (same_set a) l).
  { rewrite existsb_map. apply existsb_ext'. intros b Hb. apply same_set_map. intros x y Hx Hy.
    apply in_app_or in Hx. apply in_app_or in Hy.
    destruct Hx as [Hx|Hx], Hy as [Hy|Hy]; eapply Hinj; eauto; try (left; reflexivity); right; exact Hb. }
  rewrite E. destruct (existsb (same_set a) l); simpl; rewrite IH; auto;
    intros a' x y Ha' Hx b Hb Hy; eapply Hinj; eauto; right; assumption.
Qed.

(* ---------- dictionaries as maps ---------- *)
Local Open Scope Q_scope.
Lemma sum_perm_str (f : str -> Q) l l' : Permutation l l' ->
  fold_right (fun i s => f i + s) 0 l == fold_right (fun i s => f i + s) 0 l'.
Proof. intros P. induction P; simpl; try ring; [rewrite IHP; ring|rewrite IHP1; exact IHP2]. Qed.

Lemma has_key_In d k : has_key d k = true <-> In k (map fst d).
Proof.
  unfold has_key. rewrite existsb_exists, in_map_iff. split.
  - intros ([a b] & Hin & E). simpl in E. apply str_eqb_eq in E. subst. exists (k, b). auto.
  - intros ([a b] & E & Hin). simpl in E. subst. exists (k, b). split; [exact Hin|apply str_eqb_refl].
Qed.

(* two dictionaries with the same keys and the same counts are remapped to the same counts *)
Theorem apply_remaps_respects rm d1 d2 : chain_free rm -> NoDup (map fst d1) -> NoDup (map fst d2) ->
  (forall k, has_key d1 k = has_key d2 k) -> (forall k, dict_get d1 k == dict_get d2 k) ->
  forall k, dict_get (apply_remaps rm d1) k == dict_get (apply_remaps rm d2) k.
Proof.
  intros CF N1 N2 Hh Hg k. rewrite (apply_remaps_linear rm CF d1 N1 k), (apply_remaps_linear rm CF d2 N2 k).
  assert (Pm : Permutation (map fst d1) (map fst d2)).
  { apply NoDup_Permutation; auto. intros x. rewrite <- !has_key_In, Hh. tauto. }
  assert (Mk : memk k (map fst d1) = memk k (map fst d2)).
  { apply Bool.eq_iff_eq_true. rewrite !memk_In. split; intros H; [apply (Permutation_in _ Pm)|apply (Permutation_in _ (Permutation_sym Pm))]; exact H. }
  rewrite Mk. rewrite (sum_perm_str (fun s => term rm d1 s k) _ _ Pm).
  rewrite (sum_ext (fun s => term rm d1 s k) (fun s => term rm d2 s k)).
  - destruct (src rm k && memk k (map fst d2)); [reflexivity|rewrite Hg; reflexivity].
  - intros s _. unfold term. destruct (remap_get rm s); [rewrite Hg; reflexivity|reflexivity].
Qed.

Definition gstep (m : mol) (nm : list (str * str)) (acc : dict) (i : nat) : dict :=
  match group_of m nm i with Some g => dict_add acc g 1 | None => acc end.
Definition ghit (m : mol) (nm : list (str * str)) (k : str) (i : nat) : bool :=
  match group_of m nm i with Some g => str_eqb g k | None => false end.

Lemma gfold_nodup m nm : forall l d, NoDup (map fst d) -> NoDup (map fst (fold_left (gstep m nm) l d)).
Proof.
  induction l as [|i l IH]; intros d Hd; simpl; [exact Hd|]. apply IH. unfold gstep.
  destruct (group_of m nm i); [apply dict_add_nodup|]; exact Hd.
Qed.
Lemma gfold_has m nm k : forall l d, has_key (fold_left (gstep m nm) l d) k = has_key d k || existsb (ghit m nm k) l.
Proof.
  induction l as [|i l IH]; intros d; simpl; [rewrite orb_false_r; reflexivity|]. rewrite IH. unfold gstep, ghit.
  destruct (group_of m nm i) as [g|]; [rewrite dict_add_has|simpl; reflexivity].
  destruct (str_eqb g k), (has_key d k); reflexivity.
Qed.
Lemma raw_groups_nodup m nm : NoDup (map fst (raw_groups m nm)).
Proof. unfold raw_groups. apply (gfold_nodup m nm). constructor. Qed.
Lemma raw_groups_has m nm k : has_key (raw_groups m nm) k = existsb (ghit m nm k) (seq 0 (natom m)).
Proof. unfold raw_groups. rewrite (gfold_has m nm k). reflexivity. Qed.

(* groups.copy(); update(descriptors): the descriptor count where the descriptor dictionary has the name, the group count otherwise *)
Definition ustep (acc : dict) (kv : str * Q) : dict :=
  if existsb (fun x => str_eqb (fst x) (fst kv)) acc
  then map (fun x => if str_eqb (fst x) (fst kv) then kv else x) acc
  else acc ++ [kv].

Lemma dict_update_is a b : dict_update a b = fold_left ustep b a.
Proof.
  unfold dict_update. apply fold_left_ext'. intros acc kv. unfold ustep. destruct (dict_pop acc (fst kv)). reflexivity.
Qed.

Lemma map_replace_other acc kb vb k : str_eqb kb k = false ->
  dict_get (map (fun x : str * Q => if str_eqb (fst x) kb then (kb, vb) else x) acc) k == dict_get acc k.
Proof.
  intros Ek. induction acc as [|[a x] acc IH]; simpl; [reflexivity|].
  destruct (str_eqb a kb) eqn:Ea; simpl.
  - apply str_eqb_eq in Ea. subst a. rewrite Ek. exact IH.
  - destruct (str_eqb a k); [reflexivity|exact IH].
Qed.
Lemma map_replace_same acc kb vb : existsb (fun x : str * Q => str_eqb (fst x) kb) acc = true ->
  dict_get (map (fun x : str * Q => if str_eqb (fst x) kb then (kb, vb) else x) acc) kb == vb.
Proof.
  induction acc as [|[a x] acc IH]; simpl; [discriminate|]. intros Ex.
  destruct (str_eqb a kb) eqn:Ea; simpl.
  - rewrite str_eqb_refl. reflexivity.
  - rewrite Ea. apply IH. exact Ex.
Qed.
Lemma app_get acc kb vb k : existsb (fun x : str * Q => str_eqb (fst x) kb) acc = false ->
  dict_get (acc ++ [(kb, vb)]) k == (if str_eqb kb k then vb else dict_get acc k).
Proof.
  induction acc as [|[a x] acc IH]; simpl; intros Ex.
  - destruct (str_eqb kb k); reflexivity.
  - apply orb_false_iff in Ex. destruct Ex as [Ea Ex]. destruct (str_eqb a k) eqn:Eak.
    + destruct (str_eqb kb k) eqn:Ekk; [|reflexivity]. apply str_eqb_eq in Eak, Ekk. subst. rewrite str_eqb_refl in Ea. discriminate.
    + apply IH. exact Ex.
Qed.

Lemma ustep_get acc kb vb k : dict_get (ustep acc (kb, vb)) k == (if str_eqb kb k then vb else dict_get acc k).
Proof.
  unfold ustep. cbn [fst]. destruct (existsb (fun x => str_eqb (fst x) kb) acc) eqn:Ex.
  - destruct (str_eqb kb k) eqn:Ek.
    + apply str_eqb_eq in Ek. subst k. apply map_replace_same. exact Ex.
    + apply map_replace_other. exact Ek.
  - apply app_get. exact Ex.
Qed.

(* groups.copy(); update(descriptors): the descriptor count where the descriptor dictionary has the name, the group count otherwise *)
Lemma dict_update_get a b : NoDup (map fst b) -> forall k,
  dict_get (dict_update a b) k == (if has_key b k then dict_get b k else dict_get a k).
Proof.
  rewrite dict_update_is. revert a. induction b as [|[kb vb] b IH]; intros a Hn k; simpl; [reflexivity|].
  inversion Hn as [|? ? Hnot Hn']; subst. rewrite (IH _ Hn' k).
  destruct (str_eqb kb k) eqn:Ek.
  - apply str_eqb_eq in Ek. subst k. simpl.
    destruct (has_key b kb) eqn:Hb; [exfalso; apply Hnot; apply has_key_In; exact Hb|]. rewrite ustep_get, str_eqb_refl. reflexivity.
  - simpl. destruct (has_key b k); [reflexivity|]. rewrite ustep_get, Ek. reflexivity.
Qed.

Lemma apply_remaps_nodup rm d : NoDup (map fst d) -> NoDup (map fst (apply_remaps rm d)).
Proof.
  rewrite apply_remaps_is. generalize (map fst d) at 2. intros ks. revert d.
  induction ks as [|s r IH]; intros d Hd; simpl; [exact Hd|]. apply IH. unfold step.
  destruct (remap_get rm s) as [tg|]; [|exact Hd].
  pose proof (dict_pop_spec d s Hd) as P. destruct (dict_pop d s) as [[n|] d']; [|exact Hd].
  destruct P as (_ & _ & _ & _ & Pn). destruct (fold_targets n tg d' Pn) as (_ & _ & F). exact F.
Qed.

Definition raw_descr (sch : scheme) (m : mol) : dict :=
  fold_left (fun acc ds => let n := length (distinct_sets (matches (d_frag ds) m)) in
                           if Nat.eqb n 0 then acc else dict_add acc (d_name ds) (inject_Z (Z.of_nat n))) (s_descr sch) [].
Lemma assign_descr_is sch m : assign_descr sch m = apply_remaps (s_remaps sch) (raw_descr sch m).
Proof. reflexivity. Qed.
Lemma raw_descr_nodup sch m : NoDup (map fst (raw_descr sch m)).
Proof.
  unfold raw_descr.
  assert (G : forall l (d : dict), NoDup (map fst d) ->
    NoDup (map fst (fold_left (fun acc ds => let n := length (distinct_sets (matches (d_frag ds) m)) in
                           if Nat.eqb n 0 then acc else dict_add acc (d_name ds) (inject_Z (Z.of_nat n))) l d))).
  { induction l as [|ds l IH]; intros d Hd; simpl; [exact Hd|]. apply IH.
    destruct (Nat.eqb _ 0); [exact Hd|apply dict_add_nodup; exact Hd]. }
  apply G. constructor.
Qed.

Lemma fold_left_ext_in {A B} (f g : A -> B -> A) l : (forall a b, In b l -> f a b = g a b) -> forall a, fold_left f l a = fold_left g l a.
Proof.
  induction l as [|x l IH]; intros H a; simpl; [reflexivity|]. rewrite H by (left; reflexivity). apply IH.
  intros a' b Hb. apply H. right. exact Hb.
Qed.

Definition descriptors_of (sch : scheme) (m : mol) (nm : list (str * str)) : dict :=
  dict_update (assign_groups sch m nm) (assign_descr sch m).

Section RenFinal.
Variable m : mol.
Variables phi psi : nat -> nat.
Hypothesis W : wf_mol m.
Hypothesis R : wf_rings m.
Hypothesis P1 : forall i, (i < natom m)%nat -> (phi i < natom m)%nat /\ psi (phi i) = i.
Hypothesis P2 : forall k, (k < natom m)%nat -> (psi k < natom m)%nat /\ phi (psi k) = k.
Let M := rename_mol phi psi m.
Variable sch : scheme.
Hypothesis Gp : forall p, In p (s_patterns sch) -> good_frag (p_frag p).
Hypothesis Gd : forall ds, In ds (s_descr sch) -> good_frag (d_frag ds).
Hypothesis CF : chain_free (s_remaps sch).

Lemma matches_count_rename f : good_frag f ->
  length (distinct_sets (matches f M)) = length (distinct_sets (matches f m)).
Proof.
  intros (Fw & Fm & Fc & Fn). unfold M.
  rewrite (distinct_sets_perm _ _ (matches_rename m phi psi W R P1 P2 f Fw Fm Fc Fn)).
  apply distinct_sets_map. intros a x y Ha Hx b Hb Hy E.
  assert (Lx : (x < natom m)%nat) by (apply (denotes_lt m f a); [apply (matches_iff _ _ _ Fw); exact Ha|exact Hx]).
  assert (Ly : (y < natom m)%nat) by (apply (denotes_lt m f b); [apply (matches_iff _ _ _ Fw); exact Hb|exact Hy]).
  rewrite <- (proj2 (P1 x Lx)), <- (proj2 (P1 y Ly)), E. reflexivity.
Qed.

Lemma raw_descr_rename : raw_descr sch M = raw_descr sch m.
Proof.
  unfold raw_descr. apply fold_left_ext_in. intros acc ds Hds. cbv zeta.
  rewrite (matches_count_rename (d_frag ds) (Gd ds Hds)). reflexivity.
Qed.

(* the descriptor dictionary of the renumbered graph is the same map *)
Theorem descriptors_rename nm NM : assign_centres sch m = SOk nm -> assign_centres sch M = SOk NM ->
  forall k, dict_get (descriptors_of sch M NM) k == dict_get (descriptors_of sch m nm) k.
Proof.
  intros E1 E2 k.
  assert (Hnm : forall a, (a < natom m)%nat -> nth_error NM (phi a) = nth_error nm a).
  { intros a Ha. exact (proj2 (assign_centres_rename m phi psi W R P1 P2 sch Gp) nm NM E1 E2 a Ha). }
  unfold descriptors_of. rewrite !assign_descr_is, raw_descr_rename.
  rewrite !dict_update_get by (apply apply_remaps_nodup; apply raw_descr_nodup).
  destruct (has_key (apply_remaps (s_remaps sch) (raw_descr sch m)) k); [reflexivity|].
  rewrite !assign_groups_is. apply apply_remaps_respects; auto using raw_groups_nodup.
  - intros k'. rewrite !raw_groups_has. assert (Hn : natom M = natom m) by (apply rename_natom). rewrite Hn.
    rewrite <- (existsb_perm _ _ _ (perm_seq phi psi (natom m) P1)). rewrite existsb_map. apply existsb_ext'.
    intros i Hi. apply in_seq in Hi. unfold ghit, M. rewrite (group_of_rename m phi psi W R P1 nm NM Hnm i) by lia. reflexivity.
  - intros k'. apply (raw_groups_rename m phi psi W R P1 nm NM Hnm).
Qed.
End RenFinal.

(* ====================== mixtures (C04) at the level of the dictionary ====================== *)
Lemma distinct_sets_app l1 l2 : (forall x y, In x l1 -> In y l2 -> same_set x y = false) ->
  length (distinct_sets (l1 ++ l2)) = (length (distinct_sets l1) + length (distinct_sets l2))%nat.
Proof.
  intros H. induction l1 as [|x l1 IH]; simpl; [reflexivity|].
  rewrite existsb_app. assert (E : existsb (same_set x) l2 = false).
  { apply existsb_false_all. intros y Hy. apply H; [left; reflexivity|exact Hy]. }
  rewrite E, orb_false_r. assert (IH' := IH (fun a b Ha Hb => H a b (or_intror Ha) Hb)).
  destruct (existsb (same_set x) l1); cbn [length]; rewrite IH'; reflexivity.
Qed.

Lemma dict_get_absent d k : has_key d k = false -> dict_get d k == 0.
Proof.
  induction d as [|[a x] d IH]; simpl; intros H; [reflexivity|].
  apply orb_false_iff in H. destruct H as [Ha H]. rewrite Ha. apply IH. exact H.
Qed.

Lemma sum_superset (f : str -> Q) (big small : list str) : NoDup big -> NoDup small ->
  (forall s, In s small -> In s big) -> (forall s, In s big -> ~ In s small -> f s == 0) ->
  fold_right (fun s t => f s + t) 0 big == fold_right (fun s t => f s + t) 0 small.
Proof.
  intros Nb. revert small. induction Nb as [|x big Hx Nb IH]; intros small Ns Hsub Hz.
  - destruct small as [|y small]; [reflexivity|]. exfalso. apply (Hsub y). left. reflexivity.
  - simpl. destruct (in_dec (list_eq_dec N.eq_dec) x small) as [Hin|Hnot].
    + destruct (in_split _ _ Hin) as (s1 & s2 & ->).
      rewrite (sum_perm_str f (s1 ++ x :: s2) (x :: s1 ++ s2)) by (symmetry; apply Permutation_middle). simpl.
      rewrite (IH (s1 ++ s2)); [reflexivity| | |].
      * apply NoDup_remove_1 in Ns. exact Ns.
      * intros s Hs. assert (In s (s1 ++ x :: s2)) by (apply in_app_or in Hs; apply in_or_app; destruct Hs; [left|right; right]; assumption).
        destruct (Hsub s H) as [<-|Hb]; [|exact Hb]. exfalso. apply NoDup_remove_2 in Ns. contradiction.
      * intros s Hs Hn. apply Hz; [right; exact Hs|]. intros Hin'. apply Hn. apply in_app_or in Hin'. apply in_or_app.
        destruct Hin' as [H1|[<-|H2]]; [left; exact H1|contradiction|right; exact H2].
    + rewrite (Hz x (or_introl eq_refl) Hnot). rewrite (IH small Ns); [ring| |].
      * intros s Hs. destruct (Hsub s Hs) as [<-|Hb]; [contradiction|exact Hb].
      * intros s Hs Hn. apply Hz; [right; exact Hs|exact Hn].
Qed.

(* remapping a dictionary that is the sum of two dictionaries gives the sum of the remapped dictionaries *)
Theorem apply_remaps_additive rm d d1 d2 : chain_free rm ->
  NoDup (map fst d) -> NoDup (map fst d1) -> NoDup (map fst d2) ->
  (forall k, has_key d k = has_key d1 k || has_key d2 k) -> (forall k, dict_get d k == dict_get d1 k + dict_get d2 k) ->
  forall k, dict_get (apply_remaps rm d) k == dict_get (apply_remaps rm d1) k + dict_get (apply_remaps rm d2) k.
Proof.
  intros CF N N1 N2 Hh Hg k.
  rewrite (apply_remaps_linear rm CF d N k), (apply_remaps_linear rm CF d1 N1 k), (apply_remaps_linear rm CF d2 N2 k).
  assert (Mk : forall x e, memk x (map fst e) = has_key e x).
  { intros x e. apply Bool.eq_iff_eq_true. rewrite memk_In, has_key_In. tauto. }
  rewrite !Mk, Hh.
  assert (S1 : fold_right (fun s t => term rm d s k + t) 0 (map fst d)
               == fold_right (fun s t => term rm d1 s k + t) 0 (map fst d) + fold_right (fun s t => term rm d2 s k + t) 0 (map fst d)).
  { generalize (map fst d). intros l. induction l as [|s l IHl]; cbn [fold_right]; [ring|]. rewrite IHl. unfold term.
    destruct (remap_get rm s). - rewrite Hg. ring. - ring. }
  rewrite S1.
  rewrite (sum_superset (fun s => term rm d1 s k) (map fst d) (map fst d1) N N1).
  2:{ intros s Hs. apply has_key_In. rewrite Hh. apply has_key_In in Hs. rewrite Hs. reflexivity. }
  2:{ intros s _ Hn. unfold term. destruct (remap_get rm s); [|reflexivity]. rewrite (dict_get_absent d1 s); [ring|].
      destruct (has_key d1 s) eqn:E; [apply has_key_In in E; contradiction|reflexivity]. }
  rewrite (sum_superset (fun s => term rm d2 s k) (map fst d) (map fst d2) N N2).
  2:{ intros s Hs. apply has_key_In. rewrite Hh. apply has_key_In in Hs. rewrite Hs. apply orb_true_r. }
  2:{ intros s _ Hn. unfold term. destruct (remap_get rm s); [|reflexivity]. rewrite (dict_get_absent d2 s); [ring|].
      destruct (has_key d2 s) eqn:E; [apply has_key_In in E; contradiction|reflexivity]. }
  destruct (src rm k); cbn [andb].
  - destruct (has_key d1 k) eqn:H1, (has_key d2 k) eqn:H2; cbn [orb];
      try rewrite (dict_get_absent d1 k H1); try rewrite (dict_get_absent d2 k H2); try rewrite Hg;
      try rewrite (dict_get_absent d1 k H1); try rewrite (dict_get_absent d2 k H2); ring.
  - rewrite Hg. ring.
Qed.

(* the group an atom contributes, under any component embedding *)
Lemma group_of_embed phi m M nm NM : embeds phi m M ->
  (forall a, (a < natom m)%nat -> nth_error NM (phi a) = nth_error nm a) ->
  forall i, (i < natom m)%nat -> group_of M NM (phi i) = group_of m nm i.
Proof.
  intros E Hnm i Hi. unfold group_of. rewrite (Hnm i Hi). destruct (nth_error nm i) as [[csg per]|]; [|reflexivity].
  destruct (str_eqb csg s_none); [reflexivity|]. f_equal. f_equal.
  rewrite (e_bonds_of _ _ _ E i Hi). rewrite flat_map_concat_map, map_map, <- flat_map_concat_map.
  apply flat_map_ext_in. intros [b o] Hin. simpl.
  destruct (bonds_of_lt _ _ _ E _ _ _ Hin) as (Ho & _). rewrite (Hnm o Ho). reflexivity.
Qed.

Definition cnt (f : fragment) (m : mol) : nat := length (distinct_sets (matches f m)).
Definition dstep (m : mol) (acc : dict) (ds : descriptor) : dict :=
  let n := cnt (d_frag ds) m in if Nat.eqb n 0 then acc else dict_add acc (d_name ds) (inject_Z (Z.of_nat n)).
Definition dterm (m : mol) (k : str) (ds : descriptor) : Q :=
  if str_eqb (d_name ds) k then inject_Z (Z.of_nat (cnt (d_frag ds) m)) else 0.
Definition dhit (m : mol) (k : str) (ds : descriptor) : bool := str_eqb (d_name ds) k && negb (Nat.eqb (cnt (d_frag ds) m) 0).

Lemma raw_descr_fold sch m : raw_descr sch m = fold_left (dstep m) (s_descr sch) [].
Proof. reflexivity. Qed.
Lemma dfold_get m k : forall l d, dict_get (fold_left (dstep m) l d) k == dict_get d k + fold_right (fun ds s => dterm m k ds + s) 0 l.
Proof.
  induction l as [|ds l IH]; intros d; cbn [fold_left fold_right]; [ring|]. rewrite IH. unfold dstep, dterm. cbv zeta.
  destruct (Nat.eqb (cnt (d_frag ds) m) 0) eqn:E.
  - apply Nat.eqb_eq in E. rewrite E. destruct (str_eqb (d_name ds) k); simpl; ring.
  - rewrite dict_add_get. destruct (str_eqb (d_name ds) k); ring.
Qed.
Lemma dfold_has m k : forall l d, has_key (fold_left (dstep m) l d) k = has_key d k || existsb (dhit m k) l.
Proof.
  induction l as [|ds l IH]; intros d; cbn [fold_left existsb]; [rewrite orb_false_r; reflexivity|]. rewrite IH. unfold dstep, dhit. cbv zeta.
  destruct (Nat.eqb (cnt (d_frag ds) m) 0).
  - rewrite andb_false_r. reflexivity.
  - rewrite dict_add_has. cbn [negb]. rewrite andb_true_r. destruct (str_eqb (d_name ds) k), (has_key d k); reflexivity.
Qed.

Section UnionFinal.
Variables m1 m2 : mol.
Hypothesis W1 : wf_mol m1.
Hypothesis W2 : wf_mol m2.
Hypothesis R1 : wf_rings m1.
Hypothesis R2 : wf_rings m2.
Let n1 := natom m1.
Let U := union m1 m2.
Variable sch : scheme.
Hypothesis Gp : forall p, In p (s_patterns sch) -> good_frag (p_frag p).
Hypothesis Gd : forall ds, In ds (s_descr sch) -> good_frag (d_frag ds).
Hypothesis CF : chain_free (s_remaps sch).

(* distinct matched atom sets of the mixture: those of the components *)
Lemma cnt_union f : good_frag f -> cnt f U = (cnt f m1 + cnt f m2)%nat.
Proof.
  intros (Fw & Fm & Fc & Fn). unfold cnt, U.
  rewrite (distinct_sets_perm _ _ (matches_union_perm m1 m2 W1 W2 R1 R2 f Fw Fm Fc Fn)).
  rewrite distinct_sets_app.
  - f_equal. apply distinct_sets_map. intros a x y _ _ b _ _ E. unfold shift in E. lia.
  - intros x y Hx Hy. apply in_map_iff in Hy. destruct Hy as (img & <- & Hy).
    destruct (same_set x (map (shift (natom m1)) img)) eqn:E; [|reflexivity]. exfalso.
    destruct (match_first f Fw Fn m2 img Hy) as (Y & HY & _). destruct img as [|y r]; [discriminate|].
    assert (In (shift (natom m1) y) x). { apply (proj1 (same_set_spec _ _) E). left. reflexivity. }
    assert ((shift (natom m1) y < natom m1)%nat).
    { apply (denotes_lt m1 f x); [apply (matches_iff _ _ _ Fw); exact Hx|exact H]. }
    unfold shift in H0. lia.
Qed.

Lemma raw_descr_union_get k : dict_get (raw_descr sch U) k == dict_get (raw_descr sch m1) k + dict_get (raw_descr sch m2) k.
Proof.
  rewrite !raw_descr_fold, !dfold_get. cbn [dict_get]. 
  assert (G : forall l, (forall ds, In ds l -> good_frag (d_frag ds)) ->
     fold_right (fun ds s => dterm U k ds + s) 0 l == fold_right (fun ds s => dterm m1 k ds + s) 0 l + fold_right (fun ds s => dterm m2 k ds + s) 0 l).
  { induction l as [|ds l IH]; intros Hl; cbn [fold_right]; [ring|]. rewrite IH by (intros d Hd; apply Hl; right; exact Hd).
    unfold dterm. rewrite (cnt_union _ (Hl ds (or_introl eq_refl))). destruct (str_eqb (d_name ds) k); [|ring].
    rewrite Nat2Z.inj_add, inject_Z_plus. ring. }
  rewrite (G _ Gd). simpl. ring.
Qed.
Lemma raw_descr_union_has k : has_key (raw_descr sch U) k = has_key (raw_descr sch m1) k || has_key (raw_descr sch m2) k.
Proof.
  rewrite !raw_descr_fold, !dfold_has. cbn [has_key existsb orb].
  assert (G : forall l, (forall ds, In ds l -> good_frag (d_frag ds)) ->
     existsb (dhit U k) l = existsb (dhit m1 k) l || existsb (dhit m2 k) l).
  { induction l as [|ds l IH]; intros Hl; cbn [existsb]; [reflexivity|]. rewrite IH by (intros d Hd; apply Hl; right; exact Hd).
    unfold dhit. rewrite (cnt_union _ (Hl ds (or_introl eq_refl))).
    destruct (str_eqb (d_name ds) k); cbn [andb]; [|reflexivity].
    fold (dhit m1 k) (dhit m2 k).
    destruct (cnt (d_frag ds) m1), (cnt (d_frag ds) m2); cbn [Nat.add Nat.eqb negb orb];
      destruct (existsb (dhit m1 k) l), (existsb (dhit m2 k) l); reflexivity. }
  apply (G _ Gd).
Qed.

(* "the descriptors of a mixture are the sum": the correction descriptors (after remaps) *)
Theorem assign_descr_union k :
  dict_get (assign_descr sch U) k == dict_get (assign_descr sch m1) k + dict_get (assign_descr sch m2) k.
Proof.
  rewrite !assign_descr_is. apply apply_remaps_additive; auto using raw_descr_nodup.
  - apply raw_descr_union_has.
  - apply raw_descr_union_get.
Qed.

Variables nm1 nm2 : list (str * str).
Hypothesis L1 : length nm1 = natom m1.
Hypothesis L2 : length nm2 = natom m2.

Lemma group_left i : (i < n1)%nat -> group_of U (nm1 ++ nm2) i = group_of m1 nm1 i.
Proof.
  intros Hi. apply (group_of_embed (fun x => x) m1 U nm1 (nm1 ++ nm2) (embeds_left m1 m2 W1)); [|exact Hi].
  intros a Ha. apply nth_error_app1. rewrite L1. exact Ha.
Qed.
Lemma group_right i : (i < natom m2)%nat -> group_of U (nm1 ++ nm2) (n1 + i) = group_of m2 nm2 i.
Proof.
  intros Hi. apply (group_of_embed (shift n1) m2 U nm2 (nm1 ++ nm2) (embeds_right m1 m2 W1 W2 R1 R2)); [|exact Hi].
  intros a Ha. unfold shift. rewrite nth_error_app2 by (rewrite L1; unfold n1; lia). f_equal. rewrite L1. unfold n1. lia.
Qed.

Lemma seq_split : seq 0 (natom U) = seq 0 n1 ++ map (shift n1) (seq 0 (natom m2)).
Proof.
  unfold U. rewrite union_natom. fold n1. rewrite seq_app. f_equal. simpl.
  assert (G : forall k a b, seq (a + b) k = map (shift a) (seq b k)).
  { induction k as [|k IH]; intros a b; cbn [seq map]; [reflexivity|]. unfold shift at 1. f_equal.
    replace (S (a + b)) with (a + S b)%nat by lia. apply IH. }
  rewrite <- G. f_equal. lia.
Qed.

Lemma raw_groups_union_get k :
  dict_get (raw_groups U (nm1 ++ nm2)) k == dict_get (raw_groups m1 nm1) k + dict_get (raw_groups m2 nm2) k.
Proof.
  rewrite !raw_groups_count, seq_split. fold n1.
  assert (A : forall (f : nat -> Q) l1 l2, fold_right (fun i s => f i + s) 0 (l1 ++ l2)
            == fold_right (fun i s => f i + s) 0 l1 + fold_right (fun i s => f i + s) 0 l2).
  { intros f l1 l2. induction l1 as [|x l1 IH]; cbn [app fold_right]; [ring|]. rewrite IH. ring. }
  rewrite (A (fun i => occ k (group_of U (nm1 ++ nm2) i))).
  rewrite (sum_map (fun i => occ k (group_of U (nm1 ++ nm2) i)) (shift n1)).
  rewrite (sum_ext_nat (fun i => occ k (group_of U (nm1 ++ nm2) i)) (fun i => occ k (group_of m1 nm1 i)) (seq 0 n1)).
  2:{ intros i Hi. apply in_seq in Hi. rewrite group_left by lia. reflexivity. }
  rewrite (sum_ext_nat (fun i => occ k (group_of U (nm1 ++ nm2) (shift n1 i))) (fun i => occ k (group_of m2 nm2 i)) (seq 0 (natom m2))).
  2:{ intros i Hi. apply in_seq in Hi. unfold shift. rewrite group_right by lia. reflexivity. }
  reflexivity.
Qed.
Lemma raw_groups_union_has k :
  has_key (raw_groups U (nm1 ++ nm2)) k = has_key (raw_groups m1 nm1) k || has_key (raw_groups m2 nm2) k.
Proof.
  rewrite !raw_groups_has, seq_split. fold n1. rewrite existsb_app, existsb_map. f_equal.
  - apply existsb_ext'. intros i Hi. apply in_seq in Hi. unfold ghit. rewrite group_left by lia. reflexivity.
  - apply existsb_ext'. intros i Hi. apply in_seq in Hi. unfold ghit, shift. rewrite group_right by lia. reflexivity.
Qed.

(* "the descriptors of a mixture are the sum": the groups (after remaps) *)
Theorem assign_groups_union k :
  dict_get (assign_groups sch U (nm1 ++ nm2)) k == dict_get (assign_groups sch m1 nm1) k + dict_get (assign_groups sch m2 nm2) k.
Proof.
  rewrite !assign_groups_is. apply apply_remaps_additive; auto using raw_groups_nodup.
  - apply raw_groups_union_has.
  - apply raw_groups_union_get.
Qed.

(* groups.update(descriptors) REPLACES a group count by the descriptor count of the same name, so the whole dictionary is
   additive exactly when no correction-descriptor name that occurs is also a group name that occurs *)
Definition names_apart : Prop := forall k,
  has_key (assign_descr sch U) k || has_key (assign_descr sch m1) k || has_key (assign_descr sch m2) k = true ->
  dict_get (assign_groups sch m1 nm1) k == 0 /\ dict_get (assign_groups sch m2 nm2) k == 0.

Theorem descriptors_union : names_apart -> forall k,
  dict_get (descriptors_of sch U (nm1 ++ nm2)) k == dict_get (descriptors_of sch m1 nm1) k + dict_get (descriptors_of sch m2 nm2) k.
Proof.
  intros NA k. unfold descriptors_of.
  rewrite !dict_update_get by (rewrite assign_descr_is; apply apply_remaps_nodup; apply raw_descr_nodup).
  pose proof (assign_descr_union k) as D. pose proof (assign_groups_union k) as G. pose proof (NA k) as Z.
  destruct (has_key (assign_descr sch U) k) eqn:HU, (has_key (assign_descr sch m1) k) eqn:H1, (has_key (assign_descr sch m2) k) eqn:H2;
    cbn [orb] in Z;
    try (destruct (Z eq_refl) as [Z1 Z2]);
    try (rewrite (dict_get_absent _ _ HU) in D); try (rewrite (dict_get_absent _ _ H1) in D); try (rewrite (dict_get_absent _ _ H2) in D);
    try rewrite D; try rewrite G; try rewrite Z1; try rewrite Z2; try rewrite <- D; try ring.
Qed.
End UnionFinal.

(* ====================== the decomposition, in one statement (C02) ====================== *)
(* what GetDescriptors returns, for a scheme with a chain-free remap table: the call succeeds only if every atom of the prepared
   graph is hit by exactly one centre pattern; the value of a name is then the (remapped) correction-descriptor count if the
   descriptor dictionary has the name, else the (remapped) group count; before the remaps the group count of a name is the number
   of atoms contributing that group and the descriptor count is the number of distinct matched atom sets; the remaps act linearly *)
Theorem decomposition_spec sch sssr m0 d : chain_free (s_remaps sch) -> get_descriptors sch sssr m0 = SOk d ->
  let m := aromatize sssr m0 in
  exists nm,
    assign_centres sch m = SOk nm /\ length nm = natom m
    /\ (forall a, (a < natom m)%nat -> exists p, hit_list m (s_patterns sch) a = [p] /\ nth_error nm a = Some (p_center p, p_periph p))
    /\ (forall k, dict_get (raw_groups m nm) k == fold_right (fun i s => occ k (group_of m nm i) + s) 0 (seq 0 (natom m)))
    /\ (forall k, dict_get (raw_descr sch m) k == fold_right (fun ds s => dterm m k ds + s) 0 (s_descr sch))
    /\ (forall k, let G := apply_remaps (s_remaps sch) (raw_groups m nm) in
                  let D := apply_remaps (s_remaps sch) (raw_descr sch m) in
                  dict_get d k == (if has_key D k then dict_get D k else dict_get G k))
    /\ (forall raw, NoDup (map fst raw) -> forall k,
          dict_get (apply_remaps (s_remaps sch) raw) k
          == (if src (s_remaps sch) k && memk k (map fst raw) then 0 else dict_get raw k)
             + fold_right (fun s t => term (s_remaps sch) raw s k + t) 0 (map fst raw)).
Proof.
  intros CF H m. unfold get_descriptors in H. fold m in H.
  destruct (assign_centres sch m) as [nm|e] eqn:E; [|discriminate]. inversion H; subst d. clear H.
  exists nm. destruct (assign_centres_unique sch m nm E) as [L U].
  split; [reflexivity|]. split; [exact L|]. split; [exact U|]. split; [intros k; apply raw_groups_count|].
  split.
  { intros k. rewrite raw_descr_fold, dfold_get. cbn [dict_get]. ring. }
  split.
  { intros k. cbv zeta. rewrite assign_groups_is, assign_descr_is.
    apply dict_update_get. apply apply_remaps_nodup. apply raw_descr_nodup. }
  intros raw Hn k. apply apply_remaps_linear; assumption.
Qed.
