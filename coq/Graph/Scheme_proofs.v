From Coq Require Import List NArith ZArith QArith Arith Bool Lia.
From PG Require Import Common.Strs Common.Strs_proofs Graph.Mol Graph.Match Graph.Scheme Graph.SchemeLoad Gen.Schemes.
Import ListNotations.

(* finite facts about the nine regenerated scheme files *)
Lemma all_schemes_ok_true : forallb (fun kv => scheme_ok (snd kv)) all_raw = true.
Proof. vm_compute. reflexivity. Qed.

Theorem all_schemes_ok : forall kv, In kv all_raw -> scheme_ok (snd kv) = true.
Proof. apply forallb_forall. exact all_schemes_ok_true. Qed.

(* naming: every atom gets exactly one centre, or the call fails *)
Lemma set_name_length l : forall i v l', set_name l i v = Some l' -> length l' = length l.
Proof.
  induction l as [|x l IH]; intros i v l' H.
  - destruct i; discriminate.
  - destruct i as [|i]; simpl in H.
    + destruct x; [discriminate|]. inversion H; subst; reflexivity.
    + destruct x; destruct (set_name l i v) eqn:E; try discriminate;
        inversion H; subst; simpl; f_equal; eapply IH; eauto.
Qed.

Lemma set_name_fresh l : forall i v l', set_name l i v = Some l' -> nth_error l i = Some None.
Proof.
  induction l as [|x l IH]; intros i v l' H.
  - destruct i; discriminate.
  - destruct i as [|i]; simpl in H.
    + destruct x; [discriminate|reflexivity].
    + simpl. destruct x; destruct (set_name l i v) eqn:E; try discriminate; eapply IH; eauto.
Qed.

(* an atom that is already classified cannot be classified again: the second
   matching centre pattern makes the whole call fail *)
Theorem overlap_rejected l i v w : nth_error l i = Some (Some w) -> set_name l i v = None.
Proof.
  revert i; induction l as [|x l IH]; intros i H.
  - destruct i; discriminate.
  - destruct i as [|i]; simpl in *.
    + inversion H; subst. reflexivity.
    + rewrite (IH i H). destruct x; reflexivity.
Qed.

Theorem descriptors_fail_iff_centres_fail sch sssr m e :
  get_descriptors sch sssr m = SRaise e <-> assign_centres sch (aromatize sssr m) = SRaise e.
Proof.
  unfold get_descriptors. destruct (assign_centres sch (aromatize sssr m)) as [nm|e']; split; intros H; try discriminate; inversion H; reflexivity.
Qed.

Theorem centres_only_pattern_error sch m e : assign_centres sch m = SRaise e -> e = PatternMatch.
Proof.
  unfold assign_centres. destruct (fold_left _ _ _); [|intros H; inversion H; reflexivity].
  destruct (forallb _ _); intros H; inversion H; reflexivity.
Qed.

(* dictionary arithmetic used by groups, descriptors and remaps *)
Fixpoint dict_get (d : dict) (k : str) : Q :=
  match d with [] => 0 | (k', x) :: r => if str_eqb k' k then x else dict_get r k end.

Lemma dict_add_get d k v k' :
  dict_get (dict_add d k v) k' == (if str_eqb k k' then dict_get d k' + v else dict_get d k').
Proof.
  induction d as [|[a x] d IH]; cbn [dict_add dict_get].
  - destruct (str_eqb k k'); ring.
  - destruct (str_eqb a k) eqn:E1; cbn [dict_get].
    + apply str_eqb_eq in E1. subst a.
      destruct (str_eqb k k'); [apply Qred_correct|reflexivity].
    + destruct (str_eqb a k') eqn:E2.
      * destruct (str_eqb k k') eqn:E3; [|reflexivity].
        apply str_eqb_eq in E2, E3. subst. rewrite str_eqb_refl in E1. discriminate.
      * exact IH.
Qed.

(* Benson aromatisation of fused alternating rings depends on the order in
   which the rings are listed (known finding): naphthalene's carbon skeleton in
   one Kekule form, rings listed in the two possible orders *)
Local Close Scope Q_scope.
Local Open Scope nat_scope.
Definition cat (z : N) : matom := {| a_z := z; a_chg := 0; a_rad := 0; a_arom := false |}.
Definition bd (u v : nat) (t : btype) : mbond := {| b_u := u; b_v := v; b_t := t; b_st := StNone; b_sa := [] |}.
Definition naph : mol :=
  {| atoms := repeat (cat 6) 10;
     bonds := [bd 0 1 BtSingle; bd 1 2 BtDouble; bd 2 3 BtSingle; bd 3 4 BtDouble; bd 4 5 BtSingle; bd 5 0 BtDouble;
               bd 4 6 BtSingle; bd 6 7 BtDouble; bd 7 8 BtSingle; bd 8 9 BtDouble; bd 9 3 BtSingle];
     rings := [[0; 1; 2; 3; 4; 5]; [3; 4; 6; 7; 8; 9]] |}.
Theorem aromatize_order_refuted :
  exists m o1 o2, (forall r, In r o1 <-> In r o2) /\
    map b_t (bonds (aromatize o1 m)) <> map b_t (bonds (aromatize o2 m)).
Proof.
  exists naph, [[0; 1; 2; 3; 4; 5]; [4; 3; 9; 8; 7; 6]], [[4; 3; 9; 8; 7; 6]; [0; 1; 2; 3; 4; 5]].
  split; [intros r; simpl; tauto|]. vm_compute. discriminate.
Qed.

(* a single alternating six-carbon ring is aromatised whatever atom the ring
   list starts from and whichever direction it runs *)
Definition benz : mol :=
  {| atoms := repeat (cat 6) 6;
     bonds := [bd 0 1 BtDouble; bd 1 2 BtSingle; bd 2 3 BtDouble; bd 3 4 BtSingle; bd 4 5 BtDouble; bd 5 0 BtSingle];
     rings := [[0; 1; 2; 3; 4; 5]] |}.
Example benzene_any_ring_spelling :
  forallb (fun r => forallb (fun b => btype_eqb (b_t b) BtArom) (bonds (aromatize [r] benz)))
          [[0;1;2;3;4;5]; [1;2;3;4;5;0]; [2;3;4;5;0;1]; [5;4;3;2;1;0]; [3;2;1;0;5;4]; [0;5;4;3;2;1]] = true.
Proof. vm_compute. reflexivity. Qed.
