(* C02: "remap rules are applied as linear substitutions" - for dictionaries
   with unique keys and chain-free remap tables. *)
From Coq Require Import List NArith ZArith QArith Arith Bool Lia Lqa.
From PG Require Import Common.Strs Common.Strs_proofs Graph.Mol Graph.Match Graph.Scheme Graph.Scheme_proofs.
Import ListNotations.
Local Open Scope Q_scope.

Definition has_key (d : dict) (k : str) : bool := existsb (fun kv => str_eqb (fst kv) k) d.

Lemma dict_pop_spec d k : NoDup (map fst d) ->
  match dict_pop d k with
  | (Some n, d') => has_key d k = true /\ n == dict_get d k /\ (forall k', dict_get d' k' == (if str_eqb k k' then 0 else dict_get d k'))
                    /\ (forall k', has_key d' k' = (if str_eqb k k' then false else has_key d k')) /\ NoDup (map fst d')
  | (None, d') => has_key d k = false /\ d' = d
  end.
Proof.
  induction d as [|[k0 x] d IH]; intros Hn; simpl.
  - split; reflexivity.
  - inversion Hn as [|? ? Hnot Hn']; subst. destruct (str_eqb k0 k) eqn:E.
    + apply str_eqb_eq in E. subst k0. split; [reflexivity|]. split; [reflexivity|]. split; [|split; [|exact Hn']].
      * intros k'. destruct (str_eqb k k') eqn:E'; [|reflexivity].
        apply str_eqb_eq in E'. subst k'.
        assert (G : forall l, ~ In k (map fst l) -> dict_get l k == 0).
        { induction l as [|[a b] l IHl]; intros Hl; simpl; [reflexivity|]. destruct (str_eqb a k) eqn:Ea.
          - apply str_eqb_eq in Ea. subst. exfalso. apply Hl. left. reflexivity.
          - apply IHl. intros H. apply Hl. right. exact H. }
        apply G. exact Hnot.
      * intros k'. destruct (str_eqb k k') eqn:E'; [|reflexivity].
        apply str_eqb_eq in E'. subst k'. unfold has_key. apply not_true_is_false. intros H.
        apply existsb_exists in H. destruct H as ([a b] & Hin & Ea). simpl in Ea. apply str_eqb_eq in Ea. subst a.
        apply Hnot. apply (in_map fst) in Hin. exact Hin.
    + specialize (IH Hn'). destruct (dict_pop d k) as [[n|] d'].
      * destruct IH as (A & B & C & D & F). split; [simpl; exact A|]. split; [exact B|]. split; [|split].
        -- intros k'. simpl. destruct (str_eqb k0 k') eqn:E0.
           ++ destruct (str_eqb k k') eqn:E1; [|reflexivity]. apply str_eqb_eq in E0, E1. subst. rewrite str_eqb_refl in E. discriminate.
           ++ apply C.
        -- intros k'. simpl. rewrite D. destruct (str_eqb k k') eqn:E1; [|reflexivity].
           destruct (str_eqb k0 k') eqn:E0; [|reflexivity]. apply str_eqb_eq in E0, E1. subst. rewrite str_eqb_refl in E. discriminate.
        -- simpl. constructor; [|exact F]. intros Hin.
           assert (has_key d' k0 = true).
           { apply in_map_iff in Hin. destruct Hin as ([a b] & Ea & Hin). simpl in Ea. subst a. unfold has_key. apply existsb_exists.
             exists (k0, b). split; [exact Hin|apply str_eqb_refl]. }
           rewrite D in H. destruct (str_eqb k k0) eqn:E1; [discriminate|].
           apply Hnot. unfold has_key in H. apply existsb_exists in H. destruct H as ([a b] & Hin' & Ea). simpl in Ea.
           apply str_eqb_eq in Ea. subst a. apply (in_map fst) in Hin'. exact Hin'.
      * destruct IH as [A B]. subst d'. split; [simpl; exact A|reflexivity].
Qed.

Lemma dict_add_has d k v k' : has_key (dict_add d k v) k' = str_eqb k k' || has_key d k'.
Proof.
  induction d as [|[k0 x] d IH]; simpl.
  - rewrite orb_false_r. reflexivity.
  - destruct (str_eqb k0 k) eqn:E; simpl.
    + apply str_eqb_eq in E. subst k0. destruct (str_eqb k k'); reflexivity.
    + rewrite IH. destruct (str_eqb k0 k'), (str_eqb k k'); reflexivity.
Qed.

Lemma dict_add_nodup d k v : NoDup (map fst d) -> NoDup (map fst (dict_add d k v)).
Proof.
  induction d as [|[k0 x] d IH]; intros Hn; simpl.
  - constructor; [intros []|constructor].
  - inversion Hn as [|? ? Hnot Hn']; subst. destruct (str_eqb k0 k) eqn:E; simpl.
    + constructor; assumption.
    + constructor; [|apply IH; exact Hn'].
      intros Hin. apply in_map_iff in Hin. destruct Hin as ([a b] & Ea & Hin). simpl in Ea. subst a.
      assert (H : has_key (dict_add d k v) k0 = true) by (unfold has_key; apply existsb_exists; exists (k0, b); split; [exact Hin|apply str_eqb_refl]).
      rewrite dict_add_has in H. apply orb_true_iff in H. destruct H as [H|H].
      * apply str_eqb_eq in H. subst. rewrite str_eqb_refl in E. discriminate.
      * apply Hnot. unfold has_key in H. apply existsb_exists in H. destruct H as ([a c] & Hin' & Ea). simpl in Ea.
        apply str_eqb_eq in Ea. subst a. apply (in_map fst) in Hin'. exact Hin'.
Qed.

(* the coefficient with which a source's count goes to the name k' *)
Definition coef (targets : list (Q * str)) (k' : str) : Q :=
  fold_right (fun ct s => (if str_eqb (snd ct) k' then fst ct else 0) + s) 0 targets.

Lemma fold_targets n : forall (targets : list (Q * str)) (acc : dict), NoDup (map fst acc) ->
  let d1 := fold_left (fun a ct => dict_add a (snd ct) (Qred (n * fst ct))) targets acc in
  (forall k', dict_get d1 k' == dict_get acc k' + n * coef targets k')
  /\ (forall k', has_key acc k' = true -> has_key d1 k' = true) /\ NoDup (map fst d1).
Proof.
  induction targets as [|[c t] tg IH]; intros acc Hn; simpl.
  - split; [intros k'; ring|]. split; auto.
  - destruct (IH (dict_add acc t (Qred (n * c))) (dict_add_nodup _ _ _ Hn)) as (A & B & C). split; [|split; [|exact C]].
    + intros k'. rewrite A, dict_add_get. destruct (str_eqb t k'); [rewrite Qred_correct|]; ring.
    + intros k' Hk. apply B. rewrite dict_add_has, Hk. apply orb_true_r.
Qed.

(* ---------- the remap pass ---------- *)
Section Remap.
Variable rm : list (str * list (Q * str)).
Definition src (k : str) : bool := match remap_get rm k with Some _ => true | None => false end.
(* no remap target is itself remapped (finite theorem on the shipped schemes: scheme_ok) *)
Definition chain_free : Prop :=
  forall s tg, remap_get rm s = Some tg -> forall ct, In ct tg -> remap_get rm (snd ct) = None.
Definition term (acc : dict) (s k' : str) : Q :=
  match remap_get rm s with Some tg => dict_get acc s * coef tg k' | None => 0 end.
Definition step (acc : dict) (k : str) : dict :=
  match remap_get rm k with
  | None => acc
  | Some targets =>
      match dict_pop acc k with
      | (Some n, acc') => fold_left (fun a ct => dict_add a (snd ct) (Qred (n * fst ct))) targets acc'
      | (None, _) => acc
      end
  end.
Definition memk (k : str) (l : list str) : bool := existsb (str_eqb k) l.

Lemma apply_remaps_is d : apply_remaps rm d = fold_left step (map fst d) d.
Proof. reflexivity. Qed.

Lemma sum_ext (f g : str -> Q) l : (forall s, In s l -> f s == g s) ->
  fold_right (fun s t => f s + t) 0 l == fold_right (fun s t => g s + t) 0 l.
Proof.
  induction l as [|x l IH]; intros H; simpl; [reflexivity|].
  rewrite (H x) by (left; reflexivity). rewrite IH; [reflexivity|]. intros s Hs. apply H. right. exact Hs.
Qed.

Hypothesis CF : chain_free.

Lemma coef_src_zero s tg x : remap_get rm s = Some tg -> src x = true -> coef tg x == 0.
Proof.
  intros Hs Hx. assert (G : forall l, (forall ct, In ct l -> remap_get rm (snd ct) = None) -> coef l x == 0).
  { induction l as [|[c t] l IH]; intros H; simpl; [reflexivity|].
    rewrite IH by (intros ct Hct; apply H; right; exact Hct).
    destruct (str_eqb t x) eqn:E; [|ring].
    apply str_eqb_eq in E. subst t. specialize (H (c, x) (or_introl eq_refl)). simpl in H.
    unfold src in Hx. rewrite H in Hx. discriminate. }
  apply G. intros ct Hct. eapply CF; eauto.
Qed.

Lemma memk_In k l : memk k l = true <-> In k l.
Proof.
  unfold memk. rewrite existsb_exists. split.
  - intros (y & Hy & E). apply str_eqb_eq in E. subst. exact Hy.
  - intros H. exists k. split; [exact H|apply str_eqb_refl].
Qed.

Theorem remap_fold : forall ks acc, NoDup ks -> NoDup (map fst acc) ->
  (forall s, In s ks -> src s = true -> has_key acc s = true) ->
  forall k', dict_get (fold_left step ks acc) k'
             == (if src k' && memk k' ks then 0 else dict_get acc k') + fold_right (fun s t => term acc s k' + t) 0 ks.
Proof.
  induction ks as [|s r IH]; intros acc Hnk Hna Hhas k'; simpl.
  - rewrite andb_false_r. ring.
  - inversion Hnk as [|? ? Hs Hnr]; subst.
    unfold step at 2. unfold term at 1. destruct (remap_get rm s) as [tg|] eqn:Es.
    + (* s is remapped *)
      assert (Hsrc : src s = true) by (unfold src; rewrite Es; reflexivity).
      pose proof (dict_pop_spec acc s Hna) as P. rewrite (Hhas s (or_introl eq_refl) Hsrc) in P.
      destruct (dict_pop acc s) as [[n|] acc']; [|destruct P as [P _]; discriminate].
      destruct P as (_ & Pn & Pg & Ph & Pnd).
      destruct (fold_targets n tg acc' Pnd) as (Fg & Fh & Fnd). cbv zeta in Fg, Fh, Fnd.
      set (acc2 := fold_left (fun a ct => dict_add a (snd ct) (Qred (n * fst ct))) tg acc') in *.
      rewrite (IH acc2 Hnr Fnd).
      2:{ intros s' Hs' Hsrc'. apply Fh. rewrite Ph. destruct (str_eqb s s') eqn:E; [|apply Hhas; [right; exact Hs'|exact Hsrc']].
          apply str_eqb_eq in E. subst. contradiction. }
      assert (A2 : forall x, dict_get acc2 x == (if str_eqb s x then 0 else dict_get acc x) + n * coef tg x)
        by (intros x; rewrite Fg, Pg; reflexivity).
      (* the remaining sources are untouched, so their terms are unchanged *)
      rewrite (sum_ext (fun s' => term acc2 s' k') (fun s' => term acc s' k') r).
      2:{ intros s' Hs'. unfold term. destruct (remap_get rm s') as [tg'|] eqn:Es'; [|reflexivity].
          assert (src s' = true) by (unfold src; rewrite Es'; reflexivity).
          rewrite A2. rewrite (coef_src_zero s tg s' Es H).
          destruct (str_eqb s s') eqn:E; [apply str_eqb_eq in E; subst; contradiction|]. ring. }
      destruct (src k') eqn:Sk; cbn [andb].
      * pose proof (coef_src_zero s tg k' Es Sk) as Z.
        destruct (str_eqb k' s) eqn:E1.
        -- apply str_eqb_eq in E1. subst k'. cbn [orb].
           destruct (memk s r) eqn:M; [apply memk_In in M; contradiction|].
           rewrite A2, str_eqb_refl, Z, Pn. ring.
        -- cbn [orb]. destruct (memk k' r); [rewrite Z; ring|].
           rewrite A2, Z, Pn. destruct (str_eqb s k') eqn:E2; [apply str_eqb_eq in E2; subst; rewrite str_eqb_refl in E1; discriminate|]. ring.
      * rewrite A2, Pn. destruct (str_eqb s k') eqn:E2.
        -- apply str_eqb_eq in E2. subst k'. rewrite Hsrc in Sk. discriminate.
        -- ring.
    + (* s is not remapped *)
      rewrite (IH acc Hnr Hna) by (intros s' Hs' Hsrc'; apply Hhas; [right; exact Hs'|exact Hsrc']).
      destruct (src k') eqn:Sk; cbn [andb]; [|ring].
      destruct (str_eqb k' s) eqn:E1; [|cbn [orb]; ring].
      apply str_eqb_eq in E1. subst k'. unfold src in Sk. rewrite Es in Sk. discriminate.
Qed.

(* remaps are applied as a linear substitution: a remapped name disappears, every other name keeps its count and
   receives, from each remapped name present, that name's count times the coefficient declared for it *)
Theorem apply_remaps_linear d : NoDup (map fst d) -> forall k',
  dict_get (apply_remaps rm d) k'
  == (if src k' && memk k' (map fst d) then 0 else dict_get d k') + fold_right (fun s t => term d s k' + t) 0 (map fst d).
Proof.
  intros Hn k'. rewrite apply_remaps_is. apply remap_fold; auto.
  intros s Hs _. unfold has_key. apply existsb_exists. apply in_map_iff in Hs. destruct Hs as ([a b] & Ea & Hin). simpl in Ea. subst a.
  exists (s, b). split; [exact Hin|apply str_eqb_refl].
Qed.
End Remap.
