(* Executable model of MolQuery.GetQueryMatches (RDkitWrapper/MolQuery.py) on a
   prepared graph: RDKit's substructure embedding (own matcher: every
   injective assignment respecting the query atoms and the declared bonds),
   then the bond, atom and stereo constraint filters.  No proofs here. *)
From Coq Require Import List NArith ZArith Arith Bool.
From PG Require Import Common.Strs Graph.Mol.
Import ListNotations.

Definition cmp (c : cnum) (x : Z) : bool :=
  match cn_op c with
  | CGt => Z.gtb x (cn_n c) | CLt => Z.ltb x (cn_n c)
  | CGe => Z.geb x (cn_n c) | CLe => Z.leb x (cn_n c) | CEq => Z.eqb x (cn_n c)
  end.

(* the query atom against a molecule atom (RDKit QueryAtom / Atom.Match) *)
Definition sym_ok (s : symcls) (a : matom) : bool :=
  match s with
  | SAny => N.ltb 0 (a_z a)
  | SHetero => N.eqb (a_z a) 7 || N.eqb (a_z a) 8 || N.eqb (a_z a) 15 || N.eqb (a_z a) 16
  | SHeavy => N.ltb 1 (a_z a)
  | SMetal => N.ltb 19 (a_z a)
  | SElem z => N.eqb (a_z a) z
  | SLower z => N.eqb (a_z a) z && a_arom a
  end.
Definition qatom_ok (q : qatom) (a : matom) : bool :=
  sym_ok (qa_sym q) a &&
  match qa_chg q with Some c => Z.eqb (a_chg a) c | None => true end.

(* the query bond of the RDKit query molecule: UNSPECIFIED matches anything *)
Definition qbond_ok (qt : btype) (b : mbond) : bool :=
  match qt with BtUnspec => true | _ => btype_eqb qt (b_t b) end.

(* BondQuery.__call__ *)
Definition bkind_ok (m : mol) (k : bkind) (b : mbond) : bool :=
  match k with
  | KSingle => btype_eqb (b_t b) BtSingle
  | KDouble => btype_eqb (b_t b) BtDouble
  | KTriple => btype_eqb (b_t b) BtTriple
  | KQuad => btype_eqb (b_t b) BtQuad
  | KRing => bond_in_ring m (b_u b) (b_v b)
  | KNonRing => negb (bond_in_ring m (b_u b) (b_v b))
  | KArom => btype_eqb (b_t b) BtArom
  | KAny => true
  | KStrong => btype_eqb (b_t b) BtDouble || btype_eqb (b_t b) BtTriple
               || btype_eqb (b_t b) BtQuad || btype_eqb (b_t b) BtArom
  | KPartial => btype_eqb (b_t b) BtDative || btype_eqb (b_t b) BtOther || btype_eqb (b_t b) BtZero
  end.

Definition count {A} (f : A -> bool) (l : list A) : Z := Z.of_nat (length (filter f l)).

(* atom constraints; nested constraints (of `connected to`) one level deep per
   constructor, so recursion is structural on the constraint *)
Fixpoint acon_ok (m : mol) (c : aconstr) (i : nat) (a : matom) {struct c} : bool :=
  match c with
  | ARadical neg cn => xorb neg (cmp cn (Z.of_N (a_rad a)))
  | AInRing neg => xorb neg (atom_in_ring m i)
  | AAromatic neg => xorb neg (a_arom a)
  | AAllylic neg => xorb neg (existsb (fun bn => btype_eqb (b_t (fst bn)) BtDouble) (bonds_of m i))
  | ARingSize neg cn =>
      let hit := existsb (fun r => cmp cn (Z.of_nat (length r))) (rings_of m i) in
      if neg then negb hit else atom_in_ring m i && hit
  | ANRing neg cn => xorb neg (cmp cn (Z.of_nat (length (rings_of m i))))
  | AConn neg cn q sub bk =>
      let n := count (fun bn =>
                 match atom_at m (snd bn) with
                 | None => false
                 | Some a' =>
                     qatom_ok q a'
                     && (fix all (l : list aconstr) : bool :=
                           match l with
                           | [] => true
                           | s :: r => acon_ok m s (snd bn) a' && all r
                           end) sub
                     && bkind_ok m bk (fst bn)
                 end) (bonds_of m i) in
      xorb neg (cmp cn n)
  end.

(* molecule-level prefix *)
Definition mcon_ok (m : mol) (c : mconstr) : bool :=
  let cc_double := existsb (fun b => btype_eqb (b_t b) BtDouble
                      && match atom_at m (b_u b), atom_at m (b_v b) with
                         | Some x, Some y => N.eqb (a_z x) 6 && N.eqb (a_z y) 6
                         | _, _ => false end) (bonds m) in
  match c with
  | MCharge cn => cmp cn (fold_left (fun s a => (s + a_chg a)%Z) (atoms m) 0%Z)
  | MAromatic => existsb a_arom (atoms m)
  | MOlefinic => cc_double
  | MParaffinic => negb cc_double
  | MCyclic => negb (isnil (rings m))
  | MLinear => isnil (rings m)
  end.

(* DoubleBondStereoConstraint.__call__ *)
Definition flip (s : bstereo) : bstereo := match s with StZ => StE | StE => StZ | x => x end.
Definition stereo_ok (m : mol) (q : qstereo) (img : list nat) : bool :=
  match nth_error img (s1 q), nth_error img (s2 q), nth_error img (s3 q), nth_error img (s4 q) with
  | Some i1, Some i2, Some i3, Some i4 =>
      match bond_between m i3 i4 with
      | None => false
      | Some b =>
          let st := b_st b in
          let decide (s : bstereo) := xorb (s_neg q) (bstereo_eqb (s_kind q) s) in
          match st with
          | StNone => decide st
          | _ =>
              let n := length (filter (fun x => mem_nat x [i1; i2]) (nodup Nat.eq_dec (b_sa b))) in
              if Nat.eqb n 1 then decide (flip st) else decide st
          end
      end
  | _, _, _, _ => false
  end.

(* ---------- embeddings ---------- *)
(* query bonds whose later end is atom k (the other end was declared earlier) *)
Definition bonds_into (f : fragment) (k : nat) : list (nat * btype) :=
  flat_map (fun b => let '(i, j, t) := b in
                     if Nat.eqb i k && Nat.ltb j k then [(j, t)]
                     else if Nat.eqb j k && Nat.ltb i k then [(i, t)] else []) (f_bonds f).

Definition place_ok (f : fragment) (m : mol) (k : nat) (q : qatom) (img : list nat) (c : nat) : bool :=
  match atom_at m c with
  | None => false
  | Some a =>
      qatom_ok q a && negb (mem_nat c img)
      && forallb (fun jt => match nth_error img (fst jt) with
                            | None => false
                            | Some cj => match bond_between m c cj with
                                         | Some b => qbond_ok (snd jt) b
                                         | None => false
                                         end
                            end) (bonds_into f k)
  end.

(* all assignments of the first k query atoms, in declaration order *)
Fixpoint embed (f : fragment) (m : mol) (qs : list qatom) (k : nat) (partial : list (list nat))
  : list (list nat) :=
  match qs with
  | [] => partial
  | q :: rest =>
      embed f m rest (S k)
            (flat_map (fun img =>
                         map (fun c => img ++ [c])
                             (filter (place_ok f m k q img) (seq 0 (natom m)))) partial)
  end.

Definition raw_embeddings (f : fragment) (m : mol) : list (list nat) :=
  embed f m (f_atoms f) 0 [[]].

(* self-bonds / duplicate bonds in the query make RDKit's AddBond fail: the
   reader rejects them before this point (see Ring/Reader.v) *)

Definition bcons_ok (f : fragment) (m : mol) (img : list nat) : bool :=
  forallb (fun c => let '(i, j, k) := c in
             match nth_error img i, nth_error img j with
             | Some a, Some b => match bond_between m a b with
                                 | Some bd => bkind_ok m k bd
                                 | None => false
                                 end
             | _, _ => false
             end) (f_bcons f).

Definition acons_ok (f : fragment) (m : mol) (img : list nat) : bool :=
  forallb (fun ic => match nth_error img (fst ic) with
                     | Some a => match atom_at m a with
                                 | Some at_ => acon_ok m (snd ic) a at_
                                 | None => false
                                 end
                     | None => false
                     end) (f_acons f).

Definition scons_ok (f : fragment) (m : mol) (img : list nat) : bool :=
  forallb (fun q => stereo_ok m q img) (f_stereo f).

Definition matches (f : fragment) (m : mol) : list (list nat) :=
  if forallb (mcon_ok m) (f_mol f)
  then filter (fun img => bcons_ok f m img && acons_ok f m img && scons_ok f m img)
              (raw_embeddings f m)
  else [].
