(* Executable model of GroupAdditivityScheme.GetDescriptors (GroupAdd/Scheme.py)
   from the prepared graph onward: Benson aromatisation, centre assignment,
   group naming (C19 model), correction descriptors, remaps.  The scheme is
   data (pattern texts are read by the Coq PEG + reader models).  No proofs. *)
From Coq Require Import List NArith ZArith QArith Arith Bool.
From PG Require Import Common.Strs Graph.Mol Graph.Match Group.GroupName.
Import ListNotations.

Inductive serr := PatternMatch | SchemeInternal.
Inductive sres (A : Type) := SOk (a : A) | SRaise (e : serr).
Arguments SOk {A} a.
Arguments SRaise {A} e.

(* ---------- _aromatization_Benson ---------- *)
Definition set_bond_type (m : mol) (i j : nat) (t : btype) : mol :=
  {| atoms := atoms m;
     bonds := map (fun b => if (Nat.eqb (b_u b) i && Nat.eqb (b_v b) j) || (Nat.eqb (b_u b) j && Nat.eqb (b_v b) i)
                            then {| b_u := b_u b; b_v := b_v b; b_t := t; b_st := b_st b; b_sa := b_sa b |} else b) (bonds m);
     rings := rings m |}.
Fixpoint set_nth_arom (l : list matom) (i : nat) : list matom :=
  match l, i with
  | [], _ => []
  | a :: r, O => {| a_z := a_z a; a_chg := a_chg a; a_rad := a_rad a; a_arom := true |} :: r
  | a :: r, S k => a :: set_nth_arom r k
  end.
Definition set_arom (m : mol) (i : nat) : mol :=
  {| atoms := set_nth_arom (atoms m) i; bonds := bonds m; rings := rings m |}.

Definition ring_pairs (r : list nat) : list (nat * nat) :=
  match r with
  | [] => []
  | x :: _ => combine r (tl r ++ [x])
  end.
Definition btype_of (m : mol) (p : nat * nat) : option btype :=
  match bond_between m (fst p) (snd p) with Some b => Some (b_t b) | None => None end.
Fixpoint alternates (ts : list (option btype)) (want_single : bool) : bool :=
  match ts with
  | [] => true
  | Some t :: r => btype_eqb t (if want_single then BtSingle else BtDouble) && alternates r (negb want_single)
  | None :: _ => false
  end.

Definition aromatize_ring (m : mol) (r : list nat) : mol :=
  if Nat.eqb (length r) 6
     && forallb (fun i => match atom_at m i with Some a => N.eqb (a_z a) 6 | None => false end) r
  then
    let ts := map (btype_of m) (ring_pairs r) in
    if alternates ts true || alternates ts false then
      let m1 := fold_left set_arom r m in
      fold_left (fun acc p => set_bond_type acc (fst p) (snd p) BtArom) (ring_pairs r) m1
    else m
  else m.

Definition aromatize (sssr : list (list nat)) (m : mol) : mol := fold_left aromatize_ring sssr m.

(* ---------- the scheme ---------- *)
Record pattern := { p_center : str; p_periph : str; p_frag : fragment }.
Record descriptor := { d_name : str; d_frag : fragment }.
Record scheme := {
  s_patterns : list pattern;
  s_descr : list descriptor;
  s_remaps : list (str * list (Q * str)) }.

Definition s_none : str := [110; 111; 110; 101]%N.

Fixpoint dedup (l : list nat) : list nat :=
  match l with
  | [] => []
  | x :: r => if mem_nat x r then dedup r else x :: dedup r
  end.

(* _AssignCenterPattern: names per atom *)
Definition names := list (option (str * str)).
Fixpoint set_name (l : names) (i : nat) (v : str * str) : option names :=
  match l, i with
  | [], _ => None
  | None :: r, O => Some (Some v :: r)
  | Some _ :: _, O => None                       (* group centre overwritten *)
  | x :: r, S k => match set_name r k v with Some r' => Some (x :: r') | None => None end
  end.

Definition assign_pattern (m : mol) (nm : names) (p : pattern) : option names :=
  let firsts := dedup (flat_map (fun img => match img with c :: _ => [c] | [] => [] end) (matches (p_frag p) m)) in
  fold_left (fun acc c => match acc with
                          | Some l => set_name l c (p_center p, p_periph p)
                          | None => None
                          end) firsts (Some nm).

Definition assign_centres (sch : scheme) (m : mol) : sres (list (str * str)) :=
  match fold_left (fun acc p => match acc with Some l => assign_pattern m l p | None => None end)
                  (s_patterns sch) (Some (repeat None (natom m))) with
  | None => SRaise PatternMatch
  | Some l =>
      if forallb (fun o => match o with Some _ => true | None => false end) l
      then SOk (flat_map (fun o => match o with Some v => [v] | None => [] end) l)
      else SRaise PatternMatch                    (* sub group not assigned *)
  end.

(* dictionaries with insertion order; counts are rationals *)
Definition dict := list (str * Q).
Fixpoint dict_add (d : dict) (k : str) (v : Q) : dict :=
  match d with
  | [] => [(k, v)]
  | (k', x) :: r => if str_eqb k' k then (k', Qred (x + v)) :: r else (k', x) :: dict_add r k v
  end.
Fixpoint dict_pop (d : dict) (k : str) : option Q * dict :=
  match d with
  | [] => (None, [])
  | (k', x) :: r => if str_eqb k' k then (Some x, r)
                    else let '(o, r') := dict_pop r k in (o, (k', x) :: r')
  end.
Fixpoint remap_get (rm : list (str * list (Q * str))) (k : str) : option (list (Q * str)) :=
  match rm with [] => None | (k', v) :: r => if str_eqb k' k then Some v else remap_get r k end.

(* `for key in list(d.keys()): if key in remaps: n = d.pop(key); for (c, t): d[t] += n*c` *)
Definition apply_remaps (rm : list (str * list (Q * str))) (d : dict) : dict :=
  fold_left (fun acc k =>
               match remap_get rm k with
               | None => acc
               | Some targets =>
                   match dict_pop acc k with
                   | (Some n, acc') => fold_left (fun a ct => dict_add a (snd ct) (Qred (n * fst ct))) targets acc'
                   | (None, _) => acc
                   end
               end) (map fst d) d.

(* _AssignGroup *)
Definition assign_groups (sch : scheme) (m : mol) (nm : list (str * str)) : dict :=
  let groups :=
    fold_left (fun acc i =>
                 match nth_error nm i with
                 | Some (csg, _) =>
                     if str_eqb csg s_none then acc else
                     let psgs := flat_map (fun bn => match nth_error nm (snd bn) with
                                                     | Some (_, p) => if str_eqb p s_none then [] else [p]
                                                     | None => []
                                                     end) (bonds_of m i) in
                     dict_add acc (canon csg psgs) 1
                 | None => acc
                 end) (seq 0 (natom m)) [] in
  apply_remaps (s_remaps sch) groups.

(* _AssignDescriptor: one count per distinct SET of matched atoms *)
Definition same_set (a b : list nat) : bool :=
  forallb (fun x => mem_nat x b) a && forallb (fun x => mem_nat x a) b.
Fixpoint distinct_sets (l : list (list nat)) : list (list nat) :=
  match l with
  | [] => []
  | x :: r => if existsb (same_set x) r then distinct_sets r else x :: distinct_sets r
  end.

Definition assign_descr (sch : scheme) (m : mol) : dict :=
  let d := fold_left (fun acc ds =>
                        let n := length (distinct_sets (matches (d_frag ds) m)) in
                        if Nat.eqb n 0 then acc else dict_add acc (d_name ds) (inject_Z (Z.of_nat n)))
                     (s_descr sch) [] in
  apply_remaps (s_remaps sch) d.

(* groups.copy(); update(descriptors) *)
Definition dict_update (a b : dict) : dict :=
  fold_left (fun acc kv => let '(_, acc') := dict_pop acc (fst kv) in
                           if existsb (fun x => str_eqb (fst x) (fst kv)) acc
                           then map (fun x => if str_eqb (fst x) (fst kv) then kv else x) acc
                           else acc ++ [kv]) b a.

Definition get_descriptors (sch : scheme) (sssr : list (list nat)) (m0 : mol) : sres dict :=
  let m := aromatize sssr m0 in
  match assign_centres sch m with
  | SRaise e => SRaise e
  | SOk nm => SOk (dict_update (assign_groups sch m nm) (assign_descr sch m))
  end.
