(* Executable model of RING reaction rules (C16): reading the rule part of a
   parse tree (RINGParser/ReactionQueryRead.py, unimolecular rules with one
   ReactantQuery), the per-label electron balance, and the application of the
   edits to each match (RDkitWrapper/ReactionQuery.RunReactants).
   Twice the electron balance is kept, so that aromatic (1.5) stays integral.
   RDKit's QUINTUPLE bond type is represented by BtOther.  No proofs here. *)
From Coq Require Import List NArith ZArith Arith Bool String Ascii.
From PG Require Import Common.Strs Ring.Peg Ring.Reader Graph.Mol Graph.Match.
Import ListNotations.

Inductive edit :=
| EForm (i j : nat) (t : btype) | EBreak (i j : nat) | EModify (i j : nat) (t : btype)
| EInc (i j : nat) | EDec (i j : nat)
| ESetRad (i : nat) (n : N)            (* AtomTypeModify(idx, n, 0, 0): also sets the formal charge to 0 *)
| ERadInc (i : nat) | ERadDec (i : nat) | EChgInc (i : nat) | EChgDec (i : nat).

Record rule := { r_frag : fragment; r_names : list str; r_edits : list edit }.

(* ---------- reading ---------- *)
Definition bond_bal (s : str) : option (btype * Z) :=
  if is s "single" then Some (BtSingle, 2%Z) else if is s "double" then Some (BtDouble, 4%Z)
  else if is s "triple" then Some (BtTriple, 6%Z) else if is s "quadruple" then Some (BtQuad, 8%Z)
  else if is s "aromatic" then Some (BtArom, 3%Z) else if is s "partial" then Some (BtDative, 0%Z)
  else None.
Definition type_bal (t : btype) : option Z :=
  match t with
  | BtSingle => Some 2%Z | BtDouble => Some 4%Z | BtTriple => Some 6%Z | BtQuad => Some 8%Z
  | BtArom => Some 3%Z | BtDative => Some 0%Z | _ => None
  end.

Fixpoint bal_add (b : list Z) (i : nat) (d : Z) : list Z :=
  match b, i with
  | [], _ => []
  | x :: r, O => (x + d)%Z :: r
  | x :: r, S k => x :: bal_add r k d
  end.

Record rstate := { st_names : list str; st_frag : fragment; st_bal : list Z; st_edits : list edit }.

Definition label_idx (st : rstate) (t : ptree) : rres nat :=
  match kids t with
  | [TStr s] => match Reader.index_of s (st_names st) with Some i => ROk' i | None => RErr' EReader end
  | _ => RErr' EInternal
  end.

Definition with_edit (st : rstate) (e : edit) (ds : list (nat * Z)) : rstate :=
  {| st_names := st_names st; st_frag := st_frag st;
     st_bal := fold_left (fun b id => bal_add b (fst id) (snd id)) ds (st_bal st);
     st_edits := st_edits st ++ [e] |}.

(* optional leading BondType node *)
Definition opt_bondtype (l : list ptree) : rres (btype * Z * list ptree) :=
  match l with
  | t :: r => if is_node "BondType" t then
                match kids t with
                | [TStr s] => match bond_bal s with Some (bt, b) => ROk' (bt, b, r) | None => RErr' EReader end
                | _ => RErr' EInternal
                end
              else ROk' (BtSingle, 2%Z, l)
  | [] => RErr' EInternal
  end.

Definition read_change (st : rstate) (c : ptree) : rres rstate :=
  let ks := kids c in
  if is_node "BondForm" c then
    rbind (opt_bondtype ks) (fun x => let '(bt, b, r) := x in
      match r with
      | [l1; l2] => rbind (label_idx st l1) (fun i => rbind (label_idx st l2) (fun j =>
                      ROk' (with_edit st (EForm i j bt) [(i, (- b)%Z); (j, (- b)%Z)])))
      | _ => RErr' EInternal
      end)
  else if is_node "BondBreak" c then
    rbind (opt_bondtype ks) (fun x => let '(bt, b, r) := x in
      match r with
      | [l1; l2] => rbind (label_idx st l1) (fun i => rbind (label_idx st l2) (fun j =>
                      match qbond_type (st_frag st) i j with
                      | None => RErr' EReader
                      | Some BtUnspec => RErr' EReader
                      | Some t => if btype_eqb t bt
                                  then ROk' (with_edit st (EBreak i j) [(i, b); (j, b)])
                                  else RErr' EReader
                      end))
      | _ => RErr' EInternal
      end)
  else if is_node "BondModify" c then
    match ks with
    | [l1; l2; bt] =>
        rbind (label_idx st l1) (fun i => rbind (label_idx st l2) (fun j =>
          match qbond_type (st_frag st) i j with
          | None => RErr' EReader
          | Some BtUnspec => RErr' EReader
          | Some t =>
              match type_bal t with
              | None => RErr' EReader
              | Some b1 =>
                  match kids bt with
                  | [TStr s] => match bond_bal s with
                                | Some (nt, b) => ROk' (with_edit st (EModify i j nt) [(i, (b1 - b)%Z); (j, (b1 - b)%Z)])
                                | None => RErr' EReader
                                end
                  | _ => RErr' EInternal
                  end
              end
          end))
    | _ => RErr' EInternal
    end
  else if is_node "BondIncrease" c then
    match ks with
    | [l1; l2] => rbind (label_idx st l1) (fun i => rbind (label_idx st l2) (fun j =>
                    ROk' (with_edit st (EInc i j) [(i, (-2)%Z); (j, (-2)%Z)])))
    | _ => RErr' EInternal
    end
  else if is_node "BondDecrease" c then
    match ks with
    | [l1; l2] => rbind (label_idx st l1) (fun i => rbind (label_idx st l2) (fun j =>
                    ROk' (with_edit st (EDec i j) [(i, 2%Z); (j, 2%Z)])))
    | _ => RErr' EInternal
    end
  else if is_node "RadicalModify" c then
    match ks with
    | [l1; TInt n] => rbind (label_idx st l1) (fun i =>
                        (* the labelled query atom itself carries no radical electrons *)
                        ROk' (with_edit st (ESetRad i n) [(i, (- (2 * Z.of_N n))%Z)]))
    | _ => RErr' EInternal
    end
  else if is_node "RadicalIncrease" c then
    match ks with [l1] => rbind (label_idx st l1) (fun i => ROk' (with_edit st (ERadInc i) [(i, (-2)%Z)])) | _ => RErr' EInternal end
  else if is_node "RadicalDecrease" c then
    match ks with [l1] => rbind (label_idx st l1) (fun i => ROk' (with_edit st (ERadDec i) [(i, 2%Z)])) | _ => RErr' EInternal end
  else if is_node "ChargeIncrease" c then
    match ks with [l1] => rbind (label_idx st l1) (fun i => ROk' (with_edit st (EChgInc i) [(i, (-2)%Z)])) | _ => RErr' EInternal end
  else if is_node "ChargeDecrease" c then
    match ks with [l1] => rbind (label_idx st l1) (fun i => ROk' (with_edit st (EChgDec i) [(i, 2%Z)])) | _ => RErr' EInternal end
  else if is_node "AtomTypeModify" c then RErr' ENotImpl
  else RErr' EInternal.

(* TransformationChain: ConnectivityChange [TransformationChain] *)
Fixpoint read_tchain (fuel : nat) (st : rstate) (t : ptree) : rres rstate :=
  match fuel with
  | O => RErr' EInternal
  | S f =>
      match kids t with
      | cc :: rest =>
          match kids cc with
          | [c] => rbind (read_change st c) (fun st' =>
                     match rest with [] => ROk' st' | nxt :: _ => read_tchain f st' nxt end)
          | _ => RErr' EInternal
          end
      | [] => RErr' EInternal
      end
  end.

Section ReadRule.
Variable elements : list (str * N).
Variable xlower : N -> bool.

(* the names of the fragment's atoms are needed: re-read them from the tree *)
Fixpoint chain_labels (fuel : nat) (t : ptree) : list str :=
  match fuel with
  | O => []
  | S f => match kids t with
           | x :: rest =>
               (if is_node "BondedAtom" x then
                  match kids x with _ :: lb :: _ => match kids lb with [TStr s] => [s] | _ => [] end | _ => [] end
                else [])
               ++ match rest with nxt :: _ => chain_labels f nxt | [] => [] end
           | [] => []
           end
  end.
Definition molquery_labels (mq : ptree) : list str :=
  match kids mq with
  | a :: rest =>
      (match kids a with _ :: lb :: _ => match kids lb with [TStr s] => [s] | _ => [] end | _ => [] end)
      ++ match rest with ch :: _ => chain_labels 2000 ch | [] => [] end
  | [] => []
  end.

(* ReactionRule children: ReactionName Reactants [Constraints] TransformationChain *)
Definition read_rule (t : ptree) : rres rule :=
  match kids t with
  | _ :: reactants :: rest =>
      match kids reactants with
      | [rq] =>
          if negb (is_node "ReactantQuery" rq) then RErr' EInternal else
          rbind (read_fragment elements xlower rq) (fun f =>
            let nm := match kids rq with [_; _; mq] => molquery_labels mq | _ => [] end in
            match rest with
            | [tc] =>
                if is_node "Constraints" tc then RErr' ENotImpl else
                rbind (read_tchain 2000 {| st_names := nm; st_frag := f; st_bal := repeat 0%Z (List.length nm); st_edits := [] |} tc)
                      (fun st => if forallb (Z.eqb 0) (st_bal st)
                                 then ROk' {| r_frag := f; r_names := nm; r_edits := st_edits st |}
                                 else RErr' EReader)
            | cs :: _ => if is_node "Constraints" cs then RErr' ENotImpl else RErr' EInternal
            | [] => RErr' EInternal
            end)
      | _ => RErr' EInternal          (* several reactants / groups / duplicates: outside the model *)
      end
  | _ => RErr' EInternal
  end.
End ReadRule.

(* ---------- applying the edits to one match ---------- *)
Definition remove_bond (m : mol) (i j : nat) : mol :=
  {| atoms := atoms m;
     bonds := filter (fun b => negb ((Nat.eqb (b_u b) i && Nat.eqb (b_v b) j) || (Nat.eqb (b_u b) j && Nat.eqb (b_v b) i))) (bonds m);
     rings := rings m |}.
Definition add_bond_m (m : mol) (i j : nat) (t : btype) : option mol :=
  if Nat.eqb i j then None else
  match bond_between m i j with
  | Some _ => None                                   (* RDKit: bond already exists *)
  | None => Some {| atoms := atoms m;
                    bonds := bonds m ++ [{| b_u := i; b_v := j; b_t := t; b_st := StNone; b_sa := [] |}];
                    rings := rings m |}
  end.
Fixpoint upd_atom (l : list matom) (i : nat) (f : matom -> matom) : list matom :=
  match l, i with
  | [], _ => []
  | a :: r, O => f a :: r
  | a :: r, S k => a :: upd_atom r k f
  end.
Definition set_atoms (m : mol) (l : list matom) : mol := {| atoms := l; bonds := bonds m; rings := rings m |}.

Definition inc_type (t : btype) : option btype :=
  match t with BtSingle => Some BtDouble | BtDouble => Some BtTriple | BtTriple => Some BtQuad | BtQuad => Some BtOther | _ => None end.
(* Some None = the bond disappears *)
Definition dec_type (t : btype) : option (option btype) :=
  match t with
  | BtSingle => Some None | BtDouble => Some (Some BtSingle) | BtTriple => Some (Some BtDouble)
  | BtQuad => Some (Some BtTriple) | BtOther => Some (Some BtQuad) | _ => None
  end.

Definition apply_edit (img : list nat) (m : mol) (e : edit) : option mol :=
  let at_ k := nth_error img k in
  match e with
  | EForm i j t => match at_ i, at_ j with Some a, Some b => add_bond_m m a b t | _, _ => None end
  | EBreak i j => match at_ i, at_ j with Some a, Some b => Some (remove_bond m a b) | _, _ => None end
  | EModify i j t => match at_ i, at_ j with Some a, Some b => add_bond_m (remove_bond m a b) a b t | _, _ => None end
  | EInc i j => match at_ i, at_ j with
                | Some a, Some b => match bond_between m a b with
                                    | Some bd => match inc_type (b_t bd) with
                                                 | Some t => add_bond_m (remove_bond m a b) a b t
                                                 | None => None end
                                    | None => None end
                | _, _ => None end
  | EDec i j => match at_ i, at_ j with
                | Some a, Some b => match bond_between m a b with
                                    | Some bd => match dec_type (b_t bd) with
                                                 | Some (Some t) => add_bond_m (remove_bond m a b) a b t
                                                 | Some None => Some (remove_bond m a b)
                                                 | None => None end
                                    | None => None end
                | _, _ => None end
  | ESetRad i n => match at_ i with
                   | Some a => Some (set_atoms m (upd_atom (atoms m) a (fun x => {| a_z := a_z x; a_chg := 0%Z; a_rad := n; a_arom := a_arom x |})))
                   | None => None end
  | ERadInc i => match at_ i with
                 | Some a => Some (set_atoms m (upd_atom (atoms m) a (fun x => {| a_z := a_z x; a_chg := a_chg x; a_rad := (a_rad x + 1)%N; a_arom := a_arom x |})))
                 | None => None end
  | ERadDec i => match at_ i with
                 | Some a => match nth_error (atoms m) a with
                             | Some x => if N.eqb (a_rad x) 0 then None        (* RDKit rejects a negative radical count *)
                                         else Some (set_atoms m (upd_atom (atoms m) a (fun x => {| a_z := a_z x; a_chg := a_chg x; a_rad := (a_rad x - 1)%N; a_arom := a_arom x |})))
                             | None => None end
                 | None => None end
  | EChgInc i => match at_ i with
                 | Some a => Some (set_atoms m (upd_atom (atoms m) a (fun x => {| a_z := a_z x; a_chg := (a_chg x + 1)%Z; a_rad := a_rad x; a_arom := a_arom x |})))
                 | None => None end
  | EChgDec i => match at_ i with
                 | Some a => Some (set_atoms m (upd_atom (atoms m) a (fun x => {| a_z := a_z x; a_chg := (a_chg x - 1)%Z; a_rad := a_rad x; a_arom := a_arom x |})))
                 | None => None end
  end.

Definition apply_edits (img : list nat) (m : mol) (es : list edit) : option mol :=
  fold_left (fun acc e => match acc with Some x => apply_edit img x e | None => None end) es (Some m).

(* RunReactants: one product graph per match of the reactant pattern *)
Definition run_rule (r : rule) (m : mol) : list (option mol) :=
  map (fun img => apply_edits img m (r_edits r)) (matches (r_frag r) m).
