(* C02: "each atom is classified by the ONE centre pattern that matches it; if
   some atom is matched by no centre pattern, or by more than one, the call
   fails" - for every scheme and every molecule graph. *)
From Coq Require Import List NArith ZArith QArith Arith Bool Lia.
From PG Require Import Common.Strs Group.GroupName Graph.Mol Graph.Match Graph.Match_proofs Graph.Scheme Graph.Scheme_proofs.
Import ListNotations.
Local Close Scope Q_scope.

(* the atoms a pattern classifies: first atoms of its matches *)
Definition firsts (m : mol) (p : pattern) : list nat :=
  dedup (flat_map (fun img => match img with c :: _ => [c] | [] => [] end) (matches (p_frag p) m)).
Definition hits (m : mol) (p : pattern) (a : nat) : bool := mem_nat a (firsts m p).

Lemma mem_nat_In x l : mem_nat x l = true <-> In x l.
Proof.
  unfold mem_nat. rewrite existsb_exists. split.
  - intros (y & Hy & E). apply Nat.eqb_eq in E. subst. exact Hy.
  - intros H. exists x. split; [exact H|apply Nat.eqb_refl].
Qed.

Lemma dedup_In x l : In x (dedup l) <-> In x l.
Proof.
  induction l as [|y l IH]; simpl; [tauto|].
  destruct (mem_nat y l) eqn:E.
  - rewrite IH. split; [auto|]. intros [<-|H]; [apply mem_nat_In; exact E|exact H].
  - simpl. rewrite IH. tauto.
Qed.

Lemma dedup_NoDup l : NoDup (dedup l).
Proof.
  induction l as [|y l IH]; simpl; [constructor|].
  destruct (mem_nat y l) eqn:E; [exact IH|]. constructor; [|exact IH].
  rewrite dedup_In. intros H. apply mem_nat_In in H. congruence.
Qed.

Lemma set_name_same l : forall i v l', set_name l i v = Some l' -> nth_error l' i = Some (Some v).
Proof.
  induction l as [|x l IH]; intros i v l' H; [destruct i; discriminate|].
  destruct i as [|i]; simpl in H.
  - destruct x; [discriminate|]. inversion H; reflexivity.
  - destruct (set_name l i v) eqn:E; [|destruct x; discriminate].
    assert (l' = x :: n) by (destruct x; inversion H; reflexivity). subst. simpl. eapply IH; eauto.
Qed.

Lemma set_name_other l : forall i v l' j, set_name l i v = Some l' -> j <> i -> nth_error l' j = nth_error l j.
Proof.
  induction l as [|x l IH]; intros i v l' j H Hj; [destruct i; discriminate|].
  destruct i as [|i]; simpl in H.
  - destruct x; [discriminate|]. inversion H; subst. destruct j; [lia|reflexivity].
  - destruct (set_name l i v) eqn:E; [|destruct x; discriminate].
    assert (l' = x :: n) by (destruct x; inversion H; reflexivity). subst.
    destruct j; [reflexivity|]. simpl. eapply IH; eauto.
Qed.

(* one pattern: every atom it hits was unclassified and now carries its names; the others are untouched *)
Lemma fold_set_names v : forall (cs : list nat) (l l' : names), NoDup cs ->
  fold_left (fun acc c => match acc with Some x => set_name x c v | None => None end) cs (Some l) = Some l' ->
  (forall c, In c cs -> nth_error l c = Some None /\ nth_error l' c = Some (Some v))
  /\ (forall j, ~ In j cs -> nth_error l' j = nth_error l j).
Proof.
  induction cs as [|c cs IH]; intros l l' Hn H; simpl in H.
  - inversion H; subst. split; [intros c []|reflexivity].
  - inversion Hn as [|? ? Hc Hn']; subst.
    destruct (set_name l c v) as [l1|] eqn:E.
    + destruct (IH l1 l' Hn' H) as [A B]. split.
      * intros x [<-|Hx].
        -- split; [eapply set_name_fresh; eauto|]. rewrite (B c Hc). eapply set_name_same; eauto.
        -- destruct (A x Hx) as [A1 A2]. split; [|exact A2].
           rewrite <- (set_name_other _ _ _ _ x E); [exact A1|]. intros ->. contradiction.
      * intros j Hj. rewrite (B j) by (intros Hin; apply Hj; right; exact Hin).
        eapply set_name_other; eauto. intros ->. apply Hj. left. reflexivity.
    + exfalso. clear -H. induction cs as [|x cs IHc]; simpl in H; [discriminate|auto].
Qed.

Lemma fold_none {A} (f : option (list A) -> nat -> option (list A)) cs :
  (forall c, f None c = None) -> fold_left f cs None = None.
Proof. intros Hf. induction cs as [|c cs IH]; simpl; [reflexivity|]. rewrite Hf. exact IH. Qed.

Lemma assign_pattern_spec m nm p nm' : assign_pattern m nm p = Some nm' ->
  (forall a, hits m p a = true -> nth_error nm a = Some None /\ nth_error nm' a = Some (Some (p_center p, p_periph p)))
  /\ (forall a, hits m p a = false -> nth_error nm' a = nth_error nm a).
Proof.
  unfold assign_pattern. intros H. fold (firsts m p) in H.
  destruct (fold_set_names (p_center p, p_periph p) (firsts m p) nm nm' (dedup_NoDup _) H) as [A B]. split.
  - intros a Ha. apply A. apply mem_nat_In. exact Ha.
  - intros a Ha. apply B. intros Hin. apply mem_nat_In in Hin. unfold hits in Ha. congruence.
Qed.

(* all patterns, in order: the invariant of the fold *)
Definition hit_list (m : mol) (ps : list pattern) (a : nat) : list pattern := filter (fun p => hits m p a) ps.

Lemma assign_all m : forall ps nm nm',
  fold_left (fun acc p => match acc with Some l => assign_pattern m l p | None => None end) ps (Some nm) = Some nm' ->
  forall a, match nth_error nm a with
            | Some None => match hit_list m ps a with
                           | [] => nth_error nm' a = Some None
                           | [p] => nth_error nm' a = Some (Some (p_center p, p_periph p))
                           | _ => False
                           end
            | Some (Some v) => hit_list m ps a = [] /\ nth_error nm' a = Some (Some v)
            | None => True
            end.
Proof.
  induction ps as [|p ps IH]; intros nm nm' H a; simpl in H.
  - inversion H; subst. simpl. destruct (nth_error nm' a) as [[v|]|]; auto.
  - destruct (assign_pattern m nm p) as [nm1|] eqn:E.
    2:{ exfalso. clear -H. induction ps as [|q ps IHp]; simpl in H; [discriminate|auto]. }
    destruct (assign_pattern_spec m nm p nm1 E) as [A B].
    specialize (IH nm1 nm' H a). unfold hit_list. simpl. fold (hit_list m ps a).
    destruct (hits m p a) eqn:Hh.
    + destruct (A a Hh) as [A1 A2]. rewrite A1. rewrite A2 in IH. destruct IH as [I1 I2]. rewrite I1. exact I2.
    + rewrite (B a Hh) in IH. destruct (nth_error nm a) as [[v|]|]; exact IH.
Qed.

(* each atom of a decomposable molecule is hit by exactly one centre pattern, and carries that pattern's names *)
Theorem assign_centres_unique sch m nm : assign_centres sch m = SOk nm ->
  length nm = natom m /\
  forall a, a < natom m -> exists p, hit_list m (s_patterns sch) a = [p] /\ nth_error nm a = Some (p_center p, p_periph p).
Proof.
  unfold assign_centres.
  match goal with |- context [fold_left ?f (s_patterns sch) ?i] => destruct (fold_left f (s_patterns sch) i) as [l|] eqn:E; [|discriminate] end.
  destruct (forallb (fun o => match o with Some _ => true | None => false end) l) eqn:F; [|discriminate].
  intros H. inversion H; subst nm; clear H.
  assert (Hall : forall a, a < natom m -> exists p, hit_list m (s_patterns sch) a = [p] /\ nth_error l a = Some (Some (p_center p, p_periph p))).
  { intros a Ha. pose proof (assign_all m _ _ _ E a) as G.
    assert (N : nth_error (repeat None (natom m)) a = Some (@None (str * str))).
    { clear -Ha. revert a Ha. induction (natom m) as [|n IHn]; intros a Ha; [lia|]. destruct a; simpl; [reflexivity|apply IHn; lia]. }
    rewrite N in G. destruct (hit_list m (s_patterns sch) a) as [|p [|q r]] eqn:Hl.
    - exfalso. rewrite forallb_forall in F. specialize (F None (nth_error_In _ _ G)). discriminate.
    - exists p. auto.
    - contradiction. }
  assert (Hlen : length l = natom m).
  { clear -E. assert (G : forall ps (nm nm' : names), fold_left (fun acc p => match acc with Some l => assign_pattern m l p | None => None end) ps (Some nm) = Some nm' -> length nm' = length nm).
    { induction ps as [|p ps IH]; intros nm nm' H; simpl in H; [inversion H; reflexivity|].
      destruct (assign_pattern m nm p) as [nm1|] eqn:E1.
      - rewrite (IH _ _ H). unfold assign_pattern in E1.
        clear -E1. revert nm nm1 E1. generalize (dedup (flat_map (fun img => match img with c :: _ => [c] | [] => [] end) (matches (p_frag p) m))).
        induction l as [|c cs IHc]; intros nm nm1 E1; simpl in E1; [inversion E1; reflexivity|].
        destruct (set_name nm c (p_center p, p_periph p)) as [x|] eqn:Es.
        + rewrite (IHc _ _ E1). eapply set_name_length; eauto.
        + exfalso. clear -E1. induction cs; simpl in E1; [discriminate|auto].
      - exfalso. clear -H. induction ps; simpl in H; [discriminate|auto]. }
    rewrite (G _ _ _ E). apply repeat_length. }
  (* flat_map over a list of Some's is the list of their contents *)
  assert (Hfm : forall (k : list (option (str * str))), forallb (fun o => match o with Some _ => true | None => false end) k = true ->
            length (flat_map (fun o => match o with Some v => [v] | None => [] end) k) = length k
            /\ forall a v, nth_error k a = Some (Some v) -> nth_error (flat_map (fun o => match o with Some v => [v] | None => [] end) k) a = Some v).
  { induction k as [|[v|] k IHk]; intros Hk; simpl in *; [split; [reflexivity|intros [|?] ? ?; discriminate]| |discriminate].
    destruct (IHk Hk) as [L N]. split; [rewrite L; reflexivity|]. intros [|a] w Hw; simpl in *; [inversion Hw; reflexivity|apply N; exact Hw]. }
  destruct (Hfm l F) as [L N]. split; [rewrite L; exact Hlen|].
  intros a Ha. destruct (Hall a Ha) as (p & Hp & Hn). exists p. split; [exact Hp|apply N; exact Hn].
Qed.

(* no centre pattern, or more than one, for some atom: the call fails with the pattern-match error *)
Theorem assign_centres_fails sch m a : a < natom m -> length (hit_list m (s_patterns sch) a) <> 1 ->
  assign_centres sch m = SRaise PatternMatch.
Proof.
  intros Ha Hl. destruct (assign_centres sch m) as [nm|e] eqn:E.
  - destruct (assign_centres_unique sch m nm E) as [_ G]. destruct (G a Ha) as (p & Hp & _). rewrite Hp in Hl. simpl in Hl. lia.
  - f_equal. eapply centres_only_pattern_error; eauto.
Qed.

(* ---------- "each atom with a named centre contributes one group ..." ---------- *)
Local Open Scope Q_scope.
(* the group an atom contributes: its centre name with the multiset (C19: canon) of its neighbours' peripheral names *)
Definition group_of (m : mol) (nm : list (str * str)) (i : nat) : option str :=
  match nth_error nm i with
  | Some (csg, _) =>
      if str_eqb csg s_none then None
      else Some (canon csg (flat_map (fun bn => match nth_error nm (snd bn) with
                                                 | Some (_, p) => if str_eqb p s_none then [] else [p]
                                                 | None => []
                                                 end) (bonds_of m i)))
  | None => None
  end.
Definition raw_groups (m : mol) (nm : list (str * str)) : dict :=
  fold_left (fun acc i => match group_of m nm i with Some g => dict_add acc g 1 | None => acc end) (seq 0 (natom m)) [].

Lemma fold_left_ext' {A B} (f g : A -> B -> A) l : (forall a b, f a b = g a b) -> forall a, fold_left f l a = fold_left g l a.
Proof. intros H. induction l as [|x l IH]; intros a; simpl; [reflexivity|]. rewrite H. apply IH. Qed.

Lemma assign_groups_is sch m nm : assign_groups sch m nm = apply_remaps (s_remaps sch) (raw_groups m nm).
Proof.
  unfold assign_groups, raw_groups. f_equal. apply fold_left_ext'. intros acc i. unfold group_of.
  destruct (nth_error nm i) as [[csg per]|]; [|reflexivity]. destruct (str_eqb csg s_none); reflexivity.
Qed.

Definition occ (k : str) (o : option str) : Q := match o with Some g => if str_eqb g k then 1 else 0 | None => 0 end.

Lemma fold_groups_count m nm k : forall (l : list nat) (d : dict),
  dict_get (fold_left (fun acc i => match group_of m nm i with Some g => dict_add acc g 1 | None => acc end) l d) k
  == dict_get d k + fold_right (fun i s => occ k (group_of m nm i) + s) 0 l.
Proof.
  induction l as [|i l IH]; intros d; simpl; [ring|].
  rewrite IH. destruct (group_of m nm i) as [g|]; simpl.
  - rewrite dict_add_get. destruct (str_eqb g k); ring.
  - ring.
Qed.

(* before the remaps: the count of a group name is the number of atoms that contribute it *)
Theorem raw_groups_count m nm k :
  dict_get (raw_groups m nm) k == fold_right (fun i s => occ k (group_of m nm i) + s) 0 (seq 0 (natom m)).
Proof. unfold raw_groups. rewrite fold_groups_count. simpl. ring. Qed.

(* ---------- "each correction descriptor is counted once per distinct SET of matched atoms" ---------- *)
Local Close Scope Q_scope.
Lemma same_set_spec a b : same_set a b = true <-> (forall x, In x a <-> In x b).
Proof.
  unfold same_set. rewrite andb_true_iff, !forallb_forall. split.
  - intros [A B] x. split; intros H; apply mem_nat_In; auto.
  - intros H. split; intros x Hx; apply mem_nat_In; apply H; exact Hx.
Qed.
Lemma same_set_refl a : same_set a a = true.
Proof. apply same_set_spec. tauto. Qed.
Lemma same_set_trans a b c : same_set a b = true -> same_set b c = true -> same_set a c = true.
Proof. rewrite !same_set_spec. intros H1 H2 x. rewrite H1. apply H2. Qed.

Lemma distinct_sets_sub l x : In x (distinct_sets l) -> In x l.
Proof.
  induction l as [|y l IH]; simpl; [tauto|]. destruct (existsb (same_set y) l); [auto|]. intros [<-|H]; auto.
Qed.

(* every match is represented: some kept tuple has the same atom set *)
Theorem distinct_sets_cover l : forall x, In x l -> exists y, In y (distinct_sets l) /\ same_set x y = true.
Proof.
  induction l as [|z l IH]; intros x H; [destruct H|]. simpl.
  destruct (existsb (same_set z) l) eqn:E.
  - destruct H as [<-|H]; [|apply IH; exact H].
    apply existsb_exists in E. destruct E as (w & Hw & Sw). destruct (IH w Hw) as (y & Hy & Sy).
    exists y. split; [exact Hy|]. eapply same_set_trans; eauto.
  - destruct H as [<-|H]; [exists z; split; [left; reflexivity|apply same_set_refl]|].
    destruct (IH x H) as (y & Hy & Sy). exists y. split; [right; exact Hy|exact Sy].
Qed.

(* ... and only once: no two kept tuples have the same atom set *)
Theorem distinct_sets_distinct l : ForallOrdPairs (fun a b => same_set a b = false) (distinct_sets l).
Proof.
  induction l as [|z l IH]; simpl; [constructor|].
  destruct (existsb (same_set z) l) eqn:E; [exact IH|]. constructor; [|exact IH].
  apply Forall_forall. intros y Hy. apply distinct_sets_sub in Hy.
  destruct (same_set z y) eqn:S; [|reflexivity]. exfalso.
  assert (existsb (same_set z) l = true) by (apply existsb_exists; exists y; auto). congruence.
Qed.

Lemma filter_nil_all_ {A} (f : A -> bool) l : (forall x, In x l -> f x = false) -> filter f l = [].
Proof. induction l as [|x l IH]; intros H; simpl; auto. rewrite (H x) by (left; reflexivity). apply IH. intros y Hy. apply H. right. exact Hy. Qed.

(* ---------- conversely: every atom hit exactly once => the centres are assigned ---------- *)
Lemma set_name_ok l : forall i v, nth_error l i = Some None -> exists l', set_name l i v = Some l'.
Proof.
  induction l as [|x l IH]; intros i v H; [destruct i; discriminate|].
  destruct i as [|i]; simpl in *.
  - inversion H; subst. eauto.
  - destruct (IH i v H) as [l' E]. rewrite E. destruct x; eauto.
Qed.

Lemma fold_set_names_ok v : forall (cs : list nat) (l : names), NoDup cs ->
  (forall c, In c cs -> nth_error l c = Some None) ->
  exists l', fold_left (fun acc c => match acc with Some x => set_name x c v | None => None end) cs (Some l) = Some l'.
Proof.
  induction cs as [|c cs IH]; intros l Hn H; simpl; [eauto|].
  inversion Hn as [|? ? Hc Hn']; subst.
  destruct (set_name_ok l c v (H c (or_introl eq_refl))) as [l1 E]. rewrite E.
  apply IH; [exact Hn'|]. intros x Hx. rewrite (set_name_other _ _ _ _ x E); [apply H; right; exact Hx|].
  intros ->. contradiction.
Qed.

Lemma assign_all_ok m : forall ps (nm : names),
  (forall a, match nth_error nm a with
             | Some (Some _) => hit_list m ps a = []
             | Some None => (length (hit_list m ps a) <= 1)%nat
             | None => hit_list m ps a = []
             end) ->
  exists nm', fold_left (fun acc p => match acc with Some l => assign_pattern m l p | None => None end) ps (Some nm) = Some nm'.
Proof.
  induction ps as [|p ps IH]; intros nm H; simpl; [eauto|].
  assert (Hp : exists nm1, assign_pattern m nm p = Some nm1).
  { unfold assign_pattern. fold (firsts m p). apply fold_set_names_ok; [apply dedup_NoDup|].
    intros c Hc. assert (Hh : hits m p c = true) by (apply mem_nat_In; exact Hc).
    specialize (H c). unfold hit_list in H. simpl in H. rewrite Hh in H.
    destruct (nth_error nm c) as [[v|]|]; [discriminate|reflexivity|discriminate]. }
  destruct Hp as [nm1 E]. rewrite E. apply IH. intros a.
  destruct (assign_pattern_spec m nm p nm1 E) as [A B]. specialize (H a). unfold hit_list in H. simpl in H. fold (hit_list m ps a) in H.
  destruct (hits m p a) eqn:Hh.
  - destruct (A a Hh) as [A1 A2]. rewrite A2. rewrite A1 in H. simpl in H. destruct (hit_list m ps a); [reflexivity|simpl in H; lia].
  - rewrite (B a Hh). exact H.
Qed.

(* first atoms of matches are atoms of the molecule *)
Lemma firsts_lt m p c : In c (firsts m p) -> (c < natom m)%nat.
Proof.
  unfold firsts. rewrite dedup_In. intros H. apply in_flat_map in H. destruct H as (img & Himg & Hc).
  destruct img as [|x r]; [destruct Hc|]. destruct Hc as [<-|[]].
  destruct (matches_sound _ _ _ Himg) as (_ & _ & Pl & _).
  destruct (placed_atoms_ok _ _ _ _ Pl 0 x eq_refl) as (q & a & _ & Ha & _).
  eapply atom_at_lt; eauto.
Qed.

Theorem assign_centres_complete sch m :
  (forall a, (a < natom m)%nat -> length (hit_list m (s_patterns sch) a) = 1%nat) ->
  exists nm, assign_centres sch m = SOk nm.
Proof.
  intros H. unfold assign_centres.
  assert (Hr : forall a, nth_error (repeat (@None (str * str)) (natom m)) a = if Nat.ltb a (natom m) then Some None else None).
  { generalize (natom m). intros n a. revert a. induction n as [|n IHn]; intros a; [destruct a; reflexivity|].
    destruct a; simpl; [reflexivity|]. rewrite IHn. reflexivity. }
  destruct (assign_all_ok m (s_patterns sch) (repeat None (natom m))) as [l E].
  { intros a. rewrite Hr. destruct (Nat.ltb_spec a (natom m)) as [L|G].
    - rewrite (H a L). lia.
    - unfold hit_list. apply filter_nil_all_. intros p _. unfold hits.
      destruct (mem_nat a (firsts m p)) eqn:Em; [|reflexivity]. apply mem_nat_In in Em. apply firsts_lt in Em. lia. }
  match goal with |- context [fold_left ?f (s_patterns sch) ?i] => replace (fold_left f (s_patterns sch) i) with (Some l) by (symmetry; exact E) end.
  assert (F : forallb (fun o : option (str * str) => match o with Some _ => true | None => false end) l = true).
  { apply forallb_forall. intros o Ho. apply In_nth_error in Ho. destruct Ho as [a Ha].
    pose proof (assign_all m _ _ _ E a) as G. rewrite Hr in G.
    destruct (Nat.ltb_spec a (natom m)) as [L|G'].
    - specialize (H a L). destruct (hit_list m (s_patterns sch) a) as [|p [|q r]]; simpl in H; try lia. rewrite G in Ha. inversion Ha; reflexivity.
    - (* beyond the atoms: the list has exactly natom entries *)
      exfalso. assert (length l = natom m).
      { clear -E. assert (G : forall ps (nm nm' : names), fold_left (fun acc p => match acc with Some l => assign_pattern m l p | None => None end) ps (Some nm) = Some nm' -> length nm' = length nm).
        { induction ps as [|p ps IH]; intros nm nm' H; simpl in H; [inversion H; reflexivity|].
          destruct (assign_pattern m nm p) as [nm1|] eqn:E1.
          - rewrite (IH _ _ H). unfold assign_pattern in E1.
            clear -E1. revert nm nm1 E1. generalize (dedup (flat_map (fun img => match img with c :: _ => [c] | [] => [] end) (matches (p_frag p) m))).
            induction l as [|c cs IHc]; intros nm nm1 E1; simpl in E1; [inversion E1; reflexivity|].
            destruct (set_name nm c (p_center p, p_periph p)) as [x|] eqn:Es.
            + rewrite (IHc _ _ E1). eapply set_name_length; eauto.
            + exfalso. clear -E1. induction cs; simpl in E1; [discriminate|auto].
          - exfalso. clear -H. induction ps; simpl in H; [discriminate|auto]. }
        rewrite (G _ _ _ E). apply repeat_length. }
      assert (a < length l)%nat by (apply nth_error_Some; congruence). lia. }
  rewrite F. eauto.
Qed.

(* centres are assigned IF AND ONLY IF every atom is hit by exactly one centre pattern *)
Theorem assign_centres_iff sch m :
  (exists nm, assign_centres sch m = SOk nm) <->
  (forall a, (a < natom m)%nat -> length (hit_list m (s_patterns sch) a) = 1%nat).
Proof.
  split.
  - intros [nm E] a Ha. destruct (assign_centres_unique sch m nm E) as [_ G]. destruct (G a Ha) as (p & Hp & _). rewrite Hp. reflexivity.
  - apply assign_centres_complete.
Qed.
