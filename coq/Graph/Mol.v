(* Prepared molecule graphs (as exported from RDKit with public calls) and the
   abstract syntax a RING fragment denotes.  No proofs here. *)
From Coq Require Import List NArith ZArith Arith Bool.
From PG Require Import Common.Strs.
Import ListNotations.

Inductive btype := BtSingle | BtDouble | BtTriple | BtQuad | BtArom | BtDative
                 | BtZero | BtOther | BtUnspec.
Inductive bstereo := StNone | StZ | StE | StOther.

Record matom := { a_z : N; a_chg : Z; a_rad : N; a_arom : bool }.
Record mbond := { b_u : nat; b_v : nat; b_t : btype; b_st : bstereo; b_sa : list nat }.
Record mol := { atoms : list matom; bonds : list mbond; rings : list (list nat) }.

Definition btype_eqb (a b : btype) : bool :=
  match a, b with
  | BtSingle, BtSingle | BtDouble, BtDouble | BtTriple, BtTriple | BtQuad, BtQuad
  | BtArom, BtArom | BtDative, BtDative | BtZero, BtZero | BtOther, BtOther
  | BtUnspec, BtUnspec => true
  | _, _ => false
  end.
Definition bstereo_eqb (a b : bstereo) : bool :=
  match a, b with
  | StNone, StNone | StZ, StZ | StE, StE | StOther, StOther => true
  | _, _ => false
  end.

Definition natom (m : mol) : nat := length (atoms m).
Definition atom_at (m : mol) (i : nat) : option matom := nth_error (atoms m) i.

Definition bond_between (m : mol) (i j : nat) : option mbond :=
  find (fun b => (Nat.eqb (b_u b) i && Nat.eqb (b_v b) j)
                 || (Nat.eqb (b_u b) j && Nat.eqb (b_v b) i)) (bonds m).

(* bonds of atom i with the atom at the other end *)
Definition bonds_of (m : mol) (i : nat) : list (mbond * nat) :=
  flat_map (fun b => if Nat.eqb (b_u b) i then [(b, b_v b)]
                     else if Nat.eqb (b_v b) i then [(b, b_u b)] else []) (bonds m).

Definition mem_nat (x : nat) (l : list nat) : bool := existsb (Nat.eqb x) l.

Definition atom_in_ring (m : mol) (i : nat) : bool := existsb (mem_nat i) (rings m).
Definition rings_of (m : mol) (i : nat) : list (list nat) := filter (mem_nat i) (rings m).

(* i and j are neighbours in the cyclic order of ring r *)
Fixpoint adjacent_in (first : nat) (r : list nat) (i j : nat) : bool :=
  match r with
  | x :: ((y :: _) as r') =>
      (Nat.eqb x i && Nat.eqb y j) || (Nat.eqb x j && Nat.eqb y i) || adjacent_in first r' i j
  | [x] => (Nat.eqb x i && Nat.eqb first j) || (Nat.eqb x j && Nat.eqb first i)
  | [] => false
  end.
Definition bond_in_ring (m : mol) (i j : nat) : bool :=
  existsb (fun r => match r with x :: _ => adjacent_in x r i j | [] => false end) (rings m).

(* ---------------- RING fragment syntax ---------------- *)
Inductive symcls := SAny | SHetero | SHeavy | SMetal | SElem (z : N) | SLower (z : N).
Record qatom := { qa_sym : symcls; qa_chg : option Z }.

Inductive bkind := KSingle | KDouble | KTriple | KQuad | KRing | KNonRing | KArom
                 | KAny | KStrong | KPartial.
Inductive cmpop := CGt | CLt | CGe | CLe | CEq.
Record cnum := { cn_op : cmpop; cn_n : Z }.

Inductive aconstr :=
| ARadical (neg : bool) (cn : cnum)
| AInRing (neg : bool)
| AAromatic (neg : bool)
| AAllylic (neg : bool)
| ARingSize (neg : bool) (cn : cnum)
| ANRing (neg : bool) (cn : cnum)
| AConn (neg : bool) (cn : cnum) (q : qatom) (sub : list aconstr) (bk : bkind).

Inductive mconstr := MCharge (cn : cnum) | MAromatic | MOlefinic | MParaffinic | MCyclic | MLinear.

Record qstereo := { s1 : nat; s2 : nat; s3 : nat; s4 : nat; s_neg : bool; s_kind : bstereo }.

Record fragment := {
  f_atoms : list qatom;                 (* declaration order = match tuple order *)
  f_bonds : list (nat * nat * btype);   (* query bonds of the RDKit query molecule *)
  f_bcons : list (nat * nat * bkind);   (* ring / nonring / strong / partial *)
  f_acons : list (nat * aconstr);
  f_stereo : list qstereo;
  f_mol : list mconstr }.
