(* The Benson aromatisation step commutes with renumbering the atoms, when the
   ring list is carried along IN THE SAME ORDER (map (map phi) sssr).  Together
   with Graph/Descr_equiv.v this puts the renumbering theorem at the level of
   get_descriptors; what remains spelling dependent is exactly the ORDER of the
   ring list RDKit supplies (the known finding for fused rings). *)
From Coq Require Import List NArith ZArith QArith Arith Bool Lia.
From PG Require Import Common.Strs Graph.Mol Graph.Match Graph.Match_proofs Graph.Embed Graph.Embed_inst Graph.Scheme Graph.Scheme_proofs
  Graph.Centres_proofs Graph.Centres_equiv Graph.Remap_proofs Graph.Descr_equiv.
Import ListNotations.
Local Close Scope Q_scope.

Definition mk_arom (a : matom) : matom := {| a_z := a_z a; a_chg := a_chg a; a_rad := a_rad a; a_arom := true |}.

Lemma set_nth_arom_length l : forall i, length (set_nth_arom l i) = length l.
Proof. induction l as [|a l IH]; intros [|i]; simpl; auto. Qed.

Lemma set_nth_arom_nth l d : forall i k, i < length l ->
  nth k (set_nth_arom l i) d = if Nat.eqb k i then mk_arom (nth i l d) else nth k l d.
Proof.
  induction l as [|a l IH]; intros i k Hi; [simpl in Hi; lia|].
  destruct i as [|i], k as [|k]; simpl; try reflexivity.
  apply IH. simpl in Hi. lia.
Qed.

Lemma set_arom_natom m i : natom (set_arom m i) = natom m.
Proof. unfold natom, set_arom. simpl. apply set_nth_arom_length. Qed.
Lemma set_bond_type_natom m i j t : natom (set_bond_type m i j t) = natom m.
Proof. reflexivity. Qed.

Lemma set_arom_wf m i : wf_mol m -> wf_mol (set_arom m i).
Proof. intros [A B]. constructor; rewrite set_arom_natom; simpl; assumption. Qed.
Lemma set_bond_type_wf m i j t : wf_mol m -> wf_mol (set_bond_type m i j t).
Proof.
  intros [A B]. constructor; unfold natom in *; simpl.
  - intros b Hb. apply in_map_iff in Hb. destruct Hb as (b0 & <- & Hb0). destruct (A b0 Hb0). destruct (_ || _); simpl; auto.
  - intros b x Hb Hx. apply in_map_iff in Hb. destruct Hb as (b0 & <- & Hb0). apply (B b0 x Hb0). destruct (_ || _); simpl in Hx; auto.
Qed.
Lemma set_arom_wfr m i : wf_rings m -> wf_rings (set_arom m i).
Proof. intros R r x Hr Hx. rewrite set_arom_natom. exact (R r x Hr Hx). Qed.
Lemma set_bond_type_wfr m i j t : wf_rings m -> wf_rings (set_bond_type m i j t).
Proof. intros R r x Hr Hx. exact (R r x Hr Hx). Qed.

Section Ren.
Variables phi psi : nat -> nat.
Variable n : nat.
Hypothesis P1 : forall i, i < n -> phi i < n /\ psi (phi i) = i.
Hypothesis P2 : forall k, k < n -> psi k < n /\ phi (psi k) = k.
Notation rn := (rename_mol phi psi).

Lemma rename_set_arom m i : natom m = n -> i < n -> rn (set_arom m i) = set_arom (rn m) (phi i).
Proof.
  intros Hn Hi. unfold rename_mol, set_arom. cbn [atoms bonds rings]. f_equal.
  assert (Hn' : natom {| atoms := set_nth_arom (atoms m) i; bonds := bonds m; rings := rings m |} = n).
  { unfold natom. simpl. rewrite set_nth_arom_length. exact Hn. }
  rewrite Hn', Hn.
  apply (nth_ext _ _ dummy_atom dummy_atom).
  - rewrite set_nth_arom_length, !map_length. reflexivity.
  - intros k Hk. rewrite map_length, seq_length in Hk.
    rewrite (set_nth_arom_nth _ dummy_atom (phi i) k) by (rewrite map_length, seq_length; apply P1; exact Hi).
    assert (G : forall (g : nat -> matom) q, q < n -> nth q (map g (seq 0 n)) dummy_atom = g q).
    { intros g q Hq. rewrite (nth_indep _ dummy_atom (g 0)) by (rewrite map_length, seq_length; exact Hq).
      rewrite map_nth. rewrite seq_nth by exact Hq. reflexivity. }
    rewrite !G by (try exact Hk; apply P1; exact Hi).
    rewrite (set_nth_arom_nth _ dummy_atom i (psi k)) by (unfold natom in Hn; rewrite Hn; exact Hi).
    rewrite (proj2 (P1 i Hi)).
    destruct (Nat.eqb k (phi i)) eqn:E.
    + apply Nat.eqb_eq in E. subst k. rewrite (proj2 (P1 i Hi)), Nat.eqb_refl. reflexivity.
    + destruct (Nat.eqb (psi k) i) eqn:E2; [|reflexivity]. apply Nat.eqb_eq in E2. subst i.
      rewrite (proj2 (P2 k Hk)) in E. rewrite Nat.eqb_refl in E. discriminate.
Qed.

Lemma phi_inj' i j : i < n -> j < n -> phi i = phi j -> i = j.
Proof. intros Hi Hj E. rewrite <- (proj2 (P1 i Hi)), <- (proj2 (P1 j Hj)), E. reflexivity. Qed.

Lemma rename_set_bond_type m i j t : natom m = n -> wf_mol m -> i < n -> j < n ->
  rn (set_bond_type m i j t) = set_bond_type (rn m) (phi i) (phi j) t.
Proof.
  intros Hn W Hi Hj. unfold rename_mol, set_bond_type. cbn [atoms bonds rings]. f_equal.
  rewrite !map_map. apply map_ext_in. intros b Hb. destruct (w_bonds _ W b Hb) as [A B]. rewrite Hn in A, B.
  cbn [rn_bond b_u b_v].
  assert (E : forall x y, x < n -> y < n -> Nat.eqb (phi x) (phi y) = Nat.eqb x y).
  { intros x y Hx Hy. destruct (Nat.eqb x y) eqn:E0.
    - apply Nat.eqb_eq in E0. subst. apply Nat.eqb_refl.
    - apply Nat.eqb_neq. intros Hc. apply Nat.eqb_neq in E0. apply E0. apply phi_inj'; assumption. }
  rewrite !E by assumption. destruct (_ || _); reflexivity.
Qed.

Lemma rename_natom' m : natom m = n -> natom (rn m) = n.
Proof. intros Hn. unfold natom, rename_mol. simpl. rewrite map_length, seq_length. exact Hn. Qed.

Lemma rename_fold_arom r : forall m, natom m = n -> (forall x, In x r -> x < n) ->
  rn (fold_left set_arom r m) = fold_left set_arom (map phi r) (rn m).
Proof.
  induction r as [|x r IH]; intros m Hn Hr; [reflexivity|]. cbn [fold_left map].
  rewrite IH; [|rewrite set_arom_natom; exact Hn|intros y Hy; apply Hr; right; exact Hy].
  rewrite rename_set_arom by (try exact Hn; apply Hr; left; reflexivity). reflexivity.
Qed.

Definition pmap (p : nat * nat) : nat * nat := (phi (fst p), phi (snd p)).

Lemma rename_fold_bonds ps : forall m, natom m = n -> wf_mol m -> (forall p, In p ps -> fst p < n /\ snd p < n) ->
  rn (fold_left (fun acc p => set_bond_type acc (fst p) (snd p) BtArom) ps m)
  = fold_left (fun acc p => set_bond_type acc (fst p) (snd p) BtArom) (map pmap ps) (rn m).
Proof.
  induction ps as [|p ps IH]; intros m Hn W Hp; [reflexivity|]. cbn [fold_left map].
  rewrite IH; [|exact Hn|apply set_bond_type_wf; exact W|intros q Hq; apply Hp; right; exact Hq].
  destruct (Hp p (or_introl eq_refl)) as [A B].
  rewrite rename_set_bond_type by assumption. reflexivity.
Qed.

Lemma combine_map_phi (a b : list nat) : combine (map phi a) (map phi b) = map pmap (combine a b).
Proof. revert b. induction a as [|x a IH]; intros [|y b]; simpl; auto. rewrite IH. reflexivity. Qed.

Lemma ring_pairs_map r : ring_pairs (map phi r) = map pmap (ring_pairs r).
Proof.
  destruct r as [|x r]; [reflexivity|]. unfold ring_pairs. cbn [map tl].
  change (phi x :: map phi r) with (map phi (x :: r)).
  replace (map phi r ++ [phi x]) with (map phi (r ++ [x])) by (rewrite map_app; reflexivity).
  apply combine_map_phi.
Qed.

Lemma ring_pairs_in r p : In p (ring_pairs r) -> In (fst p) r /\ In (snd p) r.
Proof.
  destruct r as [|x r]; [intros []|]. unfold ring_pairs. intros H. destruct p as [a b]. split.
  - eapply in_combine_l; eauto.
  - apply in_combine_r in H. cbn [tl] in H. apply in_app_or in H. destruct H as [H|[<-|[]]]; [right; exact H|left; reflexivity].
Qed.

Theorem aromatize_ring_rename m r : natom m = n -> wf_mol m -> wf_rings m -> (forall x, In x r -> x < n) ->
  aromatize_ring (rn m) (map phi r) = rn (aromatize_ring m r).
Proof.
  intros Hn W R Hr.
  assert (P1' : forall i, i < natom m -> phi i < natom m /\ psi (phi i) = i) by (rewrite Hn; exact P1).
  pose proof (embeds_rename m phi psi W R P1') as E.
  unfold aromatize_ring. rewrite map_length.
  assert (C : forallb (fun i => match atom_at (rn m) i with Some a => N.eqb (a_z a) 6 | None => false end) (map phi r)
            = forallb (fun i => match atom_at m i with Some a => N.eqb (a_z a) 6 | None => false end) r).
  { clear -E Hr Hn. induction r as [|x r IH]; [reflexivity|]. cbn [map forallb].
    rewrite (e_atom _ _ _ E x) by (rewrite Hn; apply Hr; left; reflexivity).
    rewrite IH by (intros y Hy; apply Hr; right; exact Hy). reflexivity. }
  rewrite C. destruct (Nat.eqb (length r) 6 && _); [|reflexivity].
  assert (T : map (btype_of (rn m)) (ring_pairs (map phi r)) = map (btype_of m) (ring_pairs r)).
  { rewrite ring_pairs_map, map_map. apply map_ext_in. intros p Hp. destruct (ring_pairs_in r p Hp) as [A B].
    unfold btype_of, pmap. cbn [fst snd].
    rewrite (e_bond _ _ _ E (fst p) (snd p)) by (rewrite Hn; apply Hr; assumption).
    destruct (bond_between m (fst p) (snd p)); reflexivity. }
  rewrite T. destruct (alternates _ true || alternates _ false); [|reflexivity].
  rewrite ring_pairs_map.
  rewrite <- rename_fold_arom by assumption.
  rewrite <- rename_fold_bonds; [reflexivity| | |].
  - clear -Hn. revert m Hn. induction r as [|x r IH]; intros m Hn; [exact Hn|]. cbn [fold_left]. apply IH. rewrite set_arom_natom. exact Hn.
  - clear -W. revert m W. induction r as [|x r IH]; intros m W; [exact W|]. cbn [fold_left]. apply IH. apply set_arom_wf. exact W.
  - intros p Hp. destruct (ring_pairs_in r p Hp). split; apply Hr; assumption.
Qed.
End Ren.

(* the step keeps the number of atoms and well-formedness *)
Lemma fold_arom_natom r : forall m, natom (fold_left set_arom r m) = natom m.
Proof. induction r as [|x r IH]; intros m; [reflexivity|]. cbn [fold_left]. rewrite IH. apply set_arom_natom. Qed.
Lemma fold_arom_wf r : forall m, wf_mol m -> wf_mol (fold_left set_arom r m).
Proof. induction r as [|x r IH]; intros m W; [exact W|]. cbn [fold_left]. apply IH. apply set_arom_wf. exact W. Qed.
Lemma fold_arom_wfr r : forall m, wf_rings m -> wf_rings (fold_left set_arom r m).
Proof. induction r as [|x r IH]; intros m W; [exact W|]. cbn [fold_left]. apply IH. apply set_arom_wfr. exact W. Qed.
Lemma fold_bonds_natom ps : forall m, natom (fold_left (fun acc p => set_bond_type acc (fst p) (snd p) BtArom) ps m) = natom m.
Proof. induction ps as [|p ps IH]; intros m; [reflexivity|]. cbn [fold_left]. rewrite IH. reflexivity. Qed.
Lemma fold_bonds_wf ps : forall m, wf_mol m -> wf_mol (fold_left (fun acc p => set_bond_type acc (fst p) (snd p) BtArom) ps m).
Proof. induction ps as [|p ps IH]; intros m W; [exact W|]. cbn [fold_left]. apply IH. apply set_bond_type_wf. exact W. Qed.
Lemma fold_bonds_wfr ps : forall m, wf_rings m -> wf_rings (fold_left (fun acc p => set_bond_type acc (fst p) (snd p) BtArom) ps m).
Proof. induction ps as [|p ps IH]; intros m W; [exact W|]. cbn [fold_left]. apply IH. apply set_bond_type_wfr. exact W. Qed.

Lemma aromatize_ring_natom m r : natom (aromatize_ring m r) = natom m.
Proof.
  unfold aromatize_ring. destruct (_ && _); [|reflexivity]. destruct (_ || _); [|reflexivity].
  rewrite fold_bonds_natom, fold_arom_natom. reflexivity.
Qed.
Lemma aromatize_ring_wf m r : wf_mol m -> wf_mol (aromatize_ring m r).
Proof.
  intros W. unfold aromatize_ring. destruct (_ && _); [|exact W]. destruct (_ || _); [|exact W].
  apply fold_bonds_wf. apply fold_arom_wf. exact W.
Qed.
Lemma aromatize_ring_wfr m r : wf_rings m -> wf_rings (aromatize_ring m r).
Proof.
  intros W. unfold aromatize_ring. destruct (_ && _); [|exact W]. destruct (_ || _); [|exact W].
  apply fold_bonds_wfr. apply fold_arom_wfr. exact W.
Qed.
Lemma aromatize_natom sssr : forall m, natom (aromatize sssr m) = natom m.
Proof. unfold aromatize. induction sssr as [|r s IH]; intros m; [reflexivity|]. cbn [fold_left]. rewrite IH. apply aromatize_ring_natom. Qed.
Lemma aromatize_wf sssr : forall m, wf_mol m -> wf_mol (aromatize sssr m).
Proof. unfold aromatize. induction sssr as [|r s IH]; intros m W; [exact W|]. cbn [fold_left]. apply IH. apply aromatize_ring_wf. exact W. Qed.
Lemma aromatize_wfr sssr : forall m, wf_rings m -> wf_rings (aromatize sssr m).
Proof. unfold aromatize. induction sssr as [|r s IH]; intros m W; [exact W|]. cbn [fold_left]. apply IH. apply aromatize_ring_wfr. exact W. Qed.

Section RenTop.
Variables phi psi : nat -> nat.
Variable m0 : mol.
Hypothesis W : wf_mol m0.
Hypothesis R : wf_rings m0.
Hypothesis P1 : forall i, i < natom m0 -> phi i < natom m0 /\ psi (phi i) = i.
Hypothesis P2 : forall k, k < natom m0 -> psi k < natom m0 /\ phi (psi k) = k.

(* the whole aromatisation commutes with the renumbering, the ring list carried along in the same order *)
Theorem aromatize_rename sssr : (forall r x, In r sssr -> In x r -> x < natom m0) ->
  aromatize (map (map phi) sssr) (rename_mol phi psi m0) = rename_mol phi psi (aromatize sssr m0).
Proof.
  unfold aromatize. intros Hs.
  assert (G : forall s m, natom m = natom m0 -> wf_mol m -> wf_rings m -> (forall r x, In r s -> In x r -> x < natom m0) ->
              fold_left aromatize_ring (map (map phi) s) (rename_mol phi psi m) = rename_mol phi psi (fold_left aromatize_ring s m)).
  { induction s as [|r s IH]; intros m Hn Wm Rm Hr; [reflexivity|]. cbn [map fold_left].
    rewrite (aromatize_ring_rename phi psi (natom m0) P1 P2 m r Hn Wm Rm) by (intros x Hx; apply (Hr r x); [left; reflexivity|exact Hx]).
    apply IH.
    - rewrite aromatize_ring_natom. exact Hn.
    - apply aromatize_ring_wf. exact Wm.
    - apply aromatize_ring_wfr. exact Rm.
    - intros r' x Hr' Hx. apply (Hr r' x); [right; exact Hr'|exact Hx]. }
  apply G; auto.
Qed.

Variable sch : scheme.
Hypothesis Gp : forall p, In p (s_patterns sch) -> good_frag (p_frag p).
Hypothesis Gd : forall ds, In ds (s_descr sch) -> good_frag (d_frag ds).
Hypothesis CF : chain_free (s_remaps sch).
Local Open Scope Q_scope.

(* GetDescriptors on the renumbered input graph, its ring list renumbered in the same order: fails exactly when the original
   fails, and otherwise returns the same map *)
Theorem get_descriptors_rename sssr : (forall r x, In r sssr -> In x r -> (x < natom m0)%nat) ->
  ((exists e, get_descriptors sch sssr m0 = SRaise e) <-> (exists e, get_descriptors sch (map (map phi) sssr) (rename_mol phi psi m0) = SRaise e))
  /\ (forall d D, get_descriptors sch sssr m0 = SOk d -> get_descriptors sch (map (map phi) sssr) (rename_mol phi psi m0) = SOk D ->
        forall k, dict_get D k == dict_get d k).
Proof.
  intros Hs. unfold get_descriptors. rewrite (aromatize_rename sssr Hs).
  set (m := aromatize sssr m0).
  assert (Wm : wf_mol m) by (apply aromatize_wf; exact W).
  assert (Rm : wf_rings m) by (apply aromatize_wfr; exact R).
  assert (Hn : natom m = natom m0) by (apply aromatize_natom).
  assert (P1m : forall i, (i < natom m)%nat -> (phi i < natom m)%nat /\ psi (phi i) = i) by (rewrite Hn; exact P1).
  assert (P2m : forall k, (k < natom m)%nat -> (psi k < natom m)%nat /\ phi (psi k) = k) by (rewrite Hn; exact P2).
  destruct (assign_centres_rename m phi psi Wm Rm P1m P2m sch Gp) as [Iff _].
  split.
  - destruct (assign_centres sch m) as [nm|e] eqn:E1, (assign_centres sch (rename_mol phi psi m)) as [NM|e'] eqn:E2.
    + split; intros [e He]; discriminate.
    + exfalso. destruct (proj1 Iff (ex_intro _ nm eq_refl)) as [x Hx]. discriminate.
    + exfalso. destruct (proj2 Iff (ex_intro _ NM eq_refl)) as [x Hx]. discriminate.
    + split; intros _; eauto.
  - intros d D Hd HD.
    destruct (assign_centres sch m) as [nm|e] eqn:E1; [|discriminate].
    destruct (assign_centres sch (rename_mol phi psi m)) as [NM|e'] eqn:E2; [|discriminate].
    inversion Hd; inversion HD; subst. intros k.
    exact (descriptors_rename m phi psi Wm Rm P1m P2m sch Gp Gd CF nm NM E1 E2 k).
Qed.
End RenTop.

(* ====================== mixtures: the aromatisation acts component by component ====================== *)
Lemma set_nth_arom_app_l a1 a2 i : i < length a1 -> set_nth_arom (a1 ++ a2) i = set_nth_arom a1 i ++ a2.
Proof. revert i. induction a1 as [|a a1 IH]; intros [|i] Hi; simpl in *; try lia; [reflexivity|]. rewrite IH by lia. reflexivity. Qed.
Lemma set_nth_arom_app_r a1 a2 i : set_nth_arom (a1 ++ a2) (length a1 + i) = a1 ++ set_nth_arom a2 i.
Proof. induction a1 as [|a a1 IH]; simpl; [reflexivity|]. rewrite IH. reflexivity. Qed.

Section Uni.
Variables m1 m2 : mol.
Let n1 := natom m1.

Lemma union_set_arom_l i : i < natom m1 -> set_arom (union m1 m2) i = union (set_arom m1 i) m2.
Proof.
  intros Hi. unfold union, set_arom. cbn [atoms bonds rings]. rewrite set_nth_arom_app_l by exact Hi.
  assert (E : natom {| atoms := set_nth_arom (atoms m1) i; bonds := bonds m1; rings := rings m1 |} = natom m1)
    by (unfold natom; simpl; apply set_nth_arom_length).
  rewrite E. reflexivity.
Qed.
Lemma union_set_arom_r i : set_arom (union m1 m2) (shift (natom m1) i) = union m1 (set_arom m2 i).
Proof. unfold union, set_arom, shift, natom. cbn [atoms bonds rings]. rewrite set_nth_arom_app_r. reflexivity. Qed.

Lemma union_set_bond_l i j t : i < natom m1 -> j < natom m1 ->
  set_bond_type (union m1 m2) i j t = union (set_bond_type m1 i j t) m2.
Proof.
  intros Hi Hj. unfold union, set_bond_type. cbn [atoms bonds rings]. f_equal. rewrite map_app. f_equal.
  change (natom {| atoms := atoms m1; bonds := _; rings := rings m1 |}) with (natom m1).
  rewrite <- (map_id (map (rn_bond (shift (natom m1))) (bonds m2))) at 2. apply map_ext_in.
  intros b Hb. apply in_map_iff in Hb. destruct Hb as (b0 & <- & _). cbn [rn_bond b_u b_v]. unfold shift.
  replace (Nat.eqb (natom m1 + b_u b0) i) with false by (symmetry; apply Nat.eqb_neq; lia).
  replace (Nat.eqb (natom m1 + b_u b0) j) with false by (symmetry; apply Nat.eqb_neq; lia). reflexivity.
Qed.
Lemma union_set_bond_r i j t : wf_mol m1 ->
  set_bond_type (union m1 m2) (shift (natom m1) i) (shift (natom m1) j) t = union m1 (set_bond_type m2 i j t).
Proof.
  intros W. unfold union, set_bond_type. cbn [atoms bonds rings]. f_equal. rewrite map_app. f_equal.
  - rewrite <- (map_id (bonds m1)) at 2. apply map_ext_in. intros b Hb. destruct (w_bonds _ W b Hb) as [A B]. unfold shift.
    replace (Nat.eqb (b_u b) (natom m1 + i)) with false by (symmetry; apply Nat.eqb_neq; lia).
    replace (Nat.eqb (b_u b) (natom m1 + j)) with false by (symmetry; apply Nat.eqb_neq; lia). reflexivity.
  - rewrite !map_map. apply map_ext. intros b. cbn [rn_bond b_u b_v]. unfold shift.
    assert (E : forall x y, Nat.eqb (natom m1 + x) (natom m1 + y) = Nat.eqb x y).
    { intros x y. destruct (Nat.eqb x y) eqn:E0; [apply Nat.eqb_eq in E0; subst; apply Nat.eqb_refl|].
      apply Nat.eqb_neq. apply Nat.eqb_neq in E0. lia. }
    rewrite !E. destruct (_ || _); reflexivity.
Qed.
End Uni.

Lemma union_fold_arom_l m2 r : forall m1, (forall x, In x r -> x < natom m1) ->
  fold_left set_arom r (union m1 m2) = union (fold_left set_arom r m1) m2.
Proof.
  induction r as [|x r IH]; intros m1 Hr; [reflexivity|]. cbn [fold_left].
  rewrite union_set_arom_l by (apply Hr; left; reflexivity). apply IH.
  intros y Hy. rewrite set_arom_natom. apply Hr. right. exact Hy.
Qed.
Lemma union_fold_arom_r m1 r : forall m2,
  fold_left set_arom (map (shift (natom m1)) r) (union m1 m2) = union m1 (fold_left set_arom r m2).
Proof. induction r as [|x r IH]; intros m2; [reflexivity|]. cbn [fold_left map]. rewrite union_set_arom_r. apply IH. Qed.
Lemma union_fold_bonds_l m2 ps : forall m1, (forall p, In p ps -> fst p < natom m1 /\ snd p < natom m1) ->
  fold_left (fun acc p => set_bond_type acc (fst p) (snd p) BtArom) ps (union m1 m2)
  = union (fold_left (fun acc p => set_bond_type acc (fst p) (snd p) BtArom) ps m1) m2.
Proof.
  induction ps as [|p ps IH]; intros m1 Hp; [reflexivity|]. cbn [fold_left].
  destruct (Hp p (or_introl eq_refl)) as [A B]. rewrite union_set_bond_l by assumption. apply IH.
  intros q Hq. apply Hp. right. exact Hq.
Qed.
Lemma union_fold_bonds_r m1 ps : wf_mol m1 -> forall m2,
  fold_left (fun acc p => set_bond_type acc (fst p) (snd p) BtArom) (map (pmap (shift (natom m1))) ps) (union m1 m2)
  = union m1 (fold_left (fun acc p => set_bond_type acc (fst p) (snd p) BtArom) ps m2).
Proof.
  intros W. induction ps as [|[a b] ps IH]; intros m2; [reflexivity|]. cbn [fold_left map].
  change (pmap (shift (natom m1)) (a, b)) with (shift (natom m1) a, shift (natom m1) b). cbn [fst snd].
  rewrite (union_set_bond_r m1 m2 a b BtArom W). apply IH.
Qed.

Theorem aromatize_ring_union_l m1 m2 r : wf_mol m1 -> (forall x, In x r -> x < natom m1) ->
  aromatize_ring (union m1 m2) r = union (aromatize_ring m1 r) m2.
Proof.
  intros W Hr. pose proof (embeds_left m1 m2 W) as E. unfold aromatize_ring.
  assert (C : forallb (fun i => match atom_at (union m1 m2) i with Some a => N.eqb (a_z a) 6 | None => false end) r
            = forallb (fun i => match atom_at m1 i with Some a => N.eqb (a_z a) 6 | None => false end) r).
  { clear -E Hr. induction r as [|x r IH]; [reflexivity|]. cbn [forallb].
    rewrite (e_atom _ _ _ E x) by (apply Hr; left; reflexivity). rewrite IH by (intros y Hy; apply Hr; right; exact Hy). reflexivity. }
  rewrite C. destruct (Nat.eqb (length r) 6 && _); [|reflexivity].
  assert (T : map (btype_of (union m1 m2)) (ring_pairs r) = map (btype_of m1) (ring_pairs r)).
  { apply map_ext_in. intros p Hp. destruct (ring_pairs_in r p Hp) as [A B]. unfold btype_of.
    rewrite (e_bond _ _ _ E (fst p) (snd p)) by (apply Hr; assumption). destruct (bond_between m1 (fst p) (snd p)); reflexivity. }
  rewrite T. destruct (alternates _ true || alternates _ false); [|reflexivity].
  rewrite union_fold_arom_l by exact Hr. apply union_fold_bonds_l.
  intros p Hp. rewrite fold_arom_natom. destruct (ring_pairs_in r p Hp). split; apply Hr; assumption.
Qed.

Theorem aromatize_ring_union_r m1 m2 r : wf_mol m1 -> wf_mol m2 -> wf_rings m1 -> wf_rings m2 -> (forall x, In x r -> x < natom m2) ->
  aromatize_ring (union m1 m2) (map (shift (natom m1)) r) = union m1 (aromatize_ring m2 r).
Proof.
  intros W1 W2 R1 R2 Hr. pose proof (embeds_right m1 m2 W1 W2 R1 R2) as E. unfold aromatize_ring. rewrite map_length.
  assert (C : forallb (fun i => match atom_at (union m1 m2) i with Some a => N.eqb (a_z a) 6 | None => false end) (map (shift (natom m1)) r)
            = forallb (fun i => match atom_at m2 i with Some a => N.eqb (a_z a) 6 | None => false end) r).
  { clear -E Hr. induction r as [|x r IH]; [reflexivity|]. cbn [map forallb].
    rewrite (e_atom _ _ _ E x) by (apply Hr; left; reflexivity). rewrite IH by (intros y Hy; apply Hr; right; exact Hy). reflexivity. }
  rewrite C. destruct (Nat.eqb (length r) 6 && _); [|reflexivity].
  assert (T : map (btype_of (union m1 m2)) (ring_pairs (map (shift (natom m1)) r)) = map (btype_of m2) (ring_pairs r)).
  { rewrite ring_pairs_map, map_map. apply map_ext_in. intros p Hp. destruct (ring_pairs_in r p Hp) as [A B]. unfold btype_of, pmap. cbn [fst snd].
    rewrite (e_bond _ _ _ E (fst p) (snd p)) by (apply Hr; assumption). destruct (bond_between m2 (fst p) (snd p)); reflexivity. }
  rewrite T. destruct (alternates _ true || alternates _ false); [|reflexivity].
  rewrite ring_pairs_map. rewrite union_fold_arom_r. apply (union_fold_bonds_r m1 (ring_pairs r) W1).
Qed.

(* the aromatisation of a mixture, its ring list being the ring lists of the components one after the other *)
Theorem aromatize_union m1 m2 s1 s2 : wf_mol m1 -> wf_mol m2 -> wf_rings m1 -> wf_rings m2 ->
  (forall r x, In r s1 -> In x r -> x < natom m1) -> (forall r x, In r s2 -> In x r -> x < natom m2) ->
  aromatize (s1 ++ map (map (shift (natom m1))) s2) (union m1 m2) = union (aromatize s1 m1) (aromatize s2 m2).
Proof.
  intros W1 W2 R1 R2 H1 H2. unfold aromatize. rewrite fold_left_app.
  assert (L : forall s m, wf_mol m -> natom m = natom m1 -> (forall r x, In r s -> In x r -> x < natom m1) ->
              fold_left aromatize_ring s (union m m2) = union (fold_left aromatize_ring s m) m2).
  { induction s as [|r s IH]; intros m Wm Hn Hs; [reflexivity|]. cbn [fold_left].
    assert (Hr : forall x, In x r -> x < natom m) by (intros x Hx; rewrite Hn; apply (Hs r x); [left; reflexivity|exact Hx]).
    rewrite (aromatize_ring_union_l m m2 r Wm Hr).
    apply IH; [apply aromatize_ring_wf; exact Wm|rewrite aromatize_ring_natom; exact Hn|].
    intros r' x Hr' Hx. apply (Hs r' x); [right; exact Hr'|exact Hx]. }
  rewrite (L s1 m1 W1 eq_refl H1).
  set (a1 := fold_left aromatize_ring s1 m1).
  assert (Na : natom a1 = natom m1) by (apply (aromatize_natom s1 m1)).
  assert (Wa : wf_mol a1) by (apply (aromatize_wf s1 m1 W1)).
  assert (Ra : wf_rings a1) by (apply (aromatize_wfr s1 m1 R1)).
  rewrite <- Na.
  assert (Rr : forall s m, wf_mol m -> wf_rings m -> natom m = natom m2 -> (forall r x, In r s -> In x r -> x < natom m2) ->
              fold_left aromatize_ring (map (map (shift (natom a1))) s) (union a1 m) = union a1 (fold_left aromatize_ring s m)).
  { induction s as [|r s IH]; intros m Wm Rm Hn Hs; [reflexivity|]. cbn [fold_left map].
    assert (Hr : forall x, In x r -> x < natom m) by (intros x Hx; rewrite Hn; apply (Hs r x); [left; reflexivity|exact Hx]).
    rewrite (aromatize_ring_union_r a1 m r Wa Wm Ra Rm Hr).
    apply IH; [apply aromatize_ring_wf; exact Wm|apply aromatize_ring_wfr; exact Rm|rewrite aromatize_ring_natom; exact Hn|].
    intros r' x Hr' Hx. apply (Hs r' x); [right; exact Hr'|exact Hx]. }
  apply Rr; auto.
Qed.

Section UniTop.
Variables m1 m2 : mol.
Hypothesis W1 : wf_mol m1.
Hypothesis W2 : wf_mol m2.
Hypothesis R1 : wf_rings m1.
Hypothesis R2 : wf_rings m2.
Variable sch : scheme.
Hypothesis Gp : forall p, In p (s_patterns sch) -> good_frag (p_frag p).
Hypothesis Gd : forall ds, In ds (s_descr sch) -> good_frag (d_frag ds).
Hypothesis CF : chain_free (s_remaps sch).
Variables s1 s2 : list (list nat).
Hypothesis H1 : forall r x, In r s1 -> In x r -> x < natom m1.
Hypothesis H2 : forall r x, In r s2 -> In x r -> x < natom m2.
Local Open Scope Q_scope.

(* GetDescriptors on a mixture (ring list = the components' ring lists one after the other): it fails exactly when a component
   fails, and otherwise returns the entry-wise sum (where no occurring correction-descriptor name is an occurring group name) *)
Theorem get_descriptors_union :
  let U := union m1 m2 in let sU := (s1 ++ map (map (shift (natom m1))) s2)%list in
  ((exists D, get_descriptors sch sU U = SOk D) <->
   (exists d1, get_descriptors sch s1 m1 = SOk d1) /\ (exists d2, get_descriptors sch s2 m2 = SOk d2))
  /\ (forall D d1 d2 nm1 nm2, get_descriptors sch sU U = SOk D -> get_descriptors sch s1 m1 = SOk d1 -> get_descriptors sch s2 m2 = SOk d2 ->
        assign_centres sch (aromatize s1 m1) = SOk nm1 -> assign_centres sch (aromatize s2 m2) = SOk nm2 ->
        names_apart (aromatize s1 m1) (aromatize s2 m2) sch nm1 nm2 ->
        forall k, dict_get D k == dict_get d1 k + dict_get d2 k).
Proof.
  cbv zeta. unfold get_descriptors. rewrite (aromatize_union m1 m2 s1 s2 W1 W2 R1 R2 H1 H2).
  set (a1 := aromatize s1 m1). set (a2 := aromatize s2 m2).
  assert (Wa1 : wf_mol a1) by (apply aromatize_wf; exact W1). assert (Wa2 : wf_mol a2) by (apply aromatize_wf; exact W2).
  assert (Ra1 : wf_rings a1) by (apply aromatize_wfr; exact R1). assert (Ra2 : wf_rings a2) by (apply aromatize_wfr; exact R2).
  destruct (assign_centres_union a1 a2 Wa1 Wa2 Ra1 Ra2 sch Gp) as [Iff Eq].
  split.
  - split.
    + intros [D HD]. destruct (assign_centres sch (union a1 a2)) as [NM|e] eqn:EU; [|discriminate].
      destruct (proj1 Iff (ex_intro _ NM eq_refl)) as [[nm1 E1] [nm2 E2]]. rewrite E1, E2. split; eauto.
    + intros [[d1 Hd1] [d2 Hd2]].
      destruct (assign_centres sch a1) as [nm1|e1] eqn:E1; [|discriminate]. destruct (assign_centres sch a2) as [nm2|e2] eqn:E2; [|discriminate].
      destruct (proj2 Iff (conj (ex_intro _ nm1 eq_refl) (ex_intro _ nm2 eq_refl))) as [NM ENM]. rewrite ENM. eauto.
  - intros D d1 d2 nm1 nm2 HD Hd1 Hd2 E1 E2 NA k.
    rewrite E1 in Hd1. rewrite E2 in Hd2.
    destruct (assign_centres sch (union a1 a2)) as [NM|e] eqn:EU; [|discriminate].
    rewrite (Eq NM nm1 nm2 eq_refl E1 E2) in HD. inversion HD; inversion Hd1; inversion Hd2; subst.
    destruct (assign_centres_unique sch a1 nm1 E1) as [L1 _]. destruct (assign_centres_unique sch a2 nm2 E2) as [L2 _].
    exact (descriptors_union a1 a2 Wa1 Wa2 Ra1 Ra2 sch Gd CF nm1 nm2 L1 L2 NA k).
Qed.
End UniTop.
