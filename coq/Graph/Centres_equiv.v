(* C03 / C04 one level up from the matcher: which centre pattern classifies an
   atom does not depend on the numbering of the atoms, nor on other
   components being present in the same graph. *)
From Coq Require Import List NArith ZArith QArith Arith Bool Lia Permutation.
From PG Require Import Common.Strs Graph.Mol Graph.Match Graph.Match_proofs Graph.Embed Graph.Embed_inst
                       Graph.Scheme Graph.Scheme_proofs Graph.Centres_proofs.
Import ListNotations.
Local Close Scope Q_scope.

(* what the reader guarantees for every pattern of a shipped scheme (C08/C04: read_fragment_wf, read_fragment_connected,
   no molecule prefix) *)
Definition good_frag (f : fragment) : Prop := wf_bonds f /\ f_mol f = [] /\ connected f /\ f_atoms f <> [].

Lemma in_firsts m p a : In a (firsts m p) <-> exists r, In (a :: r) (matches (p_frag p) m).
Proof.
  unfold firsts. rewrite dedup_In, in_flat_map. split.
  - intros ([|x r] & Hin & H); [destruct H|]. destruct H as [<-|[]]. eauto.
  - intros (r & Hin). exists (a :: r). split; [exact Hin|left; reflexivity].
Qed.

Section Ren.
Variable m : mol.
Variables phi psi : nat -> nat.
Hypothesis W : wf_mol m.
Hypothesis R : wf_rings m.
Hypothesis P1 : forall i, i < natom m -> phi i < natom m /\ psi (phi i) = i.
Hypothesis P2 : forall k, k < natom m -> psi k < natom m /\ phi (psi k) = k.
Let M := rename_mol phi psi m.

Lemma hits_rename p a : good_frag (p_frag p) -> a < natom m -> hits M p (phi a) = hits m p a.
Proof.
  intros (Fw & Fm & Fc & Fn) Ha.
  pose proof (matches_rename m phi psi W R P1 P2 (p_frag p) Fw Fm Fc Fn) as Pm. fold M in Pm.
  unfold hits. apply Bool.eq_iff_eq_true. rewrite !mem_nat_In, !in_firsts. split.
  - intros (r & Hin). apply (Permutation_in _ Pm) in Hin. apply in_map_iff in Hin. destruct Hin as (img & E & Himg).
    destruct img as [|x r']; [discriminate|]. simpl in E. inversion E as [[E1 E2]].
    assert (Lx : x < natom m).
    { apply (denotes_lt m (p_frag p) (x :: r')); [apply (matches_iff _ _ _ Fw); exact Himg|left; reflexivity]. }
    assert (x = a) by (rewrite <- (proj2 (P1 x Lx)), <- (proj2 (P1 a Ha)), E1; reflexivity). subst x. eauto.
  - intros (r & Hin). exists (map phi r). apply (Permutation_in _ (Permutation_sym Pm)).
    apply in_map_iff. exists (a :: r). split; [reflexivity|exact Hin].
Qed.

Lemma hit_list_rename ps a : (forall p, In p ps -> good_frag (p_frag p)) -> a < natom m ->
  hit_list M ps (phi a) = hit_list m ps a.
Proof.
  intros Hg Ha. unfold hit_list. induction ps as [|p ps IH]; [reflexivity|]. simpl.
  rewrite (hits_rename p a (Hg p (or_introl eq_refl)) Ha), IH; [reflexivity|]. intros q Hq. apply Hg. right. exact Hq.
Qed.

(* the centres of the renumbered molecule are the renumbered centres: the call succeeds for one iff for the other,
   and atom phi a of the renumbered molecule carries the names atom a carried *)
Theorem assign_centres_rename sch : (forall p, In p (s_patterns sch) -> good_frag (p_frag p)) ->
  ((exists nm, assign_centres sch m = SOk nm) <-> (exists NM, assign_centres sch M = SOk NM))
  /\ (forall nm NM, assign_centres sch m = SOk nm -> assign_centres sch M = SOk NM ->
        forall a, a < natom m -> nth_error NM (phi a) = nth_error nm a).
Proof.
  intros Hg. assert (Hn : natom M = natom m) by (apply rename_natom). split.
  - rewrite !assign_centres_iff. rewrite Hn. split; intros H a Ha.
    + destruct (P2 a Ha) as [A B]. rewrite <- B. rewrite (hit_list_rename _ _ Hg A). apply H. exact A.
    + rewrite <- (hit_list_rename _ _ Hg Ha). apply H. apply P1. exact Ha.
  - intros nm NM E1 E2 a Ha.
    destruct (assign_centres_unique sch m nm E1) as [_ G1]. destruct (assign_centres_unique sch M NM E2) as [_ G2].
    destruct (G1 a Ha) as (p & Hp & Np). destruct (G2 (phi a)) as (q & Hq & Nq); [rewrite Hn; apply P1; exact Ha|].
    rewrite (hit_list_rename _ _ Hg Ha) in Hq. rewrite Hp in Hq. inversion Hq; subst q. rewrite Np, Nq. reflexivity.
Qed.
End Ren.

Lemma nth_error_ext' {A} (l l' : list A) : (forall n, nth_error l n = nth_error l' n) -> l = l'.
Proof.
  revert l'. induction l as [|x l IH]; intros [|y l'] H; try reflexivity.
  - specialize (H 0). discriminate.
  - specialize (H 0). discriminate.
  - pose proof (H 0) as H0. simpl in H0. inversion H0; subst. f_equal. apply IH. intros n. apply (H (S n)).
Qed.

Section Uni.
Variables m1 m2 : mol.
Hypothesis W1 : wf_mol m1.
Hypothesis W2 : wf_mol m2.
Hypothesis R1 : wf_rings m1.
Hypothesis R2 : wf_rings m2.
Let n1 := natom m1.
Let U := union m1 m2.

Lemma hits_union_left p a : good_frag (p_frag p) -> a < n1 -> hits U p a = hits m1 p a.
Proof.
  intros (Fw & Fm & Fc & Fn) Ha. unfold hits. apply Bool.eq_iff_eq_true. rewrite !mem_nat_In, !in_firsts. split.
  - intros (r & Hin). apply (matches_union m1 m2 W1 W2 R1 R2 (p_frag p) Fw Fm Fc Fn) in Hin.
    destruct Hin as [Hin|(img & Himg & E)]; [eauto|].
    destruct img as [|x r']; [discriminate|]. simpl in E. inversion E. unfold shift in *. fold n1 in H0. lia.
  - intros (r & Hin). exists r. apply (matches_union m1 m2 W1 W2 R1 R2 (p_frag p) Fw Fm Fc Fn). left. exact Hin.
Qed.

Lemma hits_union_right p a : good_frag (p_frag p) -> hits U p (n1 + a) = hits m2 p a.
Proof.
  intros (Fw & Fm & Fc & Fn). unfold hits. apply Bool.eq_iff_eq_true. rewrite !mem_nat_In, !in_firsts. split.
  - intros (r & Hin). apply (matches_union m1 m2 W1 W2 R1 R2 (p_frag p) Fw Fm Fc Fn) in Hin.
    destruct Hin as [Hin|(img & Himg & E)].
    + exfalso. assert (L : n1 + a < natom m1).
      { apply (denotes_lt m1 (p_frag p) ((n1 + a) :: r)); [apply (matches_iff _ _ _ Fw); exact Hin|left; reflexivity]. }
      fold n1 in L. lia.
    + destruct img as [|x r']; [discriminate|]. simpl in E. inversion E. unfold shift in *. fold n1 in H0.
      assert (x = a) by lia. subst. eauto.
  - intros (r & Hin). exists (map (shift n1) r). apply (matches_union m1 m2 W1 W2 R1 R2 (p_frag p) Fw Fm Fc Fn).
    right. exists (a :: r). split; [exact Hin|reflexivity].
Qed.

Lemma hit_list_union ps a : (forall p, In p ps -> good_frag (p_frag p)) ->
  (a < n1 -> hit_list U ps a = hit_list m1 ps a) /\ hit_list U ps (n1 + a) = hit_list m2 ps a.
Proof.
  intros Hg. unfold hit_list. induction ps as [|p ps IH]; [split; reflexivity|]. simpl.
  destruct IH as [I1 I2]; [intros q Hq; apply Hg; right; exact Hq|]. split.
  - intros Ha. rewrite (hits_union_left p a (Hg p (or_introl eq_refl)) Ha), (I1 Ha). reflexivity.
  - rewrite (hits_union_right p a (Hg p (or_introl eq_refl))), I2. reflexivity.
Qed.

(* the mixture is decomposable iff both components are, and then every atom keeps the centre it has in its component *)
Theorem assign_centres_union sch : (forall p, In p (s_patterns sch) -> good_frag (p_frag p)) ->
  ((exists NM, assign_centres sch U = SOk NM) <->
   (exists nm1, assign_centres sch m1 = SOk nm1) /\ (exists nm2, assign_centres sch m2 = SOk nm2))
  /\ (forall NM nm1 nm2, assign_centres sch U = SOk NM -> assign_centres sch m1 = SOk nm1 -> assign_centres sch m2 = SOk nm2 ->
        NM = nm1 ++ nm2).
Proof.
  intros Hg. assert (Hn : natom U = n1 + natom m2) by (apply union_natom). split.
  - rewrite !assign_centres_iff. rewrite Hn. split.
    + intros H. split; intros a Ha.
      * rewrite <- (proj1 (hit_list_union _ a Hg) Ha). apply H. lia.
      * rewrite <- (proj2 (hit_list_union _ a Hg)). apply H. lia.
    + intros [H1 H2] a Ha. destruct (Nat.lt_ge_cases a n1) as [L|G].
      * rewrite (proj1 (hit_list_union _ a Hg) L). apply H1. exact L.
      * replace a with (n1 + (a - n1)) by lia. rewrite (proj2 (hit_list_union _ (a - n1) Hg)). apply H2. lia.
  - intros NM nm1 nm2 E E1 E2.
    destruct (assign_centres_unique sch U NM E) as [L G]. destruct (assign_centres_unique sch m1 nm1 E1) as [L1 G1].
    destruct (assign_centres_unique sch m2 nm2 E2) as [L2 G2].
    apply nth_error_ext'. intros a. destruct (Nat.lt_ge_cases a n1) as [La|Ga].
    + rewrite nth_error_app1 by (rewrite L1; exact La).
      destruct (G a) as (p & Hp & Np); [rewrite Hn; lia|]. destruct (G1 a La) as (q & Hq & Nq).
      rewrite (proj1 (hit_list_union _ a Hg) La), Hq in Hp. inversion Hp; subst. rewrite Np, Nq. reflexivity.
    + rewrite nth_error_app2 by (rewrite L1; exact Ga). rewrite L1. fold n1.
      destruct (Nat.lt_ge_cases a (n1 + natom m2)) as [Lb|Gb].
      * destruct (G a) as (p & Hp & Np); [rewrite Hn; exact Lb|]. destruct (G2 (a - n1)) as (q & Hq & Nq); [lia|].
        replace a with (n1 + (a - n1)) in Hp by lia. rewrite (proj2 (hit_list_union _ (a - n1) Hg)), Hq in Hp.
        inversion Hp; subst. rewrite Np, Nq. reflexivity.
      * assert (nth_error NM a = None) by (apply nth_error_None; rewrite L, Hn; exact Gb).
        assert (nth_error nm2 (a - n1) = None) by (apply nth_error_None; rewrite L2; lia). congruence.
Qed.
End Uni.
