(* Reading the regenerated scheme files with the Coq PEG + reader models. *)
From Coq Require Import List NArith QArith Arith Bool.
From PG Require Import Common.Strs Ring.Peg Ring.PegCorr Ring.Reader Graph.Mol Graph.Match Graph.Scheme
     Gen.RingGrammar Gen.Elements Gen.Schemes.
Import ListNotations.

(* shipped scheme files are ASCII: no non-ASCII classification needed *)
Definition read_ascii (s : str) : rout :=
  read_text [] [] [] [] enhanced_grammar_rules enhanced_grammar_root elements 400 s.

Definition frag_of (s : str) : option fragment :=
  match read_ascii s with OFrag f => Some f | _ => None end.

Fixpoint all_some {A} (l : list (option A)) : option (list A) :=
  match l with
  | [] => Some []
  | Some x :: r => match all_some r with Some r' => Some (x :: r') | None => None end
  | None :: _ => None
  end.

Definition load_scheme (r : raw_scheme) : option scheme :=
  let '(pats, descr, remaps) := r in
  match all_some (map (fun p => let '(c, pe, t) := p in
                                match frag_of t with
                                | Some f => Some {| p_center := c; p_periph := pe; p_frag := f |}
                                | None => None end) pats),
        all_some (map (fun d => match frag_of (snd d) with
                                | Some f => Some {| d_name := fst d; d_frag := f |}
                                | None => None end) descr) with
  | Some ps, Some ds => Some {| s_patterns := ps; s_descr := ds; s_remaps := remaps |}
  | _, _ => None
  end.

(* finite facts about a scheme *)
Definition remap_sources (s : scheme) : list str := map fst (s_remaps s).
Definition remap_targets (s : scheme) : list str := flat_map (fun kv => map snd (snd kv)) (s_remaps s).
Definition chain_free (s : scheme) : bool :=
  forallb (fun t => negb (existsb (str_eqb t) (remap_sources s))) (remap_targets s).
Definition no_mol_prefix (s : scheme) : bool :=
  forallb (fun p => isnil (f_mol (p_frag p))) (s_patterns s)
  && forallb (fun d => isnil (f_mol (d_frag d))) (s_descr s).
Definition remaps_wellformed (s : scheme) : bool :=
  forallb (fun kv => negb (isnil (snd kv)) && forallb (fun ct => negb (Qeq_bool (fst ct) 0)) (snd kv)) (s_remaps s).
Fixpoint nodup_strs (l : list str) : bool :=
  match l with [] => true | x :: r => negb (existsb (str_eqb x) r) && nodup_strs r end.
Definition scheme_ok (r : raw_scheme) : bool :=
  match load_scheme r with
  | Some s => chain_free s && no_mol_prefix s && remaps_wellformed s && nodup_strs (remap_sources s)
  | None => false
  end.
