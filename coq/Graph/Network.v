(* Executable model of the work list of GenerateRxnNet (RDkitWrapper/GenRxnNet.py),
   abstract in the species (numbered by the harness), after the fix that also
   checks the waiting list for duplicates.  `expand u` = the products of all
   rules on u after the valence filter and the in-batch de-duplication, in the
   order the implementation meets them.  No proofs here. *)
From Coq Require Import List Arith Bool.
Import ListNotations.

Section Net.
Variable expand : nat -> list nat.

Definition mem (x : nat) (l : list nat) : bool := existsb (Nat.eqb x) l.

(* products not yet known are pushed on the head of the waiting list *)
Fixpoint add_products (ps proc unproc : list nat) : list nat :=
  match ps with
  | [] => unproc
  | p :: r => if mem p proc || mem p unproc then add_products r proc unproc
              else add_products r proc (p :: unproc)
  end.

Fixpoint loop (fuel : nat) (unproc proc : list nat) : option (list nat) :=
  match fuel with
  | O => None
  | S f =>
      match unproc with
      | [] => Some proc
      | u :: us => loop f (add_products (expand u) (u :: proc) us) (u :: proc)
      end
  end.

Definition generate (fuel : nat) (seeds : list nat) : option (list nat) := loop fuel seeds [].
End Net.
