(* Soundness of the executable matcher with respect to the declarative
   reading of a fragment (C08). *)
From Coq Require Import List NArith ZArith Arith Bool Lia FinFun.
From PG Require Import Common.Strs Graph.Mol Graph.Match.
Import ListNotations.

(* position k of a tuple was placed legally given the earlier positions *)
Lemma NoDup_snoc {A} (l : list A) x : NoDup l -> ~ In x l -> NoDup (l ++ [x]).
Proof.
  induction l as [|y l IH]; intros Hl Hx; simpl.
  - constructor; [intros []|constructor].
  - inversion Hl as [|? ? Hy Hl']; subst. constructor.
    + intros Hin. apply in_app_or in Hin. destruct Hin as [Hin|[->|[]]]; [contradiction|].
      apply Hx. left. reflexivity.
    + apply IH; auto. intros Hin. apply Hx. right. exact Hin.
Qed.

Definition placed (f : fragment) (m : mol) (qall : list qatom) (img : list nat) : Prop :=
  forall k c, nth_error img k = Some c ->
    exists q, nth_error qall k = Some q /\ place_ok f m k q (firstn k img) c = true.

Lemma nth_error_snoc {A} (l : list A) x k :
  nth_error (l ++ [x]) k = if Nat.ltb k (length l) then nth_error l k
                           else if Nat.eqb k (length l) then Some x else None.
Proof.
  destruct (Nat.ltb_spec k (length l)).
  - apply nth_error_app1; auto.
  - rewrite nth_error_app2 by lia. destruct (Nat.eqb_spec k (length l)).
    + subst. rewrite Nat.sub_diag. reflexivity.
    + destruct (k - length l) as [|d] eqn:E; [lia|]. simpl. destruct d; reflexivity.
Qed.

Lemma embed_sound f m qall : forall qs done partial,
  qall = done ++ qs ->
  (forall p, In p partial -> length p = length done /\ placed f m qall p) ->
  forall img, In img (embed f m qs (length done) partial) ->
    length img = length qall /\ placed f m qall img.
Proof.
  induction qs as [|q qs IH]; intros done partial Hq Hp img Hin; simpl in Hin.
  - subst. destruct (Hp img Hin) as [A B]. rewrite app_length; simpl. split; [lia|exact B].
  - assert (EL : S (length done) = length (done ++ [q])) by (rewrite app_length; simpl; lia).
    rewrite EL in Hin.
    eapply (IH (done ++ [q])); [| |exact Hin].
    + rewrite <- app_assoc. exact Hq.
    + intros p Hpin. apply in_flat_map in Hpin. destruct Hpin as (pre & Hpre & Hmap).
      apply in_map_iff in Hmap. destruct Hmap as (c & <- & Hc).
      apply filter_In in Hc. destruct Hc as [_ Hok].
      destruct (Hp pre Hpre) as [Hlen Hpl]. split.
      * rewrite !app_length. simpl. lia.
      * intros k c' Hk. rewrite nth_error_snoc in Hk.
        destruct (Nat.ltb_spec k (length pre)).
        -- destruct (Hpl k c' Hk) as (q' & Hq' & Hplace). exists q'. split; auto.
           rewrite firstn_app. replace (k - length pre) with 0 by lia. simpl. rewrite app_nil_r. exact Hplace.
        -- destruct (Nat.eqb_spec k (length pre)); [|discriminate]. inversion Hk; subst c' k.
           exists q. split.
           ++ rewrite Hq, Hlen. rewrite nth_error_app2 by lia. rewrite Nat.sub_diag. reflexivity.
           ++ rewrite firstn_app, Nat.sub_diag, firstn_all. simpl. rewrite app_nil_r. rewrite Hlen. exact Hok.
Qed.

Theorem raw_embeddings_sound f m img :
  In img (raw_embeddings f m) ->
  length img = length (f_atoms f) /\ placed f m (f_atoms f) img.
Proof.
  unfold raw_embeddings. intros H.
  apply (embed_sound f m (f_atoms f) (f_atoms f) [] [[]]); auto.
  intros p [<-|[]]. split; auto. intros k c Hk. destruct k; discriminate.
Qed.

(* what `placed` means, clause by clause *)
Theorem placed_atoms_ok f m qall img : placed f m qall img ->
  forall k c, nth_error img k = Some c ->
    exists q a, nth_error qall k = Some q /\ atom_at m c = Some a /\ qatom_ok q a = true.
Proof.
  intros H k c Hk. destruct (H k c Hk) as (q & Hq & Hp).
  unfold place_ok in Hp. destruct (atom_at m c) as [a|]; [|discriminate].
  apply andb_true_iff in Hp. destruct Hp as [Hp _]. apply andb_true_iff in Hp. destruct Hp as [Hp _].
  eauto.
Qed.

Theorem placed_injective f m qall img : placed f m qall img -> NoDup img.
Proof.
  intros H. 
  assert (G : forall n, NoDup (firstn n img)).
  { induction n as [|n IHn]; [constructor|].
    destruct (nth_error img n) as [c|] eqn:E.
    - assert (firstn (S n) img = firstn n img ++ [c]) as ->.
      { clear -E. revert n E. induction img as [|x img IH]; intros [|n] E; simpl in *; try discriminate.
        - inversion E; reflexivity.
        - f_equal. apply IH. exact E. }
      destruct (H n c E) as (q & _ & Hp). unfold place_ok in Hp.
      destruct (atom_at m c); [|discriminate].
      apply andb_true_iff in Hp. destruct Hp as [Hp _]. apply andb_true_iff in Hp. destruct Hp as [_ Hn].
      apply negb_true_iff in Hn.
      apply NoDup_snoc; auto. intros Hin.
      assert (mem_nat c (firstn n img) = true).
      { unfold mem_nat. apply existsb_exists. exists c. split; auto. apply Nat.eqb_refl. }
      congruence.
    - apply nth_error_None in E. rewrite firstn_all2 by lia. rewrite <- (firstn_all2 img (n:=n)) by lia. exact IHn. }
  rewrite <- (firstn_all img). apply G.
Qed.

Lemma nth_error_firstn {A} (l : list A) k j x :
  nth_error (firstn k l) j = Some x -> nth_error l j = Some x.
Proof.
  revert k j; induction l as [|y l IH]; intros [|k] [|j]; simpl; try discriminate; auto.
  apply IH.
Qed.

(* every declared bond (checked when its later end is placed) exists in the
   molecule with a matching type *)
Theorem placed_bonds_ok f m qall img : placed f m qall img ->
  forall k c, nth_error img k = Some c ->
  forall j t, In (j, t) (bonds_into f k) ->
    exists cj b, nth_error img j = Some cj /\ bond_between m c cj = Some b /\ qbond_ok t b = true.
Proof.
  intros H k c Hk j t Hj. destruct (H k c Hk) as (q & _ & Hp).
  unfold place_ok in Hp. destruct (atom_at m c); [|discriminate].
  apply andb_true_iff in Hp. destruct Hp as [_ Hb].
  rewrite forallb_forall in Hb. specialize (Hb (j, t) Hj). simpl in Hb.
  destruct (nth_error (firstn k img) j) as [cj|] eqn:E; [|discriminate].
  destruct (bond_between m c cj) as [b|] eqn:Eb; [|discriminate].
  exists cj, b. repeat split; auto. eapply nth_error_firstn; eauto.
Qed.

(* nothing violating the pattern is returned *)
Theorem matches_sound f m img : In img (matches f m) ->
  forallb (mcon_ok m) (f_mol f) = true
  /\ length img = length (f_atoms f) /\ placed f m (f_atoms f) img /\ NoDup img
  /\ bcons_ok f m img = true /\ acons_ok f m img = true /\ scons_ok f m img = true.
Proof.
  unfold matches. destruct (forallb (mcon_ok m) (f_mol f)) eqn:E; [|intros []].
  intros H. apply filter_In in H. destruct H as [Hr Hc].
  apply andb_true_iff in Hc. destruct Hc as [Hc Hs]. apply andb_true_iff in Hc. destruct Hc as [Hb Ha].
  destruct (raw_embeddings_sound f m img Hr) as [Hl Hp].
  repeat split; auto. eapply placed_injective; eauto.
Qed.

(* the molecule-level prefix failing means no match at all *)
Theorem molprefix_gate f m : forallb (mcon_ok m) (f_mol f) = false -> matches f m = [].
Proof. intros H. unfold matches. rewrite H. reflexivity. Qed.

(* filters only remove: the result is a sub-list of the raw embeddings and
   keeps every raw embedding that passes the three filters *)
Theorem matches_complete_wrt_raw f m img :
  forallb (mcon_ok m) (f_mol f) = true -> In img (raw_embeddings f m) ->
  bcons_ok f m img = true -> acons_ok f m img = true -> scons_ok f m img = true ->
  In img (matches f m).
Proof.
  intros Hm Hr Hb Ha Hs. unfold matches. rewrite Hm. apply filter_In. split; auto.
  rewrite Hb, Ha, Hs. reflexivity.
Qed.

(* ---------- completeness of the enumeration ---------- *)
Lemma firstn_S_nth {A} (l : list A) n c : nth_error l n = Some c -> firstn (S n) l = firstn n l ++ [c].
Proof.
  revert n; induction l as [|x l IH]; intros [|n] E; simpl in *; try discriminate.
  - inversion E; reflexivity.
  - f_equal. apply IH. exact E.
Qed.

Lemma atom_at_lt m c a : atom_at m c = Some a -> c < natom m.
Proof. unfold atom_at, natom. intros H. apply nth_error_Some. congruence. Qed.

Lemma embed_complete f m qall : forall qs done partial img,
  qall = done ++ qs -> length img = length qall -> placed f m qall img ->
  In (firstn (length done) img) partial ->
  In img (embed f m qs (length done) partial).
Proof.
  induction qs as [|q qs IH]; intros done partial img Hq Hl Hp Hin; simpl.
  - rewrite app_nil_r in Hq. subst qall. rewrite <- Hl, firstn_all in Hin. exact Hin.
  - assert (EL : S (length done) = length (done ++ [q])) by (rewrite app_length; simpl; lia).
    rewrite EL. apply (IH (done ++ [q])); auto.
    + rewrite <- app_assoc. exact Hq.
    + rewrite <- EL.
      assert (Hk : length done < length img) by (rewrite Hl, Hq, app_length; simpl; lia).
      destruct (nth_error img (length done)) as [c|] eqn:E; [|apply nth_error_None in E; lia].
      rewrite (firstn_S_nth _ _ _ E). apply in_flat_map. exists (firstn (length done) img). split; [exact Hin|].
      apply in_map_iff. exists c. split; [reflexivity|]. apply filter_In.
      destruct (Hp _ _ E) as (q' & Hq' & Hok).
      assert (q' = q).
      { rewrite Hq in Hq'. rewrite nth_error_app2 in Hq' by lia. rewrite Nat.sub_diag in Hq'. simpl in Hq'. congruence. }
      subst q'. split; [|exact Hok].
      apply in_seq. split; [lia|]. simpl.
      unfold place_ok in Hok. destruct (atom_at m c) as [a|] eqn:Ea; [|discriminate].
      eapply atom_at_lt; eauto.
Qed.

(* every legally placed tuple is enumerated *)
Theorem raw_embeddings_complete f m img :
  length img = length (f_atoms f) -> placed f m (f_atoms f) img -> In img (raw_embeddings f m).
Proof.
  intros Hl Hp. unfold raw_embeddings.
  apply (embed_complete f m (f_atoms f) (f_atoms f) [] [[]] img); auto. simpl. left. reflexivity.
Qed.

Theorem raw_embeddings_iff f m img :
  In img (raw_embeddings f m) <-> length img = length (f_atoms f) /\ placed f m (f_atoms f) img.
Proof. split; [apply raw_embeddings_sound|intros [A B]; apply raw_embeddings_complete; auto]. Qed.

(* ---------- the declarative reading of a fragment ----------
   img denotes an embedding of the fragment's graph: one distinct molecule
   atom per declared query atom, each of the declared element class / charge,
   and every declared bond present between the images with a matching type.
   Nothing about enumeration order or "earlier" atoms. *)
Definition Denotes (f : fragment) (m : mol) (img : list nat) : Prop :=
  length img = length (f_atoms f) /\ NoDup img
  /\ (forall k c q, nth_error img k = Some c -> nth_error (f_atoms f) k = Some q ->
        exists a, atom_at m c = Some a /\ qatom_ok q a = true)
  /\ (forall i j t ci cj, In (i, j, t) (f_bonds f) -> nth_error img i = Some ci -> nth_error img j = Some cj ->
        exists b, bond_between m ci cj = Some b /\ qbond_ok t b = true).

(* the reader only produces fragments whose bonds join two different declared atoms *)
Definition wf_bonds (f : fragment) : Prop :=
  forall i j t, In (i, j, t) (f_bonds f) -> i <> j /\ i < length (f_atoms f) /\ j < length (f_atoms f).

(* every atom of a connected fragment but the first is bonded to an earlier one *)
Definition connected (f : fragment) : Prop :=
  forall k, 0 < k < length (f_atoms f) ->
    exists j t, j < k /\ (In (k, j, t) (f_bonds f) \/ In (j, k, t) (f_bonds f)).

Lemma find_ext' {A} (p q : A -> bool) l : (forall x, p x = q x) -> find p l = find q l.
Proof. intros H. induction l as [|x l IH]; simpl; auto. rewrite H, IH. reflexivity. Qed.

Lemma bond_between_sym m a b : bond_between m a b = bond_between m b a.
Proof. unfold bond_between. apply find_ext'. intros x. apply orb_comm. Qed.

Lemma nth_error_firstn_lt {A} (l : list A) k j : j < k -> nth_error (firstn k l) j = nth_error l j.
Proof.
  revert k j; induction l as [|y l IH]; intros [|k] [|j] H; simpl; auto; try lia.
  apply IH. lia.
Qed.

Lemma NoDup_not_in_prefix (l : list nat) k c : NoDup l -> nth_error l k = Some c -> ~ In c (firstn k l).
Proof.
  intros Hn Hk Hin. apply In_nth_error in Hin. destruct Hin as [j Hj].
  assert (Hjk : j < k).
  { assert (j < length (firstn k l)) by (apply nth_error_Some; congruence).
    rewrite firstn_length in H. lia. }
  rewrite nth_error_firstn_lt in Hj by exact Hjk.
  rewrite NoDup_nth_error in Hn.
  assert (j = k); [|lia]. apply Hn; [apply nth_error_Some; congruence|congruence].
Qed.

Lemma bonds_into_in f k j t : In (j, t) (bonds_into f k) ->
  j < k /\ (In (k, j, t) (f_bonds f) \/ In (j, k, t) (f_bonds f)).
Proof.
  unfold bonds_into. intros H. apply in_flat_map in H. destruct H as ([[i0 j0] t0] & Hin & H).
  destruct (Nat.eqb_spec i0 k) as [->|]; simpl in H.
  - destruct (Nat.ltb_spec j0 k); simpl in H.
    + destruct H as [H|[]]. inversion H; subst. auto.
    + destruct (Nat.eqb_spec j0 k) as [->|]; simpl in H; [|destruct H].
      destruct (Nat.ltb_spec k k); [lia|destruct H].
  - destruct (Nat.eqb_spec j0 k) as [->|]; simpl in H; [|destruct H].
    destruct (Nat.ltb_spec i0 k); simpl in H; [|destruct H].
    destruct H as [H|[]]. inversion H; subst. auto.
Qed.

Lemma in_bonds_into f i j t : In (i, j, t) (f_bonds f) ->
  (j < i -> In (j, t) (bonds_into f i)) /\ (i < j -> In (i, t) (bonds_into f j)).
Proof.
  intros H. split; intros L; unfold bonds_into; apply in_flat_map; exists (i, j, t); (split; [exact H|]).
  - rewrite Nat.eqb_refl. destruct (Nat.ltb_spec j i); [|lia]. simpl. auto.
  - destruct (Nat.eqb_spec i j); [lia|]. simpl. rewrite Nat.eqb_refl.
    destruct (Nat.ltb_spec i j); [|lia]. simpl. auto.
Qed.

Theorem denotes_placed f m img : Denotes f m img -> placed f m (f_atoms f) img.
Proof.
  intros (Hl & Hn & Ha & Hb) k c Hk.
  assert (Hlt : k < length (f_atoms f)) by (rewrite <- Hl; apply nth_error_Some; congruence).
  destruct (nth_error (f_atoms f) k) as [q|] eqn:Eq; [|apply nth_error_None in Eq; lia].
  exists q. split; [reflexivity|]. unfold place_ok.
  destruct (Ha k c q Hk Eq) as (a & Hat & Hq). rewrite Hat, Hq. simpl.
  apply andb_true_iff. split.
  - apply negb_true_iff. destruct (mem_nat c (firstn k img)) eqn:E; [|reflexivity].
    exfalso. unfold mem_nat in E. apply existsb_exists in E. destruct E as (x & Hx & Ex).
    apply Nat.eqb_eq in Ex. subst x. eapply NoDup_not_in_prefix; eauto.
  - apply forallb_forall. intros [j t] Hj. simpl.
    destruct (bonds_into_in f k j t Hj) as [Hjk Hin].
    rewrite nth_error_firstn_lt by exact Hjk.
    destruct (nth_error img j) as [cj|] eqn:Ej; [|apply nth_error_None in Ej; lia].
    destruct Hin as [Hin|Hin].
    + destruct (Hb _ _ _ _ _ Hin Hk Ej) as (b & Eb & Ok). rewrite Eb. exact Ok.
    + destruct (Hb _ _ _ _ _ Hin Ej Hk) as (b & Eb & Ok). rewrite bond_between_sym, Eb. exact Ok.
Qed.

Theorem placed_denotes f m img : wf_bonds f ->
  length img = length (f_atoms f) -> placed f m (f_atoms f) img -> Denotes f m img.
Proof.
  intros Hwf Hl Hp. split; [exact Hl|]. split; [eapply placed_injective; eauto|]. split.
  - intros k c q Hk Hq. destruct (placed_atoms_ok f m _ img Hp k c Hk) as (q' & a & Hq' & Ha & Hok).
    exists a. split; [exact Ha|]. congruence.
  - intros i j t ci cj Hin Hi Hj. destruct (Hwf i j t Hin) as (Hne & _ & _).
    destruct (in_bonds_into f i j t Hin) as [A B].
    destruct (Nat.lt_total i j) as [L|[E|L]]; [|contradiction|].
    + destruct (placed_bonds_ok f m _ img Hp j cj Hj i t (B L)) as (ci' & b & Hi' & Eb & Ok).
      exists b. split; [|exact Ok]. rewrite bond_between_sym. congruence.
    + destruct (placed_bonds_ok f m _ img Hp i ci Hi j t (A L)) as (cj' & b & Hj' & Eb & Ok).
      exists b. split; [|exact Ok]. congruence.
Qed.

(* the matcher returns EXACTLY the embeddings the fragment denotes that pass
   the molecule prefix and the three constraint filters *)
Theorem matches_iff f m img : wf_bonds f ->
  (In img (matches f m) <->
   forallb (mcon_ok m) (f_mol f) = true /\ Denotes f m img
   /\ bcons_ok f m img = true /\ acons_ok f m img = true /\ scons_ok f m img = true).
Proof.
  intros Hwf. split.
  - intros H. destruct (matches_sound f m img H) as (A & B & C & D & E & F & G).
    repeat split; auto; apply (placed_denotes f m img Hwf B C).
  - intros (A & D & E & F & G). apply matches_complete_wrt_raw; auto.
    apply raw_embeddings_complete; [apply D|apply denotes_placed; exact D].
Qed.

Lemma NoDup_app_intro {A} (l1 l2 : list A) :
  NoDup l1 -> NoDup l2 -> (forall x, In x l1 -> In x l2 -> False) -> NoDup (l1 ++ l2).
Proof.
  induction l1 as [|x l1 IH]; intros H1 H2 Hd; simpl; [exact H2|].
  inversion H1 as [|? ? Hx H1']; subst. constructor.
  - intros Hin. apply in_app_or in Hin. destruct Hin as [Hin|Hin]; [contradiction|].
    apply (Hd x); [left; reflexivity|exact Hin].
  - apply IH; auto. intros y Hy1 Hy2. apply (Hd y); [right; exact Hy1|exact Hy2].
Qed.

(* no tuple is returned twice *)
Lemma embed_nodup f m : forall qs k partial, NoDup partial ->
  (forall p, In p partial -> length p = k) -> NoDup (embed f m qs k partial).
Proof.
  induction qs as [|q qs IH]; intros k partial Hn Hl; simpl; [exact Hn|].
  apply IH.
  - clear IH. induction partial as [|p ps IHp]; simpl; [constructor|].
    inversion Hn as [|? ? Hnot Hn']; subst.
    assert (NoDup (map (fun c => p ++ [c]) (filter (place_ok f m k q p) (seq 0 (natom m))))).
    { apply FinFun.Injective_map_NoDup.
      - intros x y Hxy. apply app_inv_head in Hxy. congruence.
      - apply NoDup_filter. apply seq_NoDup. }
    apply NoDup_app_intro; [exact H| |].
    + apply IHp; auto. intros p' Hp'. apply Hl. right. exact Hp'.
    + intros x Hx1 Hx2. apply in_map_iff in Hx1. destruct Hx1 as (c & <- & _).
      apply in_flat_map in Hx2. destruct Hx2 as (p' & Hp' & Hx2).
      apply in_map_iff in Hx2. destruct Hx2 as (c' & Heq & _).
      assert (length p' = length p) by (rewrite (Hl p'), (Hl p); auto; [left; reflexivity|right; exact Hp']).
      apply app_inj_tail in Heq. destruct Heq as [-> _]. contradiction.
  - intros p Hp. apply in_flat_map in Hp. destruct Hp as (pre & Hpre & Hp).
    apply in_map_iff in Hp. destruct Hp as (c & <- & _). rewrite app_length, (Hl pre Hpre). simpl. lia.
Qed.

Theorem matches_nodup f m : NoDup (matches f m).
Proof.
  unfold matches. destruct (forallb (mcon_ok m) (f_mol f)); [|constructor].
  apply NoDup_filter. unfold raw_embeddings. apply (embed_nodup f m _ 0).
  - constructor; [intros []|constructor].
  - intros p [<-|[]]. reflexivity.
Qed.
