(* Soundness of the executable matcher with respect to the declarative
   reading of a fragment (C08). *)
From Coq Require Import List NArith ZArith Arith Bool Lia.
From PG Require Import Common.Strs Graph.Mol Graph.Match.
Import ListNotations.

(* position k of a tuple was placed legally given the earlier positions *)
Lemma NoDup_snoc {A} (l : list A) x : NoDup l -> ~ In x l -> NoDup (l ++ [x]).
Proof.
  induction l as [|y l IH]; intros Hl Hx; simpl.
  - constructor; [intros []|constructor].
  - inversion Hl as [|? ? Hy Hl']; subst. constructor.
    + intros Hin. apply in_app_or in Hin. destruct Hin as [Hin|[->|[]]]; [contradiction|].
      apply Hx. left. reflexivity.
    + apply IH; auto. intros Hin. apply Hx. right. exact Hin.
Qed.

Definition placed (f : fragment) (m : mol) (qall : list qatom) (img : list nat) : Prop :=
  forall k c, nth_error img k = Some c ->
    exists q, nth_error qall k = Some q /\ place_ok f m k q (firstn k img) c = true.

Lemma nth_error_snoc {A} (l : list A) x k :
  nth_error (l ++ [x]) k = if Nat.ltb k (length l) then nth_error l k
                           else if Nat.eqb k (length l) then Some x else None.
Proof.
  destruct (Nat.ltb_spec k (length l)).
  - apply nth_error_app1; auto.
  - rewrite nth_error_app2 by lia. destruct (Nat.eqb_spec k (length l)).
    + subst. rewrite Nat.sub_diag. reflexivity.
    + destruct (k - length l) as [|d] eqn:E; [lia|]. simpl. destruct d; reflexivity.
Qed.

Lemma embed_sound f m qall : forall qs done partial,
  qall = done ++ qs ->
  (forall p, In p partial -> length p = length done /\ placed f m qall p) ->
  forall img, In img (embed f m qs (length done) partial) ->
    length img = length qall /\ placed f m qall img.
Proof.
  induction qs as [|q qs IH]; intros done partial Hq Hp img Hin; simpl in Hin.
  - subst. destruct (Hp img Hin) as [A B]. rewrite app_length; simpl. split; [lia|exact B].
  - assert (EL : S (length done) = length (done ++ [q])) by (rewrite app_length; simpl; lia).
    rewrite EL in Hin.
    eapply (IH (done ++ [q])); [| |exact Hin].
    + rewrite <- app_assoc. exact Hq.
    + intros p Hpin. apply in_flat_map in Hpin. destruct Hpin as (pre & Hpre & Hmap).
      apply in_map_iff in Hmap. destruct Hmap as (c & <- & Hc).
      apply filter_In in Hc. destruct Hc as [_ Hok].
      destruct (Hp pre Hpre) as [Hlen Hpl]. split.
      * rewrite !app_length. simpl. lia.
      * intros k c' Hk. rewrite nth_error_snoc in Hk.
        destruct (Nat.ltb_spec k (length pre)).
        -- destruct (Hpl k c' Hk) as (q' & Hq' & Hplace). exists q'. split; auto.
           rewrite firstn_app. replace (k - length pre) with 0 by lia. simpl. rewrite app_nil_r. exact Hplace.
        -- destruct (Nat.eqb_spec k (length pre)); [|discriminate]. inversion Hk; subst c' k.
           exists q. split.
           ++ rewrite Hq, Hlen. rewrite nth_error_app2 by lia. rewrite Nat.sub_diag. reflexivity.
           ++ rewrite firstn_app, Nat.sub_diag, firstn_all. simpl. rewrite app_nil_r. rewrite Hlen. exact Hok.
Qed.

Theorem raw_embeddings_sound f m img :
  In img (raw_embeddings f m) ->
  length img = length (f_atoms f) /\ placed f m (f_atoms f) img.
Proof.
  unfold raw_embeddings. intros H.
  apply (embed_sound f m (f_atoms f) (f_atoms f) [] [[]]); auto.
  intros p [<-|[]]. split; auto. intros k c Hk. destruct k; discriminate.
Qed.

(* what `placed` means, clause by clause *)
Theorem placed_atoms_ok f m qall img : placed f m qall img ->
  forall k c, nth_error img k = Some c ->
    exists q a, nth_error qall k = Some q /\ atom_at m c = Some a /\ qatom_ok q a = true.
Proof.
  intros H k c Hk. destruct (H k c Hk) as (q & Hq & Hp).
  unfold place_ok in Hp. destruct (atom_at m c) as [a|]; [|discriminate].
  apply andb_true_iff in Hp. destruct Hp as [Hp _]. apply andb_true_iff in Hp. destruct Hp as [Hp _].
  eauto.
Qed.

Theorem placed_injective f m qall img : placed f m qall img -> NoDup img.
Proof.
  intros H. 
  assert (G : forall n, NoDup (firstn n img)).
  { induction n as [|n IHn]; [constructor|].
    destruct (nth_error img n) as [c|] eqn:E.
    - assert (firstn (S n) img = firstn n img ++ [c]) as ->.
      { clear -E. revert n E. induction img as [|x img IH]; intros [|n] E; simpl in *; try discriminate.
        - inversion E; reflexivity.
        - f_equal. apply IH. exact E. }
      destruct (H n c E) as (q & _ & Hp). unfold place_ok in Hp.
      destruct (atom_at m c); [|discriminate].
      apply andb_true_iff in Hp. destruct Hp as [Hp _]. apply andb_true_iff in Hp. destruct Hp as [_ Hn].
      apply negb_true_iff in Hn.
      apply NoDup_snoc; auto. intros Hin.
      assert (mem_nat c (firstn n img) = true).
      { unfold mem_nat. apply existsb_exists. exists c. split; auto. apply Nat.eqb_refl. }
      congruence.
    - apply nth_error_None in E. rewrite firstn_all2 by lia. rewrite <- (firstn_all2 img (n:=n)) by lia. exact IHn. }
  rewrite <- (firstn_all img). apply G.
Qed.

Lemma nth_error_firstn {A} (l : list A) k j x :
  nth_error (firstn k l) j = Some x -> nth_error l j = Some x.
Proof.
  revert k j; induction l as [|y l IH]; intros [|k] [|j]; simpl; try discriminate; auto.
  apply IH.
Qed.

(* every declared bond (checked when its later end is placed) exists in the
   molecule with a matching type *)
Theorem placed_bonds_ok f m qall img : placed f m qall img ->
  forall k c, nth_error img k = Some c ->
  forall j t, In (j, t) (bonds_into f k) ->
    exists cj b, nth_error img j = Some cj /\ bond_between m c cj = Some b /\ qbond_ok t b = true.
Proof.
  intros H k c Hk j t Hj. destruct (H k c Hk) as (q & _ & Hp).
  unfold place_ok in Hp. destruct (atom_at m c); [|discriminate].
  apply andb_true_iff in Hp. destruct Hp as [_ Hb].
  rewrite forallb_forall in Hb. specialize (Hb (j, t) Hj). simpl in Hb.
  destruct (nth_error (firstn k img) j) as [cj|] eqn:E; [|discriminate].
  destruct (bond_between m c cj) as [b|] eqn:Eb; [|discriminate].
  exists cj, b. repeat split; auto. eapply nth_error_firstn; eauto.
Qed.

(* nothing violating the pattern is returned *)
Theorem matches_sound f m img : In img (matches f m) ->
  forallb (mcon_ok m) (f_mol f) = true
  /\ length img = length (f_atoms f) /\ placed f m (f_atoms f) img /\ NoDup img
  /\ bcons_ok f m img = true /\ acons_ok f m img = true /\ scons_ok f m img = true.
Proof.
  unfold matches. destruct (forallb (mcon_ok m) (f_mol f)) eqn:E; [|intros []].
  intros H. apply filter_In in H. destruct H as [Hr Hc].
  apply andb_true_iff in Hc. destruct Hc as [Hc Hs]. apply andb_true_iff in Hc. destruct Hc as [Hb Ha].
  destruct (raw_embeddings_sound f m img Hr) as [Hl Hp].
  repeat split; auto. eapply placed_injective; eauto.
Qed.

(* the molecule-level prefix failing means no match at all *)
Theorem molprefix_gate f m : forallb (mcon_ok m) (f_mol f) = false -> matches f m = [].
Proof. intros H. unfold matches. rewrite H. reflexivity. Qed.

(* filters only remove: the result is a sub-list of the raw embeddings and
   keeps every raw embedding that passes the three filters *)
Theorem matches_complete_wrt_raw f m img :
  forallb (mcon_ok m) (f_mol f) = true -> In img (raw_embeddings f m) ->
  bcons_ok f m img = true -> acons_ok f m img = true -> scons_ok f m img = true ->
  In img (matches f m).
Proof.
  intros Hm Hr Hb Ha Hs. unfold matches. rewrite Hm. apply filter_In. split; auto.
  rewrite Hb, Ha, Hs. reflexivity.
Qed.
