From Coq Require Import List Arith Bool Lia.
From PG Require Import Graph.Network.
Import ListNotations.

Section P.
Variable expand : nat -> list nat.
Notation addp := (add_products).
Notation loopf := (loop expand).

Lemma mem_In x l : mem x l = true <-> In x l.
Proof.
  unfold mem. rewrite existsb_exists. split.
  - intros (y & Hy & E). apply Nat.eqb_eq in E. subst. exact Hy.
  - intros H. exists x. split; auto. apply Nat.eqb_refl.
Qed.
Lemma mem_false x l : mem x l = false <-> ~ In x l.
Proof.
  rewrite <- mem_In. destruct (mem x l); split; intros H.
  - discriminate.
  - exfalso. apply H. reflexivity.
  - intros C. discriminate.
  - reflexivity.
Qed.

(* reachable species: seeds, closed under expand *)
Inductive reach (seeds : list nat) : nat -> Prop :=
| reach_seed x : In x seeds -> reach seeds x
| reach_step x y : reach seeds x -> In y (expand x) -> reach seeds y.

(* ---- add_products ---- *)
Lemma addp_spec ps : forall proc unproc x,
  In x (addp ps proc unproc) <-> In x unproc \/ (In x ps /\ ~ In x proc).
Proof.
  induction ps as [|p r IH]; intros proc unproc x; simpl.
  - tauto.
  - destruct (mem p proc || mem p unproc) eqn:E.
    + rewrite IH. apply orb_true_iff in E. rewrite !mem_In in E.
      split; [tauto|]. intros [H|[[->|H] Hn]]; auto.
      destruct E as [E|E]; [contradiction|auto].
    + rewrite IH. apply orb_false_iff in E. destruct E as [E1 E2]. rewrite mem_false in E1, E2.
      simpl. split.
      * intros [[->|H]|[H Hn]]; auto.
      * intros [H|[[->|H] Hn]]; auto.
Qed.

Lemma addp_nodup ps : forall proc unproc,
  NoDup (proc ++ unproc) -> NoDup (proc ++ addp ps proc unproc).
Proof.
  induction ps as [|p r IH]; intros proc unproc H; simpl; auto.
  destruct (mem p proc || mem p unproc) eqn:E; [apply IH; exact H|].
  apply orb_false_iff in E. destruct E as [E1 E2]. rewrite mem_false in E1, E2.
  apply IH. apply (NoDup_Add (a := p) (l := proc ++ unproc)).
  - apply Add_app.
  - split; auto. rewrite in_app_iff. tauto.
Qed.

Record Inv (seeds proc unproc : list nat) : Prop := {
  i_nodup : NoDup (proc ++ unproc);
  i_closed : forall x y, In x proc -> In y (expand x) -> In y proc \/ In y unproc;
  i_reach : forall x, In x (proc ++ unproc) -> reach seeds x;
  i_seeds : forall s, In s seeds -> In s proc \/ In s unproc }.

Lemma inv_init seeds : NoDup seeds -> Inv seeds [] seeds.
Proof.
  intros H. constructor.
  - simpl. exact H.
  - intros x y [].
  - intros x Hx. apply reach_seed. exact Hx.
  - intros s Hs. right. exact Hs.
Qed.

Lemma inv_step seeds proc u us :
  Inv seeds proc (u :: us) -> Inv seeds (u :: proc) (addp (expand u) (u :: proc) us).
Proof.
  intros [H1 H2 H3 H4].
  assert (N' : NoDup ((u :: proc) ++ us)).
  { simpl. apply NoDup_cons_iff. apply NoDup_remove in H1. destruct H1 as [A B]. split; auto. }
  constructor.
  - apply addp_nodup. exact N'.
  - intros x y Hx Hy. rewrite addp_spec. destruct Hx as [<-|Hx].
    + destruct (in_dec Nat.eq_dec y (u :: proc)); [left; auto|right; right; auto].
    + destruct (H2 x y Hx Hy) as [A|[<-|A]]; [left; right; auto|left; left; auto|right; left; auto].
  - intros x Hx. apply in_app_iff in Hx. destruct Hx as [[<-|Hx]|Hx].
    + apply H3. apply in_app_iff. right. left. reflexivity.
    + apply H3. apply in_app_iff. left. exact Hx.
    + apply addp_spec in Hx. destruct Hx as [Hx|[Hx _]].
      * apply H3. apply in_app_iff. right. right. exact Hx.
      * eapply reach_step; [|exact Hx]. apply H3. apply in_app_iff. right. left. reflexivity.
  - intros s Hs. rewrite addp_spec. destruct (H4 s Hs) as [A|[<-|A]]; [left; right; auto|left; left; auto|right; left; auto].
Qed.

Lemma loop_inv seeds fuel : forall unproc proc res,
  Inv seeds proc unproc -> loopf fuel unproc proc = Some res -> Inv seeds res [].
Proof.
  induction fuel as [|f IH]; intros unproc proc res HI H; simpl in H; [discriminate|].
  destruct unproc as [|u us].
  - inversion H; subst. exact HI.
  - eapply IH; [|exact H]. apply inv_step. exact HI.
Qed.

Section Main.
Variable seeds : list nat.
Hypothesis seeds_nodup : NoDup seeds.

Theorem net_invariant fuel res : generate expand fuel seeds = Some res -> Inv seeds res [].
Proof. intros H. eapply loop_inv; [apply inv_init; exact seeds_nodup|exact H]. Qed.

Theorem net_contains_seeds fuel res : generate expand fuel seeds = Some res -> forall s, In s seeds -> In s res.
Proof. intros H s Hs. destruct (i_seeds _ _ _ (net_invariant fuel res H) s Hs) as [A|[]]. exact A. Qed.

Theorem net_closed fuel res : generate expand fuel seeds = Some res ->
  forall x y, In x res -> In y (expand x) -> In y res.
Proof. intros H x y Hx Hy. destruct (i_closed _ _ _ (net_invariant fuel res H) x y Hx Hy) as [A|[]]. exact A. Qed.

Theorem net_only_reachable fuel res : generate expand fuel seeds = Some res -> forall x, In x res -> reach seeds x.
Proof. intros H x Hx. apply (i_reach _ _ _ (net_invariant fuel res H)). rewrite app_nil_r. exact Hx. Qed.

Theorem net_nodup fuel res : generate expand fuel seeds = Some res -> NoDup res.
Proof. intros H. pose proof (i_nodup _ _ _ (net_invariant fuel res H)) as N. rewrite app_nil_r in N. exact N. Qed.

(* every reachable species is listed: closure is complete *)
Theorem net_complete fuel res : generate expand fuel seeds = Some res -> forall x, reach seeds x -> In x res.
Proof.
  intros H x R. induction R as [x Hx|x y R IH Hy].
  - eapply net_contains_seeds; eauto.
  - eapply net_closed; eauto.
Qed.

(* termination whenever the closure is finite: U lists every reachable species *)
Lemma loop_terminates U : NoDup U -> (forall x, reach seeds x -> In x U) ->
  forall fuel unproc proc, Inv seeds proc unproc -> length U - length proc < fuel ->
  exists res, loopf fuel unproc proc = Some res.
Proof.
  intros NU HU. induction fuel as [|f IH]; intros unproc proc HI Hf; [lia|].
  simpl. destruct unproc as [|u us]; [eauto|].
  apply IH; [apply inv_step; exact HI|].
  assert (L : length (proc ++ u :: us) <= length U).
  { apply NoDup_incl_length; [apply (i_nodup _ _ _ HI)|].
    intros x Hx. apply HU. apply (i_reach _ _ _ HI). exact Hx. }
  rewrite app_length in L. simpl in *. lia.
Qed.

Theorem net_terminates U : NoDup U -> (forall x, reach seeds x -> In x U) ->
  exists res, generate expand (S (length U)) seeds = Some res.
Proof.
  intros NU HU. apply (loop_terminates U NU HU). apply inv_init; exact seeds_nodup. simpl. lia.
Qed.
End Main.
End P.
