(* the list-based quadratic form of the estimate model (Thermo/Estimate.v, quad_form) is the index-based one of Lib/Psd_proofs.v *)
From Coq Require Import List ZArith Arith Bool Reals Lra Lia.
From PG Require Import Thermo.Num Thermo.Estimate Lib.Psd Lib.Psd_proofs.
Import ListNotations.
Local Open Scope R_scope.

Lemma dotR_sum n : forall a b : list R, length a = n -> length b = n ->
  dot (K:=Rops) a b = sumR n (fun k => nth k a 0 * nth k b 0).
Proof.
  induction n as [|n IH]; intros a b Ha Hb.
  - destruct a; [|discriminate]. reflexivity.
  - destruct a as [|x a]; [discriminate|]. destruct b as [|y b]; [discriminate|].
    rewrite sumR_head. change (dot (K:=Rops) (x :: a) (y :: b)) with (x * y + dot (K:=Rops) a b).
    rewrite (IH a b) by (simpl in *; lia). reflexivity.
Qed.

Theorem quad_form_map_is_quadf (f : Z -> R) n (M : list (list Z)) (xs : list R) : f 0%Z = 0 -> square n M = true -> length xs = n ->
  quad_form (K:=Rops) xs (map (map f) M) = quadf n (fun i j => f (entZ M i j)) (fun i => nth i xs 0).
Proof.
  intros Hf. unfold square. rewrite andb_true_iff. intros [HL HR] Hx. apply Nat.eqb_eq in HL. rewrite forallb_forall in HR.
  unfold quad_form. rewrite (dotR_sum n); [|exact Hx|rewrite !map_length; exact HL].
  unfold quadf. apply sumR_ext. intros i Hi.
  assert (Hrow : length (nth i M []) = n). { apply Nat.eqb_eq. apply HR. apply nth_In. lia. }
  assert (E : nth i (map (fun row => dot (K:=Rops) row xs) (map (map f) M)) 0 = dot (K:=Rops) (map f (nth i M [])) xs).
  { rewrite <- (map_nth (map f) M [] i). exact (map_nth (fun row => dot (K:=Rops) row xs) (map (map f) M) (map f []) i). }
  transitivity (nth i xs 0 * dot (K:=Rops) (map f (nth i M [])) xs); [f_equal; exact E|].
  rewrite (dotR_sum n); [|rewrite map_length; exact Hrow|exact Hx].
  rewrite <- sumR_scal. apply sumR_ext. intros j Hj. unfold entZ.
  assert (E2 : nth j (map f (nth i M [])) 0 = f (nth j (nth i M []) 0%Z)) by (rewrite <- Hf; exact (map_nth f (nth i M []) 0%Z j)).
  transitivity (nth i xs 0 * (f (nth j (nth i M []) 0%Z) * nth j xs 0)); [f_equal; f_equal; exact E2|ring].
Qed.

Lemma quadf_scal n c g x : quadf n (fun i j => g i j * c) x = quadf n g x * c.
Proof.
  unfold quadf. rewrite <- sumR_scal_r. apply sumR_ext. intros i _. rewrite <- sumR_scal_r. apply sumR_ext. intros j _. ring.
Qed.

(* the quadratic form of a certified matrix, divided by any positive scale, is non-negative on every real vector of the right length *)
Theorem cert_quad_form_nonneg n m M L (c : R) xs : 0 < c -> square n M = true -> cert_ok n m M L = true -> length xs = n ->
  0 <= quad_form (K:=Rops) xs (map (map (fun z => IZR z / c)) M).
Proof.
  intros Hc Sq C Hx. rewrite (quad_form_map_is_quadf (fun z => IZR z / c) n M xs); [|unfold Rdiv; rewrite Rmult_0_l; reflexivity|exact Sq|exact Hx].
  unfold Rdiv. rewrite (quadf_scal n (/ c) (fun i j => IZR (entZ M i j))).
  apply Rmult_le_pos; [exact (cert_psd n m M L C (fun i => nth i xs 0))|]. left. apply Rinv_0_lt_compat. exact Hc.
Qed.
