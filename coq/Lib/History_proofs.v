From Coq Require Import List Arith Bool Lia.
From PG Require Import Lib.History.
Import ListNotations.

Section P.
Variables (D V : Type).
Variable descr : nat -> nat -> D.
Variable value : nat -> D -> V.
Variable sub_elements : V -> nat -> V.
Variable merge : nat -> nat -> nat.
Notation stepH := (step D V descr value sub_elements merge).
Notation runH := (run D V descr value sub_elements merge).

Lemma upd_contents ls i f : (forall x, contents (f x) = contents x) ->
  map contents (upd ls i f) = map contents ls.
Proof.
  intros Hf. revert i; induction ls as [|x ls IH]; intros [|i]; simpl; auto.
  - rewrite Hf. reflexivity.
  - rewrite IH. reflexivity.
Qed.

(* only a merge changes any library's data *)
Theorem contents_only_changed_by_merge ls o :
  is_merge o = false -> map contents (fst (stepH ls o)) = map contents ls.
Proof.
  destruct o as [l m|l m el|l src]; simpl; intros H; try discriminate.
  - destruct (nth_error ls l); simpl; auto. apply upd_contents. reflexivity.
  - destruct (nth_error ls l) as [x|]; simpl; auto. destruct el; auto. destruct (last x); auto.
Qed.

Theorem run_contents ls ops :
  forallb (fun o => negb (is_merge o)) ops = true -> map contents (runH ls ops) = map contents ls.
Proof.
  revert ls; induction ops as [|o ops IH]; intros ls H; simpl; auto.
  simpl in H. apply andb_true_iff in H. destruct H as [Ho H]. apply negb_true_iff in Ho.
  unfold run in *. simpl. rewrite IH; auto. apply contents_only_changed_by_merge. exact Ho.
Qed.

Lemma nth_map_contents ls ls' l : map contents ls = map contents ls' ->
  option_map contents (nth_error ls l) = option_map contents (nth_error ls' l).
Proof. intros H. rewrite <- !nth_error_map_opt || idtac. revert ls' l H.
  induction ls as [|x ls IH]; intros [|y ls'] l H; simpl in H; try discriminate.
  - destruct l; reflexivity.
  - inversion H. destruct l; simpl; [congruence|apply IH; auto].
Qed.

(* decomposition and evaluation WITHOUT the elemental reference give the same
   answer after any merge-free history as on the fresh state *)
Theorem decompose_history_free ls ops l m :
  forallb (fun o => negb (is_merge o)) ops = true ->
  snd (stepH (runH ls ops) (Decompose l m)) = snd (stepH ls (Decompose l m)).
Proof.
  intros H. pose proof (nth_map_contents _ _ l (run_contents ls ops H)) as E. simpl.
  destruct (nth_error (runH ls ops) l) as [x|], (nth_error ls l) as [y|]; simpl in *; try discriminate; auto.
  inversion E as [E']. rewrite E'. reflexivity.
Qed.

Theorem eval_history_free ls ops l m :
  forallb (fun o => negb (is_merge o)) ops = true ->
  snd (stepH (runH ls ops) (Eval l m false)) = snd (stepH ls (Eval l m false)).
Proof.
  intros H. pose proof (nth_map_contents _ _ l (run_contents ls ops H)) as E. simpl.
  destruct (nth_error (runH ls ops) l) as [x|], (nth_error ls l) as [y|]; simpl in *; try discriminate; auto.
  inversion E as [E']. rewrite E'. reflexivity.
Qed.

(* WITH the elemental reference the answer uses the last decomposed molecule *)
Theorem eval_elements_uses_last ls l m m' x :
  nth_error ls l = Some x ->
  snd (stepH (fst (stepH ls (Decompose l m'))) (Eval l m true))
  = OVal D V (sub_elements (value (contents x) (descr (contents x) m)) m').
Proof.
  intros Hx. simpl. rewrite Hx. simpl.
  assert (E : nth_error (upd ls l (fun y => {| contents := contents y; last := Some m' |})) l
              = Some {| contents := contents x; last := Some m' |}).
  { clear -Hx. revert l Hx; induction ls as [|y ls IH]; intros [|l] Hx; simpl in *; try discriminate.
    - inversion Hx; reflexivity.
    - apply IH. exact Hx. }
  rewrite E. reflexivity.
Qed.
End P.

(* hence history-freedom fails for that evaluation: formal statement of the
   known finding (decompose A, decompose B, estimate from A's descriptors) *)
Theorem eval_elements_history_free_refuted :
  exists (descr : nat -> nat -> nat) (value : nat -> nat -> nat) (sub : nat -> nat -> nat) (merge : nat -> nat -> nat) ls ops l m,
    forallb (fun o => negb (is_merge o)) ops = true /\
    snd (step nat nat descr value sub merge (run nat nat descr value sub merge ls (Decompose l m :: ops)) (Eval l m true))
    <> snd (step nat nat descr value sub merge (run nat nat descr value sub merge ls [Decompose l m]) (Eval l m true)).
Proof.
  exists (fun _ m => m), (fun _ d => 100), (fun v m => v - m), (fun a _ => a),
         [{| contents := 0; last := None |}], [Decompose 0 7], 0, 3.
  split; [reflexivity|]. vm_compute. discriminate.
Qed.
