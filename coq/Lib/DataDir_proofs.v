From Coq Require Import List NArith Bool.
From PG Require Import Common.Strs Lib.DataDir.
Import ListNotations.

(* once an answer has been given it never changes, whatever the environment does *)
Theorem data_dir_cached p : forall ws, fst (calls ws (Some p)) = repeat (Some p) (length ws) /\ snd (calls ws (Some p)) = Some p.
Proof.
  induction ws as [|w ws [IH1 IH2]]; simpl; auto.
  destruct (calls ws (Some p)) as [rest c2]. simpl in *. subst. auto.
Qed.

Theorem first_success_fixes_answer w c p c' ws :
  get_data_dir w c = (Some p, c') -> fst (calls ws c') = repeat (Some p) (length ws).
Proof.
  unfold get_data_dir. destruct c as [q|].
  - intros H; inversion H; subst. apply data_dir_cached.
  - destruct (match env w with Some p0 => Some p0 | None => bundled w end) as [q|]; [|discriminate].
    destruct (isdir w q); [|discriminate]. intros H; inversion H; subst. apply data_dir_cached.
Qed.

(* the override wins over the bundled directory; a failure leaves no cache *)
Theorem override_wins w p : env w = Some p -> isdir w p = true -> get_data_dir w None = (Some p, Some p).
Proof. intros E D. unfold get_data_dir. rewrite E, D. reflexivity. Qed.

Theorem failure_not_cached w : fst (get_data_dir w None) = None -> snd (get_data_dir w None) = None.
Proof.
  unfold get_data_dir. destruct (match env w with Some p => Some p | None => bundled w end) as [q|]; auto.
  destruct (isdir w q); simpl; auto; discriminate.
Qed.

(* a name with a separator or a dot is always taken as a path *)
Theorem path_like_is_path ex p : existsb (N.eqb SEP) p = true \/ existsb (N.eqb DOT) p = true ->
  forall d f, resolve ex d p f = p.
Proof.
  intros H d f. unfold resolve, is_builtin_name.
  destruct H as [H|H]; rewrite H; simpl; [|rewrite andb_false_r]; reflexivity.
Qed.

(* relocation: two data directories give the same path below themselves *)
Theorem resolve_relocatable ex d1 d2 p f : is_builtin_name ex p = true ->
  exists tail, resolve ex d1 p f = d1 ++ tail /\ resolve ex d2 p f = d2 ++ tail.
Proof. intros H. unfold resolve. rewrite H. eexists; split; reflexivity. Qed.
