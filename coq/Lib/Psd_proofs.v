From Coq Require Import List ZArith Arith Bool Reals Lra Lia.
From PG Require Import Lib.Psd.
Import ListNotations.
Local Open Scope R_scope.

(* ---------- finite sums over 0..n-1 ---------- *)
Fixpoint sumR (n : nat) (f : nat -> R) : R := match n with O => 0 | S k => sumR k f + f k end.

Lemma sumR_ext n f g : (forall i, (i < n)%nat -> f i = g i) -> sumR n f = sumR n g.
Proof. induction n as [|n IH]; intros H; simpl; [reflexivity|]. rewrite IH by (intros; apply H; lia). rewrite H by lia. reflexivity. Qed.
Lemma sumR_add n f g : sumR n (fun i => f i + g i) = sumR n f + sumR n g.
Proof. induction n as [|n IH]; simpl; [lra|]. rewrite IH. lra. Qed.
Lemma sumR_sub n f g : sumR n (fun i => f i - g i) = sumR n f - sumR n g.
Proof. induction n as [|n IH]; simpl; [lra|]. rewrite IH. lra. Qed.
Lemma sumR_scal n c f : sumR n (fun i => c * f i) = c * sumR n f.
Proof. induction n as [|n IH]; simpl; [lra|]. rewrite IH. lra. Qed.
Lemma sumR_scal_r n c f : sumR n (fun i => f i * c) = sumR n f * c.
Proof. induction n as [|n IH]; simpl; [lra|]. rewrite IH. lra. Qed.
Lemma sumR_le n f g : (forall i, (i < n)%nat -> f i <= g i) -> sumR n f <= sumR n g.
Proof. induction n as [|n IH]; intros H; simpl; [lra|]. assert (sumR n f <= sumR n g) by (apply IH; intros; apply H; lia). assert (f n <= g n) by (apply H; lia). lra. Qed.
Lemma sumR_nonneg n f : (forall i, (i < n)%nat -> 0 <= f i) -> 0 <= sumR n f.
Proof. intros H. replace 0 with (sumR n (fun _ => 0)); [apply sumR_le; exact H|]. clear H. induction n as [|n IH]; simpl; [|rewrite IH]; lra. Qed.
Lemma sumR_swap n m (f : nat -> nat -> R) :
  sumR n (fun i => sumR m (fun j => f i j)) = sumR m (fun j => sumR n (fun i => f i j)).
Proof.
  induction n as [|n IH]; simpl.
  - induction m; simpl; lra.
  - rewrite IH. rewrite <- sumR_add. reflexivity.
Qed.

(* the quadratic form of a matrix given by its entries *)
Definition quadf (n : nat) (g : nat -> nat -> R) (x : nat -> R) : R :=
  sumR n (fun i => sumR n (fun j => x i * g i j * x j)).

Lemma quadf_add n g h x : quadf n (fun i j => g i j + h i j) x = quadf n g x + quadf n h x.
Proof.
  unfold quadf. rewrite <- sumR_add. apply sumR_ext. intros i _. rewrite <- sumR_add. apply sumR_ext. intros j _. ring.
Qed.
Lemma quadf_ext n g h x : (forall i j, (i < n)%nat -> (j < n)%nat -> g i j = h i j) -> quadf n g x = quadf n h x.
Proof. intros H. unfold quadf. apply sumR_ext. intros i Hi. apply sumR_ext. intros j Hj. rewrite H by assumption. reflexivity. Qed.

(* a Gram matrix is positive semi-definite: x'(L L^T)x = sum_k (sum_i L_ik x_i)^2 *)
Lemma quadf_gram n m (c : nat -> nat -> R) x :
  quadf n (fun i j => sumR m (fun k => c k i * c k j)) x = sumR m (fun k => (sumR n (fun i => c k i * x i)) * (sumR n (fun i => c k i * x i))).
Proof.
  unfold quadf.
  transitivity (sumR n (fun i => sumR m (fun k => sumR n (fun j => (c k i * x i) * (c k j * x j))))).
  - apply sumR_ext. intros i _. rewrite <- sumR_swap. apply sumR_ext. intros j _.
    rewrite <- sumR_scal. rewrite <- sumR_scal_r. apply sumR_ext. intros k _. ring.
  - rewrite sumR_swap. apply sumR_ext. intros k _.
    rewrite <- sumR_scal_r. apply sumR_ext. intros i _. rewrite <- sumR_scal. reflexivity.
Qed.
Lemma quadf_gram_nonneg n m c x : 0 <= quadf n (fun i j => sumR m (fun k => c k i * c k j)) x.
Proof. rewrite quadf_gram. apply sumR_nonneg. intros k _. nra. Qed.

(* a symmetric, diagonally dominant matrix with non-negative diagonal is positive semi-definite *)
Definition off (g : nat -> nat -> R) (i j : nat) : R := if Nat.eqb j i then 0 else Rabs (g i j).

Lemma term_bound a xi xj : - Rabs a * ((xi * xi + xj * xj) / 2) <= xi * a * xj.
Proof.
  assert (H1 : Rabs (xi * xj) <= (xi * xi + xj * xj) / 2).
  { pose proof (Rle_0_sqr (xi + xj)) as A. pose proof (Rle_0_sqr (xi - xj)) as B. unfold Rsqr in A, B. apply Rabs_le. split; nra. }
  assert (H2 : - (Rabs a * Rabs (xi * xj)) <= a * (xi * xj)).
  { rewrite <- Rabs_mult. pose proof (Rabs_pos (a * (xi * xj))). pose proof (Rle_abs (- (a * (xi * xj)))). rewrite Rabs_Ropp in H0. lra. }
  pose proof (Rabs_pos a). nra.
Qed.

Lemma quadf_dd n g x :
  (forall i j, (i < n)%nat -> (j < n)%nat -> g i j = g j i) ->
  (forall i, (i < n)%nat -> sumR n (off g i) <= g i i) ->
  0 <= quadf n g x.
Proof.
  intros Sym DD.
  (* lower bound, term by term *)
  set (lo := fun i j => if Nat.eqb j i then g i i * (x i * x i) else - off g i j * ((x i * x i + x j * x j) / 2)).
  assert (L1 : sumR n (fun i => sumR n (fun j => lo i j)) <= quadf n g x).
  { unfold quadf. apply sumR_le. intros i Hi. apply sumR_le. intros j Hj. unfold lo, off.
    destruct (Nat.eqb j i) eqn:E; [apply Nat.eqb_eq in E; subst j; lra|apply term_bound]. }
  (* the lower bound as a sum over the diagonal *)
  assert (E1 : forall i j, lo i j = (if Nat.eqb j i then g i i * (x i * x i) else 0)
                                     - off g i j * (x i * x i) / 2 - off g i j * (x j * x j) / 2).
  { intros i j. unfold lo, off. destruct (Nat.eqb j i); lra. }
  assert (Ediag : forall i, (i < n)%nat -> sumR n (fun j => if Nat.eqb j i then g i i * (x i * x i) else 0) = g i i * (x i * x i)).
  { intros i Hi. clear -Hi. induction n as [|n IH]; [lia|]. simpl. destruct (Nat.eqb n i) eqn:E.
    - apply Nat.eqb_eq in E. subst i. replace (sumR n _) with 0; [lra|]. symmetry. clear. 
      assert (G : forall k, (k <= n)%nat -> sumR k (fun j => if Nat.eqb j n then g n n * (x n * x n) else 0) = 0).
      { induction k as [|k IHk]; intros Hk; simpl; [reflexivity|]. rewrite IHk by lia. destruct (Nat.eqb k n) eqn:E; [apply Nat.eqb_eq in E; lia|lra]. }
      apply G. lia.
    - apply Nat.eqb_neq in E. rewrite IH by lia. lra. }
  assert (Ei : forall i, (i < n)%nat -> sumR n (fun j => lo i j)
             = g i i * (x i * x i) - sumR n (off g i) * ((x i * x i) / 2) - sumR n (fun j => off g i j * ((x j * x j) / 2))).
  { intros i Hi.
    transitivity (sumR n (fun j => (if Nat.eqb j i then g i i * (x i * x i) else 0) - off g i j * ((x i * x i) / 2) - off g i j * ((x j * x j) / 2))).
    - apply sumR_ext. intros j _. rewrite E1. lra.
    - rewrite !sumR_sub. rewrite (Ediag i Hi). rewrite sumR_scal_r. reflexivity. }
  assert (Esym : sumR n (fun i => sumR n (fun j => off g i j * ((x j * x j) / 2))) = sumR n (fun j => sumR n (off g j) * ((x j * x j) / 2))).
  { rewrite sumR_swap. apply sumR_ext. intros j Hj. rewrite <- sumR_scal_r. apply sumR_ext. intros i Hi. unfold off.
    destruct (Nat.eqb i j) eqn:E.
    - apply Nat.eqb_eq in E. subst i. rewrite Nat.eqb_refl. reflexivity.
    - rewrite Nat.eqb_sym, E. rewrite (Sym j i Hj Hi). reflexivity. }
  assert (E2 : sumR n (fun i => sumR n (fun j => lo i j))
             = sumR n (fun i => (g i i - sumR n (off g i)) * (x i * x i))).
  { transitivity (sumR n (fun i => g i i * (x i * x i) - sumR n (off g i) * ((x i * x i) / 2) - sumR n (fun j => off g i j * ((x j * x j) / 2)))).
    - apply sumR_ext. exact Ei.
    - rewrite !sumR_sub. rewrite Esym. rewrite <- !sumR_sub. apply sumR_ext. intros i _. lra. }
  assert (L2 : 0 <= sumR n (fun i => (g i i - sumR n (off g i)) * (x i * x i))).
  { apply sumR_nonneg. intros i Hi. pose proof (DD i Hi). nra. }
  lra.
Qed.

(* ---------- from the integer check to the real quadratic form ---------- *)
Lemma sumR_head m f : sumR (S m) f = f 0%nat + sumR m (fun k => f (S k)).
Proof. induction m as [|m IH]; [simpl; lra|]. change (sumR (S (S m)) f) with (sumR (S m) f + f (S m)). rewrite IH. simpl. lra. Qed.

Lemma dotZ_comm a : forall b, dotZ a b = dotZ b a.
Proof. induction a as [|x a IH]; intros [|y b]; simpl; try reflexivity. rewrite IH. ring. Qed.

Lemma dotZ_sum m : forall a b, length a = m -> length b = m ->
  IZR (dotZ a b) = sumR m (fun k => IZR (nth k a 0%Z) * IZR (nth k b 0%Z)).
Proof.
  induction m as [|m IH]; intros a b Ha Hb.
  - destruct a; [|discriminate]. reflexivity.
  - destruct a as [|x a]; [discriminate|]. destruct b as [|y b]; [discriminate|].
    rewrite sumR_head. cbn [dotZ nth]. rewrite plus_IZR, mult_IZR. rewrite (IH a b) by (simpl in *; lia). reflexivity.
Qed.

Lemma fold_seq_sumR (h : nat -> Z) n : forall a,
  IZR (fold_right (fun j acc => (h j + acc)%Z) 0%Z (seq a n)) = sumR n (fun j => IZR (h (a + j)%nat)).
Proof.
  induction n as [|n IH]; intros a; [reflexivity|].
  rewrite sumR_head. cbn [seq fold_right]. rewrite plus_IZR, IH. rewrite Nat.add_0_r. f_equal.
  apply sumR_ext. intros j _. f_equal. f_equal. lia.
Qed.

Theorem cert_psd n m M L : cert_ok n m M L = true ->
  forall x : nat -> R, 0 <= quadf n (fun i j => IZR (entZ M i j)) x.
Proof.
  unfold cert_ok. rewrite !andb_true_iff. intros [[HL HS] HD] x.
  assert (Len : forall i, (i < n)%nat -> length (nth i L []) = m).
  { intros i Hi. rewrite forallb_forall in HL. apply Nat.eqb_eq. apply HL. apply in_seq. lia. }
  assert (SymM : forall i j, (i < n)%nat -> (j < n)%nat -> entZ M i j = entZ M j i).
  { intros i j Hi Hj. rewrite forallb_forall in HS. assert (A := HS i). rewrite forallb_forall in A. apply Z.eqb_eq. apply A; apply in_seq; lia. }
  set (c := fun k i => IZR (nth k (nth i L []) 0%Z)).
  set (g := fun i j => IZR (Dz M L i j)).
  rewrite (quadf_ext n _ (fun i j => sumR m (fun k => c k i * c k j) + g i j)).
  2:{ intros i j Hi Hj. unfold g, Dz, c. rewrite minus_IZR. rewrite (dotZ_sum m _ _ (Len i Hi) (Len j Hj)). lra. }
  rewrite quadf_add. pose proof (quadf_gram_nonneg n m c x).
  assert (0 <= quadf n g x); [|lra].
  apply quadf_dd.
  - intros i j Hi Hj. unfold g, Dz. rewrite (SymM i j Hi Hj), dotZ_comm. reflexivity.
  - intros i Hi. rewrite forallb_forall in HD. assert (A : (offsum n M L i <= Dz M L i i)%Z) by (apply Z.leb_le; apply HD; apply in_seq; lia).
    apply IZR_le in A. unfold g. eapply Rle_trans; [|exact A]. apply Req_le. unfold offsum.
    rewrite (fold_seq_sumR (fun j => if Nat.eqb j i then 0%Z else Z.abs (Dz M L i j)) n 0).
    apply sumR_ext. intros j _. unfold off. simpl. destruct (Nat.eqb j i); [reflexivity|]. rewrite abs_IZR. reflexivity.
Qed.

(* non-vacuity: a 2 x 2 example ( M = [[5,2],[2,1]] = L L^T with L = [[2,1],[1,0]] ... plus a diagonal rest ) *)
Example cert_example : cert_ok 2 2 [[6; 2]; [2; 2]]%Z [[2; 1]; [1; 0]]%Z = true.
Proof. reflexivity. Qed.
