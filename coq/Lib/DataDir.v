(* Model of GroupAdd/DataDir.get_data_dir (a write-once cache over the
   environment) and of the name-or-path decision of GroupLibrary.Load /
   GroupAdditivityScheme.Load.  The file system is abstract: `isdir` and
   `exists_` are predicates supplied by the world. *)
From Coq Require Import List NArith Bool.
From PG Require Import Common.Strs.
Import ListNotations.

Record world := { env : option str;            (* value of pgradd_DATA_DIR, if set and non-empty *)
                  bundled : option str;         (* .../pgradd/data found by walking up from __file__ *)
                  isdir : str -> bool }.

Inductive derr := DRuntimeError.
Definition cache := option str.

(* one call: returns the answer (or the error) and the new cache *)
Definition get_data_dir (w : world) (c : cache) : (option str) * cache :=
  match c with
  | Some p => (Some p, c)
  | None =>
      match (match env w with Some p => Some p | None => bundled w end) with
      | None => (None, None)
      | Some p => if isdir w p then (Some p, Some p) else (None, None)
      end
  end.

(* a history of calls, each in its own world (the environment may change) *)
Fixpoint calls (ws : list world) (c : cache) : list (option str) * cache :=
  match ws with
  | [] => ([], c)
  | w :: r => let '(a, c1) := get_data_dir w c in
              let '(rest, c2) := calls r c1 in (a :: rest, c2)
  end.

(* Load(path): a builtin name iff no separator, no dot and no such file *)
Definition SEP : N := 47%N.
Definition DOT : N := 46%N.
Definition is_builtin_name (exists_ : str -> bool) (p : str) : bool :=
  negb (existsb (N.eqb SEP) p) && negb (existsb (N.eqb DOT) p) && negb (exists_ p).

Definition resolve (exists_ : str -> bool) (data_dir : str) (p : str) (file : str) : str :=
  if is_builtin_name exists_ p then data_dir ++ [SEP] ++ p ++ [SEP] ++ file else p.
