(* Model of the state a GroupLibrary object carries between calls (C15): its
   contents (changed only by Update) and the molecule of the LAST
   decomposition (`lib.name`, copied into an estimate when it is created and
   used for the elemental entropy).  Decomposition, estimation and elemental
   entropies are abstract pure functions.  No proofs here. *)
From Coq Require Import List Arith Bool.
Import ListNotations.

Section H.
Variables (D V : Type).
Variable descr : nat -> nat -> D.           (* contents id -> molecule id -> descriptors *)
Variable value : nat -> D -> V.             (* contents id -> descriptors -> evaluated property (no elemental reference) *)
Variable sub_elements : V -> nat -> V.      (* value -> molecule id -> value relative to the elements *)
Variable merge : nat -> nat -> nat.         (* contents ids of target and source -> merged contents id *)

Record lib := { contents : nat; last : option nat }.

Inductive op :=
| Decompose (l m : nat)                      (* library index, molecule *)
| Eval (l m : nat) (elements : bool)         (* estimate from the descriptors of m with library l, then evaluate *)
| Merge (l src : nat).

Inductive out := ODescr (d : D) | OVal (v : V) | ONoMol | ONone.

Fixpoint upd (ls : list lib) (i : nat) (f : lib -> lib) : list lib :=
  match ls, i with
  | [], _ => []
  | x :: r, O => f x :: r
  | x :: r, S k => x :: upd r k f
  end.

Definition step (ls : list lib) (o : op) : list lib * out :=
  match o with
  | Decompose l m =>
      match nth_error ls l with
      | Some x => (upd ls l (fun y => {| contents := contents y; last := Some m |}), ODescr (descr (contents x) m))
      | None => (ls, ONone)
      end
  | Eval l m el =>
      match nth_error ls l with
      | Some x =>
          let v := value (contents x) (descr (contents x) m) in
          if el then match last x with
                     | Some m' => (ls, OVal (sub_elements v m'))     (* the molecule remembered by the library, not m *)
                     | None => (ls, ONoMol)
                     end
          else (ls, OVal v)
      | None => (ls, ONone)
      end
  | Merge l src =>
      match nth_error ls l, nth_error ls src with
      | Some x, Some y => (upd ls l (fun z => {| contents := merge (contents x) (contents y); last := last z |}), ONone)
      | _, _ => (ls, ONone)
      end
  end.

Definition run (ls : list lib) (ops : list op) : list lib :=
  fold_left (fun s o => fst (step s o)) ops ls.

Definition is_merge (o : op) : bool := match o with Merge _ _ => true | _ => false end.
End H.
