(* the certificates of the REGENERATED uncertainty matrices (Gen/UqMats.v), checked by the kernel on every run *)
From Coq Require Import List ZArith NArith Arith Bool Reals.
From PG Require Import Thermo.Num Thermo.Estimate Lib.Psd Lib.Psd_proofs Lib.Psd_link Gen.UqMats.
Import ListNotations.

Definition uq_entry_ok (e : nat * nat * list (list Z) * list (list Z)) : bool :=
  let '(n, m, M, L) := e in square n M && cert_ok n m M L.
Definition uq_ok : bool := forallb (fun kv => uq_entry_ok (snd kv)) uq_all.

Lemma uq_ok_true : uq_ok = true.
Proof. vm_compute. reflexivity. Qed.

Lemma uq_entries_ok kv : In kv uq_all -> uq_entry_ok (snd kv) = true.
Proof. intros H. pose proof uq_ok_true as A. unfold uq_ok in A. rewrite forallb_forall in A. exact (A kv H). Qed.

(* the matrix the library uses: the integer matrix divided by 2^scale, as reals *)
Definition uq_real (s : Z) (M : list (list Z)) : list (list R) := map (map (fun z => (IZR z / IZR (2 ^ s))%R)) M.

Theorem uq_psd kv : In kv uq_all ->
  let '(n, m, M, L) := snd kv in
  forall s : Z, (0 <= s)%Z -> forall xs : list R, length xs = n -> (0 <= quad_form (K:=Rops) xs (uq_real s M))%R.
Proof.
  intros H. pose proof (uq_entries_ok kv H) as A. destruct (snd kv) as [[[n m] M] L]. unfold uq_entry_ok in A.
  apply andb_true_iff in A. destruct A as [Sq C]. intros s Hs xs Hx. unfold uq_real.
  apply (cert_quad_form_nonneg n m M L (IZR (2 ^ s)) xs); auto.
  apply IZR_lt. apply Z.pow_pos_nonneg; [reflexivity|exact Hs].
Qed.

(* the count vector of an estimate has the size of the basis *)
Lemma set_nthR_length : forall i (c : R) (x : list R), length (set_nth (K:=Rops) i c x) = length x.
Proof. intros i c x. revert i. induction x as [|y x IH]; intros [|i]; simpl; auto. Qed.
Lemma placeR_length basis : forall g x y, place (K:=Rops) basis g x = Ok y -> length y = length x.
Proof.
  induction g as [|[d c] g IH]; intros x y H; simpl in H.
  - inversion H; reflexivity.
  - destruct (index_of d basis); [|discriminate]. rewrite (IH _ _ H). apply set_nthR_length.
Qed.
Lemma count_vector_length basis g x : count_vector (K:=Rops) basis g = Ok x -> length x = length basis.
Proof. unfold count_vector. intros H. rewrite (placeR_length _ _ _ _ H). apply repeat_length. Qed.

(* for the shipped libraries the standard error is defined for every mapping over the basis: SE^2 = rmse^2 x'Mx >= 0 *)
Theorem uq_se_square_nonneg kv : In kv uq_all ->
  let '(n, m, M, L) := snd kv in
  forall s basis g rmse v, (0 <= s)%Z -> length basis = n ->
  se_square (K:=Rops) rmse basis (uq_real s M) g = Ok v -> (0 <= v)%R.
Proof.
  intros H. pose proof (uq_psd kv H) as P. destruct (snd kv) as [[[n m] M] L].
  intros s basis g rmse v Hs Hb E. unfold se_square in E. destruct (count_vector basis g) as [x|e] eqn:Ec; [|discriminate].
  inversion E; subst v. assert (Lx : length x = n) by (rewrite (count_vector_length _ _ _ Ec); exact Hb).
  pose proof (P s Hs x Lx) as Q.
  cbn [nmul Rops]. apply Rmult_le_pos; [|exact Q]. apply Rle_0_sqr.
Qed.
