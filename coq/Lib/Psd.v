(* A kernel-checked certificate of positive semi-definiteness for an integer
   matrix M (the uncertainty matrix of a library, every entry an IEEE double,
   scaled by a power of two): a factor L (rows) such that
       D = M - L L^T   is symmetric and diagonally dominant with a non-negative diagonal.
   Then x'Mx = |L^T x|^2 + x'Dx >= 0.  The factor is NOT trusted: any integer
   matrix passing the check proves the claim.  No proofs here. *)
From Coq Require Import List ZArith Arith Bool.
Import ListNotations.
Local Open Scope Z_scope.

Definition entZ (M : list (list Z)) (i j : nat) : Z := nth j (nth i M []) 0.

Fixpoint dotZ (a b : list Z) : Z :=
  match a, b with
  | x :: a', y :: b' => x * y + dotZ a' b'
  | _, _ => 0
  end.

(* D = M - L L^T, entry (i, j) *)
Definition Dz (M L : list (list Z)) (i j : nat) : Z := entZ M i j - dotZ (nth i L []) (nth j L []).

Definition offsum (n : nat) (M L : list (list Z)) (i : nat) : Z :=
  fold_right (fun j acc => (if Nat.eqb j i then 0 else Z.abs (Dz M L i j)) + acc) 0 (seq 0 n).

Definition cert_ok (n m : nat) (M L : list (list Z)) : bool :=
  forallb (fun i => Nat.eqb (length (nth i L [])) m) (seq 0 n)
  && forallb (fun i => forallb (fun j => Z.eqb (entZ M i j) (entZ M j i)) (seq 0 n)) (seq 0 n)
  && forallb (fun i => Z.leb (offsum n M L i) (Dz M L i i)) (seq 0 n).

(* shape: n rows of n entries *)
Definition square (n : nat) (M : list (list Z)) : bool :=
  Nat.eqb (length M) n && forallb (fun r => Nat.eqb (length r) n) M.
