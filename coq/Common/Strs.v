(* Strings as lists of code points, with Python's code-point ordering. *)
From Coq Require Import List NArith Bool Lia.
Import ListNotations.

Definition str := list N.

Fixpoint str_eqb (a b : str) : bool :=
  match a, b with
  | [], [] => true
  | x :: a', y :: b' => N.eqb x y && str_eqb a' b'
  | _, _ => false
  end.

(* Python's `a <= b` on str: lexicographic on code points *)
Fixpoint str_leb (a b : str) : bool :=
  match a, b with
  | [], _ => true
  | _ :: _, [] => false
  | x :: a', y :: b' =>
      if N.ltb x y then true else if N.eqb x y then str_leb a' b' else false
  end.

Definition isnil {A} (l : list A) : bool :=
  match l with [] => true | _ => false end.

(* insertion sort = Python's sorted() on a list of str (result is unique,
   see Strs_proofs.sort_perm_unique) *)
Fixpoint insert (x : str) (l : list str) : list str :=
  match l with
  | [] => [x]
  | y :: r => if str_leb x y then x :: l else y :: insert x r
  end.

Definition sort (l : list str) : list str := fold_right insert [] l.

Definition is_ascii_digit (c : N) : bool := N.leb 48 c && N.leb c 57.
