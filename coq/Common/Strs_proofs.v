From Coq Require Import List NArith Bool Lia Permutation Sorted.
From PG Require Import Common.Strs.
Import ListNotations.

Lemma str_eqb_eq a b : str_eqb a b = true <-> a = b.
Proof.
  revert b; induction a as [|x a IH]; destruct b as [|y b]; simpl;
    try (split; congruence).
  rewrite andb_true_iff, N.eqb_eq, IH. split.
  - intros [-> ->]; reflexivity.
  - intros H; inversion H; auto.
Qed.

Lemma str_eqb_refl a : str_eqb a a = true.
Proof. apply str_eqb_eq; reflexivity. Qed.

Lemma str_eqb_neq a b : str_eqb a b = false <-> a <> b.
Proof.
  split.
  - intros H E. apply str_eqb_eq in E. congruence.
  - intros H. destruct (str_eqb a b) eqn:E; auto.
    apply str_eqb_eq in E. contradiction.
Qed.

Lemma str_leb_refl a : str_leb a a = true.
Proof.
  induction a as [|x a IH]; simpl; auto.
  rewrite N.ltb_irrefl, N.eqb_refl; exact IH.
Qed.

Lemma str_leb_total a b : str_leb a b = true \/ str_leb b a = true.
Proof.
  revert b; induction a as [|x a IH]; destruct b as [|y b]; simpl; auto.
  destruct (N.ltb_spec x y) as [H|H]; auto.
  destruct (N.ltb_spec y x) as [H2|H2]; auto.
  assert (x = y) by lia. subst. rewrite N.eqb_refl. apply IH.
Qed.

Lemma str_leb_antisym a b :
  str_leb a b = true -> str_leb b a = true -> a = b.
Proof.
  revert b; induction a as [|x a IH]; destruct b as [|y b]; simpl;
    try congruence.
  destruct (N.ltb_spec x y) as [H|H]; destruct (N.ltb_spec y x) as [H2|H2];
    try lia; try congruence.
  - destruct (N.eqb_spec y x); try congruence; lia.
  - destruct (N.eqb_spec x y); try congruence; lia.
  - destruct (N.eqb_spec x y) as [E|E]; try congruence. subst.
    rewrite N.eqb_refl. intros A B. f_equal. apply IH; auto.
Qed.

Lemma str_leb_trans a b c :
  str_leb a b = true -> str_leb b c = true -> str_leb a c = true.
Proof.
  revert b c; induction a as [|x a IH]; destruct b as [|y b];
    destruct c as [|z c]; simpl; try congruence.
  destruct (N.ltb_spec x y) as [H|H].
  - intros _. destruct (N.ltb_spec y z) as [H2|H2].
    + intros _. destruct (N.ltb_spec x z); auto; lia.
    + destruct (N.eqb_spec y z); try congruence. subst.
      intros _. destruct (N.ltb_spec x z); auto; lia.
  - destruct (N.eqb_spec x y); try congruence. subst.
    destruct (N.ltb_spec y z) as [H2|H2]; auto.
    destruct (N.eqb_spec y z); try congruence. subst.
    apply IH.
Qed.

Definition sle (a b : str) : Prop := str_leb a b = true.

Lemma insert_perm x l : Permutation (x :: l) (insert x l).
Proof.
  induction l as [|y r IH]; simpl; auto.
  destruct (str_leb x y); auto.
  eapply perm_trans; [apply perm_swap|]. apply perm_skip; exact IH.
Qed.

Lemma sort_perm l : Permutation l (sort l).
Proof.
  induction l as [|x l IH]; simpl; auto.
  eapply perm_trans; [apply perm_skip; exact IH|]. apply insert_perm.
Qed.

Lemma insert_sorted x l : Sorted sle l -> Sorted sle (insert x l).
Proof.
  induction l as [|y r IH]; simpl; intros H.
  - repeat constructor.
  - destruct (str_leb x y) eqn:E.
    + constructor; auto.
    + inversion H as [|? ? Hs Hh]; subst.
      constructor; auto.
      destruct r as [|z r']; simpl.
      * constructor. destruct (str_leb_total x y); [congruence|auto].
      * destruct (str_leb x z); constructor.
        -- destruct (str_leb_total x y); [congruence|auto].
        -- inversion Hh; auto.
Qed.

Lemma sort_sorted l : Sorted sle (sort l).
Proof.
  induction l as [|x l IH]; simpl; [constructor|apply insert_sorted; auto].
Qed.

Lemma sle_trans : Relations_1.Transitive sle.
Proof. intros a b c; apply str_leb_trans. Qed.

Lemma sorted_perm_unique l1 l2 :
  Sorted sle l1 -> Sorted sle l2 -> Permutation l1 l2 -> l1 = l2.
Proof.
  intros S1 S2.
  apply Sorted_StronglySorted in S1; [|exact sle_trans].
  apply Sorted_StronglySorted in S2; [|exact sle_trans].
  revert l2 S2. induction S1 as [|x l1 S1 IH F1]; intros l2 S2 P.
  - apply Permutation_nil in P; auto.
  - destruct S2 as [|y l2 S2 F2].
    + apply Permutation_sym, Permutation_nil in P; discriminate.
    + assert (x = y) as ->.
      { assert (In x (y :: l2)) as I1
          by (eapply Permutation_in; [exact P|left; auto]).
        assert (In y (x :: l1)) as I2
          by (eapply Permutation_in; [apply Permutation_sym; exact P|left; auto]).
        destruct I1 as [->|I1]; auto. destruct I2 as [->|I2]; auto.
        rewrite Forall_forall in F1, F2.
        apply str_leb_antisym; [apply F1|apply F2]; auto. }
      f_equal. apply IH; auto. eapply Permutation_cons_inv; eauto.
Qed.

Theorem sort_perm_unique l1 l2 : Permutation l1 l2 -> sort l1 = sort l2.
Proof.
  intros P. apply sorted_perm_unique; try apply sort_sorted.
  eapply perm_trans; [apply Permutation_sym, sort_perm|].
  eapply perm_trans; [exact P|apply sort_perm].
Qed.

Lemma sort_sorted_id l : Sorted sle l -> sort l = l.
Proof.
  intros S. apply sorted_perm_unique; auto using sort_sorted.
  apply Permutation_sym, sort_perm.
Qed.

Lemma sort_idem l : sort (sort l) = sort l.
Proof. apply sort_sorted_id, sort_sorted. Qed.
