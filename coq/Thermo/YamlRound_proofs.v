From Coq Require Import List NArith ZArith QArith Qabs Qround Qpower Bool Lia Lqa.
From PG Require Import Thermo.YamlRound.
Import ListNotations.

Lemma Qpower10_pos k : 0 < Qpower 10 k.
Proof. apply Qpower_0_lt. reflexivity. Qed.

(* six significant digits: relative error at most 5e-6 *)
Theorem round6_error x r : is_round6 x r ->
  Qabs (Qabs r - Qabs x) <= (5 # 1000000) * Qabs x.
Proof.
  intros (k & n & Hlo & Hr & Er).
  pose proof (Qpower10_pos k) as Hp.
  set (p := Qpower 10 k) in *.
  assert (Hpne : ~ p == 0) by (intros C; rewrite C in Hp; inversion Hp).
  assert (Hinv : 0 <= / p) by (apply Qlt_le_weak, Qinv_lt_0_compat, Hp).
  set (y := Qabs x * p) in *.
  assert (Hx : Qabs r - Qabs x == (inject_Z n - y) * / p).
  { rewrite Er. unfold y. field. exact Hpne. }
  assert (Hax : Qabs x == y * / p) by (unfold y; field; exact Hpne).
  rewrite Hx, Qabs_Qmult, (Qabs_pos (/ p)) by exact Hinv.
  unfold rounds_to in Hr.
  apply Qle_trans with ((1 # 2) * / p).
  - apply Qmult_le_compat_r; [exact Hr|exact Hinv].
  - rewrite Hax, Qmult_assoc. apply Qmult_le_compat_r; [|exact Hinv].
    change (inject_Z (10 ^ 5)) with (100000 # 1) in Hlo. lra.
Qed.

(* rounding an integer-scaled value: the nearest integer is a correct rounding *)
Lemma nearest_rounds y : rounds_to y (Qfloor (y + (1 # 2))).
Proof.
  unfold rounds_to.
  pose proof (Qfloor_le (y + (1 # 2))) as H1.
  pose proof (Qlt_floor (y + (1 # 2))) as H2.
  rewrite inject_Z_plus in H2. change (inject_Z 1) with 1 in H2.
  apply Qabs_Qle_condition. split; lra.
Qed.

Theorem presence_same_refl a : presence_same a a.
Proof. unfold presence_same; tauto. Qed.
