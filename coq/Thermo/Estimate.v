(* Models of GroupLibrary.Estimate, ThermochemGroupAdditive (group_data.py)
   and the dimensional getters of ThermochemBase (base.py).  No proofs. *)
From Coq Require Import List NArith Bool QArith.
From PG Require Import Common.Strs Thermo.Num.
Import ListNotations.

Section Est.
Context {K : numops}.
Local Open Scope num_scope.
Notation V := (V K).

(* ---- GroupLibrary.Estimate: the missing-data test ---- *)
(* lib: descriptor name -> does it carry the requested property set *)
Fixpoint lib_has (lib : list (str * bool)) (d : str) : bool :=
  match lib with
  | [] => false                                  (* self[group] = {} *)
  | (k, h) :: r => if str_eqb k d then h else lib_has r d
  end.

Definition missing (lib : list (str * bool)) (keys : list str) : list str :=
  filter (fun d => negb (lib_has lib d)) keys.

Definition estimate_check (lib : list (str * bool)) (keys : list str) : res unit :=
  match missing lib keys with
  | [] => Ok tt
  | l => Raise (MissingData l)
  end.

(* ---- sum(count*correlation.get_X(T) for ...) ----
   Python's sum over a generator: left to right, the first constituent that
   raises aborts the whole evaluation with its error. *)
Fixpoint est_sum (terms : list (V * ev K)) (acc : V) (w : bool) : ev K :=
  match terms with
  | [] => Ok (acc, w)
  | (c, Ok (v, w')) :: r => est_sum r (acc + c * v) (w || w')
  | (_, Raise e) :: _ => Raise e
  end.

Definition est_prop (terms : list (V * ev K)) : ev K := est_sum terms (n0 K) false.

(* get_SoR(T, S_elements): sum - S_ele *)
Definition est_S (terms : list (V * ev K)) (s_ele : V) : ev K :=
  match est_prop terms with
  | Ok (v, w) => Ok (v - s_ele, w)
  | Raise e => Raise e
  end.

(* get_GoRT = get_HoRT - get_SoR (H is evaluated first) *)
Definition est_G (h s : ev K) : ev K :=
  match h with
  | Raise e => Raise e
  | Ok (hv, hw) => match s with
                   | Raise e => Raise e
                   | Ok (sv, sw) => Ok (hv - sv, hw || sw)
                   end
  end.

(* ---- range of an estimate: fold of max/min over ranged constituents ---- *)
Fixpoint common_range (rs : list (option (V * V))) (cur : option (V * V))
  : option (V * V) :=
  match rs with
  | [] => cur
  | None :: r => common_range r cur
  | Some (lo, hi) :: r =>
      match cur with
      | None => common_range r (Some (lo, hi))
      | Some (a, b) => common_range r (Some (nmax a lo, nmin b hi))
      end
  end.

Definition est_range (rs : list (option (V * V))) : res (option (V * V)) :=
  match common_range rs None with
  | None => Ok None
  | Some (a, b) => if b <? a then Raise AssertErr else Ok (Some (a, b))
  end.

Definition in_range (r : option (V * V)) (T : V) : bool :=
  match r with
  | None => true
  | Some (lo, hi) => negb (T <? lo) && negb (hi <? T)
  end.

(* ---- dimensional getters (base.py) ---- *)
Definition dim_H (h T Ru : V) : V := h * T * Ru.           (* Ru = R(u/K) *)
Definition dim_S (s Ru : V) : V := s * Ru.                 (* Ru = R(u)   *)
Definition dim_Cp (cp Ru : V) : V := cp * Ru.
Definition dim_G (h s T Ru : V) : V := (h - s) * T * Ru.   (* Ru = R(u/K) *)

(* elemental entropy: sum over the atoms of AddHs(molecule) *)
Fixpoint tbl_get (tbl : list (N * V)) (z : N) : option V :=
  match tbl with
  | [] => None
  | (k, v) :: r => if N.eqb k z then Some v else tbl_get r z
  end.

Fixpoint s_elements (tbl : list (N * V)) (atoms : list N) (acc : V) : res V :=
  match atoms with
  | [] => Ok acc
  | z :: r => match tbl_get tbl z with
              | None => Raise KeyErr
              | Some v => s_elements tbl r (acc + v)
              end
  end.

(* ---- standard errors (uncertainty block) ---- *)
Definition dot (a b : list V) : V :=
  fold_right (fun p acc => fst p * snd p + acc) (n0 K) (combine a b).

Definition quad_form (x : list V) (M : list (list V)) : V :=
  dot x (map (fun row => dot row x) M).

Fixpoint index_of (d : str) (l : list str) : option nat :=
  match l with
  | [] => None
  | k :: r => if str_eqb k d then Some 0%nat
              else match index_of d r with Some i => Some (S i) | None => None end
  end.

Fixpoint set_nth (i : nat) (c : V) (x : list V) : list V :=
  match x, i with
  | [], _ => []
  | _ :: r, O => c :: r
  | y :: r, S j => y :: set_nth j c r
  end.

(* xp[descriptors.index(group)] = count, in mapping order *)
Fixpoint place (basis : list str) (g : list (str * V)) (x : list V) : res (list V) :=
  match g with
  | [] => Ok x
  | (d, c) :: r => match index_of d basis with
                   | None => Raise ValueErr
                   | Some i => place basis r (set_nth i c x)
                   end
  end.

Definition count_vector (basis : list str) (g : list (str * V)) : res (list V) :=
  place basis g (repeat (n0 K) (length basis)).

(* SE^2 = RMSE(T)^2 * x'Mx  (the square root is taken by the host) *)
Definition se_square (rmse : V) (basis : list str) (M : list (list V))
           (g : list (str * V)) : res V :=
  match count_vector basis g with
  | Raise e => Raise e
  | Ok x => Ok (rmse * rmse * quad_form x M)
  end.

End Est.
