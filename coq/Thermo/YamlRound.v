(* Value-level model of ThermochemIncomplete.yaml_format followed by loading
   the text back (C18): which parts are written, and with what precision.
   '%g' = correct rounding to 6 significant decimal digits; '%r' of a float
   round-trips exactly (CPython contract, trusted base). *)
From Coq Require Import List NArith ZArith QArith Qabs Qround Bool Lia Lqa.
Import ListNotations.

(* n is a correct rounding of y to an integer *)
Definition rounds_to (y : Q) (n : Z) : Prop := Qabs (inject_Z n - y) <= 1 # 2.

(* r is x rounded to 6 significant digits, witnessed by the decimal shift k:
   10^5 <= |x|*10^k < 10^6 and r = n / 10^k with n a correct rounding *)
Definition is_round6 (x r : Q) : Prop :=
  exists (k : Z) (n : Z),
    inject_Z (10 ^ 5) <= Qabs x * Qpower 10 k /\
    rounds_to (Qabs x * Qpower 10 k) n /\
    Qabs r == inject_Z n / Qpower 10 k.

(* the written record: presence of each part and the values after rounding *)
Record corr := { c_H : option Q; c_S : option Q; c_tab : list (Q * Q);
                 c_Tref : Q; c_range : option (Q * Q) }.

(* non-dimensional output: temperatures through '%g', values through '%r' *)
Definition nd_roundtrip_spec (a b : corr) : Prop :=
  c_H b = c_H a /\ c_S b = c_S a
  /\ map snd (c_tab b) = map snd (c_tab a)
  /\ length (c_tab b) = length (c_tab a).

Definition presence_same (a b : corr) : Prop :=
  (c_H a = None <-> c_H b = None) /\ (c_S a = None <-> c_S b = None)
  /\ (c_tab a = [] <-> c_tab b = []) /\ (c_range a = None <-> c_range b = None).
