From Coq Require Import List NArith Bool Reals Lra Permutation.
From PG Require Import Common.Strs Common.Strs_proofs Thermo.Num Thermo.Estimate.
Import ListNotations.
Local Open Scope R_scope.

(* ---------- C01: weighted sum over the reals ---------- *)

Definition okterm (t : R * R * bool) : R * ev Rops :=
  (fst (fst t), Ok (snd (fst t), snd t)).

Definition wsum (tv : list (R * R * bool)) : R :=
  fold_right (fun t a => fst (fst t) * snd (fst t) + a) 0 tv.

Definition anywarn (tv : list (R * R * bool)) : bool :=
  existsb (fun t => snd t) tv.

Lemma est_sum_ok tv : forall acc w,
  est_sum (K:=Rops) (map okterm tv) acc w = Ok (acc + wsum tv, w || anywarn tv).
Proof.
  induction tv as [|[[c v] w'] tv IH]; intros acc w; simpl.
  - rewrite orb_false_r. f_equal. f_equal. lra.
  - rewrite IH. f_equal. f_equal; [lra|]. rewrite orb_assoc. reflexivity.
Qed.

Theorem est_is_weighted_sum tv :
  est_prop (K:=Rops) (map okterm tv) = Ok (wsum tv, anywarn tv).
Proof.
  unfold est_prop. rewrite est_sum_ok. simpl. f_equal. f_equal. lra.
Qed.

Definition is_ok (t : R * ev Rops) : Prop :=
  match snd t with Ok _ => True | Raise _ => False end.

Lemma est_sum_raise terms : forall acc w e,
  est_sum (K:=Rops) terms acc w = Raise e <->
  exists pre c post, terms = pre ++ (c, Raise e) :: post /\ Forall is_ok pre.
Proof.
  induction terms as [|[c [[v w']|e']] terms IH]; intros acc w e; simpl.
  - split; [discriminate|]. intros (pre & c & post & H & _).
    destruct pre; discriminate.
  - rewrite IH. split.
    + intros (pre & c0 & post & -> & F).
      exists ((c, Ok (v, w')) :: pre), c0, post. split; auto.
      constructor; auto. exact I.
    + intros (pre & c0 & post & H & F). destruct pre as [|p pre].
      * simpl in H. inversion H.
      * simpl in H. inversion H; subst. inversion F; subst.
        exists pre, c0, post. auto.
  - split.
    + intros H. inversion H; subst. exists [], c, terms. auto.
    + intros (pre & c0 & post & H & F). destruct pre as [|p pre].
      * simpl in H. inversion H; subst. reflexivity.
      * simpl in H. inversion H; subst. inversion F as [|? ? Hp]; subst.
        exfalso. exact Hp.
Qed.

Theorem est_error_iff terms e :
  est_prop (K:=Rops) terms = Raise e <->
  exists pre c post, terms = pre ++ (c, Raise e) :: post /\ Forall is_ok pre.
Proof. apply est_sum_raise. Qed.

Theorem est_never_partial terms :
  (exists c e, In (c, Raise e) terms) ->
  exists e, est_prop (K:=Rops) terms = Raise e.
Proof.
  unfold est_prop. generalize (n0 Rops) false.
  induction terms as [|[c [[v w']|e']] terms IH]; intros acc w (c0 & e & Hin).
  - destruct Hin.
  - simpl. destruct Hin as [H|H]; [inversion H|]. apply IH. eauto.
  - simpl. eauto.
Qed.

Lemma wsum_perm tv tv' : Permutation tv tv' -> wsum tv = wsum tv'.
Proof.
  induction 1; simpl; lra.
Qed.

Lemma anywarn_perm tv tv' : Permutation tv tv' -> anywarn tv = anywarn tv'.
Proof.
  induction 1; simpl; auto.
  - congruence.
  - destruct (snd x), (snd y); reflexivity.
  - congruence.
Qed.

Theorem est_perm tv tv' :
  Permutation tv tv' ->
  est_prop (K:=Rops) (map okterm tv) = est_prop (K:=Rops) (map okterm tv').
Proof.
  intros P. rewrite !est_is_weighted_sum.
  rewrite (wsum_perm _ _ P), (anywarn_perm _ _ P). reflexivity.
Qed.

Theorem est_G_is_H_minus_S hv hw sv sw :
  est_G (K:=Rops) (Ok (hv, hw)) (Ok (sv, sw)) = Ok (hv - sv, hw || sw).
Proof. reflexivity. Qed.

Theorem est_G_error h s :
  (exists e, h = Raise e) \/ (exists e, s = Raise e) ->
  exists e, est_G (K:=Rops) h s = Raise e.
Proof.
  intros [[e ->]|[e ->]]; simpl; eauto.
  destruct h as [[hv hw]|e']; simpl; eauto.
Qed.

Theorem est_S_elements tv s_ele :
  est_S (K:=Rops) (map okterm tv) s_ele = Ok (wsum tv - s_ele, anywarn tv).
Proof. unfold est_S. rewrite est_is_weighted_sum. reflexivity. Qed.

(* ---------- missing data ---------- *)

Theorem estimate_missing_exact (lib : list (str * bool)) keys l :
  estimate_check lib keys = Raise (MissingData l) <->
  l <> [] /\ l = missing lib keys.
Proof.
  unfold estimate_check. destruct (missing lib keys) as [|d m] eqn:E.
  - split; [discriminate|]. intros [H ->]. contradiction.
  - split.
    + intros H. inversion H; subst. split; [discriminate|reflexivity].
    + intros [_ ->]. reflexivity.
Qed.

Theorem estimate_ok_iff (lib : list (str * bool)) keys :
  estimate_check lib keys = Ok tt <->
  forall d, In d keys -> lib_has lib d = true.
Proof.
  unfold estimate_check, missing. split.
  - intros H d Hin. destruct (lib_has lib d) eqn:E; auto.
    assert (In d (filter (fun d => negb (lib_has lib d)) keys))
      by (apply filter_In; rewrite E; auto).
    destruct (filter _ keys); [contradiction|discriminate].
  - intros H. destruct (filter _ keys) as [|d m] eqn:E; auto.
    assert (In d (filter (fun d => negb (lib_has lib d)) keys))
      by (rewrite E; left; auto).
    apply filter_In in H0. destruct H0 as [Hin Hn].
    rewrite (H d Hin) in Hn. discriminate.
Qed.

Theorem estimate_never_partial (lib : list (str * bool)) keys d :
  In d keys -> lib_has lib d = false ->
  exists l, estimate_check lib keys = Raise (MissingData l) /\ In d l
            /\ forall x, In x l <-> In x keys /\ lib_has lib x = false.
Proof.
  intros Hin Hn. exists (missing lib keys).
  assert (Hd : In d (missing lib keys))
    by (apply filter_In; rewrite Hn; auto).
  split; [|split; auto].
  - unfold estimate_check. destruct (missing lib keys); [destruct Hd|reflexivity].
  - intros x. unfold missing. rewrite filter_In, negb_true_iff. tauto.
Qed.

(* ---------- C06: the estimate's range is the intersection ---------- *)

Definition inR (r : R * R) (T : R) : Prop := fst r <= T <= snd r.

Lemma nmax_R a b : @nmax Rops a b = Rmax a b.
Proof.
  unfold nmax, Rmax; simpl. unfold Rleb.
  destruct (Rle_dec a b); reflexivity.
Qed.

Lemma nmin_R a b : @nmin Rops a b = Rmin a b.
Proof.
  unfold nmin, Rmin; simpl. unfold Rleb.
  destruct (Rle_dec a b); reflexivity.
Qed.

Lemma common_range_inter rs : forall cur T,
  match common_range (K:=Rops) rs cur with
  | None => cur = None /\ Forall (fun r => r = None) rs
  | Some ab =>
      (inR ab T <->
       (match cur with None => True | Some c => inR c T end) /\
       Forall (fun r => match r with None => True | Some c => inR c T end) rs)
  end.
Proof.
  induction rs as [|[[lo hi]|] rs IH]; intros cur T; simpl.
  - destruct cur; [|auto]. split; [intros H; split; auto|tauto].
  - destruct cur as [[a b]|].
    + specialize (IH (Some (nmax a lo, nmin b hi)) T).
      destruct (common_range rs _) as [ab|].
      * rewrite IH. rewrite nmax_R, nmin_R. unfold inR; simpl.
        split.
        -- intros [[H1 H2] F]. split.
           ++ split; [eapply Rle_trans; [apply Rmax_l|eauto]
                     |eapply Rle_trans; [eauto|apply Rmin_l]].
           ++ constructor; auto. simpl. split;
              [eapply Rle_trans; [apply Rmax_r|eauto]
              |eapply Rle_trans; [eauto|apply Rmin_r]].
        -- intros [[H1 H2] F]. inversion F as [|? ? H34 F']; subst.
           unfold inR in H34; simpl in H34. destruct H34 as [H3 H4].
           split; auto. split;
           [apply Rmax_lub; auto|apply Rmin_glb; auto].
      * destruct IH as [H _]; discriminate.
    + specialize (IH (Some (lo, hi)) T).
      destruct (common_range rs _) as [ab|].
      * rewrite IH. split.
        -- intros [H F]. split; auto.
        -- intros [_ F]. inversion F; subst. split; auto.
      * destruct IH as [H _]; discriminate.
  - specialize (IH cur T). destruct (common_range rs cur) as [ab|].
    + rewrite IH. split.
      * intros [H F]. split; auto.
      * intros [H F]. inversion F; subst. split; auto.
    + destruct IH as [H F]. split; auto.
Qed.

Theorem est_range_is_intersection rs ab T :
  est_range (K:=Rops) rs = Ok (Some ab) ->
  (inR ab T <->
   Forall (fun r => match r with None => True | Some c => inR c T end) rs).
Proof.
  unfold est_range. pose proof (common_range_inter rs None T) as H.
  destruct (common_range rs None) as [[a b]|]; [|discriminate].
  destruct (nltb Rops b a); [discriminate|].
  intros E; inversion E; subst. rewrite H. tauto.
Qed.

Lemma common_range_none rs : forall cur,
  common_range (K:=Rops) rs cur = None <->
  cur = None /\ Forall (fun r => r = None) rs.
Proof.
  induction rs as [|[[lo hi]|] rs IH]; intros cur; simpl.
  - split; [auto|tauto].
  - destruct cur as [[a b]|]; rewrite IH; split; intros [H F];
      try discriminate; inversion F; discriminate.
  - rewrite IH. split; intros [H F]; split; auto. inversion F; auto.
Qed.

Theorem est_range_none_iff rs :
  est_range (K:=Rops) rs = Ok None <-> Forall (fun r => r = None) rs.
Proof.
  unfold est_range. pose proof (common_range_none rs None) as H.
  destruct (common_range rs None) as [[a b]|].
  - split.
    + destruct (nltb Rops b a); discriminate.
    + intros F. assert (Some (a, b) = None) by (apply H; auto). discriminate.
  - split; auto. intros _. apply H. reflexivity.
Qed.
