(* C13 for ANY number of libraries and ANY permutation of them: merging a list of libraries into a library, in two orders
   that are permutations of each other and are both accepted, leaves every group with the same heat-capacity table (as a map)
   and the same valid range; and what the table holds is exactly the union of what the sources give for that group.
   Generalises Merge_lib_proofs.lib_order_free (two libraries) and two_includes_order_free (two includes). *)
From Coq Require Import List NArith Bool Reals Lra Permutation.
From PG Require Import Common.Strs Common.Strs_proofs Thermo.Num Thermo.RawData Thermo.Merge Thermo.Merge_proofs Thermo.Merge_lib_proofs.
Import ListNotations.
Local Open Scope R_scope.

Notation ruR := (range_union (K:=Rops)).

Lemma last_get_tget x T : NoDup (map fst x) -> last_get x T = tgetR x T.
Proof.
  intros Nx. destruct (tgetR x T) as [v|] eqn:E.
  - apply in_last_get; [exact Nx|]. clear Nx. induction x as [|[k w] x IH]; [discriminate|]. cbn [tab_get neqb Rops] in E.
    destruct (Reqb k T) eqn:Ek; [apply Reqb_true in Ek; inversion E; subst; left; reflexivity|right; exact (IH E)].
  - destruct (last_get x T) as [u|] eqn:El; [|reflexivity]. exfalso. apply last_get_in in El. clear Nx.
    induction x as [|[k w] x IH]; [destruct El|]. cbn [tab_get neqb Rops] in E. destruct (Reqb k T) eqn:Ek; [discriminate|].
    destruct El as [El|El]; [inversion El; subst; rewrite Reqb_refl in Ek; discriminate|exact (IH E El)].
Qed.

Lemma ru_none_l b : ruR None b = b.
Proof. destruct b as [[? ?]|]; reflexivity. Qed.

Lemma fold_ru_perm l1 l2 : Permutation l1 l2 -> forall a, fold_left ruR l1 a = fold_left ruR l2 a.
Proof.
  induction 1 as [|x l l' _ IH|x y l|l l' l'' _ IH1 _ IH2]; intros a; cbn [fold_left].
  - reflexivity.
  - apply IH.
  - rewrite range_union_order_free. reflexivity.
  - rewrite IH1. apply IH2.
Qed.

Section Perm.
Variables splint quadS lnr : R -> R -> R.
Variable isclose : R -> R -> bool.
Notation upd := (corr_update (K:=Rops) splint quadS lnr isclose).
Notation lupd := (lib_update (K:=Rops) splint quadS lnr isclose).
Notation loadR := (load (K:=Rops) splint quadS lnr isclose).

(* one accepted update: the new table holds exactly what either side gave *)
Lemma update_tab_sources self other new : NoDup (map fst (i_tab other)) -> upd self other false = (new, None) ->
  forall T v, tgetR (i_tab new) T = Some v <-> tgetR (i_tab self) T = Some v \/ tgetR (i_tab other) T = Some v.
Proof.
  intros Nd U T v. destruct (update_tab splint quadS lnr isclose _ _ _ U) as [M _].
  rewrite (merge_tab_lookup _ _ _ _ _ M T), (last_get_tget _ T Nd).
  assert (C : compatT (i_tab self) (i_tab other)) by (apply (merge_tab_ok_iff _ _ Nd); eauto).
  destruct (tgetR (i_tab other) T) as [vo|] eqn:Eo.
  - split; [intros H; right; exact H|]. intros [H|H]; [|exact H]. apply (f_equal Some). apply (C T vo v); [|exact H].
    apply last_get_in. rewrite (last_get_tget _ T Nd). exact Eo.
  - split; [intros H; left; exact H|]. intros [H|H]; [exact H|discriminate].
Qed.

(* a list of libraries merged one after the other; None as soon as one merge is refused *)
Fixpoint lupd_seq (a : @lib Rops) (xs : list (@lib Rops)) : option (@lib Rops) :=
  match xs with
  | [] => Some a
  | x :: r => match lupd a x false with
              | (a', None) => lupd_seq a' r
              | (_, Some _) => None
              end
  end.

(* the data the libraries of a list give for one group, in list order *)
Definition srcs (g : str) (ls : list (@lib Rops)) : list (@inc Rops) :=
  flat_map (fun l => match lgetR l g with Some c => [c] | None => [] end) ls.

Inductive gfold : option (@inc Rops) -> list (@inc Rops) -> option (@inc Rops) -> Prop :=
| gf_nil o : gfold o [] o
| gf_adopt c cs o : gfold (Some c) cs o -> gfold None (c :: cs) o
| gf_merge m c n cs o : upd m c false = (n, None) -> gfold (Some n) cs o -> gfold (Some m) (c :: cs) o.

Lemma seq_group xs : Forall (fun x => NoDup (map fst x)) xs -> forall a r, lupd_seq a xs = Some r ->
  forall g, gfold (lgetR a g) (srcs g xs) (lgetR r g).
Proof.
  induction xs as [|x xs IH]; intros Hn a r S g; cbn [lupd_seq] in S.
  - inversion S; subst. constructor.
  - inversion Hn as [|? ? Nx Hn']; subst.
    destruct (lupd a x false) as [a' [e|]] eqn:U; [discriminate|].
    specialize (IH Hn' a' r S g). pose proof (lib_update_get splint quadS lnr isclose x Nx a a' g U) as G.
    unfold srcs. cbn [flat_map]. fold (srcs g xs).
    destruct (lgetR x g) as [c|].
    + cbn [app]. destruct (lgetR a g) as [mine|].
      * destruct G as (n & Un & G). rewrite G in IH. eapply gf_merge; eauto.
      * rewrite G in IH. apply gf_adopt. exact IH.
    + cbn [app]. rewrite G in IH. exact IH.
Qed.

Definition olist (o : option (@inc Rops)) : list (@inc Rops) := match o with Some c => [c] | None => [] end.
Definition orange (o : option (@inc Rops)) : option (R * R) := match o with Some c => i_range c | None => None end.

(* what a group holds after the whole sequence: nothing iff nobody gave it; else the union of the tables and of the ranges *)
Lemma gfold_char o cs r : gfold o cs r -> Forall (fun c => NoDup (map fst (i_tab c))) cs ->
  match r with
  | None => o = None /\ cs = []
  | Some c => (forall T v, tgetR (i_tab c) T = Some v <-> exists s, In s (olist o ++ cs) /\ tgetR (i_tab s) T = Some v)
              /\ i_range c = fold_left ruR (map i_range cs) (orange o)
  end.
Proof.
  induction 1 as [o|c cs o _ IH|m c n cs o U _ IH]; intros Hn.
  - destruct o as [c|]; [|split; reflexivity]. cbn [olist app map fold_left orange]. split; [|reflexivity].
    intros T v. split; [intros H; exists c; split; [left; reflexivity|exact H]|]. intros (s & [<-|[]] & H). exact H.
  - inversion Hn as [|? ? Nc Hn']; subst. specialize (IH Hn'). destruct o as [c'|]; [|destruct IH; discriminate].
    cbn [olist app orange map fold_left] in *. rewrite ru_none_l. exact IH.
  - inversion Hn as [|? ? Nc Hn']; subst. specialize (IH Hn'). destruct o as [c'|]; [|destruct IH; discriminate].
    cbn [olist app orange map fold_left] in *. destruct IH as [IT IR]. split.
    + intros T v. rewrite IT. split.
      * intros (s & [<-|Hin] & Hs).
        -- apply (update_tab_sources _ _ _ Nc U) in Hs. destruct Hs as [Hs|Hs]; [exists m|exists c]; split; auto; [left|right; left]; reflexivity.
        -- exists s. split; [right; right; exact Hin|exact Hs].
      * intros (s & [<-|[<-|Hin]] & Hs).
        -- exists n. split; [left; reflexivity|]. apply (update_tab_sources _ _ _ Nc U). left. exact Hs.
        -- exists n. split; [left; reflexivity|]. apply (update_tab_sources _ _ _ Nc U). right. exact Hs.
        -- exists s. split; [right; exact Hin|exact Hs].
    + rewrite IR. destruct (update_tab splint quadS lnr isclose _ _ _ U) as [_ Rn]. rewrite Rn. reflexivity.
Qed.

Lemma srcs_perm g xs ys : Permutation xs ys -> Permutation (srcs g xs) (srcs g ys).
Proof. intros P. unfold srcs. apply Permutation_flat_map. exact P. Qed.

Lemma srcs_tabs g xs : Forall (fun x => forall g c, lgetR x g = Some c -> NoDup (map fst (i_tab c))) xs ->
  Forall (fun c => NoDup (map fst (i_tab c))) (srcs g xs).
Proof.
  induction 1 as [|x xs Hx _ IH]; [constructor|]. unfold srcs. cbn [flat_map]. fold (srcs g xs).
  destruct (lgetR x g) as [c|] eqn:E; [|exact IH]. cbn [app]. constructor; [exact (Hx g c E)|exact IH].
Qed.

(* the union clause itself: after an accepted sequence of merges a group's table holds T -> v exactly if the library merged
   into, or one of the merged libraries, gives T -> v for that group; and the group exists iff somebody gives it *)
Theorem lib_seq_union a xs r :
  Forall (fun x => NoDup (map fst x)) xs -> Forall (fun x => forall g c, lgetR x g = Some c -> NoDup (map fst (i_tab c))) xs ->
  lupd_seq a xs = Some r -> forall g,
  match lgetR r g with
  | None => lgetR a g = None /\ forall x, In x xs -> lgetR x g = None
  | Some c => forall T v, tgetR (i_tab c) T = Some v <->
                exists l cs, In l (a :: xs) /\ lgetR l g = Some cs /\ tgetR (i_tab cs) T = Some v
  end.
Proof.
  intros Nk Nt S g. pose proof (gfold_char _ _ _ (seq_group xs Nk a r S g) (srcs_tabs g xs Nt)) as G.
  assert (InS : forall s ls, In s (srcs g ls) <-> exists l, In l ls /\ lgetR l g = Some s).
  { intros s ls. unfold srcs. rewrite in_flat_map. split.
    - intros (l & Hl & Hs). exists l. split; [exact Hl|]. destruct (lgetR l g) as [c|]; [destruct Hs as [<-|[]]; reflexivity|destruct Hs].
    - intros (l & Hl & Hs). exists l. split; [exact Hl|]. rewrite Hs. left. reflexivity. }
  destruct (lgetR r g) as [c|].
  - destruct G as [GT _]. intros T v. rewrite GT. split.
    + intros (s & Hin & Hs). apply in_app_or in Hin. destruct Hin as [Hin|Hin].
      * destruct (lgetR a g) as [ca|] eqn:Ea; [|destruct Hin]. destruct Hin as [<-|[]]. exists a, ca. split; [left; reflexivity|split; assumption].
      * apply InS in Hin. destruct Hin as (l & Hl & Hg). exists l, s. split; [right; exact Hl|split; assumption].
    + intros (l & cs & [<-|Hl] & Hg & Hs); exists cs; (split; [|exact Hs]); apply in_or_app.
      * left. rewrite Hg. left. reflexivity.
      * right. apply InS. exists l. split; assumption.
  - destruct G as [Go Gc]. split; [exact Go|]. intros x Hx. destruct (lgetR x g) as [c|] eqn:E; [|reflexivity].
    assert (Hin : In c (srcs g xs)) by (apply InS; exists x; split; assumption). rewrite Gc in Hin. destruct Hin.
Qed.

(* ... and its valid range is the union (smallest lower, largest upper bound) of the ranges the sources give, folded in list order *)
Theorem lib_seq_range a xs r :
  Forall (fun x => NoDup (map fst x)) xs -> Forall (fun x => forall g c, lgetR x g = Some c -> NoDup (map fst (i_tab c))) xs ->
  lupd_seq a xs = Some r -> forall g c, lgetR r g = Some c ->
  i_range c = fold_left ruR (map i_range (srcs g xs)) (orange (lgetR a g)).
Proof.
  intros Nk Nt S g c Hc. pose proof (gfold_char _ _ _ (seq_group xs Nk a r S g) (srcs_tabs g xs Nt)) as G.
  rewrite Hc in G. exact (proj2 G).
Qed.

(* whatever the order: two accepted merge sequences over permuted lists of libraries agree on every group's table and range *)
Theorem lib_perm_order_free a xs ys r1 r2 : Permutation xs ys ->
  Forall (fun x => NoDup (map fst x)) xs -> Forall (fun x => forall g c, lgetR x g = Some c -> NoDup (map fst (i_tab c))) xs ->
  lupd_seq a xs = Some r1 -> lupd_seq a ys = Some r2 ->
  forall g, same_group (lgetR r1 g) (lgetR r2 g).
Proof.
  intros P Nk Nt S1 S2 g.
  assert (Nk' : Forall (fun x => NoDup (map fst x)) ys).
  { apply Forall_forall. intros x Hx. apply (proj1 (Forall_forall _ _) Nk). apply (Permutation_in _ (Permutation_sym P) Hx). }
  assert (Nt' : Forall (fun x => forall g c, lgetR x g = Some c -> NoDup (map fst (i_tab c))) ys).
  { apply Forall_forall. intros x Hx. apply (proj1 (Forall_forall _ _) Nt). apply (Permutation_in _ (Permutation_sym P) Hx). }
  pose proof (gfold_char _ _ _ (seq_group xs Nk a r1 S1 g) (srcs_tabs g xs Nt)) as G1.
  pose proof (gfold_char _ _ _ (seq_group ys Nk' a r2 S2 g) (srcs_tabs g ys Nt')) as G2.
  pose proof (srcs_perm g xs ys P) as PS.
  destruct (lgetR r1 g) as [c1|] eqn:L1, (lgetR r2 g) as [c2|] eqn:L2; cbn [same_group].
  - destruct G1 as [T1 R1], G2 as [T2 R2]. split.
    + intros T. destruct (tgetR (i_tab c1) T) as [v|] eqn:E1.
      * symmetry. apply T2. apply T1 in E1. destruct E1 as (s & Hin & Hs). exists s. split; [|exact Hs].
        apply in_app_or in Hin. apply in_or_app. destruct Hin as [Hin|Hin]; [left; exact Hin|right; exact (Permutation_in _ PS Hin)].
      * destruct (tgetR (i_tab c2) T) as [v|] eqn:E2; [|reflexivity]. apply T2 in E2. destruct E2 as (s & Hin & Hs).
        assert (H : tgetR (i_tab c1) T = Some v).
        { apply T1. exists s. split; [|exact Hs]. apply in_app_or in Hin. apply in_or_app.
          destruct Hin as [Hin|Hin]; [left; exact Hin|right; exact (Permutation_in _ (Permutation_sym PS) Hin)]. }
        congruence.
    + rewrite R1, R2. apply fold_ru_perm. apply Permutation_map. exact PS.
  - destruct G2 as [Go Gc]. rewrite Gc in PS. apply Permutation_sym, Permutation_nil in PS. destruct G1 as [T1 _].
    pose proof (seq_group xs Nk a r1 S1 g) as F. rewrite PS, Go, L1 in F. inversion F.
  - destruct G1 as [Go Gc]. rewrite Gc in PS. apply Permutation_nil in PS.
    pose proof (seq_group ys Nk' a r2 S2 g) as F. rewrite PS, Go, L2 in F. inversion F.
  - exact I.
Qed.

(* ---------------- a file with any number of includes, in any order ---------------- *)
Definition lo (f : @file Rops) : @lib Rops := match loadR f with Ok l => l | Raise _ => [] end.

Lemma load_seq gs incs L : loadR (File gs incs) = Ok L ->
  exists own, own_groups (K:=Rops) gs [] = Ok own /\ lupd_seq own (map lo incs) = Some L /\ forall i, In i incs -> loadR i = Ok (lo i).
Proof.
  cbn [load]. destruct (own_groups gs []) as [own|e]; [|discriminate]. cbn [bind]. intros H. exists own. split; [reflexivity|].
  revert own H. induction incs as [|i incs IH]; intros acc H.
  - inversion H; subst. split; [reflexivity|intros i []].
  - cbn [map lupd_seq]. unfold lo at 1. destruct (loadR i) as [li|e] eqn:Ei; [|discriminate]. cbn [bind] in H.
    destruct (lupd acc li false) as [acc' [e|]] eqn:Eu; [discriminate|].
    destruct (IH acc' H) as [A B]. split; [exact A|]. intros j [<-|Hj]; [unfold lo; rewrite Ei; reflexivity|exact (B j Hj)].
Qed.

Theorem includes_perm_order_free gs incs incs' L L' : Permutation incs incs' ->
  (forall i l g c, In i incs -> loadR i = Ok l -> lgetR l g = Some c -> NoDup (map fst (i_tab c))) ->
  loadR (File gs incs) = Ok L -> loadR (File gs incs') = Ok L' ->
  forall g, same_group (lgetR L g) (lgetR L' g).
Proof.
  intros P Nt H H'. destruct (load_seq _ _ _ H) as (own & Eo & S & Ld). destruct (load_seq _ _ _ H') as (own' & Eo' & S' & _).
  rewrite Eo in Eo'. inversion Eo'; subst own'.
  apply (lib_perm_order_free own (map lo incs) (map lo incs') L L'); [apply Permutation_map; exact P| | |exact S|exact S'].
  - apply Forall_forall. intros x Hx. apply in_map_iff in Hx. destruct Hx as (i & <- & Hi).
    exact (load_keys splint quadS lnr isclose i (lo i) (Ld i Hi)).
  - apply Forall_forall. intros x Hx. apply in_map_iff in Hx. destruct Hx as (i & <- & Hi). intros g c Hg.
    exact (Nt i (lo i) g c Hi (Ld i Hi) Hg).
Qed.
End Perm.
