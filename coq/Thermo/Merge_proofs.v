From Coq Require Import List NArith Bool Reals Lra.
From PG Require Import Common.Strs Common.Strs_proofs Thermo.Num Thermo.RawData Thermo.Merge.
Import ListNotations.
Local Open Scope R_scope.

Notation tgetR := (tab_get (K:=Rops)).
Notation tsetR := (tab_set (K:=Rops)).
Notation mergeR := (merge_tab (K:=Rops)).

Lemma Reqb_true a b : Reqb a b = true <-> a = b.
Proof. unfold Reqb. destruct (Req_EM_T a b); split; auto; discriminate. Qed.
Lemma Reqb_refl a : Reqb a a = true.
Proof. apply Reqb_true; reflexivity. Qed.
Lemma Reqb_false a b : Reqb a b = false <-> a <> b.
Proof. unfold Reqb. destruct (Req_EM_T a b); split; auto; try discriminate; contradiction. Qed.

(* dict semantics of the table *)
Lemma tab_get_set t T v T' :
  tgetR (tsetR t T v) T' = if Reqb T T' then Some v else tgetR t T'.
Proof.
  induction t as [|[k x] t IH].
  - reflexivity.
  - cbn [tab_set tab_get neqb Rops]. destruct (Reqb k T) eqn:E.
    + apply Reqb_true in E; subst k. cbn [tab_get neqb Rops].
      destruct (Reqb T T'); reflexivity.
    + cbn [tab_get neqb Rops]. rewrite IH.
      destruct (Reqb k T') eqn:E2; [|reflexivity].
      apply Reqb_true in E2; subst T'. rewrite Reqb_false in E.
      destruct (Reqb T k) eqn:E3; [apply Reqb_true in E3; congruence|reflexivity].
Qed.

(* what a successful merge of the other table yields: other's value where it
   has one (last wins), the earlier value elsewhere *)
Fixpoint last_get (t : list (R * R)) (T : R) : option R :=
  match t with
  | [] => None
  | (k, v) :: r => match last_get r T with
                   | Some x => Some x
                   | None => if Reqb k T then Some v else None
                   end
  end.

Theorem merge_tab_lookup self other ow : forall merged t,
  mergeR self merged other ow = Ok t ->
  forall T, tgetR t T = match last_get other T with
                         | Some v => Some v
                         | None => tgetR merged T
                         end.
Proof.
  induction other as [|[k v] other IH]; intros merged t H T; simpl in *.
  - inversion H; subst. reflexivity.
  - match type of H with (if ?c then _ else _) = _ => destruct c; [discriminate|] end.
    rewrite (IH _ _ H T). destruct (last_get other T); auto.
    rewrite tab_get_set. destruct (Reqb k T); reflexivity.
Qed.

(* ReadOnlyDataError and IncompleteDataError leave the correlation unchanged *)
Lemma construct_errs pts rng H S Tref e :
  construct (K:=Rops) pts rng H S Tref = Raise e -> e = ValueErr \/ e = AssertErr.
Proof.
  unfold construct. destruct (sort_pts pts) as [|[t0 c0] rest]; [intros E; inversion E; auto|].
  destruct (last rest (t0, c0)) as [tn cn].
  destruct rng as [[lo hi]|]; simpl;
    repeat match goal with |- context [if ?b then _ else _] => destruct b end;
    intros E; inversion E; auto.
Qed.

Lemma inc_setup_errs (i : @inc Rops) e :
  inc_setup i = Raise e -> e = ValueErr \/ e = AssertErr.
Proof.
  unfold inc_setup. destruct (i_range i) as [[lo hi]|]; simpl.
  - destruct (Rltb hi lo); simpl; [intros E; inversion E; auto|].
    destruct (i_tab i); [discriminate|].
    destruct (construct _ _ _ _ _) eqn:C; [discriminate|].
    intros E; inversion E; subst. eapply construct_errs; eauto.
  - destruct (i_tab i); [discriminate|].
    destruct (construct _ _ _ _ _) eqn:C; [discriminate|].
    intros E; inversion E; subst. eapply construct_errs; eauto.
Qed.

Section U.
Variables splint quadS lnr : R -> R -> R.
Variable isclose : R -> R -> bool.
Notation upd := (corr_update (K:=Rops) splint quadS lnr isclose).

Theorem update_rejection_atomic self other ow e :
  snd (upd self other ow) = Some e -> e = ReadOnlyData \/ e = IncompleteData ->
  fst (upd self other ow) = self.
Proof.
  unfold corr_update.
  destruct (match i_tab other with [] => _ | _ => _ end) as [tab|e1]; [|reflexivity].
  match goal with |- context [match ?r with Ok _ => _ | Raise _ => _ end] =>
    destruct r as [[H S0]|e2] end; [|reflexivity].
  destruct (inc_setup _) as [r|e3] eqn:E3; simpl; [discriminate|].
  intros E Hk. inversion E; subst.
  apply inc_setup_errs in E3. destruct E3, Hk; congruence.
Qed.

(* a successful update stores the union range, keeps T_ref, and the merged table *)
Theorem update_ok_shape self other ow new :
  upd self other ow = (new, None) ->
  i_Tref new = i_Tref self
  /\ i_range new = range_union (i_range self) (i_range other)
  /\ (i_tab other = [] -> i_tab new = i_tab self)
  /\ (i_H other = None -> i_S other = None -> i_H new = i_H self /\ i_S new = i_S self).
Proof.
  unfold corr_update.
  destruct (i_tab other) as [|p ps] eqn:Et.
  - destruct (isSome (i_H other) || isSome (i_S other)) eqn:Eh.
    + match goal with |- context [match ?r with Ok _ => _ | Raise _ => _ end] =>
        destruct r as [[H S0]|e2] end; [|discriminate].
      destruct (inc_setup _); [|discriminate]. intros E; inversion E; subst; simpl.
      split; [reflexivity|]. split; [reflexivity|]. split; [auto|].
      intros A B; rewrite A, B in Eh; discriminate.
    + destruct (inc_setup _); [|discriminate]. intros E; inversion E; subst; simpl.
      split; [reflexivity|]. split; [reflexivity|]. split; auto.
  - destruct (merge_tab _ _ _ _) as [tab|e1]; [|discriminate].
    destruct (isSome (i_H other) || isSome (i_S other)) eqn:Eh.
    + match goal with |- context [match ?r with Ok _ => _ | Raise _ => _ end] =>
        destruct r as [[H S0]|e2] end; [|discriminate].
      destruct (inc_setup _); [|discriminate]. intros E; inversion E; subst; simpl.
      split; [reflexivity|]. split; [reflexivity|]. split; [discriminate|].
      intros A B; rewrite A, B in Eh; discriminate.
    + destruct (inc_setup _); [|discriminate]. intros E; inversion E; subst; simpl.
      split; [reflexivity|]. split; [reflexivity|]. split; [discriminate|auto].
Qed.

(* the merged table of a successful update: other's datum where given *)
Theorem update_table_is_union self other ow new :
  upd self other ow = (new, None) -> i_tab other <> [] ->
  forall T, tgetR (i_tab new) T = match last_get (i_tab other) T with
                                   | Some v => Some v
                                   | None => tgetR (i_tab self) T
                                   end.
Proof.
  unfold corr_update. intros H Hne.
  destruct (i_tab other) as [|p ps] eqn:Et; [contradiction|].
  destruct (merge_tab _ _ _ _) as [tab|e1] eqn:Em; [|discriminate].
  assert (i_tab new = tab) as ->.
  { match type of H with context [match ?r with Ok _ => _ | Raise _ => _ end] =>
      destruct r as [[H' S0]|e2] end; [|discriminate].
    destruct (inc_setup _); [|discriminate]. inversion H; reflexivity. }
  intros T. eapply merge_tab_lookup; eauto.
Qed.
End U.

(* ---------- library level ---------- *)
Notation ownR := (own_groups (K:=Rops)).
Notation lgetR := (lib_get (K:=Rops)).

Lemma lib_get_app l g c g' :
  lgetR (l ++ [(g, c)]) g' = match lgetR l g' with
                              | Some x => Some x
                              | None => if str_eqb g g' then Some c else None
                              end.
Proof.
  induction l as [|[k v] l IH]; simpl; auto.
  destruct (str_eqb k g'); auto.
Qed.

(* a file naming one group twice (after canonicalisation) is rejected *)
Theorem duplicate_group_rejected gs : forall acc g c1 c2 pre mid post,
  gs = pre ++ (g, c1) :: mid ++ (g, c2) :: post ->
  ownR gs acc = Raise KeyErr.
Proof.
  induction gs as [|[k c] gs IH]; intros acc g c1 c2 pre mid post E.
  - destruct pre; discriminate.
  - simpl. destruct (lgetR acc k) eqn:Ea; [reflexivity|].
    destruct pre as [|p pre]; simpl in E; inversion E; subst.
    + (* k = g: later occurrence meets it in acc *)
      clear IH E.
      assert (G : forall gs' acc', lgetR acc' g <> None ->
                  In g (map fst gs') -> ownR gs' acc' = Raise KeyErr).
      { induction gs' as [|[k' c'] gs' IHg]; intros acc' Hin Hg; [destruct Hg|].
        simpl. destruct (lgetR acc' k') eqn:E'; [reflexivity|].
        destruct Hg as [Hg|Hg].
        - simpl in Hg; subst k'. congruence.
        - apply IHg; auto. rewrite lib_get_app.
          destruct (lgetR acc' g); [discriminate|]. contradiction. }
      apply G.
      * rewrite lib_get_app, Ea, str_eqb_refl. discriminate.
      * rewrite map_app. apply in_or_app. right. left. reflexivity.
    + eapply IH. reflexivity.
Qed.

Theorem distinct_groups_accepted gs : forall acc,
  NoDup (map fst gs) -> (forall g, In g (map fst gs) -> lgetR acc g = None) ->
  ownR gs acc = Ok (acc ++ gs).
Proof.
  induction gs as [|[k c] gs IH]; intros acc ND Hacc; simpl.
  - rewrite app_nil_r. reflexivity.
  - rewrite (Hacc k) by (left; reflexivity).
    inversion ND as [|? ? Hn ND']; subst.
    rewrite IH; auto.
    + rewrite <- app_assoc. reflexivity.
    + intros g Hg. rewrite lib_get_app, (Hacc g) by (right; exact Hg).
      destruct (str_eqb k g) eqn:E; auto. apply str_eqb_eq in E. subst. contradiction.
Qed.

(* a conflicting datum (present here with a different value, no overwrite)
   is rejected as soon as it is met *)
Theorem merge_tab_conflict_head self merged T v m s rest :
  tgetR self T = Some s -> tgetR merged T = Some m -> v <> m ->
  mergeR self merged ((T, v) :: rest) false = Raise ReadOnlyData.
Proof.
  intros Hs Hm Hne. cbn [merge_tab]. rewrite Hs, Hm.
  cbn [neqb Rops negb andb].
  destruct (Reqb v m) eqn:E; [apply Reqb_true in E; contradiction|reflexivity].
Qed.

(* with overwrite nothing is ever rejected at table level *)
Theorem merge_tab_overwrite self other : forall merged,
  exists t, mergeR self merged other true = Ok t.
Proof.
  induction other as [|[T v] other IH]; intros merged; cbn [merge_tab negb andb]; eauto.
Qed.

(* ---------- the merge does not depend on the order of the files (table and range) ---------- *)
(* the other table's data agree with what is already there *)
Definition compatT (s o : list (R * R)) : Prop :=
  forall T v sv, In (T, v) o -> tgetR s T = Some sv -> v = sv.

Lemma merge_tab_ok_gen s o : forall merged,
  NoDup (map fst o) -> (forall T, In T (map fst o) -> tgetR merged T = tgetR s T) ->
  ((exists t, mergeR s merged o false = Ok t) <-> compatT s o).
Proof.
  induction o as [|[T v] o IH]; intros merged Hn Hinv.
  - split; [intros _ T v sv []|intros _; exists merged; reflexivity].
  - inversion Hn as [|? ? Hnot Hn']; subst.
    assert (Hinv' : forall T', In T' (map fst o) -> tgetR (tsetR merged T v) T' = tgetR s T').
    { intros T' HT'. rewrite tab_get_set. destruct (Reqb T T') eqn:E.
      - apply Reqb_true in E. subst. contradiction.
      - apply Hinv. right. exact HT'. }
    cbn [merge_tab negb andb]. rewrite (Hinv T) by (left; reflexivity).
    destruct (tgetR s T) as [sv|] eqn:Es.
    + cbn [neqb Rops]. destruct (Reqb v sv) eqn:Ev; cbn [negb].
      * apply Reqb_true in Ev. subst sv. rewrite (IH _ Hn' Hinv'). split.
        -- intros C T' v' sv' [H|H] Hs; [inversion H; subst; congruence|eapply C; eauto].
        -- intros C T' v' sv' H Hs. eapply C; [right; exact H|exact Hs].
      * apply Reqb_false in Ev. split; [intros [t Ht]; discriminate|].
        intros C. exfalso. apply Ev. eapply C; [left; reflexivity|exact Es].
    + rewrite (IH _ Hn' Hinv'). split.
      * intros C T' v' sv' [H|H] Hs; [inversion H; subst; congruence|eapply C; eauto].
      * intros C T' v' sv' H Hs. eapply C; [right; exact H|exact Hs].
Qed.

Theorem merge_tab_ok_iff s o : NoDup (map fst o) ->
  ((exists t, mergeR s s o false = Ok t) <-> compatT s o).
Proof. intros Hn. apply merge_tab_ok_gen; auto. Qed.

Lemma last_get_in o T v : last_get o T = Some v -> In (T, v) o.
Proof.
  induction o as [|[k x] o IH]; simpl; [discriminate|].
  destruct (last_get o T) as [y|] eqn:E.
  - intros H; inversion H; subst. right. apply IH. reflexivity.
  - destruct (Reqb k T) eqn:Ek; [|discriminate]. intros H; inversion H; subst. apply Reqb_true in Ek. subst. left. reflexivity.
Qed.

Lemma in_last_get o T v : NoDup (map fst o) -> In (T, v) o -> last_get o T = Some v.
Proof.
  induction o as [|[k x] o IH]; intros Hn Hin; [destruct Hin|]. simpl.
  inversion Hn as [|? ? Hnot Hn']; subst. destruct Hin as [H|H].
  - inversion H; subst. destruct (last_get o T) as [y|] eqn:E.
    + exfalso. apply Hnot. apply last_get_in in E. apply (in_map fst) in E. exact E.
    + rewrite Reqb_refl. reflexivity.
  - rewrite (IH Hn' H). reflexivity.
Qed.

(* the merged Cp table is the same map whichever of two files is merged first *)
Theorem table_order_free a x y ax axy ay ayx :
  NoDup (map fst x) -> NoDup (map fst y) ->
  mergeR a a x false = Ok ax -> mergeR ax ax y false = Ok axy ->
  mergeR a a y false = Ok ay -> mergeR ay ay x false = Ok ayx ->
  forall T, tgetR axy T = tgetR ayx T.
Proof.
  intros Nx Ny H1 H2 H3 H4 T.
  rewrite (merge_tab_lookup _ _ _ _ _ H2 T), (merge_tab_lookup _ _ _ _ _ H1 T).
  rewrite (merge_tab_lookup _ _ _ _ _ H4 T), (merge_tab_lookup _ _ _ _ _ H3 T).
  destruct (last_get y T) as [vy|] eqn:Ey, (last_get x T) as [vx|] eqn:Ex; try reflexivity.
  f_equal.
  assert (C : compatT ax y) by (apply (merge_tab_ok_iff ax y Ny); eauto).
  apply (C T vy vx (last_get_in _ _ _ Ey)).
  rewrite (merge_tab_lookup _ _ _ _ _ H1 T), Ex. reflexivity.
Qed.

(* ... and whether the merge is accepted does not depend on the order either *)
Definition compatXY (x y : list (R * R)) : Prop :=
  forall T vx vy, In (T, vx) x -> In (T, vy) y -> vx = vy.

Lemma compat_after a x ax y : NoDup (map fst x) -> mergeR a a x false = Ok ax ->
  (compatT ax y <-> compatT a y /\ compatXY x y).
Proof.
  intros Nx H1. split.
  - intros C. split.
    + intros T v sv Hin Hs. destruct (last_get x T) as [vx|] eqn:Ex.
      * assert (vx = sv).
        { assert (Cx : compatT a x) by (apply (merge_tab_ok_iff a x Nx); eauto).
          eapply Cx; [eapply last_get_in; eauto|exact Hs]. }
        subst. eapply C; [exact Hin|]. rewrite (merge_tab_lookup _ _ _ _ _ H1 T), Ex. reflexivity.
      * eapply C; [exact Hin|]. rewrite (merge_tab_lookup _ _ _ _ _ H1 T), Ex. exact Hs.
    + intros T vx vy Hx Hy. symmetry. eapply C; [exact Hy|].
      rewrite (merge_tab_lookup _ _ _ _ _ H1 T), (in_last_get _ _ _ Nx Hx). reflexivity.
  - intros [Ca Cxy] T v sv Hin Hs. rewrite (merge_tab_lookup _ _ _ _ _ H1 T) in Hs.
    destruct (last_get x T) as [vx|] eqn:Ex.
    + inversion Hs; subst. symmetry. eapply Cxy; [eapply last_get_in; eauto|exact Hin].
    + eapply Ca; eauto.
Qed.

Theorem table_acceptance_order_free a x y :
  NoDup (map fst x) -> NoDup (map fst y) ->
  ((exists ax axy, mergeR a a x false = Ok ax /\ mergeR ax ax y false = Ok axy) <->
   (exists ay ayx, mergeR a a y false = Ok ay /\ mergeR ay ay x false = Ok ayx)).
Proof.
  intros Nx Ny.
  assert (G : forall p q, NoDup (map fst p) -> NoDup (map fst q) ->
    ((exists ap apq, mergeR a a p false = Ok ap /\ mergeR ap ap q false = Ok apq) <->
     (compatT a p /\ compatT a q /\ compatXY p q))).
  { intros p q Np Nq. split.
    - intros (ap & apq & H1 & H2).
      assert (C1 : compatT a p) by (apply (merge_tab_ok_iff a p Np); eauto).
      assert (C2 : compatT ap q) by (apply (merge_tab_ok_iff ap q Nq); eauto).
      apply (compat_after a p ap q Np H1) in C2. tauto.
    - intros (C1 & C2 & C3).
      destruct (proj2 (merge_tab_ok_iff a p Np) C1) as [ap H1].
      assert (C : compatT ap q) by (apply (compat_after a p ap q Np H1); tauto).
      destruct (proj2 (merge_tab_ok_iff ap q Nq) C) as [apq H2]. eauto. }
  rewrite (G x y Nx Ny), (G y x Ny Nx). unfold compatXY. split; intros (A & B & C); (split; [|split]); auto;
    intros T v1 v2 H1 H2; symmetry; eapply C; eauto.
Qed.

(* the valid range of the merged correlation is the union, in any order *)
Lemma Rleb_total a b : Rleb a b = true \/ Rleb b a = true.
Proof. unfold Rleb. destruct (Rle_dec a b), (Rle_dec b a); auto. exfalso. lra. Qed.

Theorem range_union_order_free (a x y : option (R * R)) :
  range_union (K:=Rops) (range_union (K:=Rops) a x) y = range_union (K:=Rops) (range_union (K:=Rops) a y) x.
Proof.
  destruct a as [[a1 a2]|], x as [[x1 x2]|], y as [[y1 y2]|]; simpl; try reflexivity;
    unfold nmin, nmax; simpl; unfold Rleb;
    repeat match goal with
           | |- context [Rle_dec ?p ?q] => destruct (Rle_dec p q)
           | H : context [Rle_dec ?p ?q] |- _ => destruct (Rle_dec p q)
           end;
    try reflexivity; apply f_equal; apply f_equal2; lra.
Qed.

(* ---------- reference values: files sharing one reference temperature ---------- *)
From PG Require Import Thermo.RawData_proofs.
Section Refs.
Variables splint quadS : R -> R -> R.
Variable isclose : R -> R -> bool.
Hypothesis splint_refl : forall a, splint a a = 0.
Hypothesis quadS_refl : forall a, quadS a a = 0.
Notation updR := (corr_update (K:=Rops) splint quadS lnrR isclose).

(* what the merged reference enthalpy is: the other file's value where it gives one (after the tolerance check against the
   value already there), the value already there otherwise.  Positive temperatures: every constructed correlation starts above 0 K. *)
Theorem update_H_same_Tref self other new :
  updR self other false = (new, None) -> i_Tref other = i_Tref self ->
  (forall pts rg H S T c, construct (K:=Rops) pts rg H S T = Ok c -> 0 < r_lo c) ->
  i_H new = match i_H other with Some h => Some h | None => i_H self end
  /\ (forall h h0, i_H other = Some h -> i_H self = Some h0 -> isclose h h0 = true).
Proof.
  intros U ET Hpos. unfold corr_update in U.
  destruct (match i_tab other with [] => _ | _ => _ end) as [tab|e1]; [|discriminate].
  destruct (i_H other) as [h|] eqn:EH.
  - (* other gives H *)
    cbn [isSome orb] in U.
    set (test := Build_inc (K:=Rops) (Some h) (i_S other) tab (i_Tref other) (range_union (K:=Rops) (i_range self) (i_range other))) in *.
    destruct (inc_setup test) as [r|e2] eqn:ES; [|discriminate].
    assert (NH : ev_val (inc_h (K:=Rops) splint test r (i_Tref self)) = Ok h).
    { unfold inc_h. cbn [i_H test]. rewrite <- ET.
      destruct r as [c|].
      - unfold inc_setup in ES. cbn [i_range i_tab i_H i_S i_Tref test dflt] in ES.
        assert (C : construct (K:=Rops) tab (range_union (K:=Rops) (i_range self) (i_range other)) h (dflt (K:=Rops) (i_S other)) (i_Tref other) = Ok c).
        { destruct (range_union (K:=Rops) (i_range self) (i_range other)) as [[lo hi]|]; cbn [bind] in ES;
            [destruct (nltb Rops hi lo); cbn [bind] in ES; [discriminate|]|];
            (destruct tab; [discriminate|]);
            match type of ES with match ?x with _ => _ end = _ => destruct x eqn:EC; inversion ES; subst; reflexivity end. }
        rewrite (h_at_Tref splint splint_refl _ _ _ _ _ _ C (Hpos _ _ _ _ _ _ C)). reflexivity.
      - cbn [i_Tref test]. unfold neqb, Rops. rewrite Reqb_refl. reflexivity. }
    assert (X : forall S0r : res (option R),
              (let refs := bind (bind (ev_val (inc_h (K:=Rops) splint test r (i_Tref self)))
                                (fun nh => match i_H self with
                                           | Some h1 => if negb false && negb (isclose nh h1) then Raise ReadOnlyData else Ok (Some nh)
                                           | None => Ok (Some nh) end))
                                (fun H => bind S0r (fun S0 => Ok (H, S0))) in refs)
              = match i_H self with
                | Some h1 => if isclose h h1 then bind S0r (fun S0 => Ok (Some h, S0)) else Raise ReadOnlyData
                | None => bind S0r (fun S0 => Ok (Some h, S0))
                end).
    { intros S0r. cbv zeta. rewrite NH. cbn [bind negb andb]. destruct (i_H self) as [h1|]; [|reflexivity].
      destruct (isclose h h1); reflexivity. }
    cbv zeta in X. rewrite X in U. clear X.
    destruct (i_H self) as [h0|] eqn:EH0.
    + destruct (isclose h h0) eqn:EC; [|discriminate].
      match type of U with context [bind ?x _] => destruct x as [S0|e3]; cbn [bind] in U; [|discriminate] end.
      match type of U with match ?x with Ok _ => _ | Raise _ => _ end = _ => destruct x; [|discriminate] end.
      inversion U; subst. cbn [i_H]. split; [reflexivity|].
      intros h' h0' E1 E2. inversion E1; inversion E2; subst. exact EC.
    + match type of U with context [bind ?x _] => destruct x as [S0|e3]; cbn [bind] in U; [|discriminate] end.
      match type of U with match ?x with Ok _ => _ | Raise _ => _ end = _ => destruct x; [|discriminate] end.
      inversion U; subst. cbn [i_H]. split; [reflexivity|]. intros; discriminate.
  - (* other gives no H *)
    destruct (i_S other) as [s|] eqn:ESo.
    + cbn [isSome orb] in U.
      match type of U with context [inc_setup ?t] => destruct (inc_setup t) as [r|e2] eqn:ES; [|discriminate] end.
      cbn [bind] in U.
      match type of U with context [bind ?x _] => destruct x as [S0|e3]; cbn [bind] in U; [|discriminate] end.
      match type of U with match ?x with Ok _ => _ | Raise _ => _ end = _ => destruct x; [|discriminate] end.
      inversion U; subst. cbn [i_H]. split; [reflexivity|]. intros; discriminate.
    + cbn [isSome orb] in U.
      match type of U with match ?x with Ok _ => _ | Raise _ => _ end = _ => destruct x; [|discriminate] end.
      inversion U; subst. cbn [i_H]. split; [reflexivity|]. intros; discriminate.
Qed.

(* ... and the merged reference entropy, in the same way *)
Theorem update_S_same_Tref self other new :
  updR self other false = (new, None) -> i_Tref other = i_Tref self ->
  (forall pts rg H S T c, construct (K:=Rops) pts rg H S T = Ok c -> 0 < r_lo c) ->
  i_S new = match i_S other with Some s => Some s | None => i_S self end
  /\ (forall s s0, i_S other = Some s -> i_S self = Some s0 -> isclose s s0 = true).
Proof.
  intros U ET Hpos. unfold corr_update in U.
  destruct (match i_tab other with [] => _ | _ => _ end) as [tab|e1]; [|discriminate].
  destruct (i_S other) as [s|] eqn:ESo.
  - (* other gives S *)
    assert (B : isSome (i_H other) || isSome (Some s) = true) by (destruct (i_H other); reflexivity).
    rewrite B in U. clear B.
    set (test := Build_inc (K:=Rops) (i_H other) (Some s) tab (i_Tref other) (range_union (K:=Rops) (i_range self) (i_range other))) in *.
    destruct (inc_setup test) as [r|e2] eqn:ES; [|discriminate].
    assert (NS : ev_val (inc_s (K:=Rops) quadS lnrR test r (i_Tref self)) = Ok s).
    { unfold inc_s. cbn [i_S test]. rewrite <- ET.
      destruct r as [c|].
      - unfold inc_setup in ES. cbn [i_range i_tab i_H i_S i_Tref test dflt] in ES.
        assert (C : construct (K:=Rops) tab (range_union (K:=Rops) (i_range self) (i_range other)) (dflt (K:=Rops) (i_H other)) s (i_Tref other) = Ok c).
        { destruct (range_union (K:=Rops) (i_range self) (i_range other)) as [[lo hi]|]; cbn [bind] in ES;
            [destruct (nltb Rops hi lo); cbn [bind] in ES; [discriminate|]|];
            (destruct tab; [discriminate|]);
            match type of ES with match ?x with _ => _ end = _ => destruct x eqn:EC; inversion ES; subst; reflexivity end. }
        rewrite (s_at_Tref quadS quadS_refl _ _ _ _ _ _ C (Hpos _ _ _ _ _ _ C)). reflexivity.
      - cbn [i_Tref test]. unfold neqb, Rops. rewrite Reqb_refl. reflexivity. }
    cbv zeta in U.
    match type of U with (match bind ?x _ with Ok _ => _ | Raise _ => _ end) = _ => destruct x as [Hv|e3]; cbn [bind] in U; [|discriminate] end.
    rewrite NS in U. cbn [bind negb andb] in U.
    destruct (i_S self) as [s0|] eqn:ES1.
    + destruct (isclose s s0) eqn:EC; cbn [negb bind] in U; [|discriminate].
      match type of U with match ?x with Ok _ => _ | Raise _ => _ end = _ => destruct x; [|discriminate] end.
      inversion U; subst. cbn [i_S]. split; [reflexivity|].
      intros s' s0' E1 E2. inversion E1; inversion E2; subst. exact EC.
    + cbn [bind] in U.
      match type of U with match ?x with Ok _ => _ | Raise _ => _ end = _ => destruct x; [|discriminate] end.
      inversion U; subst. cbn [i_S]. split; [reflexivity|]. intros; discriminate.
  - (* other gives no S *)
    destruct (i_H other) as [h|] eqn:EHo.
    + cbn [isSome orb] in U. cbv zeta in U.
      match type of U with context [inc_setup ?t] => destruct (inc_setup t) as [r|e2] eqn:ES; [|discriminate] end.
      match type of U with (match bind ?x _ with Ok _ => _ | Raise _ => _ end) = _ => destruct x as [Hv|e3]; cbn [bind] in U; [|discriminate] end.
      match type of U with match ?x with Ok _ => _ | Raise _ => _ end = _ => destruct x; [|discriminate] end.
      inversion U; subst. cbn [i_S]. split; [reflexivity|]. intros; discriminate.
    + cbn [isSome orb] in U.
      match type of U with match ?x with Ok _ => _ | Raise _ => _ end = _ => destruct x; [|discriminate] end.
      inversion U; subst. cbn [i_S]. split; [reflexivity|]. intros; discriminate.
Qed.
End Refs.

(* ---------- "merging the same data twice changes nothing" ---------- *)
Lemma tab_set_same t T v : tgetR t T = Some v -> tsetR t T v = t.
Proof.
  induction t as [|[k x] t IH]; cbn [tab_get tab_set neqb Rops]; [discriminate|].
  destruct (Reqb k T) eqn:E; intros H.
  - inversion H; subst. reflexivity.
  - rewrite (IH H). reflexivity.
Qed.

Lemma merge_tab_same s o : forall merged, (forall T v, In (T, v) o -> tgetR merged T = Some v) ->
  mergeR s merged o false = Ok merged.
Proof.
  induction o as [|[T v] o IH]; intros merged H; cbn [merge_tab]; [reflexivity|].
  rewrite (H T v (or_introl eq_refl)). cbn [negb andb neqb Rops]. rewrite Reqb_refl.
  destruct (tgetR s T); cbn [negb]; rewrite (tab_set_same _ _ _ (H T v (or_introl eq_refl)));
    apply IH; intros T' v' Hin; apply H; right; exact Hin.
Qed.

(* the table after a second merge of the same file is the same table (not just the same map) *)
Theorem table_idempotent a x ax : NoDup (map fst x) ->
  mergeR a a x false = Ok ax -> mergeR ax ax x false = Ok ax.
Proof.
  intros Nx H. apply merge_tab_same. intros T v Hin.
  rewrite (merge_tab_lookup _ _ _ _ _ H T), (in_last_get _ _ _ Nx Hin). reflexivity.
Qed.

Theorem range_union_idempotent (a x : option (R * R)) :
  range_union (K:=Rops) (range_union (K:=Rops) a x) x = range_union (K:=Rops) a x.
Proof.
  destruct a as [[a1 a2]|], x as [[x1 x2]|]; simpl; try reflexivity;
    unfold nmin, nmax; simpl; unfold Rleb;
    repeat match goal with
           | |- context [Rle_dec ?p ?q] => destruct (Rle_dec p q)
           end;
    try reflexivity; try (apply f_equal; apply f_equal2; lra).
Qed.

Section Idem.
Variables splint quadS lnr : R -> R -> R.
Variable isclose : R -> R -> bool.
Hypothesis isclose_refl : forall a, isclose a a = true.
Notation upd := (corr_update (K:=Rops) splint quadS lnr isclose).

Theorem update_idempotent self other new : NoDup (map fst (i_tab other)) ->
  upd self other false = (new, None) -> upd new other false = (new, None).
Proof.
  intros Nd U.
  (* components of the first merge *)
  unfold corr_update in U.
  set (rng := range_union (i_range self) (i_range other)) in *.
  destruct (match i_tab other with [] => Ok (i_tab self) | _ :: _ => merge_tab (i_tab self) (i_tab self) (i_tab other) false end)
    as [tab|e1] eqn:Et; [|discriminate].
  match type of U with context [match ?r with Ok _ => _ | Raise _ => _ end] => destruct r as [[H S0]|e2] eqn:Er end; [|discriminate].
  destruct (inc_setup (Build_inc (K:=Rops) H S0 tab (i_Tref self) rng)) as [r0|e3] eqn:Es; [|discriminate].
  inversion U as [Enew]. clear U.
  (* the second merge *)
  assert (Et' : (match i_tab other with [] => Ok tab | _ :: _ => merge_tab tab tab (i_tab other) false end) = Ok tab).
  { destruct (i_tab other) as [|p ps] eqn:Eo; [reflexivity|]. try rewrite Eo in Et; try rewrite Eo in Nd. apply (table_idempotent (i_tab self)); assumption. }
  subst new. unfold corr_update. cbn [i_range i_tab i_H i_S i_Tref]. fold rng.
  unfold rng. rewrite !range_union_idempotent. fold rng. rewrite Et'.
  destruct (isSome (i_H other) || isSome (i_S other)); [|inversion Er; subst; rewrite Es; reflexivity]. cbv zeta in Er |- *.
  revert Er.
  match goal with |- context [inc_setup ?x] => destruct (inc_setup x) as [r|e] end; [|discriminate].
  destruct (i_H other) as [ho|], (i_S other) as [so|]; cbn [bind];
    repeat match goal with |- context [ev_val ?x] => destruct (ev_val x) as [?v|?e]; cbn [bind] end;
    try discriminate;
    destruct (i_H self) as [h|], (i_S self) as [s0|]; cbn [negb andb bind];
    repeat match goal with |- context [isclose ?a ?b] => destruct (isclose a b); cbn [negb bind] end;
    try discriminate; intros Er; inversion Er; subst; rewrite ?isclose_refl; cbn [negb andb bind]; 
    match goal with |- context [inc_setup ?x] => let E := fresh in assert (E : inc_setup x = Ok r0) by exact Es; rewrite E end; reflexivity.
Qed.
End Idem.
