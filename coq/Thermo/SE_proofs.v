From Coq Require Import List NArith Bool Reals Lra Permutation.
From PG Require Import Common.Strs Common.Strs_proofs Thermo.Num Thermo.Estimate.
Import ListNotations.
Local Open Scope R_scope.

Notation dotR := (dot (K:=Rops)).
Notation quadR := (quad_form (K:=Rops)).
Notation placeR := (place (K:=Rops)).
Notation set_nthR := (set_nth (K:=Rops)).

Definition scale (k : R) (x : list R) : list R := map (Rmult k) x.

Lemma dot_scale_l k a : forall b, dotR (scale k a) b = k * dotR a b.
Proof.
  induction a as [|x a IH]; intros [|y b]; unfold dot in *; simpl in *; try lra.
  rewrite IH. lra.
Qed.

Lemma dot_scale_r k a : forall b, dotR a (scale k b) = k * dotR a b.
Proof.
  induction a as [|x a IH]; intros [|y b]; unfold dot in *; simpl in *; try lra.
  rewrite IH. lra.
Qed.

Theorem quad_scale k x M : quadR (scale k x) M = k * k * quadR x M.
Proof.
  unfold quad_form. rewrite dot_scale_l.
  replace (map (fun row => dotR row (scale k x)) M)
    with (scale k (map (fun row => dotR row x) M)).
  - rewrite dot_scale_r. lra.
  - unfold scale. rewrite map_map. apply map_ext. intros row.
    symmetry. apply dot_scale_r.
Qed.

Lemma set_nth_scale k i c x :
  set_nthR i (k * c) (scale k x) = scale k (set_nthR i c x).
Proof.
  revert i; induction x as [|y x IH]; intros [|i]; simpl; auto.
  rewrite IH. reflexivity.
Qed.

Definition scale_map (k : R) (g : list (str * R)) : list (str * R) :=
  map (fun dc => (fst dc, k * snd dc)) g.

Lemma place_scale k basis g : forall x,
  placeR basis (scale_map k g) (scale k x) =
  match placeR basis g x with Ok v => Ok (scale k v) | Raise e => Raise e end.
Proof.
  induction g as [|[d c] g IH]; intros x; simpl; auto.
  destruct (index_of d basis) as [i|]; auto.
  rewrite set_nth_scale. apply IH.
Qed.

Lemma scale_zeros k n : scale k (repeat 0 n) = repeat 0 n.
Proof. induction n; simpl; auto. rewrite IHn. f_equal. lra. Qed.

Theorem count_vector_scale k basis g :
  count_vector (K:=Rops) basis (scale_map k g) =
  match count_vector (K:=Rops) basis g with
  | Ok v => Ok (scale k v) | Raise e => Raise e end.
Proof.
  unfold count_vector. simpl. rewrite <- (scale_zeros k (length basis)) at 1.
  apply place_scale.
Qed.

(* SE^2 scales with k^2, hence SE with |k| *)
Theorem se_square_scale k rmse basis M g :
  se_square (K:=Rops) rmse basis M (scale_map k g) =
  match se_square (K:=Rops) rmse basis M g with
  | Ok v => Ok (k * k * v) | Raise e => Raise e end.
Proof.
  unfold se_square. rewrite count_vector_scale.
  destruct (count_vector (K:=Rops) basis g) as [x|e]; auto.
  rewrite quad_scale. f_equal. simpl. lra.
Qed.

Theorem se_value rmse q : 0 <= q -> sqrt (rmse * rmse * q) = Rabs rmse * sqrt q.
Proof.
  intros Hq. rewrite sqrt_mult; [|nra|auto].
  f_equal. replace (rmse * rmse) with (Rsqr rmse) by (unfold Rsqr; lra).
  apply sqrt_Rsqr_abs.
Qed.

Theorem se_nonneg x : 0 <= sqrt x.
Proof. apply sqrt_pos. Qed.

Theorem se_scaling k rmse q : 0 <= q ->
  sqrt (rmse * rmse * (k * k * q)) = Rabs k * sqrt (rmse * rmse * q).
Proof.
  intros Hq. replace (rmse * rmse * (k * k * q)) with (k * k * (rmse * rmse * q)) by lra.
  apply se_value. nra.
Qed.

(* a descriptor outside the basis is an error, never ignored *)
Theorem out_of_basis_error basis g : forall x d c,
  In (d, c) g -> index_of d basis = None ->
  placeR basis g x = Raise ValueErr.
Proof.
  induction g as [|[d' c'] g IH]; intros x d c Hin Hn; [destruct Hin|].
  simpl. destruct Hin as [E|Hin].
  - inversion E; subst. rewrite Hn. reflexivity.
  - destruct (index_of d' basis); [eapply IH; eauto|reflexivity].
Qed.

(* the order of the mapping does not matter (distinct keys) *)
Lemma set_nth_comm i j c c' (x : list R) : i <> j ->
  set_nthR i c (set_nthR j c' x) = set_nthR j c' (set_nthR i c x).
Proof.
  revert i j; induction x as [|y x IH]; intros [|i] [|j] H; simpl; auto.
  - contradiction.
  - rewrite IH; auto.
Qed.

Lemma index_of_inj d d' basis i :
  index_of d basis = Some i -> index_of d' basis = Some i -> d = d'.
Proof.
  revert i; induction basis as [|k r IH]; intros i; simpl; [discriminate|].
  destruct (str_eqb k d) eqn:E1, (str_eqb k d') eqn:E2.
  - apply str_eqb_eq in E1, E2. intros _ _. congruence.
  - intros H1 H2. inversion H1; subst.
    destruct (index_of d' r); discriminate.
  - intros H1 H2. inversion H2; subst.
    destruct (index_of d r); discriminate.
  - destruct (index_of d r) eqn:A; [|discriminate].
    destruct (index_of d' r) eqn:B; [|discriminate].
    intros H1 H2. inversion H1; inversion H2; subst.
    apply (IH n); auto; congruence.
Qed.

Theorem place_perm basis g g' :
  Permutation g g' -> NoDup (map fst g) ->
  forall x, placeR basis g x = placeR basis g' x.
Proof.
  induction 1 as [|[d c] g g' P IH|[d c] [d' c'] g|g1 g2 g3 P1 IH1 P2 IH2];
    intros ND x; simpl; auto.
  - inversion ND; subst. destruct (index_of d basis); auto.
  - inversion ND as [|? ? Hn ND']; subst. simpl in Hn.
    destruct (index_of d' basis) as [j|] eqn:Ej, (index_of d basis) as [i|] eqn:Ei; auto.
    rewrite set_nth_comm; auto.
    intros ->. apply Hn. left. eapply index_of_inj; eauto.
  - rewrite IH1; auto. apply IH2.
    eapply Permutation_NoDup; [|exact ND]. apply Permutation_map; auto.
Qed.

Theorem se_order_free rmse basis M g g' :
  Permutation g g' -> NoDup (map fst g) ->
  se_square (K:=Rops) rmse basis M g = se_square (K:=Rops) rmse basis M g'.
Proof.
  intros P ND. unfold se_square, count_vector.
  rewrite (place_perm basis g g' P ND). reflexivity.
Qed.
