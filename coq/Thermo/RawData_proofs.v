From Coq Require Import List Bool Reals Lra Permutation Sorted.
From PG Require Import Thermo.Num Thermo.RawData.
Import ListNotations.
Local Open Scope R_scope.

Ltac rcases :=
  repeat match goal with
         | |- context [Rleb ?a ?b] => unfold Rleb at 1; destruct (Rle_dec a b)
         | |- context [Rltb ?a ?b] => unfold Rltb at 1; destruct (Rlt_dec a b)
         | |- context [Reqb ?a ?b] => unfold Reqb at 1; destruct (Req_EM_T a b)
         end.

Lemma outside_true (c : @raw Rops) T :
  T < r_lo c \/ r_hi c < T -> outside c T = true.
Proof.
  intros H. unfold outside; simpl. unfold Rltb.
  destruct (Rlt_dec T (r_lo c)); simpl; auto.
  destruct (Rlt_dec (r_hi c) T); simpl; auto. destruct H; contradiction.
Qed.

Lemma outside_false (c : @raw Rops) T :
  r_lo c <= T <= r_hi c -> outside c T = false.
Proof.
  intros H. unfold outside; simpl. unfold Rltb.
  destruct (Rlt_dec T (r_lo c)); [lra|].
  destruct (Rlt_dec (r_hi c) T); [lra|]. reflexivity.
Qed.

Section RawR.
Variable spl : R -> R.
Variable splint : R -> R -> R.
Variable quadS : R -> R -> R.
Definition lnrR (b a : R) : R := ln (b / a).

Notation construct := (construct (K:=Rops)).
Notation raw_cp := (raw_cp (K:=Rops) spl).
Notation raw_h := (raw_h (K:=Rops) splint).
Notation raw_s := (raw_s (K:=Rops) quadS lnrR).
Notation raw_g := (raw_g (K:=Rops) splint quadS lnrR).

(* what a successful construction guarantees *)
Lemma construct_inv pts range H S Tref c :
  construct pts range H S Tref = Ok c ->
  r_lo c <= Tref <= r_hi c /\ r_Tref c = Tref /\ r_H c = H /\ r_S c = S
  /\ (range = None -> r_lo c = r_minT c /\ r_hi c = r_maxT c)
  /\ (forall lo hi, range = Some (lo, hi) ->
        r_lo c = lo /\ r_hi c = hi /\ lo <= r_minT c /\ r_maxT c <= hi).
Proof.
  unfold RawData.construct. destruct (sort_pts pts) as [|[t0 c0] rest]; [discriminate|].
  destruct (last rest (t0, c0)) as [tn cn].
  destruct range as [[lo hi]|]; simpl.
  - unfold Rltb. destruct (Rlt_dec t0 lo); simpl; [discriminate|].
    destruct (Rlt_dec hi tn); simpl; [discriminate|].
    destruct (Rlt_dec Tref lo); simpl; [discriminate|].
    destruct (Rlt_dec hi Tref); simpl; [discriminate|].
    destruct (Rlt_dec hi lo); [discriminate|].
    intros E; inversion E; subst; simpl.
    repeat split; try lra; try discriminate.
    all: match goal with H0 : Some _ = Some _ |- _ => inversion H0; subst end; lra.
  - unfold Rltb. destruct (Rlt_dec Tref t0); simpl; [discriminate|].
    destruct (Rlt_dec tn Tref); simpl; [discriminate|].
    destruct (Rlt_dec tn t0); [discriminate|].
    intros E; inversion E; subst; simpl.
    repeat split; try lra; try discriminate; auto.
Qed.

Hypothesis splint_refl : forall a, splint a a = 0.
Hypothesis quadS_refl : forall a, quadS a a = 0.

Lemma lnr_refl a : a <> 0 -> lnrR a a = 0.
Proof. intros H. unfold lnrR. replace (a / a) with 1 by (field; auto). apply ln_1. Qed.

Theorem h_at_Tref pts range H S Tref c :
  construct pts range H S Tref = Ok c -> 0 < r_lo c ->
  raw_h c Tref = Ok H.
Proof.
  intros E Hlo. destruct (construct_inv _ _ _ _ _ _ E) as (Hr & HT & HH & _).
  unfold RawData.raw_h, outside. rewrite HT, HH. simpl.
  unfold Rltb at 1 2.
  destruct (Rlt_dec Tref (r_lo c)); [lra|]. destruct (Rlt_dec (r_hi c) Tref); [lra|].
  simpl. assert (Tref <> 0) by lra.
  rcases; simpl; rcases; simpl; f_equal; try rewrite splint_refl; try (field; auto); try lra.
Qed.

Theorem s_at_Tref pts range H S Tref c :
  construct pts range H S Tref = Ok c -> 0 < r_lo c ->
  raw_s c Tref = Ok S.
Proof.
  intros E Hlo. destruct (construct_inv _ _ _ _ _ _ E) as (Hr & HT & _ & HS & _).
  unfold RawData.raw_s, outside. rewrite HT, HS. simpl.
  unfold Rltb at 1 2.
  destruct (Rlt_dec Tref (r_lo c)); [lra|]. destruct (Rlt_dec (r_hi c) Tref); [lra|].
  simpl. assert (Tref <> 0) by lra.
  rcases; simpl; rcases; simpl; f_equal;
    try rewrite quadS_refl; try rewrite (lnr_refl Tref) by auto; try lra.
  all: try (assert (Tref = r_minT c) as -> by lra; rewrite lnr_refl by lra; lra).
  all: try (assert (Tref = r_maxT c) as -> by lra; rewrite lnr_refl by lra; lra).
Qed.

Theorem g_is_h_minus_s (c : @raw Rops) T h s :
  raw_h c T = Ok h -> raw_s c T = Ok s -> raw_g c T = Ok (h - s).
Proof. unfold RawData.raw_g. intros -> ->. reflexivity. Qed.

(* ---------- C06: outside the range every property raises ---------- *)
Theorem raw_outside_raises (c : @raw Rops) T :
  T < r_lo c \/ r_hi c < T ->
  raw_cp c T = Raise OutsideCorrelation /\ raw_h c T = Raise OutsideCorrelation
  /\ raw_s c T = Raise OutsideCorrelation.
Proof.
  intros H. unfold RawData.raw_cp, RawData.raw_h, RawData.raw_s.
  rewrite (outside_true c T H). auto.
Qed.

Theorem raw_inside_defined (c : @raw Rops) T :
  r_lo c <= T <= r_hi c ->
  (exists v, raw_cp c T = Ok v) /\ (exists v, raw_h c T = Ok v)
  /\ (exists v, raw_s c T = Ok v).
Proof.
  intros H. unfold RawData.raw_cp, RawData.raw_h, RawData.raw_s.
  rewrite (outside_false c T H). simpl.
  repeat split; rcases; simpl; rcases; simpl; eauto.
Qed.

(* ---------- clamping and knots ---------- *)
Theorem cp_clamped (c : @raw Rops) T :
  r_lo c <= T <= r_hi c ->
  (T < r_minT c -> raw_cp c T = Ok (r_mincp c)) /\
  (r_maxT c < T -> r_minT c <= T -> raw_cp c T = Ok (r_maxcp c)) /\
  (r_minT c <= T <= r_maxT c -> raw_cp c T = Ok (spl T)).
Proof.
  intros H. unfold RawData.raw_cp. rewrite (outside_false c T H). simpl.
  repeat split; intros; rcases; auto; lra.
Qed.

(* ---------- sorting of the supplied points ---------- *)
Definition kle (a b : R * R) : Prop := fst a <= fst b.
Notation sortR := (sort_pts (K:=Rops)).
Notation insR := (ins (K:=Rops)).

Lemma ins_perm p l : Permutation (p :: l) (insR p l).
Proof.
  induction l as [|q l IH]; simpl; auto.
  unfold Rleb. match goal with |- context [Rle_dec ?a ?b] => destruct (Rle_dec a b) end; auto.
  eapply perm_trans; [apply perm_swap|]. apply perm_skip; exact IH.
Qed.

Lemma fold_ins_perm l : forall acc,
  Permutation (l ++ acc) (fold_left (fun a p => insR p a) l acc).
Proof.
  induction l as [|p l IH]; intros acc; simpl; auto.
  eapply perm_trans; [|apply IH].
  eapply perm_trans; [apply Permutation_middle|].
  apply Permutation_app_head. apply ins_perm.
Qed.

Lemma sort_pts_perm l : Permutation l (sortR l).
Proof.
  unfold sort_pts. rewrite <- (app_nil_r l) at 1. apply fold_ins_perm.
Qed.

Lemma ins_sorted p l : Sorted kle l -> Sorted kle (insR p l).
Proof.
  induction l as [|q l IH]; simpl; intros H.
  - repeat constructor.
  - unfold Rleb. match goal with |- context [Rle_dec ?a ?b] => destruct (Rle_dec a b) as [Hle|Hnle] end.
    + inversion H as [|? ? Hs Hh]; subst. constructor; auto.
      destruct l as [|z l']; simpl.
      * constructor. exact Hle.
      * unfold Rleb. match goal with |- context [Rle_dec ?a ?b] => destruct (Rle_dec a b) end; constructor; auto.
        inversion Hh; auto.
    + constructor; auto. constructor. unfold kle. lra.
Qed.

Lemma fold_ins_sorted l : forall acc, Sorted kle acc ->
  Sorted kle (fold_left (fun a p => insR p a) l acc).
Proof.
  induction l as [|p l IH]; intros acc H; simpl; auto.
  apply IH, ins_sorted, H.
Qed.

Lemma sort_pts_sorted l : Sorted kle (sortR l).
Proof. apply fold_ins_sorted. constructor. Qed.

Lemma kle_trans : Relations_1.Transitive kle.
Proof. intros a b c; unfold kle; lra. Qed.

Lemma sorted_keys_unique l1 l2 :
  Sorted kle l1 -> Sorted kle l2 -> Permutation l1 l2 ->
  NoDup (map fst l1) -> l1 = l2.
Proof.
  intros S1 S2.
  apply Sorted_StronglySorted in S1; [|exact kle_trans].
  apply Sorted_StronglySorted in S2; [|exact kle_trans].
  revert l2 S2. induction S1 as [|x l1 S1 IH F1]; intros l2 S2 P ND.
  - apply Permutation_nil in P; auto.
  - destruct S2 as [|y l2 S2 F2].
    + apply Permutation_sym, Permutation_nil in P; discriminate.
    + assert (x = y) as ->.
      { assert (In x (y :: l2)) as I1
          by (eapply Permutation_in; [exact P|left; auto]).
        assert (In y (x :: l1)) as I2
          by (eapply Permutation_in; [apply Permutation_sym; exact P|left; auto]).
        destruct I1 as [->|I1]; auto. destruct I2 as [->|I2]; auto.
        rewrite Forall_forall in F1, F2.
        assert (fst x = fst y) as Hk
          by (apply Rle_antisym; [apply (F1 _ I2)|apply (F2 _ I1)]).
        exfalso. simpl in ND. inversion ND as [|? ? Hn _]; subst.
        apply Hn. rewrite Hk. apply in_map. exact I2. }
      f_equal. apply IH; auto.
      * eapply Permutation_cons_inv; eauto.
      * simpl in ND. inversion ND; auto.
Qed.

Theorem sort_pts_order_independent l l' :
  Permutation l l' -> NoDup (map fst l) -> sortR l = sortR l'.
Proof.
  intros P ND. apply sorted_keys_unique; try apply sort_pts_sorted.
  - eapply perm_trans; [apply Permutation_sym, sort_pts_perm|].
    eapply perm_trans; [exact P|apply sort_pts_perm].
  - eapply Permutation_NoDup; [|exact ND].
    apply Permutation_map, sort_pts_perm.
Qed.

Theorem construct_order_independent pts pts' range H S Tref :
  Permutation pts pts' -> NoDup (map fst pts) ->
  construct pts range H S Tref = construct pts' range H S Tref.
Proof.
  intros P ND. unfold RawData.construct.
  rewrite (sort_pts_order_independent _ _ P ND). reflexivity.
Qed.

Lemma last_default_irrel (l : list (R * R)) x z : l <> [] -> last l x = last l z.
Proof.
  induction l as [|p l IH]; intros H; [contradiction|].
  destruct l as [|q l]; [reflexivity|].
  change (last (q :: l) x = last (q :: l) z). apply IH. discriminate.
Qed.

Lemma last_cons (z : R * R) l x : last (z :: l) x = last l z.
Proof.
  destruct l as [|p l]; [reflexivity|].
  change (last (p :: l) x = last (p :: l) z). apply last_default_irrel. discriminate.
Qed.

Lemma strongly_sorted_bounds l : forall x,
  StronglySorted kle (x :: l) ->
  forall y, In y (x :: l) -> kle x y /\ kle y (last l x).
Proof.
  induction l as [|z l IH]; intros x SS y Hy.
  - destruct Hy as [<-|[]]. simpl. unfold kle; lra.
  - inversion SS as [|? ? SS' F]; subst.
    rewrite Forall_forall in F. rewrite last_cons.
    assert (Hz : kle z (last l z)) by (apply (IH z SS' z); left; auto).
    destruct Hy as [<-|Hy].
    + split; [unfold kle; lra|].
      eapply kle_trans; [apply F; left; reflexivity|exact Hz].
    + split; [apply F; exact Hy|]. apply (IH z SS' y Hy).
Qed.

Theorem construct_span pts range H S Tref c :
  construct pts range H S Tref = Ok c ->
  forall p, In p pts -> r_minT c <= fst p <= r_maxT c.
Proof.
  unfold RawData.construct.
  pose proof (sort_pts_sorted pts) as SS. pose proof (sort_pts_perm pts) as P.
  destruct (sortR pts) as [|[t0 c0] rest] eqn:E; [discriminate|].
  apply Sorted_StronglySorted in SS; [|exact kle_trans].
  pose proof (strongly_sorted_bounds rest (t0, c0) SS) as HB.
  assert (HP : forall p, In p pts -> In p ((t0, c0) :: rest))
    by (intros p Hp; eapply Permutation_in; eauto).
  clear SS P E.
  change (V Rops) with R in *.
  destruct (last rest (t0, c0)) as [tn cn].
  intros Hc p Hp.
  destruct (HB p (HP p Hp)) as [H1 H2].
  unfold kle in *; simpl in *.
  assert (r_minT c = t0 /\ r_maxT c = tn) as [-> ->]; [|lra].
  destruct range as [[lo hi]|]; simpl in Hc;
    repeat match type of Hc with
           | context [if ?b then _ else _] => destruct b; try discriminate
           end; inversion Hc; subst; simpl; auto.
Qed.

(* the spline contract needed here: it interpolates the data points *)
Theorem cp_at_knots pts range H S Tref c :
  construct pts range H S Tref = Ok c ->
  (forall p, In p pts -> spl (fst p) = snd p) ->
  forall p, In p pts -> r_lo c <= fst p <= r_hi c ->
  raw_cp c (fst p) = Ok (snd p).
Proof.
  intros Hc Hs p Hp Hr.
  destruct (cp_clamped c (fst p) Hr) as (_ & _ & H3).
  rewrite H3; [rewrite Hs; auto|].
  eapply construct_span; eauto.
Qed.

End RawR.
