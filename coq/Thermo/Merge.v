(* Model of ThermochemIncomplete.update (incomplete.py, after the fix of the
   presence tests: a reference value is present iff it is not None) and of
   GroupLibrary.Update / the include driver of GroupLibrary._do_load.
   A step returns the new state AND what was raised, so that "raised but the
   state changed" is expressible.  No proofs here. *)
From Coq Require Import List NArith Bool QArith Qabs.
From PG Require Import Common.Strs Thermo.Num Thermo.RawData.
Import ListNotations.

Section Merge.
Context {K : numops}.
Local Open Scope num_scope.
Notation V := (V K).
Variable splint : V -> V -> V.
Variable quadS : V -> V -> V.
Variable lnr : V -> V -> V.
Variable isclose : V -> V -> bool.      (* math.isclose(a, b, rel_tol=1e-15) *)

Notation inc := (inc (K:=K)).

Fixpoint tab_get (t : list (V * V)) (T : V) : option V :=
  match t with
  | [] => None
  | (k, v) :: r => if k =? T then Some v else tab_get r T
  end.

(* dict assignment: replace in place, or append (insertion order) *)
Fixpoint tab_set (t : list (V * V)) (T v : V) : list (V * V) :=
  match t with
  | [] => [(T, v)]
  | (k, x) :: r => if k =? T then (k, v) :: r else (k, x) :: tab_set r T v
  end.

Definition range_union (a b : option (V * V)) : option (V * V) :=
  match b with
  | None => a
  | Some (lo2, hi2) =>
      match a with
      | None => b
      | Some (lo1, hi1) => Some (nmin lo1 lo2, nmax hi1 hi2)
      end
  end.

(* the loop over the other correlation's Cp data *)
Fixpoint merge_tab (self_tab merged other : list (V * V)) (overwrite : bool)
  : res (list (V * V)) :=
  match other with
  | [] => Ok merged
  | (T, v) :: r =>
      let conflict :=
        negb overwrite &&
        match tab_get self_tab T, tab_get merged T with
        | Some _, Some m => negb (v =? m)
        | _, _ => false
        end in
      if conflict then Raise ReadOnlyData
      else merge_tab self_tab (tab_set merged T v) r overwrite
  end.

Definition isSome {A} (o : option A) : bool := match o with Some _ => true | None => false end.

Definition ev_val (e : ev K) : res V :=
  match e with Ok (v, _) => Ok v | Raise x => Raise x end.

Definition corr_update (self other : inc) (overwrite : bool) : inc * option terr :=
  let rng := range_union (i_range self) (i_range other) in
  match (match i_tab other with
         | [] => Ok (i_tab self)
         | _ => merge_tab (i_tab self) (i_tab self) (i_tab other) overwrite
         end) with
  | Raise e => (self, Some e)
  | Ok tab =>
      let refs : res (option V * option V) :=
        if isSome (i_H other) || isSome (i_S other) then
          let test := Build_inc (K:=K) (i_H other) (i_S other) tab (i_Tref other) rng in
          match inc_setup test with
          | Raise e => Raise e
          | Ok r =>
              bind (match i_H other with
                    | None => Ok (i_H self)
                    | Some _ =>
                        bind (ev_val (inc_h splint test r (i_Tref self))) (fun nh =>
                          match i_H self with
                          | Some h => if negb overwrite && negb (isclose nh h)
                                      then Raise ReadOnlyData else Ok (Some nh)
                          | None => Ok (Some nh)
                          end)
                    end) (fun H =>
              bind (match i_S other with
                    | None => Ok (i_S self)
                    | Some _ =>
                        bind (ev_val (inc_s quadS lnr test r (i_Tref self))) (fun ns =>
                          match i_S self with
                          | Some s => if negb overwrite && negb (isclose ns s)
                                      then Raise ReadOnlyData else Ok (Some ns)
                          | None => Ok (Some ns)
                          end)
                    end) (fun S0 => Ok (H, S0)))
          end
        else Ok (i_H self, i_S self) in
      match refs with
      | Raise e => (self, Some e)
      | Ok (H, S0) =>
          let new := Build_inc (K:=K) H S0 tab (i_Tref self) rng in
          (* everything is stored, then _setup_correlation runs *)
          match inc_setup new with
          | Ok _ => (new, None)
          | Raise e => (new, Some e)
          end
      end
  end.

(* ---------------- library level ---------------- *)
Definition lib := list (str * inc).

Fixpoint lib_get (l : lib) (g : str) : option inc :=
  match l with
  | [] => None
  | (k, v) :: r => if str_eqb k g then Some v else lib_get r g
  end.
Fixpoint lib_set (l : lib) (g : str) (v : inc) : lib :=
  match l with
  | [] => [(g, v)]
  | (k, x) :: r => if str_eqb k g then (k, v) :: r else (k, x) :: lib_set r g v
  end.

(* GroupLibrary.Update: groups in the other library's order; the first
   failing correlation update aborts (earlier groups stay merged) *)
Fixpoint lib_update (self : lib) (other : lib) (overwrite : bool) : lib * option terr :=
  match other with
  | [] => (self, None)
  | (g, c) :: r =>
      match lib_get self g with
      | None => lib_update (lib_set self g c) r overwrite
      | Some mine =>
          match corr_update mine c overwrite with
          | (new, None) => lib_update (lib_set self g new) r overwrite
          | (new, Some e) => (lib_set self g new, Some e)
          end
      end
  end.

(* a file: its own groups (canonical names) and the files it includes *)
Inductive file := File (groups : list (str * inc)) (includes : list file).

Fixpoint own_groups (gs : list (str * inc)) (acc : lib) : res lib :=
  match gs with
  | [] => Ok acc
  | (g, c) :: r => match lib_get acc g with
                   | Some _ => Raise KeyErr          (* 'Multiple definitions of group' *)
                   | None => own_groups r (acc ++ [(g, c)])
                   end
  end.

Fixpoint load (f : file) : res lib :=
  match f with
  | File gs incs =>
      bind (own_groups gs [])
           (fun own =>
              (fix go (l : list file) (acc : lib) : res lib :=
                 match l with
                 | [] => Ok acc
                 | i :: r =>
                     bind (load i) (fun li =>
                       match lib_update acc li false with
                       | (acc', None) => go r acc'
                       | (_, Some e) => Raise e
                       end)
                 end) incs own)
  end.

End Merge.
