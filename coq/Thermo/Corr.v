(* Helpers used only by generated correspondence case files (execution
   instance: exact rationals; implementation floats are injected exactly and
   compared with a relative tolerance). *)
From Coq Require Import List NArith Bool QArith Qabs.
From PG Require Import Common.Strs Thermo.Num.
Import ListNotations.

Definition close (tol scale a b : Q) : bool :=
  Qle_bool (Qabs (a - b)) (tol * scale).

Fixpoint strs_eqb (a b : list str) : bool :=
  match a, b with
  | [], [] => true
  | x :: a', y :: b' => str_eqb x y && strs_eqb a' b'
  | _, _ => false
  end.

Definition terr_same (a b : terr) : bool :=
  match a, b with
  | MissingData l, MissingData l' => strs_eqb l l'
  | IncompleteData, IncompleteData | OutsideCorrelation, OutsideCorrelation
  | ReadOnlyData, ReadOnlyData | AssertErr, AssertErr | ValueErr, ValueErr
  | KeyErr, KeyErr | UnitsErr, UnitsErr | InternalErr, InternalErr => true
  | _, _ => false
  end.

Definition ev_agree (tol scale : Q) (m i : ev Qops) : bool :=
  match m, i with
  | Ok (a, w), Ok (b, w') => close tol scale a b && Bool.eqb w w'
  | Raise e, Raise e' => terr_same e e'
  | _, _ => false
  end.

Definition sumabs (terms : list (Q * ev Qops)) : Q :=
  fold_right (fun t a => match snd t with
                         | Ok (v, _) => Qabs (fst t * v) + a
                         | Raise _ => a end) (1 # 1000000000000) terms.

Fixpoint mismatches {A} (ok : A -> bool) (i : nat) (l : list A) : list nat :=
  match l with
  | [] => []
  | x :: r => if ok x then mismatches ok (S i) r else i :: mismatches ok (S i) r
  end.

(* ---------- C05/C06: correlations with oracle tables ---------- *)
From PG Require Import Thermo.RawData.

Definition BADQ : Q := 123456789012345678901234567890 # 1.
Fixpoint look1 (t : list (Q * Q)) (x : Q) : Q :=
  match t with
  | [] => BADQ
  | (k, v) :: r => if Qeq_bool k x then v else look1 r x
  end.
Fixpoint look2 (t : list (Q * Q * Q)) (a b : Q) : Q :=
  match t with
  | [] => BADQ
  | (k1, k2, v) :: r => if Qeq_bool k1 a && Qeq_bool k2 b then v else look2 r a b
  end.

Definition res_agree (tol scale : Q) (m i : res Q) : bool :=
  match m, i with
  | Ok a, Ok b => close tol scale a b
  | Raise e, Raise e' => terr_same e e'
  | _, _ => false
  end.

Record tables := { t_spl : list (Q * Q); t_int : list (Q * Q * Q);
                   t_quad : list (Q * Q * Q); t_ln : list (Q * Q * Q) }.

Definition Qraw_cp (t : tables) := raw_cp (K:=Qops) (look1 (t_spl t)).
Definition Qraw_h (t : tables) := raw_h (K:=Qops) (look2 (t_int t)).
Definition Qraw_s (t : tables) := raw_s (K:=Qops) (look2 (t_quad t)) (look2 (t_ln t)).

(* one evaluation point: T and the implementation's cp, h, s *)
Definition rawpoint := (Q * res Q * res Q * res Q)%type.

Definition raw_case_ok (tol scale : Q) (pts : list (Q * Q)) (range : option (Q * Q))
           (H S Tref : Q) (t : tables) (ctor : option terr) (evals : list rawpoint) : bool :=
  match construct (K:=Qops) pts range H S Tref, ctor with
  | Raise e, Some e' => terr_same e e'
  | Ok c, None =>
      forallb (fun p : rawpoint =>
                 let '(T, icp, ih, is_) := p in
                 res_agree tol scale (Qraw_cp t c T) icp
                 && res_agree tol scale (Qraw_h t c T) ih
                 && res_agree tol scale (Qraw_s t c T) is_) evals
  | _, _ => false
  end.

Definition incpoint := (Q * ev Qops * ev Qops * ev Qops * ev Qops)%type.

Definition inc_case_ok (tol scale : Q) (i : inc (K:=Qops)) (t : tables)
           (ctor : option terr) (evals : list incpoint) : bool :=
  match inc_setup (K:=Qops) i, ctor with
  | Raise e, Some e' => terr_same e e'
  | Ok r, None =>
      forallb (fun p : incpoint =>
                 let '(T, icp, ih, is_, ig) := p in
                 ev_agree tol scale (inc_cp (K:=Qops) (look1 (t_spl t)) i r T) icp
                 && ev_agree tol scale (inc_h (K:=Qops) (look2 (t_int t)) i r T) ih
                 && ev_agree tol scale (inc_s (K:=Qops) (look2 (t_quad t)) (look2 (t_ln t)) i r T) is_
                 && ev_agree tol scale
                      (inc_g (K:=Qops) (look2 (t_int t)) (look2 (t_quad t)) (look2 (t_ln t)) i r T) ig)
              evals
  | _, _ => false
  end.

(* ---------- C13: merges ---------- *)
From PG Require Import Thermo.Merge.

Definition eq0 (a b : Q) : Q := if Qeq_bool a b then 0 else BADQ.
Definition Qmax' (a b : Q) : Q := if Qle_bool a b then b else a.
Definition isclose15 (a b : Q) : bool :=
  Qle_bool (Qabs (a - b)) ((1 # 1000000000000000) * Qmax' (Qabs a) (Qabs b)).
Definition Qcorr_update := corr_update (K:=Qops) eq0 eq0 eq0 isclose15.

Definition oq_same (tol : Q) (a b : option Q) : bool :=
  match a, b with
  | None, None => true
  | Some x, Some y => close tol (1 + Qabs x + Qabs y) x y
  | _, _ => false
  end.
Fixpoint tab_same (tol : Q) (a b : list (Q * Q)) : bool :=
  match a, b with
  | [], [] => true
  | (t, v) :: a', (t', v') :: b' =>
      Qeq_bool t t' && close tol (1 + Qabs v + Qabs v') v v' && tab_same tol a' b'
  | _, _ => false
  end.
Definition orange_same (a b : option (Q * Q)) : bool :=
  match a, b with
  | None, None => true
  | Some (x, y), Some (x', y') => Qeq_bool x x' && Qeq_bool y y'
  | _, _ => false
  end.
Definition inc_same (tol : Q) (a b : inc (K:=Qops)) : bool :=
  oq_same tol (i_H a) (i_H b) && oq_same tol (i_S a) (i_S b)
  && tab_same tol (i_tab a) (i_tab b) && Qeq_bool (i_Tref a) (i_Tref b)
  && orange_same (i_range a) (i_range b).
Definition oerr_same (a b : option terr) : bool :=
  match a, b with
  | None, None => true
  | Some x, Some y => terr_same x y
  | _, _ => false
  end.

Definition step := (inc (K:=Qops) * bool * (inc (K:=Qops) * option terr))%type.
Fixpoint run_steps (tol : Q) (cur : inc (K:=Qops)) (steps : list step) : bool :=
  match steps with
  | [] => true
  | (o, ow, (est, eerr)) :: r =>
      let '(n, e) := Qcorr_update cur o ow in
      inc_same tol n est && oerr_same e eerr && run_steps tol n r
  end.
