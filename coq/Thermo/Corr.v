(* Helpers used only by generated correspondence case files (execution
   instance: exact rationals; implementation floats are injected exactly and
   compared with a relative tolerance). *)
From Coq Require Import List NArith Bool QArith Qabs.
From PG Require Import Common.Strs Thermo.Num.
Import ListNotations.

Definition close (tol scale a b : Q) : bool :=
  Qle_bool (Qabs (a - b)) (tol * scale).

Fixpoint strs_eqb (a b : list str) : bool :=
  match a, b with
  | [], [] => true
  | x :: a', y :: b' => str_eqb x y && strs_eqb a' b'
  | _, _ => false
  end.

Definition terr_same (a b : terr) : bool :=
  match a, b with
  | MissingData l, MissingData l' => strs_eqb l l'
  | IncompleteData, IncompleteData | OutsideCorrelation, OutsideCorrelation
  | ReadOnlyData, ReadOnlyData | AssertErr, AssertErr | ValueErr, ValueErr
  | KeyErr, KeyErr | UnitsErr, UnitsErr | InternalErr, InternalErr => true
  | _, _ => false
  end.

Definition ev_agree (tol scale : Q) (m i : ev Qops) : bool :=
  match m, i with
  | Ok (a, w), Ok (b, w') => close tol scale a b && Bool.eqb w w'
  | Raise e, Raise e' => terr_same e e'
  | _, _ => false
  end.

Definition sumabs (terms : list (Q * ev Qops)) : Q :=
  fold_right (fun t a => match snd t with
                         | Ok (v, _) => Qabs (fst t * v) + a
                         | Raise _ => a end) (1 # 1000000000000) terms.

Fixpoint mismatches {A} (ok : A -> bool) (i : nat) (l : list A) : list nat :=
  match l with
  | [] => []
  | x :: r => if ok x then mismatches ok (S i) r else i :: mismatches ok (S i) r
  end.
