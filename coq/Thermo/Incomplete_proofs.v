From Coq Require Import List Bool Reals Lra.
From PG Require Import Thermo.Num Thermo.RawData Thermo.RawData_proofs Thermo.Estimate Thermo.Estimate_proofs.
Import ListNotations.
Local Open Scope R_scope.

Section IncR.
Variable spl : R -> R.
Variable splint : R -> R -> R.
Variable quadS : R -> R -> R.
Notation inc_cp := (inc_cp (K:=Rops) spl).
Notation inc_h := (inc_h (K:=Rops) splint).
Notation inc_s := (inc_s (K:=Rops) quadS lnrR).
Notation inc_g := (inc_g (K:=Rops) splint quadS lnrR).

(* with a heat-capacity table: outside the range every property raises the
   incomplete-data error (OutsideCorrelationError is re-raised as such) *)
Theorem inc_outside_with_table (i : @inc Rops) (c : @raw Rops) T :
  T < r_lo c \/ r_hi c < T ->
  inc_cp i (Some c) T = Raise IncompleteData
  /\ inc_h i (Some c) T = Raise IncompleteData
  /\ inc_s i (Some c) T = Raise IncompleteData
  /\ inc_g i (Some c) T = Raise IncompleteData.
Proof.
  intros H.
  destruct (raw_outside_raises spl splint quadS c T H) as (H1 & H2 & H3).
  unfold RawData.inc_g, RawData.inc_cp, RawData.inc_h, RawData.inc_s.
  rewrite H1, H2, H3. simpl.
  destruct (i_H i), (i_S i); simpl; auto.
Qed.

(* without a table: the reference value, with the warning exactly when
   T differs from the reference temperature; Cp is unavailable *)
Theorem inc_no_table (i : @inc Rops) T :
  inc_cp i None T = Raise IncompleteData
  /\ (forall h, i_H i = Some h ->
        inc_h i None T = Ok (h, if Req_EM_T T (i_Tref i) then false else true))
  /\ (forall s, i_S i = Some s ->
        inc_s i None T = Ok (s, if Req_EM_T T (i_Tref i) then false else true))
  /\ (i_H i = None -> inc_h i None T = Raise IncompleteData)
  /\ (i_S i = None -> inc_s i None T = Raise IncompleteData).
Proof.
  unfold RawData.inc_cp, RawData.inc_h, RawData.inc_s. simpl. unfold Reqb.
  repeat split; intros; try rewrite H; auto; destruct (Req_EM_T T (i_Tref i)); auto.
Qed.

(* a property with missing reference datum raises, table or not *)
Theorem inc_missing_raises (i : @inc Rops) (r : option (@raw Rops)) T :
  (i_H i = None -> inc_h i r T = Raise IncompleteData /\ inc_g i r T = Raise IncompleteData)
  /\ (i_S i = None -> inc_s i r T = Raise IncompleteData
                      /\ exists e, inc_g i r T = Raise e).
Proof.
  unfold RawData.inc_g, RawData.inc_h, RawData.inc_s. split; intros H; rewrite H; auto.
  split; auto. destruct (i_H i); [|eauto].
  destruct r as [c|]; [|eauto].
  destruct (remap_out (raw_h (K:=Rops) splint c T)) as [[v0 w0]|e0]; eauto.
Qed.

(* signalled: outside its range a correlation raises, or (no table) warns -
   unless T is the reference temperature itself *)
Theorem inc_outside_signalled (i : @inc Rops) (r : option (@raw Rops)) T h :
  i_H i = Some h ->
  (forall c, r = Some c -> T < r_lo c \/ r_hi c < T) ->
  T <> i_Tref i ->
  inc_h i r T = Raise IncompleteData \/ inc_h i r T = Ok (h, true).
Proof.
  intros Hh Hout Hne. destruct r as [c|].
  - left. apply (inc_outside_with_table i c T). apply Hout. reflexivity.
  - right. destruct (inc_no_table i T) as (_ & H2 & _). rewrite (H2 h Hh).
    destruct (Req_EM_T T (i_Tref i)); [contradiction|reflexivity].
Qed.

(* the clause cannot be strengthened: a table-less correlation whose
   reference temperature lies outside its own range answers silently there *)
Theorem inc_no_table_silent_at_Tref_refuted :
  exists (i : @inc Rops) T lo hi h,
    i_range i = Some (lo, hi) /\ (T < lo \/ hi < T) /\ i_tab i = []
    /\ inc_h i None T = Ok (h, false).
Proof.
  exists (Build_inc (K:=Rops) (Some 1) None [] 298 (Some (300, 1000))), 298, 300, 1000, 1.
  repeat split; try (left; lra).
  unfold RawData.inc_h. simpl. unfold Reqb.
  destruct (Req_EM_T 298 298); [reflexivity|contradiction].
Qed.

End IncR.

(* estimate level: a constituent that raises makes the estimate raise; a
   constituent that warns makes the estimate warn *)
Theorem est_signal_propagates (tv : list (R * R * bool)) c v :
  In (c, v, true) tv ->
  exists x, est_prop (K:=Rops) (map okterm tv) = Ok (x, true).
Proof.
  intros H. rewrite est_is_weighted_sum. exists (wsum tv).
  assert (E : anywarn tv = true)
    by (unfold anywarn; apply existsb_exists; exists (c, v, true); auto).
  rewrite E. reflexivity.
Qed.
