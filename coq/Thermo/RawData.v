(* Models of ThermochemRawData (raw_data.py) and ThermochemIncomplete
   (incomplete.py: construction and the get_* methods).  No proofs.
   The SciPy spline, its integral, quad(spline(t)/t) and log are oracles. *)
From Coq Require Import List Bool.
From PG Require Import Thermo.Num.
Import ListNotations.

Section Raw.
Context {K : numops}.
Local Open Scope num_scope.
Notation V := (V K).

Variable spl : V -> V.            (* self.spline(T)                       *)
Variable splint : V -> V -> V.    (* self.spline.integral(a, b)           *)
Variable quadS : V -> V -> V.     (* quad(lambda t: spline(t)/t, a, b)[0] *)
Variable lnr : V -> V -> V.       (* np.log(b/a), arguments (b, a)        *)

Record raw := {
  r_minT : V; r_maxT : V; r_lo : V; r_hi : V;
  r_mincp : V; r_maxcp : V; r_H : V; r_S : V; r_Tref : V }.

(* sorted(zip(Ts, ND_Cps), key=T): stable insertion sort *)
Fixpoint ins (p : V * V) (l : list (V * V)) : list (V * V) :=
  match l with
  | [] => [p]
  | q :: r => if fst q <=? fst p then q :: ins p r else p :: l
  end.
Definition sort_pts (l : list (V * V)) : list (V * V) :=
  fold_left (fun acc p => ins p acc) l [].

Definition construct (pts : list (V * V)) (range : option (V * V))
           (H S Tref : V) : res raw :=
  match sort_pts pts with
  | [] => Raise ValueErr
  | (t0, c0) :: rest =>
      let (tn, cn) := last rest (t0, c0) in
      match (match range with
             | None => Ok (t0, tn)
             | Some (lo, hi) =>
                 if (t0 <? lo) || (hi <? tn) then Raise ValueErr else Ok (lo, hi)
             end) with
      | Raise e => Raise e
      | Ok (lo, hi) =>
          if (Tref <? lo) || (hi <? Tref) then Raise ValueErr
          else if hi <? lo then Raise AssertErr
          else Ok {| r_minT := t0; r_maxT := tn; r_lo := lo; r_hi := hi;
                     r_mincp := c0; r_maxcp := cn; r_H := H; r_S := S;
                     r_Tref := Tref |}
      end
  end.

Definition outside (c : raw) (T : V) : bool := (T <? r_lo c) || (r_hi c <? T).

Definition raw_cp (c : raw) (T : V) : res V :=
  if outside c T then Raise OutsideCorrelation
  else if T <? r_minT c then Ok (r_mincp c)
  else if r_maxT c <? T then Ok (r_maxcp c)
  else Ok (spl T).

Definition raw_s (c : raw) (T : V) : res V :=
  if outside c T then Raise OutsideCorrelation else
  let Ta := r_Tref c in let Tb := T in
  let minT := r_minT c in let maxT := r_maxT c in
  let S0 := r_S c in
  (* first block *)
  let '(done1, S1, Ta1, Tb1) :=
    if Ta <=? minT then
      if Tb <=? minT then (true, S0 + r_mincp c * lnr Tb Ta, Ta, Tb)
      else (false, S0 + r_mincp c * lnr minT Ta, minT, Tb)
    else if Tb <=? minT then (false, S0 + r_mincp c * lnr Tb minT, Ta, minT)
    else (false, S0, Ta, Tb) in
  if done1 then Ok S1 else
  let '(done2, S2, Ta2, Tb2) :=
    if maxT <=? Ta1 then
      if maxT <=? Tb1 then (true, S1 + r_maxcp c * lnr Tb1 Ta1, Ta1, Tb1)
      else (false, S1 + r_maxcp c * lnr maxT Ta1, maxT, Tb1)
    else if maxT <=? Tb1 then (false, S1 + r_maxcp c * lnr Tb1 maxT, Ta1, maxT)
    else (false, S1, Ta1, Tb1) in
  if done2 then Ok S2 else Ok (S2 + quadS Ta2 Tb2).

Definition raw_h (c : raw) (T : V) : res V :=
  if outside c T then Raise OutsideCorrelation else
  let Ta := r_Tref c in let Tb := T in
  let minT := r_minT c in let maxT := r_maxT c in
  let H0 := r_H c * Ta in
  let '(done1, H1, Ta1, Tb1) :=
    if Ta <=? minT then
      if Tb <=? minT then (true, H0 + r_mincp c * (Tb - Ta), Ta, Tb)
      else (false, H0 + r_mincp c * (minT - Ta), minT, Tb)
    else if Tb <=? minT then (false, H0 + r_mincp c * (Tb - minT), Ta, minT)
    else (false, H0, Ta, Tb) in
  if done1 then Ok (H1 / T) else
  let '(done2, H2, Ta2, Tb2) :=
    if maxT <=? Ta1 then
      if maxT <=? Tb1 then (true, H1 + r_maxcp c * (Tb1 - Ta1), Ta1, Tb1)
      else (false, H1 + r_maxcp c * (maxT - Ta1), maxT, Tb1)
    else if maxT <=? Tb1 then (false, H1 + r_maxcp c * (Tb1 - maxT), Ta1, maxT)
    else (false, H1, Ta1, Tb1) in
  if done2 then Ok (H2 / T) else Ok ((H2 + splint Ta2 Tb2) / T).

(* ---------------- ThermochemIncomplete ---------------- *)

Record inc := {
  i_H : option V; i_S : option V; i_tab : list (V * V);
  i_Tref : V; i_range : option (V * V) }.

Definition dflt (o : option V) : V := match o with Some x => x | None => n0 K end.

(* ThermochemBase.__init__ assertion, then _setup_correlation *)
Definition inc_setup (i : inc) : res (option raw) :=
  bind (match i_range i with
        | Some (lo, hi) => if hi <? lo then Raise AssertErr else Ok tt
        | None => Ok tt
        end)
       (fun _ =>
          match i_tab i with
          | [] => Ok None
          | _ => match construct (i_tab i) (i_range i) (dflt (i_H i))
                                 (dflt (i_S i)) (i_Tref i) with
                 | Ok r => Ok (Some r)
                 | Raise e => Raise e
                 end
          end).

(* OutsideCorrelationError -> IncompleteDataError *)
Definition remap_out (x : res V) : ev K :=
  match x with
  | Ok v => Ok (v, false)
  | Raise OutsideCorrelation => Raise IncompleteData
  | Raise e => Raise e
  end.

Definition inc_cp (i : inc) (r : option raw) (T : V) : ev K :=
  match r with
  | None => Raise IncompleteData
  | Some c => remap_out (raw_cp c T)
  end.

Definition inc_h (i : inc) (r : option raw) (T : V) : ev K :=
  match i_H i with
  | None => Raise IncompleteData
  | Some h =>
      match r with
      | None => Ok (h, negb (T =? i_Tref i))
      | Some c => remap_out (raw_h c T)
      end
  end.

Definition inc_s (i : inc) (r : option raw) (T : V) : ev K :=
  match i_S i with
  | None => Raise IncompleteData
  | Some s =>
      match r with
      | None => Ok (s, negb (T =? i_Tref i))
      | Some c => remap_out (raw_s c T)
      end
  end.

(* get_GoRT = get_HoRT - get_SoR *)
Definition inc_g (i : inc) (r : option raw) (T : V) : ev K :=
  match inc_h i r T with
  | Raise e => Raise e
  | Ok (h, hw) => match inc_s i r T with
                  | Raise e => Raise e
                  | Ok (s, sw) => Ok (h - s, hw || sw)
                  end
  end.

Definition raw_g (c : raw) (T : V) : res V :=
  match raw_h c T with
  | Raise e => Raise e
  | Ok h => match raw_s c T with Raise e => Raise e | Ok s => Ok (h - s) end
  end.
End Raw.
