(* C18, value level over the reals: writing a value in some unit to six significant digits and reading it back keeps six
   significant digits in SI; a non-dimensional value recomputed from two such values (H/(R T_ref)) is off by at most
   2 eps/(1 - eps).  This is what the tolerances of the round-trip oracle stand for. *)
From Coq Require Import Reals Lra.
Local Open Scope R_scope.

(* x written in a unit of SI size f > 0 as r (relative error eps), read back as r * f *)
Theorem scale_round x f r eps : 0 < f -> Rabs (r - x / f) <= eps * Rabs (x / f) -> Rabs (r * f - x) <= eps * Rabs x.
Proof.
  intros Hf H.
  replace (r * f - x) with ((r - x / f) * f) by (field; lra).
  rewrite Rabs_mult, (Rabs_pos_eq f) by lra.
  replace (Rabs x) with (Rabs (x / f) * f).
  - apply Rmult_le_compat_r with (r := f) in H; [lra|lra].
  - rewrite <- (Rabs_pos_eq f) at 2 by lra. rewrite <- Rabs_mult. f_equal. field. lra.
Qed.

(* the quotient of two values each known to relative error eps < 1 *)
Theorem quotient_round a b a' b' eps : 0 <= eps < 1 -> b <> 0 ->
  Rabs (a' - a) <= eps * Rabs a -> Rabs (b' - b) <= eps * Rabs b ->
  b' <> 0 /\ Rabs (a' / b' - a / b) <= (2 * eps / (1 - eps)) * Rabs (a / b).
Proof.
  intros [He0 He1] Hb Ha Hb'.
  assert (Pb : 0 < Rabs b) by (apply Rabs_pos_lt; exact Hb).
  assert (Lb : (1 - eps) * Rabs b <= Rabs b').
  { pose proof (Rabs_triang_inv b (b - b')) as T. replace (b - (b - b')) with b' in T by ring.
    rewrite (Rabs_minus_sym b b') in T. lra. }
  assert (Pb' : 0 < Rabs b') by nra.
  assert (Nb' : b' <> 0) by (intros E; rewrite E, Rabs_R0 in Pb'; lra).
  split; [exact Nb'|].
  replace (a' / b' - a / b) with (((a' - a) * b - a * (b' - b)) / (b * b')) by (field; split; assumption).
  unfold Rdiv at 1. rewrite Rabs_mult, Rabs_inv by (apply Rmult_integral_contrapositive_currified; assumption).
  rewrite (Rabs_mult b b').
  assert (Num : Rabs ((a' - a) * b - a * (b' - b)) <= 2 * eps * Rabs a * Rabs b).
  { eapply Rle_trans; [apply Rabs_triang|]. rewrite Rabs_Ropp, !Rabs_mult.
    assert (Rabs (a' - a) * Rabs b <= eps * Rabs a * Rabs b) by (apply Rmult_le_compat_r; lra).
    assert (Rabs a * Rabs (b' - b) <= Rabs a * (eps * Rabs b)) by (apply Rmult_le_compat_l; [apply Rabs_pos|lra]).
    lra. }
  unfold Rdiv at 2. rewrite Rabs_mult, Rabs_inv by exact Hb.
  assert (Pa : 0 <= Rabs a) by apply Rabs_pos.
  assert (D : / (Rabs b * Rabs b') <= / (Rabs b * ((1 - eps) * Rabs b))).
  { apply Rinv_le_contravar; [apply Rmult_lt_0_compat; [lra|apply Rmult_lt_0_compat; lra]|]. apply Rmult_le_compat_l; lra. }
  assert (Pd : 0 < / (Rabs b * Rabs b')) by (apply Rinv_0_lt_compat; apply Rmult_lt_0_compat; lra).
  eapply Rle_trans.
  - apply Rmult_le_compat_r; [lra|exact Num].
  - eapply Rle_trans.
    + apply Rmult_le_compat_l; [repeat apply Rmult_le_pos; lra|exact D].
    + apply Req_le. field. split; lra.
Qed.
