(* C05, integral clauses: T*(H/RT) and S/R of the raw-data correlation are the
   reference value plus the integral of the clamped heat capacity (resp. of
   Cp/T), for every placement of T_ref and T.  The spline enters through its
   contract only: `splint a b` IS the integral of `spl` and `quadS a b` IS the
   integral of spl(t)/t between points of the tabulated span. *)
From Coq Require Import Reals Lra List Bool.
From Coquelicot Require Import Coquelicot.
From PG Require Import Thermo.Num Thermo.RawData Thermo.RawData_proofs.
Import ListNotations.
Local Open Scope R_scope.

Lemma is_RInt_const_R (a b v : R) : is_RInt (fun _ : R => v) a b ((b - a) * v).
Proof. exact (is_RInt_const (V:=R_NormedModule) a b v). Qed.

Lemma int_inv (k a b : R) : 0 < a -> 0 < b -> is_RInt (fun t => k / t) a b (k * ln (b / a)).
Proof.
  intros Ha Hb.
  assert (E : k * ln (b / a) = minus (k * ln b) (k * ln a)).
  { unfold Rdiv. rewrite ln_mult; [|assumption|apply Rinv_0_lt_compat; assumption].
    rewrite ln_Rinv by assumption. unfold minus, plus, opp; simpl. ring. }
  rewrite E.
  apply (is_RInt_derive (fun t => k * ln t) (fun t => k / t)).
  - intros x [Hx _]. assert (0 < x) by (eapply Rlt_le_trans; [|exact Hx]; apply Rmin_glb_lt; assumption).
    auto_derive; [assumption|]. field. lra.
  - intros x [Hx _]. assert (0 < x) by (eapply Rlt_le_trans; [|exact Hx]; apply Rmin_glb_lt; assumption).
    apply (ex_derive_continuous (fun t => k / t)). auto_derive. lra.
Qed.

Section Int.
Variable spl : R -> R.
Variable splint : R -> R -> R.
Variable c : @raw Rops.
Hypothesis span_ok : r_minT c <= r_maxT c.
Hypothesis splint_is_integral : forall a b,
  r_minT c <= a <= r_maxT c -> r_minT c <= b <= r_maxT c -> is_RInt spl a b (splint a b).

(* Cp/R held at the end values outside the tabulated span *)
Definition cp_ext (t : R) : R :=
  if Rlt_dec t (r_minT c) then r_mincp c else if Rlt_dec (r_maxT c) t then r_maxcp c else spl t.

(* cp_ext is exactly what get_CpoR reports inside the valid range *)
Lemma cp_is_cp_ext T : r_lo c <= T <= r_hi c -> raw_cp (K:=Rops) spl c T = Ok (cp_ext T).
Proof.
  intros H. unfold RawData.raw_cp, cp_ext. rewrite (outside_false c T H). simpl.
  unfold Rltb. destruct (Rlt_dec T (r_minT c)); [reflexivity|].
  destruct (Rlt_dec (r_maxT c) T); reflexivity.
Qed.

Lemma int_low a b : a <= r_minT c -> b <= r_minT c -> is_RInt cp_ext a b (r_mincp c * (b - a)).
Proof.
  intros Ha Hb. apply is_RInt_ext with (f := fun _ => r_mincp c).
  - intros x [_ Hx]. unfold cp_ext. destruct (Rlt_dec x (r_minT c)) as [|n]; [reflexivity|].
    exfalso. apply n. eapply Rlt_le_trans; [exact Hx|]. apply Rmax_lub; assumption.
  - replace (r_mincp c * (b - a)) with ((b - a) * r_mincp c) by ring. apply is_RInt_const_R.
Qed.

Lemma int_high a b : r_maxT c <= a -> r_maxT c <= b -> is_RInt cp_ext a b (r_maxcp c * (b - a)).
Proof.
  intros Ha Hb. apply is_RInt_ext with (f := fun _ => r_maxcp c).
  - intros x [Hx _]. unfold cp_ext.
    assert (r_maxT c < x) by (eapply Rle_lt_trans; [|exact Hx]; apply Rmin_glb; assumption).
    destruct (Rlt_dec x (r_minT c)); [lra|]. destruct (Rlt_dec (r_maxT c) x); [reflexivity|lra].
  - replace (r_maxcp c * (b - a)) with ((b - a) * r_maxcp c) by ring. apply is_RInt_const_R.
Qed.

Lemma int_mid a b : r_minT c <= a <= r_maxT c -> r_minT c <= b <= r_maxT c ->
  is_RInt cp_ext a b (splint a b).
Proof.
  intros Ha Hb. apply is_RInt_ext with (f := spl); [|apply splint_is_integral; assumption].
  intros x [Hx1 Hx2]. unfold cp_ext.
  assert (r_minT c < x) by (eapply Rle_lt_trans; [|exact Hx1]; apply Rmin_glb; lra).
  assert (x < r_maxT c) by (eapply Rlt_le_trans; [exact Hx2|]; apply Rmax_lub; lra).
  destruct (Rlt_dec x (r_minT c)); [lra|]. destruct (Rlt_dec (r_maxT c) x); [lra|reflexivity].
Qed.

Lemma is_RInt_val (f : R -> R) a b (l l' : R) : is_RInt f a b l -> @eq R l l' -> is_RInt f a b l'.
Proof. intros H <-. auto. Qed.

Lemma chasles f a b d l1 l2 : is_RInt f a b l1 -> is_RInt f b d l2 -> is_RInt f a d (l1 + l2).
Proof. intros H1 H2. exact (is_RInt_Chasles f a b d l1 l2 H1 H2). Qed.

(* T*h(T) = H_ref*T_ref + integral of cp_ext from T_ref to T *)
Theorem raw_h_integral T :
  r_lo c <= T <= r_hi c -> T <> 0 ->
  exists I, raw_h (K:=Rops) splint c T = Ok ((r_H c * r_Tref c + I) / T)
            /\ is_RInt cp_ext (r_Tref c) T I.
Proof.
  intros Hr HT. unfold RawData.raw_h. rewrite (outside_false c T Hr). simpl.
  set (Ta := r_Tref c). set (lo := r_minT c). set (hi := r_maxT c).
  rcases; simpl; rcases; simpl.
  all: try (eexists; split; [reflexivity|]).
  all: try (apply int_low; fold lo; lra).
  all: try (apply int_high; fold hi; lra).
  all: try (apply int_mid; fold lo hi; lra).
  all: try (exfalso; unfold lo, hi, Ta in *; lra).
  all: match goal with |- exists I, Ok (?e / ?t) = _ /\ _ => exists (e - r_H c * r_Tref c); split; [f_equal; unfold Ta; field; assumption|] end.
  all: unfold lo, hi, Ta in *; change (V Rops) with R in *.
  - eapply is_RInt_val; [eapply (chasles _ _ (r_minT c)); [apply int_low; lra|apply int_high; lra]|ring].
  - eapply is_RInt_val; [eapply (chasles _ _ (r_minT c)); [apply int_low; lra|eapply (chasles _ _ (r_maxT c)); [apply int_mid; lra|apply int_high; lra]]|ring].
  - eapply is_RInt_val; [eapply (chasles _ _ (r_minT c)); [apply int_low; lra|apply int_mid; lra]|ring].
  - eapply is_RInt_val; [eapply (chasles _ _ (r_minT c)); [apply int_high; lra|apply int_low; lra]|ring].
  - eapply is_RInt_val; [eapply (chasles _ _ (r_maxT c)); [apply int_high; lra|eapply (chasles _ _ (r_minT c)); [apply int_mid; lra|apply int_low; lra]]|ring].
  - eapply is_RInt_val; [eapply (chasles _ _ (r_minT c)); [apply int_mid; lra|apply int_low; lra]|ring].
  - eapply is_RInt_val; [eapply (chasles _ _ (r_maxT c)); [apply int_high; lra|apply int_mid; lra]|ring].
  - eapply is_RInt_val; [eapply (chasles _ _ (r_maxT c)); [apply int_mid; lra|apply int_high; lra]|ring].
Qed.

(* the change of T*(H/RT) between two temperatures is the integral of Cp/R *)
Theorem h_integral T1 T2 h1 h2 :
  r_lo c <= T1 <= r_hi c -> r_lo c <= T2 <= r_hi c -> T1 <> 0 -> T2 <> 0 ->
  raw_h (K:=Rops) splint c T1 = Ok h1 -> raw_h (K:=Rops) splint c T2 = Ok h2 ->
  is_RInt cp_ext T1 T2 (T2 * h2 - T1 * h1).
Proof.
  intros R1 R2 N1 N2 E1 E2.
  destruct (raw_h_integral T1 R1 N1) as (I1 & F1 & J1).
  destruct (raw_h_integral T2 R2 N2) as (I2 & F2 & J2).
  rewrite E1 in F1. rewrite E2 in F2. inversion F1 as [G1]. inversion F2 as [G2].
  eapply is_RInt_val; [eapply (chasles _ _ (r_Tref c)); [apply is_RInt_swap; exact J1|exact J2]|].
  unfold opp; simpl. field. split; assumption.
Qed.

(* ---- entropy: S/R(T) = S_ref + integral of cp_ext(t)/t from T_ref to T ---- *)
Variable quadS : R -> R -> R.
Variable lnr : R -> R -> R.
Hypothesis lnr_is_ln : forall b a, 0 < a -> 0 < b -> lnr b a = ln (b / a).
Hypothesis quadS_is_integral : forall a b,
  r_minT c <= a <= r_maxT c -> r_minT c <= b <= r_maxT c ->
  is_RInt (fun t => spl t / t) a b (quadS a b).
Hypothesis minT_pos : 0 < r_minT c.
Hypothesis Tref_pos : 0 < r_Tref c.

Definition cpt (t : R) : R := cp_ext t / t.

Lemma sint_low a b : 0 < a -> 0 < b -> a <= r_minT c -> b <= r_minT c ->
  is_RInt cpt a b (r_mincp c * lnr b a).
Proof.
  intros Pa Pb Ha Hb. rewrite lnr_is_ln by assumption.
  apply is_RInt_ext with (f := fun t => r_mincp c / t); [|apply int_inv; assumption].
  intros x [_ Hx]. unfold cpt, cp_ext. destruct (Rlt_dec x (r_minT c)) as [|n]; [reflexivity|].
  exfalso. apply n. eapply Rlt_le_trans; [exact Hx|]. apply Rmax_lub; assumption.
Qed.

Lemma sint_high a b : r_maxT c <= a -> r_maxT c <= b -> is_RInt cpt a b (r_maxcp c * lnr b a).
Proof.
  intros Ha Hb. rewrite lnr_is_ln by lra.
  apply is_RInt_ext with (f := fun t => r_maxcp c / t); [|apply int_inv; lra].
  intros x [Hx _]. unfold cpt, cp_ext.
  assert (r_maxT c < x) by (eapply Rle_lt_trans; [|exact Hx]; apply Rmin_glb; assumption).
  destruct (Rlt_dec x (r_minT c)); [lra|]. destruct (Rlt_dec (r_maxT c) x); [reflexivity|lra].
Qed.

Lemma sint_mid a b : r_minT c <= a <= r_maxT c -> r_minT c <= b <= r_maxT c ->
  is_RInt cpt a b (quadS a b).
Proof.
  intros Ha Hb. apply is_RInt_ext with (f := fun t => spl t / t); [|apply quadS_is_integral; assumption].
  intros x [Hx1 Hx2]. unfold cpt, cp_ext.
  assert (r_minT c < x) by (eapply Rle_lt_trans; [|exact Hx1]; apply Rmin_glb; lra).
  assert (x < r_maxT c) by (eapply Rlt_le_trans; [exact Hx2|]; apply Rmax_lub; lra).
  destruct (Rlt_dec x (r_minT c)); [lra|]. destruct (Rlt_dec (r_maxT c) x); [lra|reflexivity].
Qed.

Theorem raw_s_integral T :
  r_lo c <= T <= r_hi c -> 0 < T ->
  exists I, raw_s (K:=Rops) quadS lnr c T = Ok (r_S c + I) /\ is_RInt cpt (r_Tref c) T I.
Proof.
  intros Hr HT. unfold RawData.raw_s. rewrite (outside_false c T Hr). simpl.
  set (Ta := r_Tref c). set (lo := r_minT c). set (hi := r_maxT c).
  rcases; simpl; rcases; simpl.
  all: try (eexists; split; [reflexivity|]).
  all: try (apply sint_low; unfold lo, hi, Ta in *; lra).
  all: try (apply sint_high; unfold lo, hi, Ta in *; lra).
  all: try (apply sint_mid; unfold lo, hi, Ta in *; lra).
  all: try (exfalso; unfold lo, hi, Ta in *; lra).
  all: match goal with |- exists I, Ok ?e = _ /\ _ => exists (e - r_S c); split; [f_equal; unfold Ta; ring|] end.
  all: unfold lo, hi, Ta in *; change (V Rops) with R in *.
  - eapply is_RInt_val; [eapply (chasles _ _ (r_minT c)); [apply sint_low; lra|apply sint_high; lra]|ring].
  - eapply is_RInt_val; [eapply (chasles _ _ (r_minT c)); [apply sint_low; lra|eapply (chasles _ _ (r_maxT c)); [apply sint_mid; lra|apply sint_high; lra]]|ring].
  - eapply is_RInt_val; [eapply (chasles _ _ (r_minT c)); [apply sint_low; lra|apply sint_mid; lra]|ring].
  - eapply is_RInt_val; [eapply (chasles _ _ (r_minT c)); [apply sint_high; lra|apply sint_low; lra]|ring].
  - eapply is_RInt_val; [eapply (chasles _ _ (r_maxT c)); [apply sint_high; lra|eapply (chasles _ _ (r_minT c)); [apply sint_mid; lra|apply sint_low; lra]]|ring].
  - eapply is_RInt_val; [eapply (chasles _ _ (r_minT c)); [apply sint_mid; lra|apply sint_low; lra]|ring].
  - eapply is_RInt_val; [eapply (chasles _ _ (r_maxT c)); [apply sint_high; lra|apply sint_mid; lra]|ring].
  - eapply is_RInt_val; [eapply (chasles _ _ (r_maxT c)); [apply sint_mid; lra|apply sint_high; lra]|ring].
Qed.

Theorem s_integral T1 T2 s1 s2 :
  r_lo c <= T1 <= r_hi c -> r_lo c <= T2 <= r_hi c -> 0 < T1 -> 0 < T2 ->
  raw_s (K:=Rops) quadS lnr c T1 = Ok s1 -> raw_s (K:=Rops) quadS lnr c T2 = Ok s2 ->
  is_RInt cpt T1 T2 (s2 - s1).
Proof.
  intros R1 R2 N1 N2 E1 E2.
  destruct (raw_s_integral T1 R1 N1) as (I1 & F1 & J1).
  destruct (raw_s_integral T2 R2 N2) as (I2 & F2 & J2).
  rewrite E1 in F1. rewrite E2 in F2. inversion F1 as [G1]. inversion F2 as [G2].
  eapply is_RInt_val; [eapply (chasles _ _ (r_Tref c)); [apply is_RInt_swap; exact J1|exact J2]|].
  unfold opp; simpl. ring.
Qed.

End Int.
