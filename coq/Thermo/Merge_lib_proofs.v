(* C13 at the level of whole libraries: GroupLibrary.Update merges group by group, so what a group ends up with depends only on
   the data given for THAT group; hence the heat-capacity table and the valid range a group has after two files were merged into
   a library do not depend on the order of the two files. *)
From Coq Require Import List NArith Bool Reals Lra.
From PG Require Import Common.Strs Common.Strs_proofs Thermo.Num Thermo.RawData Thermo.Merge Thermo.Merge_proofs.
Import ListNotations.
Local Open Scope R_scope.

Notation lsetR := (lib_set (K:=Rops)).

Lemma lib_get_set l g v g' : lgetR (lsetR l g v) g' = if str_eqb g g' then Some v else lgetR l g'.
Proof.
  induction l as [|[k x] l IH]; cbn [lib_set lib_get].
  - destruct (str_eqb g g'); reflexivity.
  - destruct (str_eqb k g) eqn:E.
    + apply str_eqb_eq in E. subst k. cbn [lib_get]. destruct (str_eqb g g'); reflexivity.
    + cbn [lib_get]. rewrite IH. destruct (str_eqb k g') eqn:E2; [|reflexivity].
      apply str_eqb_eq in E2. subst g'. apply str_eqb_neq in E.
      destruct (str_eqb g k) eqn:E3; [apply str_eqb_eq in E3; congruence|reflexivity].
Qed.

Section Lib.
Variables splint quadS lnr : R -> R -> R.
Variable isclose : R -> R -> bool.
Notation upd := (corr_update (K:=Rops) splint quadS lnr isclose).
Notation lupd := (lib_update (K:=Rops) splint quadS lnr isclose).

(* the table and the range of a successful update *)
Lemma update_tab self other new : upd self other false = (new, None) ->
  mergeR (i_tab self) (i_tab self) (i_tab other) false = Ok (i_tab new)
  /\ i_range new = range_union (K:=Rops) (i_range self) (i_range other).
Proof.
  intros U. split; [|exact (proj1 (proj2 (update_ok_shape splint quadS lnr isclose self other false new U)))].
  unfold corr_update in U.
  destruct (i_tab other) as [|p ps] eqn:Et.
  - cbn [merge_tab]. f_equal.
    match type of U with context [match ?r with Ok _ => _ | Raise _ => _ end] => destruct r as [[H S0]|e2] end; [|discriminate].
    destruct (inc_setup _); [|discriminate]. inversion U; reflexivity.
  - destruct (merge_tab _ _ _ _) as [tab|e1] eqn:Em; [|discriminate]. f_equal.
    match type of U with context [match ?r with Ok _ => _ | Raise _ => _ end] => destruct r as [[H S0]|e2] end; [|discriminate].
    destruct (inc_setup _); [|discriminate]. inversion U; reflexivity.
Qed.

(* what one group holds after a successful Update: untouched if the other library does not name it, adopted if it is new, else merged *)
Lemma lib_update_get other : NoDup (map fst other) -> forall self res g, lupd self other false = (res, None) ->
  match lgetR other g with
  | None => lgetR res g = lgetR self g
  | Some c => match lgetR self g with
              | None => lgetR res g = Some c
              | Some mine => exists new, upd mine c false = (new, None) /\ lgetR res g = Some new
              end
  end.
Proof.
  induction other as [|[k c] other IH]; intros Hn self res g U.
  - inversion U; subst. reflexivity.
  - inversion Hn as [|? ? Hnot Hn']; subst. cbn [lib_update] in U. cbn [lib_get].
    assert (Absent : str_eqb k g = true -> lgetR other g = None).
    { intros E. apply str_eqb_eq in E. subst g. destruct (lgetR other k) eqn:Eo; [|reflexivity]. exfalso. apply Hnot.
      clear -Eo. induction other as [|[k' c'] o IHo]; [discriminate|]. cbn [lib_get] in Eo. destruct (str_eqb k' k) eqn:E.
      - apply str_eqb_eq in E. subst. left. reflexivity.
      - right. apply IHo. exact Eo. }
    destruct (lgetR self k) as [mine|] eqn:Es.
    + destruct (upd mine c false) as [new [e|]] eqn:Eu; [discriminate|].
      specialize (IH Hn' _ _ g U). destruct (str_eqb k g) eqn:E.
      * rewrite (Absent eq_refl) in IH. rewrite lib_get_set, E in IH. apply str_eqb_eq in E. subst g. rewrite Es. eauto.
      * rewrite lib_get_set, E in IH. exact IH.
    + specialize (IH Hn' _ _ g U). destruct (str_eqb k g) eqn:E.
      * rewrite (Absent eq_refl) in IH. rewrite lib_get_set, E in IH. apply str_eqb_eq in E. subst g. rewrite Es. exact IH.
      * rewrite lib_get_set, E in IH. exact IH.
Qed.

Definition tabs_eq (t1 t2 : list (R * R)) : Prop := forall T, tgetR t1 T = tgetR t2 T.

(* two tables merged into each other in either order: the same map *)
Lemma table_swap x y xy yx : NoDup (map fst x) -> NoDup (map fst y) ->
  mergeR x x y false = Ok xy -> mergeR y y x false = Ok yx -> tabs_eq xy yx.
Proof.
  intros Nx Ny H1 H2 T. rewrite (merge_tab_lookup _ _ _ _ _ H1 T), (merge_tab_lookup _ _ _ _ _ H2 T).
  assert (Lx : forall v, last_get x T = Some v <-> tgetR x T = Some v).
  { intros v. clear -Nx. induction x as [|[k w] x IH]; [split; discriminate|]. inversion Nx as [|? ? Hnot Nx']; subst. cbn [last_get tab_get neqb Rops].
    destruct (Reqb k T) eqn:E.
    - apply Reqb_true in E. subst k. destruct (last_get x T) as [u|] eqn:El; [exfalso; apply Hnot; apply last_get_in in El; apply (in_map fst) in El; exact El|].
      reflexivity.
    - destruct (last_get x T) as [u|] eqn:El; [rewrite <- (IH Nx'); reflexivity|rewrite <- (IH Nx'); split; discriminate]. }
  assert (Ly : forall v, last_get y T = Some v <-> tgetR y T = Some v).
  { intros v. clear -Ny. induction y as [|[k w] y IH]; [split; discriminate|]. inversion Ny as [|? ? Hnot Ny']; subst. cbn [last_get tab_get neqb Rops].
    destruct (Reqb k T) eqn:E.
    - apply Reqb_true in E. subst k. destruct (last_get y T) as [u|] eqn:El; [exfalso; apply Hnot; apply last_get_in in El; apply (in_map fst) in El; exact El|].
      reflexivity.
    - destruct (last_get y T) as [u|] eqn:El; [rewrite <- (IH Ny'); reflexivity|rewrite <- (IH Ny'); split; discriminate]. }
  assert (C : compatT x y) by (apply (merge_tab_ok_iff x y Ny); eauto).
  destruct (last_get y T) as [vy|] eqn:Ey, (last_get x T) as [vx|] eqn:Ex.
  - f_equal. apply (C T vy vx (last_get_in _ _ _ Ey)). apply Lx. reflexivity.
  - symmetry. apply Ly. reflexivity.
  - apply Lx. reflexivity.
  - destruct (tgetR x T) as [v|]; [pose proof (proj2 (Lx v) eq_refl); discriminate|].
    destruct (tgetR y T) as [v|]; [pose proof (proj2 (Ly v) eq_refl); discriminate|reflexivity].
Qed.

Lemma range_union_comm (a b : option (R * R)) : range_union (K:=Rops) a b = range_union (K:=Rops) b a.
Proof.
  destruct a as [[a1 a2]|], b as [[b1 b2]|]; simpl; try reflexivity.
  unfold nmin, nmax; simpl; unfold Rleb.
  repeat match goal with |- context [Rle_dec ?p ?q] => destruct (Rle_dec p q) end; try reflexivity; apply f_equal; apply f_equal2; lra.
Qed.

Definition same_group (c1 c2 : option (@inc Rops)) : Prop :=
  match c1, c2 with
  | Some a, Some b => tabs_eq (i_tab a) (i_tab b) /\ i_range a = i_range b
  | None, None => True
  | _, _ => False
  end.

(* two libraries merged into a third one, in either order: every group ends with the same heat-capacity table (as a map) and the
   same valid range - whenever both orders are accepted *)
Theorem lib_order_free a x y ax axy ay ayx :
  NoDup (map fst x) -> NoDup (map fst y) ->
  (forall g c, lgetR x g = Some c -> NoDup (map fst (i_tab c))) -> (forall g c, lgetR y g = Some c -> NoDup (map fst (i_tab c))) ->
  lupd a x false = (ax, None) -> lupd ax y false = (axy, None) ->
  lupd a y false = (ay, None) -> lupd ay x false = (ayx, None) ->
  forall g, same_group (lgetR axy g) (lgetR ayx g).
Proof.
  intros Nx Ny Tx Ty U1 U2 U3 U4 g.
  pose proof (lib_update_get x Nx a ax g U1) as A. pose proof (lib_update_get y Ny ax axy g U2) as B.
  pose proof (lib_update_get y Ny a ay g U3) as C. pose proof (lib_update_get x Nx ay ayx g U4) as D.
  assert (Refl : forall c : option (@inc Rops), same_group c c).
  { intros [c|]; simpl; [split; [intros T; reflexivity|reflexivity]|exact I]. }
  destruct (lgetR x g) as [cx|] eqn:Ex, (lgetR y g) as [cy|] eqn:Ey.
  - (* both files give the group *)
    pose proof (Tx g cx Ex) as Ncx. pose proof (Ty g cy Ey) as Ncy.
    destruct (lgetR a g) as [mine|] eqn:Ea.
    + destruct A as (n1 & Un1 & A). rewrite A in B. destruct B as (n12 & Un12 & B).
      destruct C as (n2 & Un2 & C). rewrite C in D. destruct D as (n21 & Un21 & D).
      rewrite B, D. simpl.
      destruct (update_tab _ _ _ Un1) as [T1 R1]. destruct (update_tab _ _ _ Un12) as [T12 R12].
      destruct (update_tab _ _ _ Un2) as [T2 R2]. destruct (update_tab _ _ _ Un21) as [T21 R21].
      split.
      * intros T. exact (table_order_free (i_tab mine) (i_tab cx) (i_tab cy) _ _ _ _ Ncx Ncy T1 T12 T2 T21 T).
      * rewrite R12, R1, R21, R2. apply range_union_order_free.
    + rewrite A in B. destruct B as (n1 & Un1 & B). rewrite C in D. destruct D as (n2 & Un2 & D).
      rewrite B, D. simpl.
      destruct (update_tab _ _ _ Un1) as [T1 R1]. destruct (update_tab _ _ _ Un2) as [T2 R2].
      split.
      * exact (table_swap (i_tab cx) (i_tab cy) _ _ Ncx Ncy T1 T2).
      * rewrite R1, R2. apply range_union_comm.
  - (* only x gives it *)
    rewrite B. rewrite C in D.
    destruct (lgetR a g) as [mine|] eqn:Ea.
    + destruct A as (n1 & Un1 & A). destruct D as (n2 & Un2 & D). rewrite A, D. rewrite Un1 in Un2. inversion Un2; subst. apply Refl.
    + rewrite A, D. apply Refl.
  - (* only y gives it *)
    rewrite D. rewrite A in B.
    destruct (lgetR a g) as [mine|] eqn:Ea.
    + destruct B as (n1 & Un1 & B). destruct C as (n2 & Un2 & C). rewrite B, C. rewrite Un1 in Un2. inversion Un2; subst. apply Refl.
    + rewrite B, C. apply Refl.
  - rewrite B, A, D, C. apply Refl.
Qed.
End Lib.

(* ====================== a file with two includes, in either order ====================== *)
Lemma NoDup_app_intro' {A} (l1 l2 : list A) :
  NoDup l1 -> NoDup l2 -> (forall x, In x l1 -> In x l2 -> False) -> NoDup (l1 ++ l2).
Proof.
  induction l1 as [|x l1 IH]; intros H1 H2 Hd; simpl; [exact H2|].
  inversion H1 as [|? ? Hx H1']; subst. constructor.
  - intros Hin. apply in_app_or in Hin. destruct Hin as [Hin|Hin]; [contradiction|].
    apply (Hd x); [left; reflexivity|exact Hin].
  - apply IH; auto. intros y Hy1 Hy2. apply (Hd y); [right; exact Hy1|exact Hy2].
Qed.

Section Load.
Variables splint quadS lnr : R -> R -> R.
Variable isclose : R -> R -> bool.
Notation lupd := (lib_update (K:=Rops) splint quadS lnr isclose).
Notation loadR := (load (K:=Rops) splint quadS lnr isclose).

Definition keys_nodup (l : @lib Rops) : Prop := NoDup (map fst l).

Lemma lib_get_none_notin l g : lgetR l g = None -> ~ In g (map fst l).
Proof.
  induction l as [|[k x] l IH]; cbn [lib_get map fst]; [intros _ []|].
  destruct (str_eqb k g) eqn:E; [discriminate|]. intros H [Hk|Hin]; [subst; rewrite str_eqb_refl in E; discriminate|exact (IH H Hin)].
Qed.

Lemma lib_set_keys l g v : keys_nodup l -> keys_nodup (lsetR l g v) /\ (forall k, In k (map fst (lsetR l g v)) <-> k = g \/ In k (map fst l)).
Proof.
  unfold keys_nodup. induction l as [|[k x] l IH]; intros Hn; cbn [lib_set map fst].
  - split; [constructor; [intros []|constructor]|]. intros k. simpl. intuition congruence.
  - inversion Hn as [|? ? Hnot Hn']; subst. destruct (str_eqb k g) eqn:E.
    + apply str_eqb_eq in E. subst k. cbn [map fst]. split; [constructor; assumption|]. intros k. simpl. intuition congruence.
    + destruct (IH Hn') as [A B]. cbn [map fst]. split.
      * constructor; [|exact A]. intros Hin. apply B in Hin. destruct Hin as [->|Hin]; [rewrite str_eqb_refl in E; discriminate|contradiction].
      * intros k'. simpl. rewrite B. intuition congruence.
Qed.

Lemma lib_update_keys other : forall self res, keys_nodup self -> lupd self other false = (res, None) -> keys_nodup res.
Proof.
  induction other as [|[g c] other IH]; intros self res Hn U; cbn [lib_update] in U.
  - inversion U; subst. exact Hn.
  - destruct (lgetR self g) as [mine|].
    + destruct (corr_update _ _ _ _ mine c false) as [new [e|]]; [discriminate|]. apply (IH _ _ (proj1 (lib_set_keys self g new Hn)) U).
    + apply (IH _ _ (proj1 (lib_set_keys self g c Hn)) U).
Qed.

Lemma own_groups_keys gs : forall acc l, keys_nodup acc -> own_groups (K:=Rops) gs acc = Ok l -> keys_nodup l.
Proof.
  induction gs as [|[g c] gs IH]; intros acc l Hn H; cbn [own_groups] in H.
  - inversion H; subst. exact Hn.
  - destruct (lgetR acc g) eqn:E; [discriminate|]. refine (IH _ _ _ H). unfold keys_nodup. rewrite map_app. cbn [map fst].
    apply NoDup_app_intro'; [exact Hn|constructor; [intros []|constructor]|].
    intros k Hk [<-|[]]. exact (lib_get_none_notin acc g E Hk).
Qed.

(* the keys of a loaded library are unique (a dict) *)
Lemma load_keys f l : loadR f = Ok l -> keys_nodup l.
Proof.
  destruct f as [gs incs]. cbn [load]. destruct (own_groups gs []) as [own|e] eqn:Eo; [|discriminate]. cbn [bind].
  assert (Ko : keys_nodup own) by (apply (own_groups_keys gs [] own); [constructor|exact Eo]).
  clear Eo. revert own Ko l.
  induction incs as [|i incs IH]; intros acc Ka l H.
  - inversion H; subst. exact Ka.
  - destruct (loadR i) as [li|e] eqn:Ei; [|discriminate]. cbn [bind] in H.
    destruct (lupd acc li false) as [acc' [e|]] eqn:Eu; [discriminate|].
    apply (IH acc' (lib_update_keys li acc acc' Ka Eu) l H).
Qed.

Lemma load_two gs f1 f2 : loadR (File gs [f1; f2]) =
  bind (own_groups gs []) (fun own => bind (loadR f1) (fun l1 =>
    match lupd own l1 false with
    | (a1, None) => bind (loadR f2) (fun l2 => match lupd a1 l2 false with (a2, None) => Ok a2 | (_, Some e) => Raise e end)
    | (_, Some e) => Raise e
    end)).
Proof. reflexivity. Qed.

(* a file that includes two files: whichever is included first, every group ends with the same table and range
   (whenever both orders load) *)
Theorem two_includes_order_free gs f1 f2 L12 L21 :
  (forall l g c, loadR f1 = Ok l -> lgetR l g = Some c -> NoDup (map fst (i_tab c))) ->
  (forall l g c, loadR f2 = Ok l -> lgetR l g = Some c -> NoDup (map fst (i_tab c))) ->
  loadR (File gs [f1; f2]) = Ok L12 -> loadR (File gs [f2; f1]) = Ok L21 ->
  forall g, same_group (lgetR L12 g) (lgetR L21 g).
Proof.
  intros T1 T2 H12 H21. rewrite load_two in H12, H21.
  destruct (own_groups gs []) as [own|e]; [|discriminate]. cbn [bind] in H12, H21.
  destruct (loadR f1) as [l1|e1] eqn:E1; [|discriminate]. destruct (loadR f2) as [l2|e2] eqn:E2; [|discriminate]. cbn [bind] in H12, H21.
  destruct (lupd own l1 false) as [a1 [e|]] eqn:U1; [discriminate|]. cbn [bind] in H12.
  destruct (lupd a1 l2 false) as [a12 [e|]] eqn:U12; [discriminate|]. inversion H12; subst L12.
  destruct (lupd own l2 false) as [a2 [e|]] eqn:U2; [discriminate|]. cbn [bind] in H21.
  destruct (lupd a2 l1 false) as [a21 [e|]] eqn:U21; [discriminate|]. inversion H21; subst L21.
  apply (lib_order_free splint quadS lnr isclose own l1 l2 a1 a12 a2 a21);
    [exact (load_keys f1 l1 E1)|exact (load_keys f2 l2 E2)|intros g c; apply (T1 l1 g c eq_refl)|intros g c; apply (T2 l2 g c eq_refl)|assumption..].
Qed.
End Load.
