(* Number structure shared by the thermochemistry models: the same Gallina
   terms are instantiated with exact rationals (execution, correspondence)
   and with the reals (theorems). *)
From Coq Require Import QArith Reals List Bool.
Import ListNotations.

Record numops := {
  V : Type;
  n0 : V; n1 : V;
  nadd : V -> V -> V; nsub : V -> V -> V; nmul : V -> V -> V;
  ndiv : V -> V -> V; nopp : V -> V;
  nltb : V -> V -> bool; nleb : V -> V -> bool; neqb : V -> V -> bool
}.

Definition Qltb (a b : Q) : bool := negb (Qle_bool b a).
Definition Qops : numops := {|
  V := Q; n0 := 0%Q; n1 := 1%Q;
  nadd := fun a b => Qred (Qplus a b); nsub := fun a b => Qred (Qminus a b);
  nmul := fun a b => Qred (Qmult a b); ndiv := fun a b => Qred (Qdiv a b); nopp := Qopp;
  nltb := Qltb; nleb := Qle_bool; neqb := Qeq_bool |}.

Definition Rltb (a b : R) : bool := if Rlt_dec a b then true else false.
Definition Rleb (a b : R) : bool := if Rle_dec a b then true else false.
Definition Reqb (a b : R) : bool := if Req_EM_T a b then true else false.
Definition Rops : numops := {|
  V := R; n0 := 0%R; n1 := 1%R;
  nadd := Rplus; nsub := Rminus; nmul := Rmult; ndiv := Rdiv; nopp := Ropp;
  nltb := Rltb; nleb := Rleb; neqb := Reqb |}.

Declare Scope num_scope.
Delimit Scope num_scope with num.
Notation "a + b" := (nadd _ a b) : num_scope.
Notation "a - b" := (nsub _ a b) : num_scope.
Notation "a * b" := (nmul _ a b) : num_scope.
Notation "a / b" := (ndiv _ a b) : num_scope.
Notation "a <? b" := (nltb _ a b) : num_scope.
Notation "a <=? b" := (nleb _ a b) : num_scope.
Notation "a =? b" := (neqb _ a b) : num_scope.

Definition nmax {N : numops} (a b : V N) : V N := if nleb N a b then b else a.
Definition nmin {N : numops} (a b : V N) : V N := if nleb N a b then a else b.

(* outcomes of the thermochemistry layer *)
Inductive terr :=
| MissingData (groups : list (list N))
| IncompleteData | OutsideCorrelation | ReadOnlyData
| AssertErr | ValueErr | KeyErr | UnitsErr | InternalErr.

Inductive res (A : Type) := Ok (a : A) | Raise (e : terr).
Arguments Ok {A} a.
Arguments Raise {A} e.

Definition bind {A B} (x : res A) (f : A -> res B) : res B :=
  match x with Ok a => f a | Raise e => Raise e end.

(* a property evaluation: value and "IncompleteDataWarning was issued" *)
Definition ev (N : numops) := res (V N * bool).
