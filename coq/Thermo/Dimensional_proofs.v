From Coq Require Import List NArith Bool Reals Lra Permutation.
From PG Require Import Thermo.Num Thermo.Estimate Thermo.Estimate_proofs.
Import ListNotations.
Local Open Scope R_scope.

Theorem G_is_H_minus_TS h s T Ru :
  dim_G (K:=Rops) h s T Ru = dim_H (K:=Rops) h T Ru - T * dim_S (K:=Rops) s Ru.
Proof. unfold dim_G, dim_H, dim_S; simpl. ring. Qed.

(* values in two units differ exactly by the ratio of the two constants *)
Theorem unit_ratio_H h T R1 R2 :
  dim_H (K:=Rops) h T R1 * R2 = dim_H (K:=Rops) h T R2 * R1.
Proof. unfold dim_H; simpl. ring. Qed.

Theorem unit_ratio_S s R1 R2 :
  dim_S (K:=Rops) s R1 * R2 = dim_S (K:=Rops) s R2 * R1.
Proof. unfold dim_S; simpl. ring. Qed.

Theorem unit_ratio_G h s T R1 R2 :
  dim_G (K:=Rops) h s T R1 * R2 = dim_G (K:=Rops) h s T R2 * R1.
Proof. unfold dim_G; simpl. ring. Qed.

Theorem unit_conversion_H h T R1 R2 : R2 <> 0 ->
  dim_H (K:=Rops) h T R1 = dim_H (K:=Rops) h T R2 * (R1 / R2).
Proof. intros. unfold dim_H; simpl. field; auto. Qed.

(* elemental reference: sum of the tabulated entropies over all atoms *)
Fixpoint sum_tbl (tbl : list (N * R)) (atoms : list N) : option R :=
  match atoms with
  | [] => Some 0
  | z :: r => match tbl_get (K:=Rops) tbl z, sum_tbl tbl r with
              | Some v, Some a => Some (v + a)
              | _, _ => None
              end
  end.

Lemma s_elements_acc tbl atoms : forall acc,
  s_elements (K:=Rops) tbl atoms acc =
  match sum_tbl tbl atoms with Some a => Ok (acc + a) | None => Raise KeyErr end.
Proof.
  induction atoms as [|z r IH]; intros acc; simpl.
  - f_equal. lra.
  - destruct (tbl_get (K:=Rops) tbl z) as [v|]; [|reflexivity].
    rewrite IH. destruct (sum_tbl tbl r); [|reflexivity]. f_equal. simpl. lra.
Qed.

Theorem s_elements_is_sum tbl atoms a :
  sum_tbl tbl atoms = Some a -> s_elements (K:=Rops) tbl atoms 0 = Ok a.
Proof. intros H. rewrite s_elements_acc, H. f_equal. simpl. lra. Qed.

Lemma sum_tbl_perm tbl a1 a2 : Permutation a1 a2 -> sum_tbl tbl a1 = sum_tbl tbl a2.
Proof.
  induction 1; simpl; auto.
  - rewrite IHPermutation. reflexivity.
  - destruct (tbl_get (K:=Rops) tbl y), (tbl_get (K:=Rops) tbl x), (sum_tbl tbl l); auto.
    f_equal. lra.
  - congruence.
Qed.

Theorem s_elements_atom_order tbl a1 a2 :
  Permutation a1 a2 ->
  s_elements (K:=Rops) tbl a1 0 = s_elements (K:=Rops) tbl a2 0.
Proof. intros P. rewrite !s_elements_acc, (sum_tbl_perm _ _ _ P). reflexivity. Qed.

(* S relative to the elements = S - S_ele ;  G relative = G + S_ele *)
Theorem elements_offset_S tv s_ele :
  est_S (K:=Rops) (map okterm tv) s_ele = Ok (wsum tv - s_ele, anywarn tv).
Proof. exact (est_S_elements tv s_ele). Qed.

Theorem elements_offset_G hv hw sv sw s_ele :
  est_G (K:=Rops) (Ok (hv, hw)) (Ok (sv - s_ele, sw)) = Ok ((hv - sv) + s_ele, hw || sw).
Proof. simpl. f_equal. f_equal. lra. Qed.
