From Coq Require Import List NArith ZArith QArith Bool.
From PG Require Import Common.Strs Units.Model Units.DB Units.Loader Units.Qty_proofs.
Import ListNotations.

Definition d_molar_energy : dim := [2; 1; -2; 0; 0; -1; 0]%Q.
Definition d_molar_entropy : dim := [2; 1; -2; 0; -1; -1; 0]%Q.
Definition d_temp : dim := prim 4.

Lemma Rconst_val : Rconst = Qty (1039309 # 125000) d_molar_entropy.
Proof. vm_compute. reflexivity. Qed.

(* whatever the presentation, a molar enthalpy / entropy / heat capacity
   becomes a PLAIN number after division by R (and T_ref) - zero included *)
Theorem nd_H_plain h t : ~ t == 0 ->
  exists x, nd_H (Qty h d_molar_energy) (Qty t d_temp) = UOk (Num x)
            /\ x == h / ((1039309 # 125000) * t).
Proof.
  intros Ht. unfold nd_H. rewrite Rconst_val.
  assert (Hm : q_mul (Qty (1039309 # 125000) d_molar_entropy) (Qty t d_temp)
               = Qty (Qred ((1039309 # 125000) * t)) d_molar_energy).
  { unfold q_mul. cbn [qval qdim].
    replace (dim_mul d_molar_entropy d_temp) with d_molar_energy by (vm_compute; reflexivity).
    apply dimensional_is_quantity. vm_compute. reflexivity. }
  rewrite Hm. unfold q_div. cbn [qval qdim].
  destruct (Qeq_bool (Qred ((1039309 # 125000) * t)) 0) eqn:E.
  - exfalso. apply Qeq_bool_iff in E. rewrite Qred_correct in E.
    apply Ht. destruct (Qmult_integral _ _ E) as [A|A]; [discriminate A|exact A].
  - replace (dim_div d_molar_energy d_molar_energy) with dim0 by (vm_compute; reflexivity).
    rewrite dimensionless_is_number by reflexivity.
    eexists; split; [reflexivity|]. rewrite !Qred_correct. reflexivity.
Qed.

Theorem nd_S_plain s :
  exists x, nd_S (Qty s d_molar_entropy) = UOk (Num x) /\ x == s / (1039309 # 125000).
Proof.
  unfold nd_S. rewrite Rconst_val. unfold q_div. cbn [qval qdim].
  assert (E : Qeq_bool (1039309 # 125000) 0 = false) by reflexivity. rewrite E.
  replace (dim_div d_molar_entropy d_molar_entropy) with dim0 by (vm_compute; reflexivity).
  rewrite dimensionless_is_number by reflexivity.
  eexists; split; [reflexivity|]. apply Qred_correct.
Qed.

(* two presentations that denote the same SI quantity load to the same number:
   the non-dimensional value depends on the SI magnitude only *)
Theorem presentation_independent h1 h2 t : h1 == h2 -> ~ t == 0 ->
  exists x1 x2, nd_H (Qty h1 d_molar_energy) (Qty t d_temp) = UOk (Num x1)
             /\ nd_H (Qty h2 d_molar_energy) (Qty t d_temp) = UOk (Num x2) /\ x1 == x2.
Proof.
  intros E Ht. destruct (nd_H_plain h1 t Ht) as (x1 & A1 & B1).
  destruct (nd_H_plain h2 t Ht) as (x2 & A2 & B2).
  exists x1, x2. repeat split; auto. rewrite B1, B2, E. reflexivity.
Qed.

(* a dimensional value for which no unit is available is rejected *)
Theorem missing_unit_rejected x : qty_load None (YNum x) = LRaise LInputData.
Proof. reflexivity. Qed.

Theorem explicit_unit_needs_no_default s x d :
  eval_ascii s = UOk (Qty x d) -> forall ku, qty_load ku (YStr s) = LOk (Qty x d).
Proof. intros E ku. unfold qty_load. rewrite E. reflexivity. Qed.

Example zero_enthalpy_is_quantity :
  with_units 0 [107;99;97;108;47;109;111;108]%N = LOk (Qty 0 d_molar_energy)    (* 0 kcal/mol *)
  /\ (exists x, ubind (match with_units 0 [107;99;97;108;47;109;111;108]%N with LOk h => UOk h | _ => URaise InternalErr end)
                      (fun h => nd_H h (Qty 298 d_temp)) = UOk (Num x)).
Proof. vm_compute. split; [reflexivity|eexists; reflexivity]. Qed.
