(* Model of the quantity loader (yaml_io/builtins.py qty_loader), with_units
   (Units/helpers.py, after the zero fix) and the non-dimensionalisation done
   by ThermochemIncomplete.yaml_construct.  No proofs here. *)
From Coq Require Import List NArith ZArith QArith Bool.
From PG Require Import Common.Strs Units.Model Units.DB.
Import ListNotations.

Inductive lerr := LInputData | LUnits (e : uerr).
Inductive lres (A : Type) := LOk (a : A) | LRaise (e : lerr).
Arguments LOk {A} a.
Arguments LRaise {A} e.

(* a YAML scalar as PyYAML hands it over: a number, or text *)
Inductive yval := YNum (q : Q) | YStr (s : str).

Definition lift {A} (x : ures A) : lres A :=
  match x with UOk a => LOk a | URaise e => LRaise (LUnits e) end.

(* number * eval_qty(units) *)
Definition with_units (x : Q) (u : str) : lres qv :=
  match eval_ascii u with
  | UOk uq => LOk (q_mul (Num x) uq)
  | URaise e => LRaise (LUnits e)
  end.

Definition qty_load (kind_unit : option str) (v : yval) : lres qv :=
  match (match v with YNum q => LOk (Num q) | YStr s => lift (eval_ascii s) end) with
  | LRaise e => LRaise e
  | LOk (Qty x d) => LOk (Qty x d)
  | LOk (Num x) =>
      match kind_unit with
      | Some u => with_units x u
      | None => LRaise LInputData
      end
  end.

(* Consts.GAS_CONSTANT = eval_qty('8.314472 J/(mol K)') *)
Definition s_Rconst : str :=
  [56;46;51;49;52;52;55;50;32;74;47;40;109;111;108;32;75;41]%N.
Definition Rconst : qv := match eval_ascii s_Rconst with UOk q => q | URaise _ => Num 0 end.

(* H_ref/(R*T_ref), S_ref/R, Cp/R *)
Definition nd_H (H Tref : qv) : ures qv := q_div H (q_mul Rconst Tref).
Definition nd_S (S : qv) : ures qv := q_div S Rconst.
Definition in_K (T : qv) : ures Q := q_in_units T (Qty 1 (prim 4)).
