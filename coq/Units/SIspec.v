(* Independent specification of the documented units: SI value and the seven
   base-dimension exponents (m kg s A K mol cd), written from the SI brochure /
   NIST SP 811 definitions - NOT from the code (DESIGN 5.20a).  `tol` is the
   relative tolerance: 0 for exact definitions, 1e-8 where the package
   documents a rounded decimal (lbf, psi, hp, BTU), and the three measured
   constants are taken as the package documents them. *)
From Coq Require Import List NArith ZArith QArith.
Import ListNotations.
Open Scope Q_scope.

Record spec := { s_name : list N; s_val : Q; s_dim : list Q; s_tol : Q }.
Definition mk n v d t := {| s_name := n; s_val := v; s_dim := d; s_tol := t |}.
Definition e8 : Q := 1 # 100000000.

Definition d_len := [1;0;0;0;0;0;0].  Definition d_mass := [0;1;0;0;0;0;0].
Definition d_time := [0;0;1;0;0;0;0]. Definition d_force := [1;1;-2;0;0;0;0].
Definition d_press := [-1;1;-2;0;0;0;0]. Definition d_energy := [2;1;-2;0;0;0;0].
Definition d_power := [2;1;-3;0;0;0;0]. Definition d_vol := [3;0;0;0;0;0;0].

Definition lbf_exact : Q := (45359237 # 100000000) * (980665 # 100000).

Definition si_table : list spec := [
  mk [109]%N 1 d_len 0;                                   (* m *)
  mk [103]%N (1 # 1000) d_mass 0;                         (* g *)
  mk [115]%N 1 d_time 0;                                  (* s *)
  mk [65]%N 1 [0;0;0;1;0;0;0] 0;                          (* A *)
  mk [75]%N 1 [0;0;0;0;1;0;0] 0;                          (* K *)
  mk [109;111;108]%N 1 [0;0;0;0;0;1;0] 0;                 (* mol *)
  mk [99;100]%N 1 [0;0;0;0;0;0;1] 0;                      (* cd *)
  mk [78]%N 1 d_force 0;                                  (* N *)
  mk [80;97]%N 1 d_press 0;                               (* Pa *)
  mk [74]%N 1 d_energy 0;                                 (* J *)
  mk [87]%N 1 d_power 0;                                  (* W *)
  mk [67]%N 1 [0;0;1;1;0;0;0] 0;                          (* C *)
  mk [86]%N 1 [2;1;-3;-1;0;0;0] 0;                        (* V *)
  mk [70]%N 1 [-2;-1;4;2;0;0;0] 0;                        (* F *)
  mk [79;104;109]%N 1 [2;1;-3;-2;0;0;0] 0;                (* Ohm *)
  mk [105;110]%N (254 # 10000) d_len 0;                   (* in *)
  mk [102;116]%N (3048 # 10000) d_len 0;                  (* ft *)
  mk [76]%N (1 # 1000) d_vol 0;                           (* L = 1 dm^3 *)
  mk [109;105;110]%N 60 d_time 0;                         (* min *)
  mk [104]%N 3600 d_time 0;                               (* h *)
  mk [108;98]%N (45359237 # 100000000) d_mass 0;          (* lb *)
  mk [116]%N 1000 d_mass 0;                               (* t *)
  mk [100;121;110]%N (1 # 100000) d_force 0;              (* dyn *)
  mk [108;98;102]%N lbf_exact d_force e8;                 (* lbf *)
  mk [98;97;114]%N 100000 d_press 0;                      (* bar *)
  mk [97;116;109]%N 101325 d_press 0;                     (* atm *)
  mk [116;111;114;114]%N (101325 # 760) d_press 0;        (* torr *)
  mk [112;115;105]%N (lbf_exact / ((254 # 10000) * (254 # 10000))) d_press e8;   (* psi *)
  mk [99;97;108]%N (4184 # 1000) d_energy 0;              (* cal *)
  mk [101;114;103]%N (1 # 10000000) d_energy 0;           (* erg *)
  mk [66;84;85]%N ((4184 # 1000) * (45359237 # 100000) * (5 # 9)) d_energy e8;   (* BTU (thermochemical) *)
  mk [104;112]%N (33000 * (3048 # 10000) * lbf_exact / 60) d_power e8;           (* hp *)
  mk [80]%N (1 # 10) [-1;1;-1;0;0;0;0] 0;                 (* P *)
  mk [83;116]%N (1 # 10000) [2;0;-1;0;0;0;0] 0;           (* St *)
  mk [117]%N (1660538921 # 1000000000000000000000000000000000000) d_mass 0;      (* u, as documented *)
  mk [101;86]%N (1602176487 # 10000000000000000000000000000) d_energy 0;         (* eV, as documented *)
  mk [109;111;108;101;99;117;108;101]%N (100000000 # 60221417900000000000000000000000)
     [0;0;0;0;0;1;0] (1 # 1000000000000)                  (* molecule, as documented *)
].

(* SI prefixes: name, decimal exponent *)
Definition si_prefixes : list (list N * Z) := [
  ([89]%N, 24%Z); ([90]%N, 21%Z); ([69]%N, 18%Z); ([80]%N, 15%Z); ([84]%N, 12%Z);
  ([71]%N, 9%Z); ([77]%N, 6%Z); ([107]%N, 3%Z); ([104]%N, 2%Z); ([100;97]%N, 1%Z);
  ([100]%N, (-1)%Z); ([99]%N, (-2)%Z); ([109]%N, (-3)%Z); ([117]%N, (-6)%Z);
  ([110]%N, (-9)%Z); ([112]%N, (-12)%Z); ([102]%N, (-15)%Z); ([97]%N, (-18)%Z);
  ([122]%N, (-21)%Z); ([121]%N, (-24)%Z)].
