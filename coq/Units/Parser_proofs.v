(* Outcome classification of the units parser and evaluator (C10). *)
From Coq Require Import List NArith ZArith QArith Qround Bool Lia.
From PG Require Import Common.Strs Units.Model.
Import ListNotations.

Section P.
Variable rpow : Q -> Q -> option Q.
Variables extra_space extra_alpha : N -> bool.

Definition parse_class {A} (r : ures A) : Prop :=
  match r with
  | UOk _ | URaise UnitsParse | URaise Hang => True
  | URaise _ => False
  end.

Lemma parse_number_class ts : parse_class (parse_number ts).
Proof.
  unfold parse_number. destruct ts as [|t r]; [exact I|].
  cbv beta iota.
  destruct (tok_is (Some t) 40).
  - destruct r as [|n r2]; [exact I|]. destruct r2 as [|cl rest]; [exact I|].
    cbv beta iota.
    destruct (tok_is (Some cl) 41); [|exact I].
    destruct (isnumber n); exact I.
  - destruct (isnumber t); exact I.
Qed.

Lemma ubind_class {A B} (x : ures A) (f : A -> ures B) :
  parse_class x -> (forall a, parse_class (f a)) -> parse_class (ubind x f).
Proof. destruct x as [a|[]]; simpl; auto; contradiction. Qed.

Lemma parse_base_class pe : (forall ts, parse_class (pe ts)) ->
  forall ts, parse_class (parse_base extra_alpha pe ts).
Proof.
  intros Hpe [|t r]; [exact I|]. unfold parse_base.
  destruct (tok_is (Some t) 40).
  - apply ubind_class; [apply Hpe|]. intros [e l]. cbn [snd fst].
    destruct l as [|cl rest]; [exact I|].
    destruct (tok_is (Some cl) 41); exact I.
  - destruct (isnumber t); [apply parse_number_class|].
    destruct (tok_isalpha extra_alpha t); exact I.
Qed.

Lemma parse_factor_class pe : (forall ts, parse_class (pe ts)) ->
  forall ts, parse_class (parse_factor extra_alpha pe ts).
Proof.
  intros Hpe ts. unfold parse_factor.
  apply ubind_class; [apply parse_base_class; auto|]. intros [b l]. cbn [snd fst].
  destruct l as [|t r]; [exact I|].
  destruct (tok_is (Some t) 94); [|exact I].
  apply ubind_class; [apply parse_number_class|]. intros; exact I.
Qed.

Lemma expr_loop_class pf : (forall ts, parse_class (pf ts)) ->
  forall m res ts, parse_class (expr_loop pf m res ts).
Proof.
  intros Hf m. induction m as [|m IHm]; intros res ts; [exact I|].
  cbn [expr_loop]. destruct ts as [|t r]; [exact I|].
  destruct (tok_is (Some t) 42).
  { apply ubind_class; [apply Hf|]. intros; apply IHm. }
  destruct (tok_is (Some t) 47).
  { apply ubind_class; [apply Hf|]. intros; apply IHm. }
  pose proof (Hf (t :: r)) as Hc.
  destruct (pf (t :: r)) as [f1|e].
  - apply IHm.
  - destruct e; simpl in Hc; try contradiction; exact I.
Qed.

Lemma parse_expr_class n : forall ts,
  parse_class (parse_expr extra_alpha n ts).
Proof.
  induction n as [|n IH]; intros ts; [exact I|].
  cbn [parse_expr].
  apply ubind_class; [apply parse_factor_class; exact IH|].
  intros [f0 ts1]. apply expr_loop_class. apply parse_factor_class. exact IH.
Qed.

(* ---------- the parser never runs out of fuel ---------- *)
Local Close Scope Q_scope.
Local Open Scope nat_scope.
Definition prog (r : ures (tree * list str)) (ts : list str) : Prop :=
  match r with
  | UOk (_, rest) => length rest < length ts
  | URaise Hang => False
  | URaise _ => True
  end.
Definition prog_le (r : ures (tree * list str)) (ts : list str) : Prop :=
  match r with
  | UOk (_, rest) => length rest <= length ts
  | URaise Hang => False
  | URaise _ => True
  end.

Lemma parse_number_prog ts : prog (parse_number ts) ts.
Proof.
  unfold parse_number. destruct ts as [|t r]; [exact I|]. cbv beta iota.
  destruct (tok_is (Some t) 40).
  - destruct r as [|n r2]; [exact I|]. destruct r2 as [|cl rest]; [exact I|]. cbv beta iota.
    destruct (tok_is (Some cl) 41); [|exact I]. destruct (isnumber n); simpl; [destruct (has_dot n); simpl; lia|exact I].
  - destruct (isnumber t); simpl; [destruct (has_dot t); simpl; lia|exact I].
Qed.

Lemma parse_base_prog pe ts : (forall r, length r < length ts -> prog (pe r) r) ->
  prog (parse_base extra_alpha pe ts) ts.
Proof.
  intros Hpe. destruct ts as [|t r]; [exact I|]. unfold parse_base.
  destruct (tok_is (Some t) 40).
  - specialize (Hpe r (Nat.lt_succ_diag_r _)). destruct (pe r) as [[e l]|[]]; cbn [ubind snd fst prog] in *; auto.
    destruct l as [|cl rest]; [exact I|]. destruct (tok_is (Some cl) 41); cbn [prog length] in *; [lia|exact I].
  - destruct (isnumber t); [apply parse_number_prog|].
    destruct (tok_isalpha extra_alpha t); simpl; [lia|exact I].
Qed.

Lemma parse_factor_prog pe ts : (forall r, length r < length ts -> prog (pe r) r) ->
  prog (parse_factor extra_alpha pe ts) ts.
Proof.
  intros Hpe. unfold parse_factor. pose proof (parse_base_prog pe ts Hpe) as Hb.
  destruct (parse_base extra_alpha pe ts) as [[b l]|[]]; cbn [ubind snd fst prog] in *; auto.
  destruct l as [|t r]; [cbn [prog]; exact Hb|].
  destruct (tok_is (Some t) 94); [|cbn [prog]; exact Hb].
  pose proof (parse_number_prog r) as Hn. destruct (parse_number r) as [[nr l2]|[]]; cbn [ubind snd fst prog length] in *; auto. lia.
Qed.

Lemma expr_loop_prog pf : forall m res ts,
  (forall r, length r <= length ts -> prog (pf r) r) -> length ts < m ->
  prog_le (expr_loop pf m res ts) ts.
Proof.
  induction m as [|m IH]; intros res ts Hpf Hm; [lia|].
  cbn [expr_loop]. destruct ts as [|t r]; [simpl; lia|].
  assert (Hr : forall x, length x <= length r -> prog (pf x) x) by (intros x Hx; apply Hpf; simpl; lia).
  assert (Step : forall f1 : tree * list str, length (snd f1) < length (t :: r) -> forall res', prog_le (expr_loop pf m res' (snd f1)) (t :: r)).
  { intros f1 Hl res'. assert (G := IH res' (snd f1)).
    assert (G' : prog_le (expr_loop pf m res' (snd f1)) (snd f1)).
    { apply G; [intros x Hx; apply Hpf; lia|simpl in *; lia]. }
    destruct (expr_loop pf m res' (snd f1)) as [[t' rest]|[]]; simpl in *; auto; lia. }
  destruct (tok_is (Some t) 42).
  { pose proof (Hr r (le_n _)) as H1. destruct (pf r) as [f1|[]]; cbn [ubind prog prog_le] in *; auto. apply Step. destruct f1; cbn [snd prog length] in *; lia. }
  destruct (tok_is (Some t) 47).
  { pose proof (Hr r (le_n _)) as H1. destruct (pf r) as [f1|[]]; cbn [ubind prog prog_le] in *; auto. apply Step. destruct f1; cbn [snd prog length] in *; lia. }
  pose proof (Hpf (t :: r) (le_n _)) as H1.
  destruct (pf (t :: r)) as [f1|e].
  - apply Step. destruct f1; simpl in *; lia.
  - destruct e; simpl in *; auto.
Qed.

Lemma parse_expr_prog n : forall ts, length ts < n -> prog (parse_expr extra_alpha n ts) ts.
Proof.
  induction n as [|n IH]; intros ts Hn; [lia|].
  cbn [parse_expr].
  assert (Hpf : forall r, length r <= length ts -> prog (parse_factor extra_alpha (parse_expr extra_alpha n) r) r).
  { intros r Hr. apply parse_factor_prog. intros x Hx. apply IH. lia. }
  pose proof (Hpf ts (le_n _)) as H0.
  destruct (parse_factor extra_alpha (parse_expr extra_alpha n) ts) as [[f0 ts1]|[]]; cbn [ubind snd fst prog] in *; auto.
  assert (G : prog_le (expr_loop (parse_factor extra_alpha (parse_expr extra_alpha n)) n f0 ts1) ts1).
  { apply expr_loop_prog; [intros r Hr; apply Hpf; lia|lia]. }
  destruct (expr_loop _ n f0 ts1) as [[t' rest]|[]]; simpl in *; auto. lia.
Qed.

(* parsing always ends: a tree or the units parse error, never out of fuel *)
Theorem parse_total text :
  match parse extra_space extra_alpha text with
  | UOk _ | URaise UnitsParse => True
  | URaise _ => False
  end.
Proof.
  unfold parse.
  set (ts := tokenize extra_space text None []).
  pose proof (parse_expr_class (S (S (length ts))) ts) as Hc.
  pose proof (parse_expr_prog (S (S (length ts))) ts (Nat.lt_lt_succ_r _ _ (Nat.lt_succ_diag_r _))) as Hp.
  destruct (parse_expr extra_alpha (S (S (length ts))) ts) as [[t [|x r]]|e]; simpl in *; auto.
  destruct e; simpl in *; auto.
Qed.

Theorem parse_classified text :
  parse_class (parse extra_space extra_alpha text).
Proof.
  unfold parse.
  pose proof (parse_expr_class (S (S (length (tokenize extra_space text None []))))
                               (tokenize extra_space text None [])) as H.
  destruct (parse_expr _ _ _) as [[t [|x r]]|e]; simpl in *; auto.
Qed.

(* evaluation: names resolve or are a parse error; arithmetic is total except
   division by zero and the exponent cases named here *)
Definition eval_class (r : ures qv) : Prop :=
  match r with
  | UOk _ | URaise UnitsParse | URaise ZeroDiv | URaise TypeErr | URaise NoOracle => True
  | URaise _ => False
  end.

Lemma lookup_class ps db name : eval_class (lookup ps db name).
Proof.
  unfold lookup. destruct (db_get db name); [exact I|].
  destruct (db_get db (skipn 1 name)) as [v1|], (pref_get ps (firstn 1 name)) as [p1|];
    try exact I;
    destruct (db_get db (skipn 2 name)) as [v2|], (pref_get ps (firstn 2 name)) as [p2|];
    exact I.
Qed.

Theorem eval_classified ps db t : eval_class (eval rpow ps db t).
Proof.
  induction t as [s|v|v|a IHa b IHb|a IHa b IHb|a IHa e IHe]; simpl; auto.
  - apply lookup_class.
  - destruct (eval rpow ps db a) as [x|[]]; simpl in *; auto.
    destruct (eval rpow ps db b) as [y|[]]; simpl in *; auto.
  - destruct (eval rpow ps db a) as [x|[]]; simpl in *; auto.
    destruct (eval rpow ps db b) as [y|[]]; simpl in *; auto.
    unfold q_div. destruct (Qeq_bool (qval y) 0); simpl; auto.
  - destruct (eval rpow ps db a) as [x|[]]; simpl in *; auto.
    destruct (eval rpow ps db e) as [y|[]]; simpl in *; auto.
    destruct y as [ev|ev ed]; [destruct (negb (Qle_bool 0 (qval x)) && negb (is_int ev)); [exact I|]|];
      unfold q_pow; simpl; auto.
    unfold vpow. destruct (is_int ev).
    + destruct ((Qfloor ev <? 0)%Z && Qeq_bool (qval x) 0); simpl; auto.
    + destruct (Qle_bool 0 (qval x)); simpl; auto. destruct (rpow (qval x) ev); simpl; auto.
Qed.

End P.
