(* Case-analysis theorems about the quantity operators (C11) and the
   conversions (C10).  Numbers: exact rationals with Qeq (==). *)
From Coq Require Import List NArith ZArith QArith Qround Qabs Bool Lia.
From PG Require Import Common.Strs Units.Model.
Import ListNotations.

Section Q.
Variable rpow : Q -> Q -> option Q.

(* ---------- incompatible operands ---------- *)
Definition incompatible (a b : qv) : Prop := compatible a b = false.

Lemma incompatible_dims a v d :
  dim_eqb (qdim a) d = false -> incompatible a (Qty v d).
Proof. intros H. unfold incompatible, compatible. exact H. Qed.

Lemma incompatible_bare a v :
  Qeq_bool v 0 = false -> dim_zero (qdim a) = false -> incompatible a (Num v).
Proof. intros H1 H2. unfold incompatible, compatible. rewrite H1, H2. reflexivity. Qed.

Theorem incompatible_ops_raise a b : incompatible a b ->
  q_add a b = URaise UnitsErr /\ q_sub a b = URaise UnitsErr
  /\ q_radd a b = URaise UnitsErr /\ q_rsub a b = URaise UnitsErr
  /\ q_lt a b = URaise UnitsErr /\ q_le a b = URaise UnitsErr
  /\ q_gt a b = URaise UnitsErr /\ q_ge a b = URaise UnitsErr
  /\ q_eq a b = false /\ q_ne a b = true.
Proof.
  unfold incompatible, q_add, q_sub, q_radd, q_rsub, q_lt, q_le, q_gt, q_ge, q_ne, q_eq.
  intros ->. repeat split; reflexivity.
Qed.

(* a bare zero is accepted by every quantity *)
Theorem bare_zero_accepted a :
  compatible a (Num 0) = true.
Proof. reflexivity. Qed.

(* ---------- compatible operands act as numbers ---------- *)
Theorem compatible_ops_agree a b : compatible a b = true ->
  q_add a b = UOk (build (qval a + qval b) (qdim a))
  /\ q_sub a b = UOk (build (qval a - qval b) (qdim a))
  /\ q_lt a b = UOk (Qltb (qval a) (qval b))
  /\ q_le a b = UOk (Qle_bool (qval a) (qval b))
  /\ q_gt a b = UOk (Qltb (qval b) (qval a))
  /\ q_ge a b = UOk (Qle_bool (qval b) (qval a))
  /\ q_eq a b = Qeq_bool (qval a) (qval b)
  /\ q_ne a b = negb (Qeq_bool (qval a) (qval b)).
Proof.
  unfold q_add, q_sub, q_lt, q_le, q_gt, q_ge, q_ne, q_eq.
  intros ->. repeat split; reflexivity.
Qed.

Theorem lt_is_strict_order a b : compatible a b = true ->
  (q_lt a b = UOk true <-> qval a < qval b) /\
  (q_gt a b = UOk true <-> qval b < qval a) /\
  (q_le a b = UOk true <-> qval a <= qval b) /\
  (q_ge a b = UOk true <-> qval b <= qval a).
Proof.
  intros H. destruct (compatible_ops_agree a b H) as (_ & _ & -> & -> & -> & -> & _).
  unfold Qltb. repeat split; intros E.
  - inversion E as [E']. apply negb_true_iff in E'.
    apply Qnot_le_lt. intros C. apply Qle_bool_iff in C. congruence.
  - f_equal. apply negb_true_iff. destruct (Qle_bool (qval b) (qval a)) eqn:C; auto.
    apply Qle_bool_iff in C. exfalso. eapply Qlt_not_le; eauto.
  - inversion E as [E']. apply negb_true_iff in E'.
    apply Qnot_le_lt. intros C. apply Qle_bool_iff in C. congruence.
  - f_equal. apply negb_true_iff. destruct (Qle_bool (qval a) (qval b)) eqn:C; auto.
    apply Qle_bool_iff in C. exfalso. eapply Qlt_not_le; eauto.
  - inversion E as [E']. apply Qle_bool_iff. exact E'.
  - f_equal. apply Qle_bool_iff. exact E.
  - inversion E as [E']. apply Qle_bool_iff. exact E'.
  - f_equal. apply Qle_bool_iff. exact E.
Qed.

(* ---------- products, quotients, powers ---------- *)
Theorem mul_dims a b :
  qdim (q_mul a b) = (if dim_zero (dim_mul (qdim a) (qdim b)) then dim0
                      else dim_mul (qdim a) (qdim b))
  /\ qval (q_mul a b) == qval a * qval b.
Proof.
  unfold q_mul, build. destruct (dim_zero _); cbn [qdim qval]; split; auto; apply Qred_correct.
Qed.

Theorem div_dims a b : ~ qval b == 0 ->
  exists r, q_div a b = UOk r
  /\ qdim r = (if dim_zero (dim_div (qdim a) (qdim b)) then dim0
               else dim_div (qdim a) (qdim b))
  /\ qval r == qval a / qval b.
Proof.
  intros Hb. unfold q_div.
  destruct (Qeq_bool (qval b) 0) eqn:E; [apply Qeq_bool_iff in E; contradiction|].
  eexists; split; [reflexivity|]. unfold build.
  destruct (dim_zero _); cbn [qdim qval]; split; auto; apply Qred_correct.
Qed.

Theorem div_by_zero a b : qval b == 0 -> q_div a b = URaise ZeroDiv.
Proof.
  intros H. unfold q_div. apply Qeq_bool_iff in H. rewrite H. reflexivity.
Qed.

(* all exponents cancel => a plain number, never a dimensionless Quantity *)
Theorem dimensionless_is_number v d : dim_zero d = true -> build v d = Num (Qred v).
Proof. intros H. unfold build. rewrite H. reflexivity. Qed.

Theorem dimensional_is_quantity v d : dim_zero d = false -> build v d = Qty (Qred v) d.
Proof. intros H. unfold build. rewrite H. reflexivity. Qed.

Theorem pow_by_quantity_rejected a v d : q_pow rpow a (Qty v d) = URaise TypeErr.
Proof. reflexivity. Qed.

(* ---------- conversion ---------- *)
Theorem in_units_incompatible a u : ~ qval u == 0 ->
  dim_zero (dim_div (qdim a) (qdim u)) = false ->
  q_in_units a u = URaise UnitsErr.
Proof.
  intros Hu Hd. unfold q_in_units, q_div.
  destruct (Qeq_bool (qval u) 0) eqn:E; [apply Qeq_bool_iff in E; contradiction|].
  unfold build. rewrite Hd. reflexivity.
Qed.

Theorem in_units_ratio a u : ~ qval u == 0 ->
  dim_zero (dim_div (qdim a) (qdim u)) = true ->
  exists x, q_in_units a u = UOk x /\ x == qval a / qval u.
Proof.
  intros Hu Hd. unfold q_in_units, q_div.
  destruct (Qeq_bool (qval u) 0) eqn:E; [apply Qeq_bool_iff in E; contradiction|].
  unfold build. rewrite Hd. eexists; split; [reflexivity|apply Qred_correct].
Qed.

(* x units, converted back to those units, is x; there-and-back is identity *)
Theorem convert_roundtrip x u : ~ qval u == 0 ->
  x * qval u / qval u == x.
Proof. intros H. field. exact H. Qed.

Theorem convert_there_and_back v u w : ~ qval u == 0 -> ~ qval w == 0 ->
  ((v / qval u) * qval u) / qval w == v / qval w.
Proof. intros H1 H2. field. split; assumption. Qed.

End Q.
