(* Executable model of pgradd/Units: tokeniser and recursive-descent parser
   (parser.py), unit lookup with prefixes (db.py), quantities and their
   operators (qty.py), conversion helpers (helpers.py).  No proofs here. *)
From Coq Require Import List NArith ZArith QArith Qround Qabs Bool.
From PG Require Import Common.Strs.
Import ListNotations.

(* ---------- outcomes ---------- *)
Inductive uerr := UnitsParse | UnitsErr | ZeroDiv | TypeErr | InternalErr | Hang | NoOracle.
Inductive ures (A : Type) := UOk (a : A) | URaise (e : uerr).
Arguments UOk {A} a.
Arguments URaise {A} e.
Definition ubind {A B} (x : ures A) (f : A -> ures B) : ures B :=
  match x with UOk a => f a | URaise e => URaise e end.

(* ---------- dimensions: seven rational exponents ---------- *)
Definition dim := list Q.
Definition dim0 : dim := [0; 0; 0; 0; 0; 0; 0]%Q.
Definition prim (i : nat) : dim :=
  map (fun j => if Nat.eqb i j then 1%Q else 0%Q) (seq 0 7).

(* FundamentalUnits._build: exponents within 1e-7 of an integer are rounded *)
Definition threshold : Q := 1 # 10000000.
Definition nearest (x : Q) : Z := Qfloor (x + (1 # 2)).
Definition norm_exp (x : Q) : Q :=
  let r := inject_Z (nearest x) in
  if Qle_bool (Qabs (x - r)) threshold then r else Qred x.
Fixpoint map2 (f : Q -> Q -> Q) (a b : dim) : dim :=
  match a, b with
  | x :: a', y :: b' => f x y :: map2 f a' b'
  | _, _ => []
  end.
Definition dim_mul (a b : dim) : dim := map norm_exp (map2 Qplus a b).
Definition dim_div (a b : dim) : dim := map norm_exp (map2 Qminus a b).
Definition dim_pow (e : Q) (a : dim) : dim := map (fun x => norm_exp (e * x)) a.
Definition dim_zero (d : dim) : bool := forallb (fun x => Qeq_bool x 0) d.
Fixpoint dim_eqb (a b : dim) : bool :=
  match a, b with
  | [], [] => true
  | x :: a', y :: b' => Qeq_bool x y && dim_eqb a' b'
  | _, _ => false
  end.

(* ---------- quantities ---------- *)
Inductive qv := Num (v : Q) | Qty (v : Q) (d : dim).
Definition qval (q : qv) : Q := match q with Num v => v | Qty v _ => v end.
Definition qdim (q : qv) : dim := match q with Num _ => dim0 | Qty _ d => d end.
(* GenericQuantity._build: no units left => a plain number *)
Definition build (v : Q) (d : dim) : qv := if dim_zero d then Num (Qred v) else Qty (Qred v) d.

Definition is_int (q : Q) : bool := Qeq_bool q (inject_Z (Qfloor q)).

Section Ops.
(* value ** non-integer exponent: host floating point, an oracle *)
Variable rpow : Q -> Q -> option Q.

Definition vpow (b e : Q) : ures Q :=
  if is_int e then
    let z := Qfloor e in
    if (z <? 0)%Z && Qeq_bool b 0 then URaise ZeroDiv else UOk (Qpower b z)
  else if Qle_bool 0 b then match rpow b e with Some v => UOk v | None => URaise NoOracle end
  else URaise TypeErr.

Definition q_mul (a b : qv) : qv := build (qval a * qval b) (dim_mul (qdim a) (qdim b)).
Definition q_div (a b : qv) : ures qv :=
  if Qeq_bool (qval b) 0 then URaise ZeroDiv
  else UOk (build (qval a / qval b) (dim_div (qdim a) (qdim b))).
Definition q_pow (a b : qv) : ures qv :=
  match b with
  | Qty _ _ => URaise TypeErr
  | Num e => ubind (vpow (qval a) e) (fun v => UOk (build v (dim_pow e (qdim a))))
  end.

(* the shared guard of + - < <= > >= (after the fix of the zero exemption:
   only a bare zero is exempt) *)
Definition compatible (a b : qv) : bool :=
  match b with
  | Num v => Qeq_bool v 0 || dim_zero (qdim a)
  | Qty _ d => dim_eqb (qdim a) d
  end.

Definition q_add (a b : qv) : ures qv :=
  if compatible a b then UOk (build (qval a + qval b) (qdim a)) else URaise UnitsErr.
Definition q_sub (a b : qv) : ures qv :=
  if compatible a b then UOk (build (qval a - qval b) (qdim a)) else URaise UnitsErr.
(* number on the left: Quantity.__radd__/__rsub__ *)
Definition q_radd (a b : qv) : ures qv :=      (* b + a with a the Quantity *)
  if compatible a b then UOk (build (qval b + qval a) (qdim a)) else URaise UnitsErr.
Definition q_rsub (a b : qv) : ures qv :=      (* b - a with a the Quantity *)
  if compatible a b then UOk (build (qval b - qval a) (qdim a)) else URaise UnitsErr.

Definition Qltb (a b : Q) : bool := negb (Qle_bool b a).
Definition q_lt (a b : qv) : ures bool :=
  if compatible a b then UOk (Qltb (qval a) (qval b)) else URaise UnitsErr.
Definition q_le (a b : qv) : ures bool :=
  if compatible a b then UOk (Qle_bool (qval a) (qval b)) else URaise UnitsErr.
Definition q_gt (a b : qv) : ures bool :=
  if compatible a b then UOk (Qltb (qval b) (qval a)) else URaise UnitsErr.
Definition q_ge (a b : qv) : ures bool :=
  if compatible a b then UOk (Qle_bool (qval b) (qval a)) else URaise UnitsErr.
Definition q_eq (a b : qv) : bool :=
  if compatible a b then Qeq_bool (qval a) (qval b) else false.
Definition q_ne (a b : qv) : bool := negb (q_eq a b).
Definition q_neg (a : qv) : qv := build (- qval a) (qdim a).
Definition q_abs (a : qv) : qv := build (Qabs (qval a)) (qdim a).

(* in_units: self / units must be a plain number *)
Definition q_in_units (a u : qv) : ures Q :=
  match q_div a u with
  | URaise e => URaise e
  | UOk (Num v) => UOk v
  | UOk (Qty _ _) => URaise UnitsErr
  end.

(* ---------- tokeniser: re.findall('-?[.\d]+|[a-zA-Z]+|.') minus whitespace ---------- *)
Definition is_numch (c : N) : bool := is_ascii_digit c || N.eqb c 46.
Definition is_letter (c : N) : bool :=
  (N.leb 65 c && N.leb c 90) || (N.leb 97 c && N.leb c 122).
(* str.isspace for ASCII; other code points come with the case *)
Variable extra_space : N -> bool.
Variable extra_alpha : N -> bool.
Definition is_space (c : N) : bool :=
  (N.leb 9 c && N.leb c 13) || (N.leb 28 c && N.leb c 32) || extra_space c.

Inductive tkind := KNum | KAlpha.
Definition flush (cur : option (tkind * str)) (acc : list str) : list str :=
  match cur with Some (_, t) => rev t :: acc | None => acc end.

Fixpoint tokenize (s : str) (cur : option (tkind * str)) (acc : list str) : list str :=
  match s with
  | [] => rev (flush cur acc)
  | c :: r =>
      let fresh acc' :=
        if is_numch c then tokenize r (Some (KNum, [c])) acc'
        else if N.eqb c 45 && match r with c2 :: _ => is_numch c2 | [] => false end
             then tokenize r (Some (KNum, [c])) acc'
        else if is_letter c then tokenize r (Some (KAlpha, [c])) acc'
        else if N.eqb c 10 then tokenize r None acc'
        else if is_space c then tokenize r None acc'
        else tokenize r None ([c] :: acc') in
      match cur with
      | Some (KNum, t) => if is_numch c then tokenize r (Some (KNum, c :: t)) acc
                          else fresh (flush cur acc)
      | Some (KAlpha, t) => if is_letter c then tokenize r (Some (KAlpha, c :: t)) acc
                            else fresh (flush cur acc)
      | None => fresh acc
      end
  end.

(* ---------- number tokens ---------- *)
Definition lower (c : N) : N := if N.leb 65 c && N.leb c 90 then (c + 32)%N else c.
Definition s_inf : str := [105; 110; 102]%N.
Definition s_infinity : str := [105; 110; 102; 105; 110; 105; 116; 121]%N.
Definition s_nan : str := [110; 97; 110]%N.
Definition strip_sign (t : str) : str :=
  match t with c :: r => if N.eqb c 45 || N.eqb c 43 then r else t | [] => t end.
(* digits with at most one dot and at least one digit *)
Definition count_dots (t : str) : nat := length (filter (N.eqb 46) t).
Definition has_digit (t : str) : bool := existsb is_ascii_digit t.
Definition plain_decimal (t : str) : bool :=
  forallb is_numch t && Nat.leb (count_dots t) 1 && has_digit t.
(* float(tok) accepts tok (ASCII tokens produced by the tokeniser) *)
Definition float_ok (t : str) : bool :=
  plain_decimal (strip_sign t) && negb (isnil (strip_sign t))
  || (let l := map lower (strip_sign t) in
      str_eqb l s_inf || str_eqb l s_infinity || str_eqb l s_nan).
(* UnitsParser.isnumber after the fix: alphabetic tokens are names *)
Definition isnumber (t : str) : bool :=
  float_ok t && negb (forallb is_letter t && negb (isnil t)).

Definition digits_val (t : str) : Z :=
  fold_left (fun a c => (10 * a + Z.of_N (c - 48))%Z) t 0%Z.
Definition number_value (t : str) : Q :=
  let neg := match t with c :: _ => N.eqb c 45 | [] => false end in
  let u := strip_sign t in
  let fix split_dot (l : str) (acc : str) : str * str :=
      match l with
      | [] => (rev acc, [])
      | c :: r => if N.eqb c 46 then (rev acc, r) else split_dot r (c :: acc)
      end in
  let '(ip, fp) := split_dot u [] in
  let v := (inject_Z (digits_val ip)
            + inject_Z (digits_val fp) / inject_Z (10 ^ Z.of_nat (length fp)))%Q in
  Qred (if neg then - v else v).
Definition has_dot (t : str) : bool := existsb (N.eqb 46) t.

(* ---------- syntax trees ---------- *)
Inductive tree :=
| TName (s : str) | TInt (v : Q) | TFloat (v : Q)
| TMul (a b : tree) | TDiv (a b : tree) | TPow (a : tree) (e : tree).

Definition tok_is (t : option str) (c : N) : bool :=
  match t with Some [x] => N.eqb x c | _ => false end.

Definition parse_number (ts : list str) : ures (tree * list str) :=
  match ts with
  | [] => URaise UnitsParse
  | t :: r =>
      let finish (n : option str) (rest : list str) :=
        match n with
        | None => URaise UnitsParse
        | Some nx => if isnumber nx
                     then UOk ((if has_dot nx then TFloat (number_value nx)
                                else TInt (number_value nx)), rest)
                     else URaise UnitsParse
        end in
      if tok_is (Some t) 40 then
        match r with
        | n :: cl :: rest => if tok_is (Some cl) 41 then finish (Some n) rest else URaise UnitsParse
        | _ => URaise UnitsParse
        end
      else finish (Some t) r
  end.

(* str.isalpha() of a token: ASCII letters, or a single non-ASCII alphabetic char *)
Definition tok_isalpha (t : str) : bool :=
  negb (isnil t) && forallb (fun c => is_letter c || extra_alpha c) t.

Definition pres := ures (tree * list str).

(* parse_base / parse_factor, given the parser for a parenthesised expr *)
Definition parse_base (pe : list str -> pres) (ts : list str) : pres :=
  match ts with
  | [] => URaise UnitsParse
  | t :: r =>
      if tok_is (Some t) 40 then
        ubind (pe r) (fun er =>
          match snd er with
          | cl :: rest => if tok_is (Some cl) 41 then UOk (fst er, rest) else URaise UnitsParse
          | [] => URaise UnitsParse
          end)
      else if isnumber t then parse_number ts
      else if tok_isalpha t then UOk (TName t, r) else URaise UnitsParse
  end.

Definition parse_factor (pe : list str -> pres) (ts : list str) : pres :=
  ubind (parse_base pe ts) (fun br =>
    match snd br with
    | t :: r => if tok_is (Some t) 94
                then ubind (parse_number r) (fun nr => UOk (TPow (fst br) (fst nr), snd nr))
                else UOk br
    | [] => UOk br
    end).

(* the `while True` loop of parse_expr; m bounds the iterations *)
Fixpoint expr_loop (pf : list str -> pres) (m : nat) (res : tree) (ts : list str) : pres :=
  match m with
  | O => URaise Hang
  | S m' =>
      match ts with
      | [] => UOk (res, [])
      | t :: r =>
          if tok_is (Some t) 42 then
            ubind (pf r) (fun f => expr_loop pf m' (TMul res (fst f)) (snd f))
          else if tok_is (Some t) 47 then
            ubind (pf r) (fun f => expr_loop pf m' (TDiv res (fst f)) (snd f))
          else match pf ts with
               | UOk f => expr_loop pf m' (TMul res (fst f)) (snd f)
               | URaise UnitsParse => UOk (res, ts)     (* backtrack *)
               | URaise e => URaise e
               end
      end
  end.

Fixpoint parse_expr (n : nat) (ts : list str) : pres :=
  match n with
  | O => URaise Hang
  | S n' =>
      let pf := parse_factor (parse_expr n') in
      ubind (pf ts) (fun fr => expr_loop pf n' (fst fr) (snd fr))
  end.

Definition parse (text : str) : ures tree :=
  let ts := tokenize text None [] in
  match parse_expr (S (S (length ts))) ts with
  | UOk (t, []) => UOk t
  | UOk (_, _ :: _) => URaise UnitsParse
  | URaise e => URaise e
  end.

(* ---------- unit database and lookup (db.py, after the 'da' fix) ---------- *)
Definition udb := list (str * qv).
Fixpoint db_get (db : udb) (name : str) : option qv :=
  match db with
  | [] => None
  | (k, v) :: r => if str_eqb k name then Some v else db_get r name
  end.
Fixpoint pref_get (ps : list (str * Q)) (p : str) : option Q :=
  match ps with
  | [] => None
  | (k, v) :: r => if str_eqb k p then Some v else pref_get r p
  end.

Definition lookup (ps : list (str * Q)) (db : udb) (name : str) : ures qv :=
  match db_get db name with
  | Some v => UOk v
  | None =>
      match db_get db (skipn 1 name), pref_get ps (firstn 1 name) with
      | Some v, Some p => UOk (q_mul (Num p) v)
      | _, _ =>
          match db_get db (skipn 2 name), pref_get ps (firstn 2 name) with
          | Some v, Some p => UOk (q_mul (Num p) v)
          | _, _ => URaise UnitsParse
          end
      end
  end.

Fixpoint eval (ps : list (str * Q)) (db : udb) (t : tree) : ures qv :=
  match t with
  | TName s => lookup ps db s
  | TInt v | TFloat v => UOk (Num v)
  | TMul a b => ubind (eval ps db a) (fun x => ubind (eval ps db b) (fun y => UOk (q_mul x y)))
  | TDiv a b => ubind (eval ps db a) (fun x => ubind (eval ps db b) (fun y => q_div x y))
  | TPow a e => ubind (eval ps db a) (fun x => ubind (eval ps db e) (fun y =>
      (* eval_subtree: a negative magnitude has no real fractional power *)
      match y with
      | Num ev => if negb (Qle_bool 0 (qval x)) && negb (is_int ev) then URaise UnitsParse else q_pow x y
      | _ => q_pow x y
      end))
  end.

Definition eval_text (ps : list (str * Q)) (db : udb) (text : str) : ures qv :=
  ubind (parse text) (eval ps db).

(* builtin.py: the database is built by evaluating the definitions in order *)
Definition add_defs (ps : list (str * Q)) (defs : list (str * str)) (db0 : udb) : ures udb :=
  fold_left (fun acc d =>
               ubind acc (fun db => ubind (eval_text ps db (snd d))
                                          (fun v => UOk ((fst d, v) :: db))))
            defs (UOk db0).

End Ops.
