(* The unit database, built inside Coq from the generated definition strings
   exactly as builtin.py builds it: by evaluating them in file order with the
   model's own parser and evaluator. *)
From Coq Require Import List NArith ZArith QArith Bool.
From PG Require Import Common.Strs Units.Model Gen.UnitsTable.
Import ListNotations.

Definition BAD : Q := 99999999999999999999999999 # 1.
Definition no_rpow (b e : Q) : option Q := None.
Definition no_extra (c : N) : bool := false.

Definition db_base : udb :=
  rev (map (fun b => (fst (fst b), Qty (snd (fst b)) (prim (snd b)))) base_units).

Definition build_db : ures udb :=
  ubind (add_defs no_rpow no_extra no_extra prefixes derived_defs db_base)
        (add_defs no_rpow no_extra no_extra prefixes other_defs).

Definition the_db : udb := match build_db with UOk db => db | URaise _ => [] end.

(* eval_qty with ASCII-only classification and no fractional value powers *)
Definition eval_ascii (text : str) : ures qv :=
  eval_text no_rpow no_extra no_extra prefixes the_db text.
