(* Finite theorems about the regenerated unit tables (vm_compute + forallb). *)
From Coq Require Import List NArith ZArith QArith Qabs Bool.
From PG Require Import Common.Strs Units.Model Units.DB Units.SIspec Gen.UnitsTable.
Import ListNotations.

Definition rel_close (tol a b : Q) : bool :=
  Qle_bool (Qabs (a - b)) (tol * Qabs b).

Definition entry_ok (s : spec) : bool :=
  match eval_ascii (s_name s) with
  | UOk q => rel_close (s_tol s) (qval q) (s_val s) && dim_eqb (qdim q) (s_dim s)
  | URaise _ => false
  end.

Definition table_ok : bool := forallb entry_ok si_table.

(* every name the package defines is covered by the specification *)
Definition names_covered : bool :=
  forallb (fun kv => existsb (fun s => str_eqb (s_name s) (fst kv)) si_table) the_db
  && Nat.eqb (length the_db) (length si_table).

Definition prefix_ok (p : str * Z) : bool :=
  match pref_get prefixes (fst p) with
  | Some v => Qeq_bool v (Qpower 10 (snd p))
  | None => false
  end.
Definition prefixes_ok : bool :=
  forallb prefix_ok si_prefixes && Nat.eqb (length prefixes) (length si_prefixes).

(* prefix ++ unit evaluates to 10^k * unit, unless the spelling is itself a
   documented name or is also readable with another (prefix, unit) split -
   those shadowings are computed and listed *)
Definition is_name (n : str) : bool := existsb (fun s => str_eqb (s_name s) n) si_table.
Definition pairs : list ((str * Z) * spec) := list_prod si_prefixes si_table.
Definition ambiguous (pu : (str * Z) * spec) : bool :=
  let n := fst (fst pu) ++ s_name (snd pu) in
  is_name n
  || existsb (fun pu' => str_eqb (fst (fst pu') ++ s_name (snd pu')) n
                          && negb (str_eqb (fst (fst pu')) (fst (fst pu)))) pairs.
Definition pair_ok (pu : (str * Z) * spec) : bool :=
  ambiguous pu ||
  match eval_ascii (fst (fst pu) ++ s_name (snd pu)) with
  | UOk q => rel_close (s_tol (snd pu)) (qval q) (Qpower 10 (snd (fst pu)) * s_val (snd pu))
             && dim_eqb (qdim q) (s_dim (snd pu))
  | URaise _ => false
  end.
Definition pairs_ok : bool := forallb pair_ok pairs.
Definition shadowed : list str :=
  map (fun pu => fst (fst pu) ++ s_name (snd pu)) (filter ambiguous pairs).

Lemma table_ok_true : table_ok = true.
Proof. vm_compute. reflexivity. Qed.
Lemma names_covered_true : names_covered = true.
Proof. vm_compute. reflexivity. Qed.
Lemma prefixes_ok_true : prefixes_ok = true.
Proof. vm_compute. reflexivity. Qed.
Lemma pairs_ok_true : pairs_ok = true.
Proof. vm_compute. reflexivity. Qed.

Theorem unit_table_SI : forall s, In s si_table -> entry_ok s = true.
Proof. apply forallb_forall. exact table_ok_true. Qed.

Theorem prefix_table : forall p, In p si_prefixes -> prefix_ok p = true.
Proof.
  apply forallb_forall. pose proof prefixes_ok_true as H.
  unfold prefixes_ok in H. apply andb_true_iff in H. tauto.
Qed.

Theorem lookup_prefixed : forall pu, In pu pairs -> pair_ok pu = true.
Proof. apply forallb_forall. exact pairs_ok_true. Qed.
