(* Model of pgradd/GroupAdd/Group.py: Group.parse, Group.__init__ /
   _canonical_name, Descriptor.__eq__/__hash__.  Executable, no proofs. *)
From Coq Require Import List NArith Arith Bool Decimal DecimalNat.
From PG Require Import Common.Strs.
Import ListNotations.

Inductive gerr := GroupSyntax | InternalErr.
Inductive outcome (A : Type) := Ok (a : A) | Raise (e : gerr).
Arguments Ok {A} a.
Arguments Raise {A} e.

Definition LP : N := 40%N.
Definition RP : N := 41%N.
Definition is_paren (c : N) : bool := N.eqb c LP || N.eqb c RP.

(* re.compile('[()]').split(text): never empty *)
Fixpoint split (s : str) : list str :=
  match s with
  | [] => [[]]
  | c :: r =>
      if is_paren c then [] :: split r
      else match split r with
           | p :: ps => (c :: p) :: ps
           | [] => [[c]]
           end
  end.

(* str.isdigit() restricted to the ASCII digits (guard: see Props/C19.v) *)
Definition all_digits (p : str) : bool :=
  negb (isnil p) && forallb is_ascii_digit p.

(* int(part) for an all-ASCII-digit part *)
Definition int_of (p : str) : nat :=
  fold_left (fun a c => 10 * a + N.to_nat (c - 48)) p 0.

Definition opt_list {A} (o : option A) : list A :=
  match o with Some x => [x] | None => [] end.

(* the loop `for part in parts[1:]` of Group.parse; acc = psgs so far *)
Fixpoint parse_parts (parts : list str) (pending : option str)
         (acc : list str) : outcome (list str) :=
  match parts with
  | [] => Ok (acc ++ opt_list pending)
  | p :: r =>
      if isnil p then parse_parts r pending acc
      else if all_digits p then
             match pending with
             | None => Raise GroupSyntax
             | Some x => parse_parts r None (acc ++ repeat x (int_of p))
             end
           else parse_parts r (Some p) (acc ++ opt_list pending)
  end.

Definition parse (text : str) : outcome (str * list str) :=
  match split text with
  | c :: parts =>
      match parse_parts parts None [] with
      | Ok ps => Ok (c, ps)
      | Raise e => Raise e
      end
  | [] => Raise InternalErr
  end.

(* '%d' % n *)
Fixpoint uint_chars (d : uint) : str :=
  match d with
  | Nil => []
  | D0 d => 48%N :: uint_chars d | D1 d => 49%N :: uint_chars d
  | D2 d => 50%N :: uint_chars d | D3 d => 51%N :: uint_chars d
  | D4 d => 52%N :: uint_chars d | D5 d => 53%N :: uint_chars d
  | D6 d => 54%N :: uint_chars d | D7 d => 55%N :: uint_chars d
  | D8 d => 56%N :: uint_chars d | D9 d => 57%N :: uint_chars d
  end.
Definition dec (n : nat) : str := uint_chars (Nat.to_uint n).

(* run-length encoding of a sorted list = iteration over sorted(psg_counts) *)
Fixpoint rle (l : list str) : list (str * nat) :=
  match l with
  | [] => []
  | x :: r =>
      match rle r with
      | (y, k) :: t => if str_eqb x y then (y, S k) :: t
                       else (x, 1) :: (y, k) :: t
      | [] => [(x, 1)]
      end
  end.

(* a spelling: centre, then runs (name, optional explicit repeat count) *)
Definition run := (str * option nat)%type.
Definition run_text (r : run) : str :=
  LP :: fst r ++ RP :: match snd r with Some k => dec k | None => [] end.
Definition body (rs : list run) : str := flat_map run_text rs.
Definition spell (c : str) (rs : list run) : str := c ++ body rs.
Definition expand (rs : list run) : list str :=
  flat_map (fun r => match snd r with Some k => repeat (fst r) k
                                 | None => [fst r] end) rs.

Definition canon_runs (ps : list str) : list run :=
  map (fun nk => (fst nk, if Nat.eqb (snd nk) 1 then None else Some (snd nk)))
      (rle (sort ps)).

(* Group(scheme, csg, psgs).name *)
Definition canon (c : str) (ps : list str) : str := spell c (canon_runs ps).

(* Group.parse(scheme, text).name *)
Definition parse_name (text : str) : outcome str :=
  match parse text with
  | Ok (c, ps) => Ok (canon c ps)
  | Raise e => Raise e
  end.

(* Descriptor.__eq__ : Group vs Group, Group vs plain str: by name *)
Definition group_eqb (c1 : str) (ps1 : list str) (c2 : str) (ps2 : list str) :=
  str_eqb (canon c1 ps1) (canon c2 ps2).
Definition group_eqb_str (c : str) (ps : list str) (s : str) :=
  str_eqb (canon c ps) s.
(* Descriptor.__hash__ = hash(name), for whatever hash the host provides *)
Definition group_hash {H} (h : str -> H) (c : str) (ps : list str) : H :=
  h (canon c ps).

(* well-formed names, the guard of the theorems *)
Definition paren_free (s : str) : bool := forallb (fun c => negb (is_paren c)) s.
Definition wf_name (s : str) : bool :=
  negb (isnil s) && paren_free s && negb (all_digits s).
