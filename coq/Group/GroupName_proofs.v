From Coq Require Import List NArith Arith Bool Lia Permutation Sorted Decimal DecimalNat.
From PG Require Import Common.Strs Common.Strs_proofs Group.GroupName.
Import ListNotations.

(* ---------- decimal printing ---------- *)

Lemma uint_chars_digits d : forallb is_ascii_digit (uint_chars d) = true.
Proof. induction d; simpl; auto. Qed.

Lemma uint_chars_paren_free d : paren_free (uint_chars d) = true.
Proof. induction d; simpl; auto. Qed.

Lemma int_of_acc d acc :
  fold_left (fun a c => 10 * a + N.to_nat (c - 48)) (uint_chars d) acc
  = Nat.of_uint_acc d acc.
Proof.
  revert acc; induction d; intros acc; cbn [uint_chars fold_left Nat.of_uint_acc];
    auto; rewrite IHd; f_equal; rewrite Nat.tail_mul_spec;
    repeat match goal with |- context [N.to_nat ?x] =>
      let v := eval vm_compute in (N.to_nat x) in change (N.to_nat x) with v end;
    lia.
Qed.

Lemma int_of_dec k : int_of (dec k) = k.
Proof.
  unfold int_of, dec. rewrite int_of_acc.
  change (Nat.of_uint_acc (Nat.to_uint k) 0) with (Nat.of_uint (Nat.to_uint k)).
  apply Unsigned.of_to.
Qed.

Lemma dec_nonnil k : isnil (dec k) = false.
Proof.
  unfold dec. destruct (Nat.to_uint k) eqn:E; auto.
  exfalso. pose proof (Unsigned.of_to k) as H. rewrite E in H. simpl in H.
  subst k. discriminate.
Qed.

Lemma dec_all_digits k : all_digits (dec k) = true.
Proof.
  unfold all_digits. rewrite dec_nonnil. simpl. apply uint_chars_digits.
Qed.

Lemma dec_paren_free k : paren_free (dec k) = true.
Proof. apply uint_chars_paren_free. Qed.

(* ---------- splitting ---------- *)

Lemma split_nonnil s : split s <> [].
Proof.
  destruct s as [|c r]; simpl; [discriminate|].
  destruct (is_paren c); [discriminate|]. destruct (split r); discriminate.
Qed.

Lemma split_paren_free a : paren_free a = true -> split a = [a].
Proof.
  induction a as [|c a IH]; simpl; auto.
  rewrite andb_true_iff, negb_true_iff. intros [H1 H2].
  rewrite H1, (IH H2). reflexivity.
Qed.

Lemma split_app a p b :
  paren_free a = true -> is_paren p = true ->
  split (a ++ p :: b) = a :: split b.
Proof.
  intros Ha Hp. induction a as [|c a IH]; simpl.
  - rewrite Hp. reflexivity.
  - simpl in Ha. rewrite andb_true_iff, negb_true_iff in Ha.
    destruct Ha as [H1 H2]. rewrite H1, (IH H2). reflexivity.
Qed.

Definition wf_run (r : run) : bool := wf_name (fst r).

Definition parts (rs : list run) : list str :=
  flat_map (fun r => [fst r; match snd r with Some k => dec k | None => [] end]) rs.

Lemma split_body d rs :
  paren_free d = true -> forallb wf_run rs = true ->
  split (d ++ body rs) = d :: parts rs.
Proof.
  revert d; induction rs as [|[n k] rs IH]; intros d Hd Hw.
  - simpl. rewrite app_nil_r. apply split_paren_free; auto.
  - simpl in Hw. rewrite andb_true_iff in Hw. destruct Hw as [Hn Hw].
    unfold wf_run, wf_name in Hn; simpl in Hn.
    rewrite !andb_true_iff in Hn. destruct Hn as [[_ Hpf] _].
    set (dk := match k with Some k0 => dec k0 | None => [] end).
    assert (Hdk : paren_free dk = true)
      by (subst dk; destruct k; [apply dec_paren_free|reflexivity]).
    match goal with |- split ?t = _ =>
      assert (E : t = d ++ LP :: (n ++ RP :: (dk ++ body rs))) end.
    { subst dk. unfold body, run_text. simpl. rewrite <- app_assoc. simpl. reflexivity. }
    rewrite E.
    rewrite (split_app d LP); auto.
    rewrite (split_app n RP); auto.
    cbn [parts flat_map fst snd app]. fold dk.
    rewrite IH; auto.
Qed.

(* ---------- the loop ---------- *)

Lemma parse_parts_parts rs : forall pending acc,
  forallb wf_run rs = true ->
  parse_parts (parts rs) pending acc = Ok (acc ++ opt_list pending ++ expand rs).
Proof.
  induction rs as [|[n k] rs IH]; intros pending acc Hw.
  - simpl. rewrite app_nil_r. reflexivity.
  - simpl in Hw. rewrite andb_true_iff in Hw. destruct Hw as [Hn Hw].
    unfold wf_run, wf_name in Hn; simpl in Hn.
    rewrite !andb_true_iff, !negb_true_iff in Hn.
    destruct Hn as [[Hnn _] Hnd].
    destruct k as [k|]; simpl; rewrite Hnn, Hnd.
    + rewrite dec_nonnil, dec_all_digits, int_of_dec.
      fold (parts rs). fold (expand rs).
      rewrite IH; auto. simpl. rewrite <- !app_assoc. reflexivity.
    + fold (parts rs). fold (expand rs).
      rewrite IH; auto. simpl. rewrite <- !app_assoc. reflexivity.
Qed.

Theorem parse_spell c rs :
  paren_free c = true -> forallb wf_run rs = true ->
  parse (spell c rs) = Ok (c, expand rs).
Proof.
  intros Hc Hw. unfold parse, spell. rewrite split_body; auto.
  rewrite parse_parts_parts; auto.
Qed.

(* ---------- canonical runs ---------- *)

Lemma expand_rle l :
  flat_map (fun nk : str * nat => repeat (fst nk) (snd nk)) (rle l) = l.
Proof.
  induction l as [|x l IH]; simpl; auto.
  destruct (rle l) as [|[y k] t] eqn:E.
  - simpl in *. subst l. reflexivity.
  - destruct (str_eqb x y) eqn:Exy.
    + apply str_eqb_eq in Exy. subst y. simpl in *. rewrite IH. reflexivity.
    + simpl in *. rewrite IH. reflexivity.
Qed.

Lemma rle_pos l : Forall (fun nk : str * nat => 1 <= snd nk) (rle l).
Proof.
  induction l as [|x l IH]; simpl; auto.
  destruct (rle l) as [|[y k] t] eqn:E.
  - repeat constructor.
  - inversion IH; subst. destruct (str_eqb x y); constructor; simpl; auto; lia.
Qed.

Lemma rle_names l : forall nk, In nk (rle l) -> In (fst nk) l.
Proof.
  induction l as [|x l IH]; simpl; [tauto|].
  destruct (rle l) as [|[y k] t] eqn:E; intros nk H.
  - destruct H as [<-|[]]; auto.
  - destruct (str_eqb x y) eqn:Exy.
    + destruct H as [<-|H].
      * right. apply (IH (y, k)). left; auto.
      * right. apply IH. right; auto.
    + destruct H as [<-|H]; auto.
Qed.

Lemma expand_canon_runs ps : expand (canon_runs ps) = sort ps.
Proof.
  unfold canon_runs, expand. rewrite flat_map_concat_map, map_map.
  rewrite <- (expand_rle (sort ps)) at 2. rewrite flat_map_concat_map.
  f_equal. apply map_ext_in. intros [n k] Hin. simpl.
  destruct (Nat.eqb_spec k 1) as [->|]; reflexivity.
Qed.

Lemma canon_runs_wf ps :
  forallb wf_name ps = true -> forallb wf_run (canon_runs ps) = true.
Proof.
  intros H. apply forallb_forall. intros r Hr.
  unfold canon_runs in Hr. apply in_map_iff in Hr.
  destruct Hr as [nk [<- Hin]]. unfold wf_run; simpl.
  apply rle_names in Hin.
  rewrite forallb_forall in H. apply H.
  eapply Permutation_in; [apply Permutation_sym, sort_perm|exact Hin].
Qed.

Theorem parse_canon c ps :
  paren_free c = true -> forallb wf_name ps = true ->
  parse (canon c ps) = Ok (c, sort ps).
Proof.
  intros Hc Hp. unfold canon. rewrite parse_spell; auto using canon_runs_wf.
  rewrite expand_canon_runs. reflexivity.
Qed.

Theorem canon_perm c ps ps' : Permutation ps ps' -> canon c ps = canon c ps'.
Proof.
  intros P. unfold canon, canon_runs. rewrite (sort_perm_unique _ _ P).
  reflexivity.
Qed.

Theorem canon_inj c ps c' ps' :
  paren_free c = true -> forallb wf_name ps = true ->
  paren_free c' = true -> forallb wf_name ps' = true ->
  canon c ps = canon c' ps' -> c = c' /\ Permutation ps ps'.
Proof.
  intros Hc Hp Hc' Hp' E.
  pose proof (parse_canon c ps Hc Hp) as P1.
  pose proof (parse_canon c' ps' Hc' Hp') as P2.
  rewrite E in P1. rewrite P1 in P2. inversion P2 as [[H1 H2]].
  split; auto.
  eapply perm_trans; [apply sort_perm|]. rewrite H2.
  apply Permutation_sym, sort_perm.
Qed.

Theorem group_eq_iff c ps c' ps' :
  paren_free c = true -> forallb wf_name ps = true ->
  paren_free c' = true -> forallb wf_name ps' = true ->
  (group_eqb c ps c' ps' = true <-> c = c' /\ Permutation ps ps').
Proof.
  intros Hc Hp Hc' Hp'. unfold group_eqb. rewrite str_eqb_eq. split.
  - apply canon_inj; auto.
  - intros [-> P]. apply canon_perm; auto.
Qed.

Theorem group_hash_compat {H} (h : str -> H) c ps c' ps' :
  group_eqb c ps c' ps' = true -> group_hash h c ps = group_hash h c' ps'.
Proof. unfold group_eqb, group_hash. rewrite str_eqb_eq. intros ->; auto. Qed.

(* canonical name parses back to the same group (same name) *)
Theorem parse_name_canon c ps :
  paren_free c = true -> forallb wf_name ps = true ->
  parse_name (canon c ps) = Ok (canon c ps).
Proof.
  intros Hc Hp. unfold parse_name. rewrite parse_canon; auto.
  f_equal. apply canon_perm, Permutation_sym, sort_perm.
Qed.

(* every ordering / run-length spelling of a multiset names the same group *)
Theorem parse_spellings c rs ps :
  paren_free c = true -> forallb wf_run rs = true ->
  Permutation (expand rs) ps ->
  parse_name (spell c rs) = Ok (canon c ps).
Proof.
  intros Hc Hw P. unfold parse_name. rewrite parse_spell; auto.
  f_equal. apply canon_perm; auto.
Qed.

Theorem str_interop c ps s :
  group_eqb_str c ps s = true <-> canon c ps = s.
Proof. unfold group_eqb_str. apply str_eqb_eq. Qed.

(* a count with no pending name is the (only) syntax error of the loop *)
Lemma parse_parts_outcome parts : forall pending acc,
  match parse_parts parts pending acc with
  | Ok _ => True | Raise GroupSyntax => True | Raise InternalErr => False end.
Proof.
  induction parts as [|p r IH]; intros pending acc; simpl; auto.
  destruct (isnil p); [apply IH|].
  destruct (all_digits p); [|apply IH].
  destruct pending; [apply IH|exact I].
Qed.

Theorem parse_outcome_classified text :
  match parse text with
  | Ok _ => True | Raise GroupSyntax => True | Raise InternalErr => False end.
Proof.
  unfold parse. destruct (split text) as [|c parts] eqn:E.
  - exfalso. eapply split_nonnil; eauto.
  - pose proof (parse_parts_outcome parts None []) as H.
    destruct (parse_parts parts None []); auto.
Qed.

Theorem count_without_name_rejected c k rest :
  paren_free c = true ->
  parse (c ++ LP :: RP :: dec k ++ rest) = Raise GroupSyntax
  \/ exists x, parse (c ++ LP :: RP :: dec k ++ rest) = x /\ rest <> [] .
Proof.
  intros Hc. destruct rest as [|r0 rest]; [left|right; eexists; split; [reflexivity|discriminate]].
  rewrite app_nil_r. unfold parse.
  rewrite split_app; auto. simpl.
  rewrite split_paren_free by apply dec_paren_free.
  simpl. rewrite dec_nonnil, dec_all_digits. reflexivity.
Qed.
