#!/venv/bin/python
"""Entry point of every check registered in MANIFEST.json.

  check.py --setup                      build the Coq development
  check.py Cnn [--tier quick|thorough]  decide one property on /repo's tree
  check.py Cnn --replay <file>          re-execute one recorded case
"""
import argparse
import importlib
import json
import os
import sys
import time
import traceback

ROOT = os.path.dirname(os.path.abspath(__file__))
sys.path.insert(0, os.path.join(ROOT, 'tools'))
import vlib  # noqa: E402

ALL = ['C%02d' % i for i in range(1, 21)]


def load_module(pid):
    return importlib.import_module('props.' + pid.lower())


def generate_all(verbose=True):
    import gen
    errs = []
    for name, fn in gen.GENERATORS.items():
        try:
            fn()
        except Exception as e:
            errs.append('%s: %r' % (name, e))
            if verbose:
                traceback.print_exc()
    return errs


def setup():
    vlib.ensure_work()
    errs = generate_all()
    for e in errs:
        print('generator failed:', e)
    ok, log, cmd = vlib.coq_make(None, timeout=3000)
    print(log[-3000:])
    print('setup:', 'ok' if ok else 'FAILED', cmd)
    return 0 if ok and not errs else 1


def main():
    ap = argparse.ArgumentParser()
    ap.add_argument('pid', nargs='?')
    ap.add_argument('--setup', action='store_true')
    ap.add_argument('--tier', default=os.environ.get('VERIF_TIER', 'quick'))
    ap.add_argument('--replay')
    ap.add_argument('--no-coq', action='store_true',
                    help='(development only) skip the proof step')
    a = ap.parse_args()
    if a.setup:
        sys.exit(setup())
    pid = a.pid.upper()
    seed = int(os.environ.get('VERIF_SEED', '20260930'))
    tier = a.tier if a.tier in ('quick', 'thorough') else 'quick'
    ctx = vlib.Ctx(pid, tier, seed)
    vlib.ensure_work()
    mod = load_module(pid)
    if a.replay:
        with open(a.replay) as f:
            rec = json.load(f)
        ok = mod.replay(ctx, rec)
        if not ok:
            print('VIOLATION property=%s replay=%s' % (pid, a.replay))
            sys.exit(1)
        print('replay: case no longer fails')
        sys.exit(0)
    # 1. regenerate the data the theorems of this property mention
    import gen
    for g in getattr(mod, 'GEN', []):
        try:
            gen.GENERATORS[g]()
        except Exception as e:
            ctx.broken.append('translator %s failed: %r' % (g, e))
    # 2. proofs
    if a.no_coq:
        proof = {'obligations': 0, 'discharged': 0, 'ok': True,
                 'checker_cmd': 'skipped (--no-coq)', 'axioms': []}
    else:
        proof = vlib.check_props(pid, getattr(mod, 'COQ_DEPS', None))
        if not proof['ok']:
            ctx.broken.append('theorems of Props/%s.v no longer check: %s' % (
                pid, (proof['forbidden'] or [proof['log'][-1500:]])[0]))
    # 3. correspondence + direct oracle
    try:
        mod.run(ctx)
    except Exception as e:
        traceback.print_exc()
        ctx.broken.append('check machinery raised %r' % (e,))
    # 4. something broke but no failing input yet: search harder
    known = {k['key'] for k in vlib.load_known().get('findings', [])
             if k['property'] == pid}
    fresh = [v for v in ctx.violations if v['key'] not in known]
    if ctx.broken and not fresh:
        if hasattr(mod, 'search'):
            try:
                mod.search(ctx)
            except Exception:
                traceback.print_exc()
        fresh = [v for v in ctx.violations if v['key'] not in known]
        if not fresh:
            ctx.violate('broken:' + ctx.broken[0][:60],
                        'property no longer shown to hold: ' + '; '.join(ctx.broken),
                        {'broken': ctx.broken}, kind='no-failing-input-found')
    sys.exit(vlib.finish(ctx, proof, mod))


if __name__ == '__main__':
    main()
