"""Shared machinery for the /verif checks (see DESIGN.md section 2).

Everything a property check needs that is not specific to the property:
running the implementation in child processes, (re)building the Coq
development, evaluating generated case files with `coqc`, collecting
`Print Assumptions`, known-findings handling, replay and evidence files.
"""
import fcntl
import hashlib
import json
import os
import random
import re
import subprocess
import sys
import time

ROOT = os.path.dirname(os.path.dirname(os.path.abspath(__file__)))
REPO = os.environ.get('VERIF_REPO', '/repo')
COQ = os.path.join(ROOT, 'coq')
WORK = os.path.join(ROOT, 'work')
TOOLS = os.path.join(ROOT, 'tools')
PY = '/venv/bin/python'
GUARD = 'PGRADD_VERIF'
NCPU = os.cpu_count() or 4

FORBIDDEN = re.compile(
    r'\b(Admitted|admit|Axiom|Axioms|Parameter|Parameters|Conjecture|'
    r'Admit Obligations|Unset Guard Checking|Unset Positivity Checking|'
    r'Unset Universe Checking|bypass_check|type-in-type|impredicative-set|'
    r'native_compute)\b')


def child_env():
    env = dict(os.environ)
    env['PYTHONPATH'] = REPO
    env['PYTHONHASHSEED'] = '0'
    env[GUARD] = '1'
    env['PYTHONDONTWRITEBYTECODE'] = '1'
    env['PYTHONWARNINGS'] = 'default'
    env.pop('pgradd_DATA_DIR', None)
    return env


def ensure_work():
    os.makedirs(WORK, exist_ok=True)
    os.makedirs(os.path.join(ROOT, 'evidence'), exist_ok=True)


# ---------------------------------------------------------------------------
# running the implementation

def run_impl(script, payload, timeout=600, env_extra=None, cwd=None):
    """Run tools/impl/<script>.py in a fresh interpreter.

    The child reads one JSON document from stdin and writes one JSON document
    to the file named by VERIF_OUT (stdout is left to the repository's own
    prints).  Returns (result or None, diagnostic string).
    """
    ensure_work()
    out = os.path.join(WORK, 'out_%s_%d_%d.json' % (
        os.path.basename(script), os.getpid(), random.getrandbits(30)))
    env = child_env()
    env['VERIF_OUT'] = out
    if env_extra:
        for k, v in env_extra.items():
            if v is None:
                env.pop(k, None)
            else:
                env[k] = v
    path = script if os.path.isabs(script) else os.path.join(
        TOOLS, 'impl', script + '.py')
    try:
        p = subprocess.run([PY, path], input=json.dumps(payload).encode(),
                           stdout=subprocess.PIPE, stderr=subprocess.PIPE,
                           timeout=timeout, env=env, cwd=cwd or WORK)
    except subprocess.TimeoutExpired:
        if os.path.exists(out):
            os.unlink(out)
        return None, 'timeout after %ss' % timeout
    res = None
    if os.path.exists(out):
        try:
            with open(out) as f:
                res = json.load(f)
        except Exception as e:      # pragma: no cover
            res = None
        os.unlink(out)
    diag = ''
    if res is None:
        diag = 'exit %s: %s' % (p.returncode,
                                p.stderr.decode(errors='replace')[-2000:])
    return res, diag


def run_impl_sharded(script, cases, nshards=None, timeout=600, key='cases',
                     extra=None):
    """Split a case list over child processes; results keep the order."""
    from concurrent.futures import ThreadPoolExecutor
    if not cases:
        return []
    nshards = max(1, min(nshards or NCPU, len(cases)))
    chunks = [cases[i::nshards] for i in range(nshards)]

    def one(chunk):
        payload = dict(extra or {})
        payload[key] = chunk
        res, diag = run_impl(script, payload, timeout=timeout)
        if res is None:
            return [{'_child_failed': diag} for _ in chunk]
        return res['results']
    with ThreadPoolExecutor(nshards) as ex:
        outs = list(ex.map(one, chunks))
    merged = [None] * len(cases)
    for s, o in enumerate(outs):
        for j, r in enumerate(o):
            merged[s + j * nshards] = r
    return merged


# ---------------------------------------------------------------------------
# Coq

class CoqLock(object):
    def __enter__(self):
        ensure_work()
        self.f = open(os.path.join(WORK, '.coqlock'), 'w')
        fcntl.flock(self.f, fcntl.LOCK_EX)
        return self

    def __exit__(self, *a):
        fcntl.flock(self.f, fcntl.LOCK_UN)
        self.f.close()


def write_if_changed(path, text):
    os.makedirs(os.path.dirname(path), exist_ok=True)
    if os.path.exists(path):
        with open(path) as f:
            if f.read() == text:
                return False
    with open(path, 'w') as f:
        f.write(text)
    return True


def coq_project_files():
    files = []
    for d, _, fs in os.walk(COQ):
        for f in fs:
            if f.endswith('.v'):
                files.append(os.path.relpath(os.path.join(d, f), COQ))
    return sorted(files)


def coq_makefile():
    """(Re)generate _CoqProject and Makefile from the files on disk."""
    files = coq_project_files()
    text = '-Q . PG\n-arg -w -arg -notation-overridden,-deprecated-hint-without-locality,-deprecated-instance-without-locality\n' + '\n'.join(files) + '\n'
    changed = write_if_changed(os.path.join(COQ, '_CoqProject'), text)
    if changed or not os.path.exists(os.path.join(COQ, 'Makefile')):
        subprocess.run(['coq_makefile', '-f', '_CoqProject', '-o', 'Makefile'],
                       cwd=COQ, check=True, stdout=subprocess.PIPE,
                       stderr=subprocess.PIPE)
    return files


def coq_make(targets, timeout=1500, keep_going=False):
    """make the given .vo targets (all when None).  Returns (ok, log, cmd)."""
    with CoqLock():
        coq_makefile()
        cmd = ['timeout', str(timeout), 'make', '-j%d' % NCPU] + (['-k'] if keep_going else [])
        if targets:
            cmd += list(targets)
        p = subprocess.run(cmd, cwd=COQ, stdout=subprocess.PIPE,
                           stderr=subprocess.STDOUT)
        log = p.stdout.decode(errors='replace')
        return p.returncode == 0, log, ' '.join(cmd) + '  (cwd %s)' % COQ


def coqc(path, timeout=600, extra=None):
    """Compile one file against the built development; returns (ok, output)."""
    cmd = ['timeout', str(timeout), 'coqc', '-Q', COQ, 'PG', '-w',
           '-notation-overridden,-deprecated-hint-without-locality'] + (extra or []) + [path]
    p = subprocess.run(cmd, stdout=subprocess.PIPE, stderr=subprocess.STDOUT,
                       cwd=os.path.dirname(path))
    return p.returncode == 0, p.stdout.decode(errors='replace')


def props_statements(prop_file):
    """Names of the Theorem/Lemma/Example/Corollary statements of a file."""
    with open(prop_file) as f:
        txt = f.read()
    txt = re.sub(r'\(\*.*?\*\)', '', txt, flags=re.S)
    return re.findall(
        r'^\s*(?:Theorem|Lemma|Example|Corollary|Fact|Proposition)\s+([A-Za-z0-9_\']+)',
        txt, flags=re.M)


def check_props(pid, extra_targets=None):
    """Recompile Props/<pid>.v (after its dependencies) and collect
    obligations, the assumptions printed by `Print Assumptions`, and the
    result of the forbidden-vernacular scan.  Returns a dict."""
    prop_v = os.path.join(COQ, 'Props', pid + '.v')
    res = {'obligations': 0, 'discharged': 0, 'ok': False, 'axioms': [],
           'checker_cmd': '', 'log': '', 'statements': [], 'forbidden': []}
    names = props_statements(prop_v)
    res['statements'] = names
    res['obligations'] = len(names)
    # bring every compiled file in line with the regenerated sources first
    # (-k: a broken proof elsewhere must not stop unrelated files), then ask
    # for this property's theorems and whatever its case files import
    coq_make(None, keep_going=True)
    ok, log, cmd = coq_make(['Props/%s.vo' % pid] + list(extra_targets or []))
    res['checker_cmd'] = cmd
    res['log'] = err_excerpt(log)
    if ok:
        # Print Assumptions output is only produced when the file is
        # compiled; compile it again on its own to collect it.
        with CoqLock():
            ok2, out = coqc(prop_v)
        res['checker_cmd'] += ' ; coqc -Q %s PG %s' % (COQ, prop_v)
        if not ok2:
            ok = False
            res['log'] = err_excerpt(out)
        else:
            res['axioms'] = parse_assumptions(out)
            res['closed'] = out.count('Closed under the global context')
    res['ok'] = ok
    res['discharged'] = len(names) if ok else 0
    res['forbidden'] = scan_forbidden()
    if res['forbidden']:
        res['ok'] = False
        res['discharged'] = 0
    return res


def err_excerpt(log):
    i = log.find('Error')
    if i < 0:
        return log[-1500:]
    j = log.rfind('File "', 0, i)
    return log[max(j, i - 300):i + 1200]


def parse_assumptions(out):
    axioms = set()
    for block in re.split(r'\n(?=Axioms:|Closed under)', out):
        if block.startswith('Axioms:'):
            for m in re.finditer(r'^([A-Za-z_][\w\.\']*)\s*:', block[7:],
                                 flags=re.M):
                axioms.add(m.group(1))
    return sorted(axioms)


def scan_forbidden():
    hits = []
    for rel in coq_project_files():
        with open(os.path.join(COQ, rel)) as f:
            txt = f.read()
        txt = re.sub(r'\(\*.*?\*\)', '', txt, flags=re.S)
        for i, line in enumerate(txt.split('\n')):
            if FORBIDDEN.search(line):
                hits.append('%s:%d: %s' % (rel, i + 1, line.strip()[:80]))
    return hits


def run_cases_file(name, text, timeout=600):
    """Write work/<name>.v, compile it, return (ok, output)."""
    ensure_work()
    path = os.path.join(WORK, name + '.v')
    with open(path, 'w') as f:
        f.write(text)
    ok, out = coqc(path, timeout=timeout)
    for ext in ('.vo', '.vok', '.vos', '.glob'):
        q = os.path.join(WORK, name + ext)
        if os.path.exists(q):
            os.unlink(q)
    aux = os.path.join(WORK, '.' + name + '.aux')
    if os.path.exists(aux):
        os.unlink(aux)
    return ok, out


def run_cases_sharded(prefix, texts, timeout=900):
    from concurrent.futures import ThreadPoolExecutor
    with ThreadPoolExecutor(min(NCPU, max(1, len(texts)))) as ex:
        return list(ex.map(
            lambda it: run_cases_file('%s_%d' % (prefix, it[0]), it[1],
                                      timeout), enumerate(texts)))


def coq_eval_value(out):
    """The text of the (single) `= value : type` answer printed by Eval."""
    m = re.search(r'^\s*=\s*(.*?)\n\s*:\s', out, flags=re.S | re.M)
    return re.sub(r'\s+', ' ', m.group(1)).strip() if m else None


def parse_nat_list(s):
    """'[1; 2; 3]' (possibly with %nat/%N/%Z marks) -> [1,2,3]"""
    return [int(x) for x in re.findall(r'-?\d+', re.sub(r'%\w+', '', s))]


# Gallina literal writers ---------------------------------------------------

def g_str(s):
    """Python str -> Gallina `list N` literal of code points."""
    return '[' + ';'.join(str(ord(c)) for c in s) + ']%N'


def g_list(items):
    return '[' + '; '.join(items) + ']'


def g_Z(n):
    return '(%d)%%Z' % n


def g_Q(fr):
    """fractions.Fraction -> Gallina Q literal"""
    return '(%d # %d)%%Q' % (fr.numerator, fr.denominator)


def g_Qf(x):
    """float -> Gallina Q literal of its shortest decimal representation
    (injective and order preserving on floats; differs from the binary value
    by less than one ulp, far below every comparison tolerance)"""
    from fractions import Fraction
    x = float(x)
    if x != x or x in (float('inf'), float('-inf')):
        raise ValueError('non-finite float in a case: %r' % x)
    return g_Q(Fraction(repr(x)))


def g_bool(b):
    return 'true' if b else 'false'


def g_option(x):
    return 'None' if x is None else '(Some %s)' % x


# ---------------------------------------------------------------------------
# violations, known findings, replay, evidence

class Ctx(object):
    def __init__(self, pid, tier, seed):
        self.pid = pid
        self.tier = tier
        self.seed = seed
        self.rng = random.Random(seed)
        self.t0 = time.time()
        self.violations = []     # dicts: key, what, case, expected, observed
        self.coverage = {}
        self.assumptions = []
        self.evaluations = 0
        self.distinct = set()
        self.samples = []
        self.notes = []
        self.broken = []         # names of theorems / correspondences broken

    def thorough(self):
        return self.tier == 'thorough'

    def n(self, quick, thorough):
        return thorough if self.tier == 'thorough' else quick

    def violate(self, key, what, case, expected=None, observed=None,
                kind='failing-input'):
        self.violations.append({'key': key, 'what': what, 'case': case,
                                'expected': expected, 'observed': observed,
                                'kind': kind})

    def count(self, case_key, nontrivial=True):
        self.evaluations += 1
        if nontrivial:
            self.distinct.add(case_key)

    def sample(self, case, limit=8):
        if len(self.samples) < limit:
            self.samples.append(case)


def load_known():
    p = os.path.join(ROOT, 'known_findings.json')
    if not os.path.exists(p):
        return {'findings': [], 'fixed': []}
    with open(p) as f:
        return json.load(f)


def repo_head():
    try:
        return subprocess.run(['git', '-C', REPO, 'rev-parse', 'HEAD'],
                              stdout=subprocess.PIPE).stdout.decode().strip()
    except Exception:
        return ''


def finish(ctx, proof, module=None):
    """Print KNOWN-FINDING / VIOLATION lines, write replays and evidence,
    return the exit status."""
    known = [k for k in load_known().get('findings', [])
             if k['property'] == ctx.pid]
    known_keys = {k['key']: k for k in known}
    hit = {}
    fresh = []
    seen = set()
    for v in ctx.violations:
        if v['key'] in known_keys:
            hit.setdefault(v['key'], v)
        elif v['key'] not in seen:
            seen.add(v['key'])
            fresh.append(v)
    for key in sorted(hit):
        print('KNOWN-FINDING: property=%s %s [%s]' % (
            ctx.pid, known_keys[key]['what'], key))
    rdir = os.path.join(ROOT, 'replays', ctx.pid)
    status = 0
    for v in fresh[:25]:
        os.makedirs(rdir, exist_ok=True)
        body = {'property': ctx.pid, 'kind': v['kind'], 'seed': ctx.seed,
                'key': v['key'], 'what': v['what'], 'case': v['case'],
                'expected': v['expected'], 'observed': v['observed'],
                'repo_head': repo_head()}
        h = hashlib.sha1(json.dumps([v['key'], v['case']], sort_keys=True,
                                    default=str).encode()).hexdigest()[:12]
        path = os.path.join(rdir, h + '.json')
        with open(path, 'w') as f:
            json.dump(body, f, indent=1, default=str)
        tail = ' no-failing-input-found' if v['kind'] == 'no-failing-input-found' else ''
        print('VIOLATION property=%s replay=%s%s' % (ctx.pid, path, tail))
        print('  what: %s' % v['what'])
        status = 1
    cov = {
        'obligations': proof.get('obligations', 0),
        'discharged': proof.get('discharged', 0),
        'checker_cmd': proof.get('checker_cmd', ''),
        'trusted_base': (['Coq 8.16.1 kernel incl. vm_compute (no native_compute)']
                         + ['axiom: ' + a for a in proof.get('axioms', [])]
                         + (['Print Assumptions: all statements closed under the global context']
                            if not proof.get('axioms') and proof.get('ok') else [])
                         + ctx.assumptions),
        'statements': proof.get('statements', []),
        'evaluations': ctx.evaluations,
        'distinct_nontrivial': len(ctx.distinct),
        'samples': ctx.samples or [{'note': 'no generated cases in this run'}],
        'known_findings_hit': sorted(hit),
        'broken': ctx.broken,
        'notes': ctx.notes,
    }
    cov.update(ctx.coverage)
    ev = {'property_id': ctx.pid, 'tier': ctx.tier, 'seed': ctx.seed,
          'level': 'proof', 'coverage': cov,
          'assumptions': ctx.assumptions,
          'wall_s': round(time.time() - ctx.t0, 2),
          'violations': len(fresh)}
    ensure_work()
    with open(os.path.join(ROOT, 'evidence', ctx.pid + '.json'), 'w') as f:
        json.dump(ev, f, indent=1, default=str)
    if status == 0:
        print('OK property=%s tier=%s obligations=%d/%d evaluations=%d '
              'distinct=%d known=%d wall=%.1fs' % (
                  ctx.pid, ctx.tier, cov['discharged'], cov['obligations'],
                  ctx.evaluations, len(ctx.distinct), len(hit),
                  time.time() - ctx.t0))
    return status
