#!/usr/bin/env python3
"""save_seeded.py <prop> <mN> <caught-by> <initially-missed yes/no> : copies a confirmed seeded change into /verif/seeded/"""
import json, os, shutil, sys
P, M, caught, missed = sys.argv[1:5]
DM = sys.argv[5] if len(sys.argv) > 5 else M      # name under /verif/seeded (later batches: m3, m4, ...)
src = '/tmp/wt_%s/_mutation/%s' % (P, M)
dst = '/verif/seeded/%s_%s' % (P, DM)
os.makedirs(dst, exist_ok=True)
for f in ('patch.diff', 'demo.py', 'notes.md'):
    shutil.copy(os.path.join(src, f), os.path.join(dst, f))
notes = open(os.path.join(src, 'notes.md')).read()
meta = {'property': P, 'id': '%s_%s' % (P, DM), 'needs_to_manifest': notes.strip()[:900],
        'confirmed': {'demo_on_original': 'exit 0', 'demo_with_patch': 'non-zero exit', 'test_suite_with_patch': '41 passed',
                      'how': 'tools/../work/run_muts.sh: demo run in a scratch worktree with and without the patch; pytest with the patch; '
                             'then `git -C /repo apply patch.diff`, `check.py <property>`, `git -C /repo checkout -- .`'},
        'caught_by': caught, 'initially_missed': missed == 'yes'}
json.dump(meta, open(os.path.join(dst, 'meta.json'), 'w'), indent=1)
print('saved', dst)
