"""Generator of RING texts (DESIGN 5.21): fragments from the grammar's
constructs with random layout and label names, plus a malformed stream."""

SYMS = ['C', 'C', 'C', 'O', 'H', 'N', '$', 'X', '&', 'Pt', 'M', 'any atom', 'heavy atom', 'heteroatom', 'Ru', 'S']
LOWER = ['c', 'n', 'o']
SUFFIX = ['', '', '', '?', '?', '+', '-', '.', ':', ':.', '+.', '-.', '*']
APREFIX = ['', '', '', '', 'aromatic ', 'nonaromatic ', 'ringatom ', 'nonringatom ', 'allylic ']
BONDS = ['single', 'single', 'double', 'triple', 'quadruple', 'ring', 'nonring', 'aromatic', 'any', 'strong', 'partial']
CMP = ['', '', '=', '>', '<', '>=', '<=']
MOLPREFIX = ['', '', '', '', 'positive ', 'negative ', 'neutral ', 'aromatic ', 'olefinic ', 'paraffinic ', 'cyclic ', 'linear ',
             'neutral paraffinic linear ', 'olefinic cyclic ']
LABELS = ['c1', 'c2', 'a', 'b', 'x_1', 'C1', 'atom3', 'o1', 'n', 'h1', 'q', 'zz', 'L9', 'm_', 'k2', 'w']


def ws(rng, must=True):
    if not must and rng.random() < 0.5:
        return ''
    k = rng.random()
    if k < 0.7:
        return ' '
    return rng.choice(['  ', '\n', '\t', ' \n ', '\n\t', '   '])


def atomtype(rng, lower_ok=False):
    sym = rng.choice(LOWER) if lower_ok and rng.random() < 0.08 else rng.choice(SYMS)
    return rng.choice(APREFIX) + sym + rng.choice(SUFFIX)


def constraint(rng, unsupported=False):
    k = rng.random()
    neg = '! ' if rng.random() < 0.25 else ''
    if unsupported and rng.random() < 0.3:
        neg = rng.choice(['|| ', '&& ', '+ ', '- '])
    cn = rng.choice(CMP) + str(rng.randint(0, 4))
    if k < 0.45:
        withb = '' if rng.random() < 0.5 else ' with %s bond' % rng.choice(BONDS)
        num = '' if rng.random() < 0.3 else cn + ' '
        target = atomtype(rng)
        if unsupported and rng.random() < 0.2:
            target = 'group g1'
        return '%sconnected to %s%s%s' % (neg, num, target, withb)
    if k < 0.65:
        return '%sin ring of size %s' % (neg, rng.choice(CMP) + str(rng.randint(3, 7)))
    if k < 0.85:
        return '%sin %s ring' % (neg, cn)
    return '%shas %s radical electrons' % (neg, cn)


def constraints(rng, unsupported=False):
    n = rng.choice([0, 0, 0, 1, 1, 2, 2, 3, 4, 5])      # chains of any length
    if n == 0:
        return ''
    return '{' + ', '.join(constraint(rng, unsupported) for _ in range(n)) + '}'


LABELS2 = ['p1', 'Q', 'r_2', 'zz9', 'A7', 'lbl', 'u', 'v8', 'k', 'mm', 'X1', 'yy', 'd4', 'e', 'f0', 'g_']


# label names that differ only in letter case are different labels (batch 12: case-insensitive label look-up)
LABELS3 = ['a', 'A', 'b', 'B', 'c1', 'C1', 'x', 'X', 'n', 'N', 'q', 'Q', 'zz', 'ZZ', 'Zz', 'zZ']


def fragment(rng, natoms=None, unsupported=False, collide=False, lrng=None, labels=None):
    """structure from `rng`; layout from `lrng` and label names from `labels`
    (so the same structure can be rendered with another layout and labels)"""
    lrng = lrng or rng
    natoms = natoms or rng.choice([1, 1, 2, 2, 3, 3, 4, 5, 6, 8])
    pick = rng.sample(range(len(LABELS)), natoms)
    pool = labels or LABELS
    labels = [pool[i] for i in pick]
    if collide and natoms > 1 and rng.random() < 0.5:
        labels[-1] = labels[0]
    w = lambda must=True: ws(lrng, must)
    parts = ['%s labeled %s%s%s' % (atomtype(rng, True), labels[0], w(False), constraints(rng, unsupported))]
    bonds = []
    for i in range(1, natoms):
        j = rng.randrange(i)
        tgt = labels[j] if not (collide and rng.random() < 0.3) else rng.choice(['undefined_label', labels[i]])
        parts.append('%s labeled %s %s bond to %s%s%s' % (atomtype(rng, True), labels[i], rng.choice(BONDS), tgt, w(False),
                                                        constraints(rng, unsupported)))
        bonds.append((i, j))
    if natoms >= 3 and rng.random() < 0.3:
        a, b = rng.sample(range(natoms), 2)
        if (a, b) not in bonds and (b, a) not in bonds:
            parts.append('ringbond %s %s bond to %s' % (labels[a], rng.choice(BONDS), labels[b]))
    if natoms >= 4 and rng.random() < 0.2:
        parts.append('stereo double bond %s %s%s to %s for double bond between %s and %s' % (
            labels[0], '! ' if rng.random() < 0.3 else '', rng.choice(['cis', 'trans', 'notspecified']), labels[3], labels[1], labels[2]))
    body = w().join(parts) if lrng.random() < 0.5 else '\n'.join(parts)
    name = rng.choice(['a', 'frag1', 'C3chain', 'x_y', 'F'])
    return '%sfragment%s%s%s{%s%s%s}%s' % (rng.choice(MOLPREFIX), w(), name, w(False), w(False), body, w(False), w(False))


RULES = [
    'rule r1{ reactant r{ C labeled c1 H labeled h1 single bond to c1} break bond (c1,h1) increase number of radical (c1) increase number of radical (h1)}',
    'rule cc{ reactant r{ C labeled c1 C labeled c2 single bond to c1} break bond (c1,c2) increase number of radical (c1) increase number of radical (c2)}',
    'rule dh{ reactant r{ C labeled c1 C labeled c2 single bond to c1 H labeled h1 single bond to c1 H labeled h2 single bond to c2} '
    'break bond (c1,h1) break bond (c2,h2) increase bond order (c1,c2) form bond (h1,h2)}',
    'rule bad{ reactant r{ C labeled c1 H labeled h1 single bond to c1} break bond (c1,h1)}',
    'rule m{ reactant r{ C. labeled c1} modify number of radical (c1, 0)}',
    'rule k{ reactant r{ C labeled c1} constraints{ r.size >1 } increase formal charge (c1)}',
    'rule g{ reactant r g1 ( a => b ) form bond (a,b)}',
]

# every form of the (unsupported) constraints block of a rule: reading must end with a RING error, never a KeyError
CONSTRAINTS = ['r.size >1', 'r.size = 3', 'r.charge = 0', 'r is cyclic', 'r is aromatic', 'r is oxygenate', 'r is heteroaromatic',
               'r is bridged', 'r is foo', 'r.formula is C2H6', 'r.formula is C 2 H 6', 'r contains 2 of f', 'r contains f',
               'r contains group g', 'r contains >1 of group g', '! r is cyclic', 'r is cyclic && r.size <5', '( r is cyclic )',
               '( r.size >1 || r is aromatic )', 'r.size + q.size <9', 'r is', 'r', '', 'r.formula is', 'r contains 2 of', 'is cyclic',
               'fragment f{ C labeled a } r contains f']
# atom-type modification (unsupported: NotImplementedError) and reactant groups / duplicates (known finding: unreadable)
RULES += ['rule m{ reactant r{ %s labeled c1} modify atomtype (c1, %s)}' % (a, b)
          for a, b in [('C', 'C'), ('C', 'C.'), ('C.', 'C'), ('N', 'N+'), ('X', 'X'), ('C', 'N'), ('$', '$.'), ('O', 'O:')]]
GROUP_DUP = [
    'rule g{ reactant q group g1 ( a => b ) form bond (a,b)}',
    'rule g{ reactant r{ C labeled a} reactant q group g1 ( a => b ) increase formal charge (a) decrease formal charge (a)}',
    'rule d{ reactant r{ C labeled a} reactant q duplicates r ( a => b ) increase formal charge (a) decrease formal charge (a)}',
    'rule d{ reactant q duplicates r ( a => b ) reactant r{ C labeled a} increase formal charge (a) decrease formal charge (a)}',
    'rule d{ reactant q duplicates r ( a => b, c => d ) reactant r{ C labeled a C labeled c single bond to a} break bond (a,c) increase number of radical (a) increase number of radical (c)}']
RULES += GROUP_DUP
_RS = 'rule rs{ reactant r{ C labeled c1 H labeled h1 single bond to c1} %s }'
RULES += [_RS % e for e in ('break bond (c1,h1) modify number of radical (c1, 1) increase number of radical (h1)',
                            'modify number of radical (c1, 1) break bond (c1,h1) increase number of radical (h1)',
                            'break bond (c1,h1) increase number of radical (h1) modify number of radical (c1, 1)',
                            'break bond (c1,h1) increase number of radical (h1) modify number of radical (c1, 0)',
                            'modify number of radical (c1, 0) break bond (c1,h1) increase number of radical (h1)',
                            'break bond (c1,h1) modify number of radical (c1, 2) increase number of radical (h1)')]
# untyped breaks over multiple bonds (an untyped break declares a SINGLE bond), the same bond's order changed more than once,
# every declared bond order with a modification of it
_R2 = 'rule u%d{ reactant m{ C labeled a C labeled b %s bond to a } %s }'
RULES += [_R2 % (i, bt, e) for i, (bt, e) in enumerate([
    ('double', 'break bond (a,b) increase number of radical (a) increase number of radical (b)'),
    ('triple', 'break bond (a,b) increase number of radical (a) increase number of radical (b)'),
    ('quadruple', 'break bond (a,b) increase number of radical (a) increase number of radical (b)'),
    ('double', 'break bond (a,b) increase number of radical (a) increase number of radical (a) increase number of radical (b) increase number of radical (b)'),
    ('double', 'break double bond (a,b) increase number of radical (a) increase number of radical (a) increase number of radical (b) increase number of radical (b)'),
    ('triple', 'decrease bond order (a,b) decrease bond order (a,b) increase number of radical (a) increase number of radical (a) '
               'increase number of radical (b) increase number of radical (b)'),
    ('single', 'increase bond order (a,b) decrease bond order (a,b)'),
    ('single', 'increase bond order (a,b) increase bond order (a,b) decrease number of radical (a) decrease number of radical (a) '
               'decrease number of radical (b) decrease number of radical (b)'),
    ('double', 'decrease bond order (a,b) increase bond order (a,b)'),
    ('single', 'decrease bond order (a,b) increase number of radical (a) increase number of radical (b)'),
    ('double', 'increase bond order (a,b) decrease bond order (a,b) decrease bond order (a,b) increase number of radical (a) increase number of radical (b)'),
    ('quadruple', 'modify bond (a,b,triple) increase number of radical (a) increase number of radical (b)'),
    ('quadruple', 'modify bond (a,b,single) modify number of radical (a, 3) modify number of radical (b, 3)'),
    ('triple', 'modify bond (a,b,quadruple) decrease number of radical (a) decrease number of radical (b)'),
    ('triple', 'modify bond (a,b,single) modify number of radical (a, 2) modify number of radical (b, 2)'),
    ('aromatic', 'modify bond (a,b,single)'), ('any', 'modify bond (a,b,single)'), ('quadruple', 'decrease bond order (a,b) increase number of radical (a) increase number of radical (b)'),
    ('quadruple', 'break quadruple bond (a,b) modify number of radical (a, 4) modify number of radical (b, 4)')])]
# a bond removed and then formed again on the same labelled pair
RULES += ['rule bf{ reactant m{ C. labeled a C. labeled b single bond to a } break bond (a,b) form double bond (a,b) decrease number of radical (a) decrease number of radical (b) }',
          'rule bf2{ reactant m{ C labeled a C labeled b single bond to a } break bond (a,b) form bond (a,b) }',
          'rule df{ reactant m{ C labeled a C labeled b double bond to a } decrease bond order (a,b) decrease bond order (a,b) form bond (a,b) }',
          'rule fb{ reactant m{ C labeled a C labeled b single bond to a } form bond (a,b) decrease number of radical (a) decrease number of radical (b) }']
# atom-type modification with an atom prefix in the new type
RULES += ['rule m{ reactant r{ C labeled c1} modify atomtype (c1, %s C)}' % p for p in ('nonringatom', 'ringatom', 'aromatic', 'nonaromatic', 'allylic')]
# numbers at and beyond the interpreter's integer-conversion limit (sys.get_int_max_str_digits() = 4300 digits)
BIGNUM = ['rule n{ reactant r{ C labeled c1} modify number of radical (c1, %s) }' % ('9' * n) for n in (4300, 4301, 5000)] + \
         ['rule k{ reactant r{ C labeled c1} constraints{ r.formula is C%s } increase formal charge (c1) decrease formal charge (c1)}' % ('1' * n) for n in (4300, 4301)]
# deeply nested parentheses in a constraints block (reading time must stay bounded: each level is parsed once)
DEEP = ['rule k{ reactant r{ C labeled c1} constraints{ %sr.size >1%s } increase formal charge (c1) decrease formal charge (c1)}' % ('( ' * n, ' )' * n) for n in (6, 14, 22, 30)] + \
       ['rule k{ reactant r{ C labeled c1} constraints{ %sr is cyclic%s && r.size <5 } increase formal charge (c1) decrease formal charge (c1)}' % ('(' * n, ')' * n) for n in (18, 26)] + \
       ['rule k{ reactant r{ C labeled c1} constraints{ %sr.size >1 } increase formal charge (c1)}' % ('( ' * 24)]
# several reactants: outside the C16 model (guard) - read by C09 only
BIMOLECULAR = ['rule two{ reactant r{ C. labeled a} reactant q{ C. labeled b} form bond (a,b) decrease number of radical (a) decrease number of radical (b)}',
          'rule two{ reactant r{ C. labeled a} reactant r{ C. labeled b} form bond (a,b) decrease number of radical (a) decrease number of radical (b)}']
RULES += ['rule k{ reactant r{ C labeled c1} constraints{ %s } increase formal charge (c1) decrease formal charge (c1)}' % c for c in CONSTRAINTS]


def malformed(rng, text):
    k = rng.random()
    toks = text.replace('{', ' { ').replace('}', ' } ').split(' ')
    if k < 0.08:
        return text + rng.choice(TAILS) + rng.choice(['junk', 'x', '}', ' C labeled q'])
    if k < 0.2:
        return text[:rng.randrange(len(text) + 1)]
    if k < 0.4 and len(toks) > 1:
        i = rng.randrange(len(toks))
        del toks[i]
        return ' '.join(toks)
    if k < 0.55 and toks:
        i = rng.randrange(len(toks))
        toks[i] = rng.choice(['labeled', 'bond', 'to', '{', '}', 'fragment', 'C', '12', '!', 'single', 'xyz', ',', 'connected', '²', 'é', '٣', '('])
        return ' '.join(toks)
    if k < 0.7 and toks:
        i = rng.randrange(len(toks))
        toks.insert(i, toks[i])
        return ' '.join(toks)
    if k < 0.85:
        i = rng.randrange(len(text) + 1)
        return text[:i] + rng.choice(['x', '{', '}', ' ', '\n', '9', ',', '²', 'é', 'Ω', '٣', '_', '$', '\x00', '  labeled '] + TAILS + PUNCT) + text[i:]
    n = rng.randint(0, 25)
    return ''.join(rng.choice(list('fragment a{C labeled c1}$?+-.:!<>=0123456789 \n\t') + ['é', '²', '٣']) for _ in range(n))


TAILS = ['\r', '\x0b', '\x0c', '\x1c', '\x85', '\xa0', '\u2003', '\u2028', '\u3000', '\r\n']
# comment-like and other punctuation a tokenizer extension could be tempted to swallow
PUNCT = ['//', '// c', '#', '# c', '/*', '*/', '--', ';', '%', '\\', '/', '//\n', '"', "'"]
FIXED = ['', ' ', '\n\n', 'fragment', 'fragment a', 'fragment a{', 'fragment a{C', 'fragment a{C labeled', 'fragment a{C labeled c1',
         'fragment a{C labeled c1}', 'fragment a{C labeled c1} x', 'fragment a{C labeled c1}}', 'fragment a{C labeled c1} fragment b{C labeled c1}',
         'fragment a{c labeled c1}', 'fragment a{c? labeled c1}', 'fragment a{Xx labeled c1}', 'fragment a{C labeled c1 {connected to group x}}',
         'fragment a{C labeled AtomLabel C labeled c2 single bond to AtomLabel}', 'fragment a{C labeled c1 {connected to >² C}}',
         'fragment a{C labeled c1 {connected to ٣ C}}', 'fragment a{C labeled c1 {in ring of size 12}}',
         'fragment a{C labeled c1 {|| connected to C}}', 'fragment a{C labeled c1 C labeled c1 single bond to c1}',
         'fragment a{C labeled c1 C labeled c2 single bond to c9}', 'fragment a{C labeled c1 ringbond c1 single bond to c7}',
         'fragment a{C labeled c1 C labeled c2 wiggly bond to c1}', 'rule', 'rule x{', 'frågment a{C labeled c1}', 'fragment é{C labeled c1}',
         'fragment a{é labeled c1}', 'positive fragment a{C+ labeled c1}', 'aromatic cyclic fragment a{C labeled c1}',
         'linear fragment a{C labeled c1}', 'fragment a {\nC labeled c1\nC labeled c2 double bond to c1\n}',
         'fragment a{C labeled c1 C labeled c2 double bond to c1 C labeled c3 single bond to c1 C labeled c4 single bond to c2 '
         'stereo double bond c3 cis to c4 for double bond between c1 and c2}',
         'fragment a{C labeled c1 C labeled c2 single bond to c1 C labeled c3 single bond to c1 C labeled c4 single bond to c2 '
         'stereo double bond c3 cis to c4 for double bond between c1 and c2}',
         'fragment a{C labeled c1 C labeled c2 double bond to c1 stereo double bond c1 cis to c2 for double bond between c1 and c2}']


# texts that END inside or right after a number
FIXED += ['rule m{ reactant r{ C. labeled c1} modify number of radical (c1, 1', 'rule m{ reactant r{ C. labeled c1} modify number of radical (c1, 12',
          'rule m{ reactant r{ C. labeled c1} modify number of radical (c1, ', 'rule k{ reactant r{ C labeled c1} constraints{ r.formula is C 2',
          'rule k{ reactant r{ C labeled c1} constraints{ r.formula is C2H6', 'fragment a{C labeled c1 {connected to >1', 'fragment a{C labeled c1 {in ring of size 6']
# the same unknown element asked for several times in one process (atom, bonded atom, constraint, lower-case / aromatic spelling)
SAME_PROCESS = ['fragment s%d{%s}' % (i, b) for i, b in enumerate([
    'Qq labeled c1', 'Qq labeled c1', 'qq labeled c1', 'C labeled c1 {connected to Qq}', 'C labeled c1 Qq labeled c2 single bond to c1',
    'C labeled c1 {connected to >1 qq}', 'Zz labeled c1 Zz labeled c2 single bond to c1', 'zz labeled c1', 'C labeled c1 {! connected to Zz}',
    'C labeled c1', 'Qq labeled c1'])]
FIXED += ['fragment a{Qq labeled c1}', 'fragment b{Qq labeled c1}', 'fragment a{qq labeled c1}', 'fragment a{C labeled c1 {connected to Qq}}',
          'fragment a{C labeled c1 Qq labeled c2 single bond to c1}', 'fragment a{C labeled c1 {connected to >1 qq}}', 'fragment c{Qq labeled c9}',
          'fragment a{Xx labeled c1}', 'fragment a{C labeled c1 Xx labeled c2 double bond to c1}', 'fragment a{xx labeled c1}', 'fragment d{Xx labeled q}']
FIXED += ['fragment a{C labeled c1 C labeled c2 single bond to c1}%sjunk' % t for t in TAILS]
FIXED += ['fragment a{C labeled c1}%s' % t for t in TAILS]
FIXED += ['fragment a{C labeled c1} %s' % t for t in PUNCT] + ['%s' % t for t in PUNCT] + ['fragment a{C labeled c1 %s}' % t for t in PUNCT]
FIXED += ['rule r1{ reactant r{ C labeled c1 H labeled h1 single bond to c1} break bond (c1,h1) increase number of radical (c1) increase number of radical (h1) %s}' % t for t in PUNCT[:4]]
FIXED += ['fragment a{C labeled c1 C labeled c2 %s bond to c2}' % b for b in BONDS[1:]]
FIXED += ['fragment a{C labeled c1 C labeled c2 single bond to c1 C labeled c3 double bond to c3}',
          'fragment a{C labeled c1 C labeled c2 single bond to c1 ringbond c1 single bond to c2}',
          'fragment a{C labeled c1 ringbond c1 single bond to c1}']


def long_chain(n):
    s = 'fragment a{C labeled c0'
    for i in range(1, n):
        s += ' C labeled c%d single bond to c%d' % (i, i - 1)
    return s + '}'


def long_rule(n):
    """n transformations in one rule (balanced: every increase is undone)"""
    ed = ' '.join('increase formal charge (c1) decrease formal charge (c1)' for _ in range(n // 2))
    return 'rule lr{ reactant r{ C labeled c1} %s }' % ed


def long_constraints(n):
    """n constraints on one atom"""
    return 'fragment a{C labeled c1 {%s}}' % ', '.join('connected to >%d H' % (i % 2) for i in range(n))


# ---------- reaction rules (C16) ----------
def rule(rng, balanced=True):
    """unimolecular rule: a reactant fragment of 1..4 atoms and a sequence of edits.
    Returns (text, meta).  Balanced edit sets are composed from electron-neutral
    building blocks; unbalanced ones drop or add one half of a block."""
    n = rng.choice([1, 2, 2, 3, 3, 4])
    syms = [rng.choice(['C', 'C', 'C', 'O', 'H', 'N', 'C.', 'O.', 'C?', 'X?']) for _ in range(n)]
    labels = ['a%d' % i for i in range(n)]
    bonds = {}
    parts = ['%s labeled %s' % (syms[0], labels[0])]
    for i in range(1, n):
        j = rng.randrange(i)
        bt = rng.choice(['single', 'single', 'single', 'double', 'triple', 'any'])
        bonds[(j, i)] = bt
        parts.append('%s labeled %s %s bond to %s' % (syms[i], labels[i], bt, labels[j]))
    edits = []
    blocks = []
    pairs = list(bonds)
    for _ in range(rng.choice([1, 1, 2, 3])):
        k = rng.random()
        if pairs and k < 0.3:
            (i, j) = rng.choice(pairs)
            bt = bonds[(i, j)]
            if bt in ('single', 'double', 'triple'):
                order = {'single': 1, 'double': 2, 'triple': 3}[bt]
                decl = '' if bt == 'single' and rng.random() < 0.5 else bt + ' '
                if bt != 'single' and rng.random() < 0.2:
                    decl, order = '', rng.choice([1, order])      # untyped break of a multiple bond, balanced as a single or as the declared one
                left = ['increase number of radical (%s)' % labels[i]] * order
                if rng.random() < 0.3:
                    # the same electrons written as ONE radical-set edit (its position among the other edits must not matter)
                    left = ['modify number of radical (%s, %d)' % (labels[i], order)]
                blocks.append(['break %sbond (%s,%s)' % (decl, labels[i], labels[j])]
                              + left + ['increase number of radical (%s)' % labels[j]] * order)
                pairs.remove((i, j))
            else:
                blocks.append(['break bond (%s,%s)' % (labels[i], labels[j])])
        elif pairs and k < 0.5:
            (i, j) = rng.choice(pairs)
            blocks.append(['increase bond order (%s,%s)' % (labels[i], labels[j]), 'decrease number of radical (%s)' % labels[i],
                           'decrease number of radical (%s)' % labels[j]])
        elif pairs and k < 0.65:
            (i, j) = rng.choice(pairs)
            blocks.append(['decrease bond order (%s,%s)' % (labels[i], labels[j]), 'increase number of radical (%s)' % labels[i],
                           'increase number of radical (%s)' % labels[j]])
        elif n >= 2 and k < 0.8:
            i, j = rng.sample(range(n), 2)
            if (min(i, j), max(i, j)) not in bonds:
                bt = rng.choice(['', 'single ', 'double '])
                order = 2 if bt == 'double ' else 1
                blocks.append(['form %sbond (%s,%s)' % (bt, labels[i], labels[j])] + ['decrease number of radical (%s)' % labels[i]] * order
                              + ['decrease number of radical (%s)' % labels[j]] * order)
        elif k < 0.9:
            i = rng.randrange(n)
            blocks.append(['increase formal charge (%s)' % labels[i], 'increase number of radical (%s)' % labels[i],
                           'decrease number of radical (%s)' % labels[i], 'decrease formal charge (%s)' % labels[i]])
        else:
            i = rng.randrange(n)
            blocks.append(['increase formal charge (%s)' % labels[i], 'decrease number of radical (%s)' % labels[i]])
    if pairs and rng.random() < 0.15:
        (i, j) = rng.choice(pairs)
        if bonds[(i, j)] in ('single', 'double'):
            new = 'double' if bonds[(i, j)] == 'single' else 'single'
            d = 1 if new == 'double' else -1
            blocks.append(['modify bond (%s,%s,%s)' % (labels[i], labels[j], new)]
                          + [('decrease' if d > 0 else 'increase') + ' number of radical (%s)' % labels[i],
                             ('decrease' if d > 0 else 'increase') + ' number of radical (%s)' % labels[j]])
    for b in blocks:
        edits += b
    if not edits:
        edits = ['increase formal charge (%s)' % labels[0], 'decrease formal charge (%s)' % labels[0]]
    if not balanced:
        k = rng.random()
        if k < 0.4 and len(edits) > 1:
            del edits[rng.randrange(len(edits))]
        elif k < 0.6:
            edits.append(rng.choice(['increase number of radical (%s)', 'decrease formal charge (%s)', 'increase formal charge (%s)']) % rng.choice(labels))
        elif k < 0.85 and n >= 2:
            # per-atom imbalances that cancel over the whole rule: an electron "hops" between two labels
            i, j = rng.sample(range(n), 2)
            rad = [e for e in range(len(edits)) if 'number of radical (%s)' % labels[i] in edits[e]]
            if rad and rng.random() < 0.5:
                e = rng.choice(rad)
                edits[e] = edits[e].replace('(%s)' % labels[i], '(%s)' % labels[j])
            elif rng.random() < 0.7:
                edits += ['increase number of radical (%s)' % labels[i], 'decrease number of radical (%s)' % labels[j]]
            else:
                edits += ['increase formal charge (%s)' % labels[i], 'decrease formal charge (%s)' % labels[j]]
        else:
            edits.append('break bond (%s,%s)' % (labels[0], 'nolabel'))
    rng.shuffle(edits) if rng.random() < (0.7 if any('modify number' in e for e in edits) else 0.3) else None
    text = 'rule r%d{ reactant m{ %s } %s }' % (rng.randint(1, 99), ' '.join(parts), ' '.join(edits))
    return text


import re as _re
_GD = _re.compile(r'reactant\s+\w+\s+(group|duplicates)\b')


def has_group_or_duplicates(text):
    """a rule whose reactant list names a reactant group or a duplicate (known finding: cannot be read)"""
    return bool(_GD.search(text))
