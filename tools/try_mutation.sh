#!/bin/bash
# usage: try_mutation.sh <patch.diff> <prop> [<prop>...]   -- applies the patch to /repo, runs the checks, reverts.
# The evidence files of the properties are saved and restored: committed evidence must come from runs on /repo itself.
patch=$1; shift
cd /repo && git status --short | grep -v '^??' | head -3
git -C /repo apply "$patch" || { echo "PATCH DOES NOT APPLY"; exit 2; }
tmp=$(mktemp -d)
for p in "$@"; do cp /verif/evidence/$p.json $tmp/ 2>/dev/null; done
for p in "$@"; do
  out=$(cd /verif && timeout 1500 /venv/bin/python check.py $p 2>&1)
  echo "== $p exit=$? violations=$(echo "$out" | grep -c '^VIOLATION') :: $(echo "$out" | grep -m3 'what:' | tr '\n' ' ' | cut -c1-400)"
done
git -C /repo checkout -- . ; git -C /repo status --short | grep -v '^??' | head -3
for p in "$@"; do cp $tmp/$p.json /verif/evidence/ 2>/dev/null; done
rm -rf $tmp
# regenerate the translated files from the restored tree (only needed when the patch touched what the translators read)
grep -q 'pgradd/data\|Grammar.py\|Units/builtin\|Units/db\|Units/Consts\|\.yaml' "$patch" && (cd /verif && /venv/bin/python -c "
import sys; sys.path.insert(0,'tools')
import gen
for k in gen.GENERATORS: gen.GENERATORS[k]()
" >/dev/null 2>&1)
