#!/bin/bash
# usage: try_mutation.sh <patch.diff> <prop> [<prop>...]   -- applies the patch to /repo, runs the checks, reverts
patch=$1; shift
cd /repo && git status --short | grep -v '^??' | head -3
git -C /repo apply "$patch" || { echo "PATCH DOES NOT APPLY"; exit 2; }
for p in "$@"; do
  out=$(cd /verif && timeout 1500 /venv/bin/python check.py $p 2>&1)
  echo "== $p exit=$? violations=$(echo "$out" | grep -c '^VIOLATION') :: $(echo "$out" | grep -m3 'what:' | tr '\n' ' ' | cut -c1-400)"
done
git -C /repo checkout -- . ; git -C /repo status --short | grep -v '^??' | head -3
