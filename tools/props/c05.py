"""C05 - correlations are thermodynamically consistent with their data.
(The generators and the correspondence are shared with C06.)"""
import os
from fractions import Fraction
import vlib
import thermogen
from vlib import g_list, g_Q, g_bool

COQ_DEPS = ['Thermo/Corr.vo']

TOLQ = '1 # 1000000000'      # 1e-9 relative to the case's scale, inside Coq
REGIONS = ('below', 'min', 'inside', 'knot', 'max', 'above')


def place(rng, region, Ts):
    lo, hi = min(Ts), max(Ts)
    if region == 'below':
        return round(lo - rng.choice([1.85, 50.0, 0.5 * lo]), 3)
    if region == 'min':
        return lo
    if region == 'max':
        return hi
    if region == 'above':
        return round(hi + rng.choice([1.85, 100.0, 700.0]), 3)
    if region == 'knot':
        return rng.choice(sorted(Ts))
    if lo == hi:
        return lo
    return round(rng.uniform(lo, hi), 2)


def gen_case(rng, cls, tref_region=None, adversarial=None):
    Ts, Cps = thermogen.rnd_table(rng, adversarial=(rng.random() < 0.25 if adversarial is None else adversarial))
    reg = tref_region or rng.choice(REGIONS)
    Tref = place(rng, reg, Ts)
    lo = min(Ts + [Tref])
    hi = max(Ts + [Tref])
    rk = rng.random()
    if rk < 0.25 and reg in ('min', 'inside', 'knot', 'max'):
        rng_ = None
    elif rk < 0.5:
        rng_ = [lo, hi]
    else:
        rng_ = [max(round(lo - rng.choice([10.0, 98.15, 150.0]), 3), 1.0), hi + rng.choice([5.0, 500.0])]
    c = {'op': 'corr', 'cls': cls, 'Ts': Ts, 'Cps': Cps, 'T_ref': Tref, 'range': rng_,
         'H': round(rng.uniform(-60, 40), 4), 'S': round(rng.uniform(-5, 40), 4), 'tref_region': reg}
    if rng.random() < 0.12:
        c['H'] = 0.0
    if rng.random() < 0.12:
        c['S'] = 0.0
    if cls == 'inc':
        if rng.random() < 0.1:
            c['H'] = None
        if rng.random() < 0.1:
            c['S'] = None
    return c


def eval_points(rng, c, outside=True):
    Ts = c['Ts']
    lo, hi = (c['range'] if c['range'] else (min(Ts), max(Ts)))
    pts = set([lo, hi, c['T_ref'], min(Ts), max(Ts)] + list(Ts[:16]))
    for reg in REGIONS:
        T = place(rng, reg, Ts)
        if lo <= T <= hi:
            pts.add(T)
    for _ in range(3):
        pts.add(round(rng.uniform(lo, hi), 2))
    inside = sorted(pts)
    out = []
    if outside:
        import math
        out = [round(lo - 1e-6, 7), round(hi + 1e-6, 7), lo - 0.5, hi + 300.0, 0.0, -5.0, lo / 2,
               # the nearest representable temperatures outside, and slivers a relative tolerance would let through
               math.nextafter(lo, -math.inf), math.nextafter(hi, math.inf), hi * (1 + 1e-12), lo * (1 - 1e-12), hi + 1e-8, lo - 1e-8]
        out = [T for T in out if T < lo or T > hi]
    return inside, out


def bad_ctor_case(rng, cls):
    c = gen_case(rng, cls, tref_region=rng.choice(('inside', 'knot')))
    lo, hi = min(c['Ts']), max(c['Ts'])
    k = rng.choice(('tref_out_lo', 'tref_out_hi', 'data_out', 'inverted'))
    if k == 'tref_out_lo':
        c['range'] = [lo, hi + 10]
        c['T_ref'] = lo - 5.0
    elif k == 'tref_out_hi':
        c['range'] = [lo - 10, hi]
        c['T_ref'] = hi + 5.0
    elif k == 'data_out':
        c['range'] = [lo + 1.0, hi + 10] if rng.random() < 0.5 or len(c['Ts']) < 2 else [lo - 10.0, hi - 1.0]
        c['T_ref'] = min(max(c['T_ref'], c['range'][0]), c['range'][1])
    else:
        c['range'] = [hi + 10.0, lo - 10.0]
    c['bad'] = k
    return c


def q(x):
    return vlib.g_Qf(x)


def res_lit(r, warn=False):
    if 'exc' in r:
        cls = {'IncompleteDataError': 'IncompleteData', 'OutsideCorrelationError': 'OutsideCorrelation',
               'ValueError': 'ValueErr', 'AssertionError': 'AssertErr'}.get(r['exc'], 'InternalErr')
        return '(Raise %s)' % cls
    if r.get('v') is None:
        return '(Raise InternalErr)'
    if warn:
        return '(Ok (%s, %s))' % (q(r['v']), g_bool(r['w']))
    return '(Ok %s)' % q(r['v'])


def tables_lit(o):
    def t1(d):
        return g_list(['(%s, %s)' % (q(float(k)), q(v)) for k, v in d.items()])

    def t2(d):
        return g_list(['(%s, %s, %s)' % (q(float(k.split(',')[0])), q(float(k.split(',')[1])), q(v))
                       for k, v in d.items()])
    if not o:
        return '{| t_spl := []; t_int := []; t_quad := []; t_ln := [] |}'
    return '{| t_spl := %s; t_int := %s; t_quad := %s; t_ln := %s |}' % (
        t1(o['spl']), t2(o['splint']), t2(o['quadS']), t2(o['ln']))


def scale_of(c):
    s = 1.0 + abs(c.get('H') or 0.0) * 10 + abs(c.get('S') or 0.0) + 20 * sum(abs(x) for x in c['Cps'])
    return q(s)


def coq_case(c, res):
    ctor = 'None'
    if 'exc' in res:
        ctor = '(Some %s)' % {'ValueError': 'ValueErr', 'AssertionError': 'AssertErr'}.get(res['exc'], 'InternalErr')
    pts = g_list(['(%s, %s)' % (q(t), q(v)) for t, v in zip(c['Ts'], c['Cps'])])
    rng_ = 'None' if not c['range'] else '(Some (%s, %s))' % (q(c['range'][0]), q(c['range'][1]))
    evs = []
    if 'vals' in res:
        for i, T in enumerate(c['evalTs']):
            cols = [res['vals'][p][i] for p in (('cp', 'h', 's') if c['cls'] == 'raw' else ('cp', 'h', 's', 'g'))]
            evs.append('(%s, %s)' % (q(T), ', '.join(res_lit(x, warn=c['cls'] != 'raw') for x in cols)))
    tabs = tables_lit(res.get('oracle'))
    if c['cls'] == 'raw':
        return 'raw_case_ok tol %s %s %s %s %s %s %s %s %s' % (
            scale_of(c), pts, rng_, q(c['H']), q(c['S']), q(c['T_ref']), tabs, ctor, g_list(evs))
    oH = 'None' if c['H'] is None else '(Some %s)' % q(c['H'])
    oS = 'None' if c['S'] is None else '(Some %s)' % q(c['S'])
    inc = '(Build_inc (K:=Qops) %s %s %s %s %s)' % (oH, oS, pts, q(c['T_ref']), rng_)
    return 'inc_case_ok tol %s %s %s %s %s' % (scale_of(c), inc, tabs, ctor, g_list(evs))


HEADER = '''From Coq Require Import List NArith Bool QArith.
From PG Require Import Common.Strs Thermo.Num Thermo.RawData Thermo.Corr.
Import ListNotations.
Definition tol : Q := %s.
''' % TOLQ


def correspondence(ctx, cases, results, tag):
    texts = []
    step = 40
    for s in range(0, len(cases), step):
        body = ';\n'.join(coq_case(c, r) for c, r in zip(cases[s:s + step], results[s:s + step]))
        texts.append(HEADER + 'Definition cases : list bool := [\n%s\n].\n'
                     'Eval vm_compute in mismatches (fun b : bool => b) 0 cases.\n' % body)
    outs = vlib.run_cases_sharded('%s_%s' % (ctx.pid.lower(), tag), texts)
    bad = []
    for k, (ok, out) in enumerate(outs):
        val = vlib.coq_eval_value(out) if ok else None
        if val is None:
            ctx.broken.append('correspondence %s shard %d did not evaluate: %s' % (ctx.pid, k, out[-300:]))
            continue
        bad += [k * step + i for i in vlib.parse_nat_list(val)]
    return bad


def close(a, b, scale, tol=1e-9):
    return abs(a - b) <= tol * scale


def case_key(c):
    return 'corr:%s|Tref=%r|range=%r|Ts=%r|Cps=%r|H=%r|S=%r' % (
        c['cls'], c.get('T_ref'), c.get('range'), c.get('Ts'), c.get('Cps'), c.get('H'), c.get('S'))


def oracle_c05(ctx, c, res, perm_res=None):
    """the property's clauses, checked on the implementation alone"""
    key = case_key(c) if c['cls'] != 'lib' else 'lib:%s|%s' % (c['lib'], c['name'])
    if 'exc' in res:
        return
    vals = res['vals']
    Ts = c['evalTs']
    rec = c if c['cls'] != 'lib' else {
        'Ts': res['rec']['Ts'], 'Cps': [x['v'] for x in res['rec']['Cps']], 'T_ref': res['rec']['T_ref'],
        'H': None if res['rec']['H'] is None else res['rec']['H']['v'],
        'S': None if res['rec']['S'] is None else res['rec']['S']['v']}
    sc = 1.0 + sum(abs(x) for x in rec['Cps'] if x is not None)
    lo, hi = res['range'] if res.get('range') else (min(rec['Ts'] or [0]), max(rec['Ts'] or [0]))

    def val(p, T):
        r = vals[p][Ts.index(T)]
        return None if ('exc' in r or r['v'] is None) else r['v']
    # (a) knots reproduced
    for T, cp in zip(rec['Ts'], rec['Cps']):
        if T in Ts and lo <= T <= hi:
            v = val('cp', T)
            if v is None or not close(v, cp, sc):
                ctx.violate(key + '|knot', 'tabulated Cp/R is not reproduced at its temperature',
                            dict(c, T=T), cp, vals['cp'][Ts.index(T)])
    # (b) reference values at T_ref
    Tr = rec['T_ref']
    if Tr in Ts and rec['Ts']:
        for p, nm in (('h', 'H'), ('s', 'S')):
            if rec[nm] is not None:
                v = val(p, Tr)
                if v is None or not close(v, rec[nm], 1.0 + abs(rec[nm])):
                    ctx.violate(key + '|ref-' + p, '%s at the reference temperature is not the reference value' % p,
                                dict(c, T=Tr), rec[nm], vals[p][Ts.index(Tr)])
    # (b2) array arguments give, element by element, what scalar arguments give
    for kind, a in (res.get('cp_arrays') or {}).items():
        if a.get('outside'):
            continue            # C06's subject
        if 'exc' in a:
            ctx.violate(key + '|cp-array-exc:' + kind, 'get_CpoR on a %s array of in-range temperatures raised %s' % (kind, a['exc']),
                        dict(c, array=kind), 'array of Cp/R', a)
            continue
        for T, v in zip(a['T'], a['v']):
            sv = val('cp', T)
            if sv is not None and not close(v, sv, 1 + abs(sv), 1e-12):
                ctx.violate(key + '|cp-array:' + kind, 'get_CpoR on a %s array differs from the scalar call at the same temperature' % kind,
                            dict(c, array=kind, T=T), sv, v)
                break
    # (c) integrals
    for (T1, T2), I in zip(c.get('pairs', []), res.get('integrals', [])):
        if 'exc' in I:
            continue
        h1, h2, s1, s2 = val('h', T1), val('h', T2), val('s', T1), val('s', T2)
        span = abs(T2 - T1) + 1.0
        if h1 is not None and h2 is not None and rec['H'] is not None:
            if not close(T2 * h2 - T1 * h1, I['Icp'], sc * span + abs(T1 * h1) + abs(T2 * h2), 1e-7):
                ctx.violate(key + '|intH', 'change of T*(H/RT) is not the integral of Cp/R',
                            dict(c, T1=T1, T2=T2), I['Icp'], T2 * h2 - T1 * h1)
        if s1 is not None and s2 is not None and rec['S'] is not None:
            if not close(s2 - s1, I['IcpT'], sc * span / max(min(T1, T2), 1.0) + abs(s1) + abs(s2), 1e-7):
                ctx.violate(key + '|intS', 'change of S/R is not the integral of Cp/(R T)',
                            dict(c, T1=T1, T2=T2), I['IcpT'], s2 - s1)
    # (d) G = H - S
    for T in Ts:
        h, s = val('h', T), val('s', T)
        g = vals['g'][Ts.index(T)]
        if h is not None and s is not None:
            if 'exc' in g or g['v'] is None or not close(g['v'], h - s, 1 + abs(h) + abs(s), 1e-12):
                ctx.violate(key + '|g', 'G/RT != H/RT - S/R', dict(c, T=T), h - s, g)
    # (e) supply order
    if perm_res is not None:
        if ('exc' in perm_res) != ('exc' in res):
            ctx.violate(key + '|order', 'construction outcome depends on the supply order of the data points',
                        c, res.get('exc'), perm_res.get('exc'))
        elif 'vals' in perm_res:
            for p in ('cp', 'h', 's'):
                for i, T in enumerate(Ts):
                    a, b = vals[p][i], perm_res['vals'][p][i]
                    if ('exc' in a) != ('exc' in b) or ('v' in a and a['v'] is not None and b.get('v') is not None
                                                         and not close(a['v'], b['v'], 1 + abs(a['v']), 1e-10)):
                        ctx.violate(key + '|order', 'result depends on the supply order of the data points',
                                    dict(c, T=T, prop=p), a, b)
                        return


# corpus of minimised failures, run first (steep low-temperature table: plain adaptive quadrature of spline(t)/t over the
# whole span was wrong by 3.7e-5 while reporting 1.7e-7; fixed by 50fca92)
CORPUS = [
    {'op': 'corr', 'cls': cls, 'Ts': [117.0, 562.399, 351.145, 900.745, 300.124, 658.007, 410.84, 256.516, 187.389, 160.161, 480.683, 136.89,
                                      219.245, 769.868, 100.0, 1053.872],
     'Cps': [4.3079, 6.6159, 5.8937, 7.2417, 5.6255, 6.8165, 6.118, 5.4202, 4.9238, 4.6964, 6.412, 4.5347, 5.2076, 6.9902, 4.0813, 7.3597],
     'T_ref': 1053.872, 'range': None, 'H': 20.2571, 'S': -1.8218, 'tref_region': 'max',
     'evalTs': [100.0, 136.89, 256.516, 300.124, 1014.71, 1053.872], 'n_inside': 6,
     'pairs': [[256.516, 136.89], [100.0, 1014.71], [1053.872, 136.89]], 'oracle': True} for cls in ('raw', 'inc')]


def build_cases(ctx, n_raw, n_inc, n_bad):
    rng = ctx.rng
    cases = [dict(c) for c in CORPUS]
    for cls, n in (('raw', n_raw), ('inc', n_inc)):
        k = 0
        # all 6 reference regions appear, then random
        while k < n:
            c = gen_case(rng, cls, tref_region=REGIONS[k % 6] if k < 12 else None)
            if cls == 'inc' and k % 3 == 0 and c.get('T_ref') is not None:
                # read from non-dimensional YAML text instead of being constructed in Python; reference values of exactly zero included
                c['via_yaml'] = True
                if rng.random() < 0.35 and c.get('H') is not None:
                    c['H'] = 0.0
                if rng.random() < 0.35 and c.get('S') is not None:
                    c['S'] = 0.0
            inside, out = eval_points(rng, c)
            c['evalTs'] = inside + out
            c['n_inside'] = len(inside)
            pr = []
            for _ in range(4):
                pr.append([rng.choice(inside), rng.choice(inside)])
            c['pairs'] = pr
            c['oracle'] = True
            if k % 4 == 1 and len(c.get('Ts') or []) >= 2 and c.get('T_ref') is not None:
                # in the same process, first: the same table with ANOTHER reference temperature inside it
                other_T = [t for t in c['Ts'] if t != c['T_ref']]
                w = {kk: c[kk] for kk in ('cls', 'Ts', 'Cps', 'H', 'S', 'range') if kk in c}
                w['T_ref'] = rng.choice(other_T)
                if w.get('range'):
                    w['range'] = [min(w['range'][0], w['T_ref']), max(w['range'][1], w['T_ref'])]
                c['warm'] = [w]
            cases.append(c)
            k += 1
    for i in range(n_bad):
        c = bad_ctor_case(rng, 'raw' if i % 2 else 'inc')
        c['evalTs'] = []
        cases.append(c)
    # no-table incomplete correlations
    for _ in range(max(4, n_inc // 6)):
        c = {'op': 'corr', 'cls': 'inc', 'Ts': [], 'Cps': [], 'T_ref': rng.choice([298.15, 300.0]),
             'range': rng.choice([None, [100.0, 1500.0]]), 'H': rng.choice([None, 0.0, -3.25]),
             'S': rng.choice([None, 0.0, 11.5]), 'evalTs': [298.15, 300.0, 99.0, 1000.0, 2000.0], 'tref_region': 'none'}
        c['via_yaml'] = rng.random() < 0.5
        cases.append(c)
    # ... whose reference temperature sits ON a bound of the range, probed a hair outside it (the only out-of-range signal of such a
    # correlation is the warning, and it is due for every T other than T_ref)
    import math
    for Tr, rg in ((298.0, [298.0, 300.0]), (300.0, [298.0, 300.0]), (298.15, [298.15, 1000.0]), (500.0, [100.0, 500.0])):
        lo, hi = rg
        c = {'op': 'corr', 'cls': 'inc', 'Ts': [], 'Cps': [], 'T_ref': Tr, 'range': rg, 'H': rng.choice([0.0, -3.25, 12.5]), 'S': rng.choice([0.0, 11.5]),
             'evalTs': [Tr, math.nextafter(lo, -math.inf), math.nextafter(hi, math.inf), lo - 1e-7, hi + 1e-7, lo * (1 - 5e-10), hi * (1 + 5e-10), lo - 1e-3, hi + 1e-3],
             'tref_region': 'none'}
        cases.append(c)
    return cases


def shipped_cases(ctx, per_lib=None):
    infos = vlib.run_impl_sharded('thermo', [{'op': 'libinfo', 'lib': s} for s in thermogen.SHIPPED], timeout=900)
    cases = []
    for lib, info in zip(thermogen.SHIPPED, infos):
        if 'groups' not in info:
            ctx.broken.append('library %s did not load in the child: %s' % (lib, str(info)[:200]))
            continue
        gs = [g for g in info['groups'] if g['has']]
        if per_lib:
            gs = ctx.rng.sample(gs, min(per_lib, len(gs)))
        for g in gs:
            if g.get('range'):
                lo, hi = g['range']
            elif g['Ts']:
                lo, hi = min(g['Ts']), max(g['Ts'])
            else:
                lo, hi = 298.15, 298.15
            ev = sorted(set([lo, hi, g['T_ref']] + g['Ts'] + [round(ctx.rng.uniform(lo, hi), 2)]))
            ev = [T for T in ev if lo <= T <= hi]
            pr = [[ctx.rng.choice(ev), ctx.rng.choice(ev)] for _ in range(2)] if g['Ts'] else []
            cases.append({'op': 'corr', 'cls': 'lib', 'lib': lib, 'name': g['name'], 'evalTs': ev, 'pairs': pr})
    return cases


def run_jobs(jobs, timeout=1500):
    by = {}
    for i, j in enumerate(jobs):
        by.setdefault(j.get('lib', '_'), []).append(i)
    chunks = []
    for lib, idx in by.items():
        n = max(1, len(idx) // 40) if lib == '_' else max(1, len(idx) // 120)
        for k in range(n):
            chunks.append(idx[k::n])
    out = [None] * len(jobs)
    from concurrent.futures import ThreadPoolExecutor

    def one(idx):
        res, diag = vlib.run_impl('thermo', {'cases': [jobs[i] for i in idx]}, timeout=timeout)
        return idx, (res['results'] if res else [{'_child_failed': diag}] * len(idx))
    with ThreadPoolExecutor(vlib.NCPU) as ex:
        for idx, rs in ex.map(one, chunks):
            for i, r in zip(idx, rs):
                out[i] = r
    return out


ASSUME = [
    'models Thermo/RawData.v are hand-written; tie = correspondence over exact rationals on generated tables, run in this check',
    'SciPy InterpolatedUnivariateSpline / .integral / quad and numpy.log are oracles: their values are supplied to the model as finite tables '
    'evaluated on the same SciPy objects the implementation built; the theorems assume the spline contract (interpolation, integral)',
    'implementation floats injected exactly; compared at 1e-9 relative to a per-case scale',
    'theorems over the reals: standard-library real-number axioms as listed by Print Assumptions']


def run(ctx):
    ctx.assumptions += ASSUME
    cases = build_cases(ctx, ctx.n(60, 900), ctx.n(50, 700), ctx.n(12, 100))
    # supply-order twins
    twins = []
    for c in cases:
        if c.get('Ts') and len(c['Ts']) > 1 and 'bad' not in c:
            t = dict(c)
            idx = list(range(len(c['Ts'])))
            ctx.rng.shuffle(idx)
            t['Ts'] = [c['Ts'][i] for i in idx]
            t['Cps'] = [c['Cps'][i] for i in idx]
            t['oracle'] = False
            t['pairs'] = []
            twins.append((c, t))
    ship = shipped_cases(ctx, per_lib=ctx.n(40, None))
    jobs = cases + [t for _, t in twins] + ship
    results = run_jobs(jobs)
    rc = results[:len(cases)]
    rt = results[len(cases):len(cases) + len(twins)]
    rs = results[len(cases) + len(twins):]
    twin_of = {id(c): r for (c, _), r in zip(twins, rt)}
    hist = {}
    # correlations assembled by MERGING pieces (reference values from one source, table from another): the reference values are
    # returned at the reference temperature, and the object behaves like one constructed from the same data directly
    from props import c13
    import json as _json
    seqs = [c13.gen_seq(ctx) for _ in range(ctx.n(40, 400))]
    for job_, r_ in zip(seqs, vlib.run_impl_sharded('thermo', seqs, timeout=900)):
        prev_state = r_.get('init_state')
        for k_, st_ in enumerate(r_.get('steps', [])):
            sv = st_.get('self_vals') or {}
            if st_.get('exc') == 'ReadOnlyDataError' and prev_state is not None and st_.get('state') is not None and st_['state'] != prev_state:
                # a refused merge: table, reference values and range are as before (and the table is what the spline was fitted to)
                ctx.violate('merged-refused', 'a refused merge left the correlation changed (its table no longer is what it evaluates)',
                            dict(job_, step=k_), prev_state, st_['state'])
            if st_.get('state') is not None:
                prev_state = st_['state']
            if 'exc' in st_ or 'cur' not in sv:
                continue
            stt = st_['state']
            hist['merged'] = hist.get('merged', 0) + 1
            ctx.count(('merged', _json.dumps(job_['init'], sort_keys=True), k_))
            # ... and at every probed temperature like a correlation constructed afresh from the merged state
            bad_ = None
            for pn in ('h', 's', 'cp'):
                for T_, a_, b_ in zip(sv['T'], sv['cur'][pn], sv.get('fresh', {}).get(pn, [])):
                    if ('exc' in a_) != ('exc' in b_) or ('exc' not in a_ and a_.get('v') is not None and b_.get('v') is not None
                                                           and abs(a_['v'] - b_['v']) > 1e-9 * (1 + abs(b_['v']))):
                        bad_ = (pn, T_, a_, b_)
                        break
                if bad_:
                    break
            if bad_:
                ctx.violate('merged-fresh:%s' % bad_[0], 'after a merge %s at a temperature asked before the merge is not what a correlation constructed from the merged data gives' % bad_[0],
                            dict(job_, step=k_, T=bad_[1]), bad_[3], bad_[2])
            if stt['T_ref'] in sv['T'] and stt['tab']:
                i_ = sv['T'].index(stt['T_ref'])
                for pn, fld in (('h', 'H'), ('s', 'S')):
                    v_ = sv['cur'][pn][i_]
                    if stt[fld] is not None and 'exc' not in v_ and v_.get('v') is not None and abs(v_['v'] - stt[fld]['v']) > 1e-9 * (1 + abs(stt[fld]['v'])):
                        ctx.violate('merged-ref:%s' % fld, 'a correlation assembled by merging does not return its reference %s at the reference temperature' % fld,
                                    dict(job_, step=k_), stt[fld]['v'], v_)
                        break
    for c, r in zip(cases, rc):
        if '_child_failed' in r or 'job_exc' in r:
            ctx.broken.append('implementation child failed: %s' % str(r)[:300])
            continue
        hist[c['cls'] + ':' + c.get('bad', c.get('tref_region', ''))] = hist.get(c['cls'] + ':' + c.get('bad', c.get('tref_region', '')), 0) + 1
        ctx.count(case_key(c))
        if 'exc' in r and 'bad' not in c:
            ctx.violate(case_key(c) + '|ctor', 'a valid table/reference/range was rejected at construction with %s' % r['exc'],
                        c, 'correlation', r)
        oracle_c05(ctx, c, r, twin_of.get(id(c)))
        ctx.sample({k: c[k] for k in ('cls', 'Ts', 'Cps', 'T_ref', 'range', 'H', 'S')}, limit=4)
    for c, r in zip(ship, rs):
        if '_child_failed' in r or 'job_exc' in r:
            ctx.broken.append('implementation child failed: %s' % str(r)[:300])
            continue
        ctx.count('lib:%s|%s' % (c['lib'], c['name']))
        hist['shipped'] = hist.get('shipped', 0) + 1
        oracle_c05(ctx, c, r)
    bad = correspondence(ctx, cases, rc, ctx.tier)
    for i in bad:
        ctx.violate(case_key(cases[i]) + '|corr', 'model and implementation disagree on a correlation (construction or evaluation)',
                    cases[i], 'model (Thermo/RawData.v)', {k: v for k, v in rc[i].items() if k != 'oracle'})
    ctx.coverage.update({
        'rule': 'tables of 1..16 points (equal/geometric/random spacing, smooth or adversarial values, shuffled supply order) x reference '
                'temperature in 6 regions (below,=min,inside,knot,=max,above) x ranges (none/tight/wide) x evaluation at knots, range ends, '
                'region points, random points and outside points; raw and incomplete classes; invalid constructions; supply-order twins; '
                'groups of the shipped libraries. distinct by full case content; every generated case is non-trivial',
        'histogram': hist, 'correspondence_cases': len(cases), 'correspondence_mismatches': len(bad)})


def replay(ctx, rec):
    c = rec['case']
    if not isinstance(c, dict) or c.get('op') != 'corr':
        return True
    c = {k: v for k, v in c.items() if k not in ('T', 'T1', 'T2', 'prop')}
    c.setdefault('evalTs', [])
    r = run_jobs([c])[0]
    n0 = len(ctx.violations)
    oracle_c05(ctx, c, r)
    if c['cls'] != 'lib' and correspondence(ctx, [c], [r], 'replay'):
        return False
    return len(ctx.violations) == n0
