"""C08 - RING fragment matching returns exactly the embeddings it denotes."""
import itertools
import random
import vlib
import ringgen
import ringcorr
import molgen
from vlib import g_str, g_list

GEN = ['grammar', 'elements']
COQ_DEPS = ['Ring/PegCorr.vo', 'Ring/Peg_cert.vo', 'Gen/RingGrammar.vo', 'Gen/Elements.vo']


def small_molecules():
    """bounded-exhaustive small molecules: chains of up to 3 heavy atoms over C/O/N with every bond order, plus rings, radicals, charges,
    aromatics and metals (RDKit decides validity)"""
    out = ['C', 'O', 'N', '[H][H]', '[CH3]', '[CH2]', '[CH]', '[OH]', '[O]', '[NH4+]', '[OH-]', '[CH3+]', '[CH3-]', '[Pt]', 'C[Pt]', '[Pt]C[Pt]',
           'O=[Pt]', 'C1CC1', 'C1CO1', 'C1CCC1', 'C1CCCC1', 'C1CCCCC1', 'c1ccccc1', 'c1ccoc1', 'c1ccncc1', 'Cc1ccccc1', 'C1=CC1', 'C1CC2CC12',
           'C1CC11CC1', 'C/C=C\\C', 'C/C=C/C', 'CC=CC', 'C[Ru]', 'CS', 'CCl', '[CH2][CH2]', 'C[CH]C', '[CH2]C=C', 'C=C=C', 'OO', 'C#[O+]', '[C-]#[O+]',
           'C=[N+]=[N-]', 'c1ccc2ccccc2c1', 'C1=CC=CC=C1', 'OC(=O)C', 'CC(C)(C)C', 'C[N+](C)(C)C', '[O-][N+](=O)C']
    atoms = ['C', 'O', 'N']
    bonds = ['', '=', '#']
    for a in atoms:
        for b in atoms:
            for k in bonds:
                out.append(a + k + b)
                for c in atoms:
                    for k2 in bonds:
                        out.append(a + k + b + k2 + c)
    return list(dict.fromkeys(out))


def small_fragments():
    out = []
    syms = ['C', 'O', 'H', 'N', '$', 'X', '&', 'M', 'Pt', 'c', 'any atom']
    for pre, sy, su in itertools.product(ringgen.APREFIX[3:], syms, ['', '?', '+', '-', '.', ':', ':.', '+.', '-.', '*']):
        out.append('fragment f{%s%s%s labeled x}' % (pre, sy, su))
    for b in ringgen.BONDS[1:]:
        for s1, s2 in (('C', 'C'), ('C?', 'O?'), ('$?', '$?'), ('C', 'H'), ('X?', 'M?')):
            out.append('fragment f{%s labeled x %s labeled y %s bond to x}' % (s1, s2, b))
    for neg in ('', '! '):
        for cm in ringgen.CMP[1:]:
            for n in (0, 1, 2, 3):
                out.append('fragment f{C? labeled x {%sconnected to %s%d H}}' % (neg, cm, n))
                out.append('fragment f{C? labeled x {%sconnected to %s%d C? with any bond}}' % (neg, cm, n))
                out.append('fragment f{$? labeled x {%sin %s%d ring}}' % (neg, cm, n))
                out.append('fragment f{$? labeled x {%shas %s%d radical electrons}}' % (neg, cm, n))
            for n in (3, 5, 6):
                out.append('fragment f{X? labeled x {%sin ring of size %s%d}}' % (neg, cm, n))
        for b in ringgen.BONDS[1:]:
            out.append('fragment f{C? labeled x {%sconnected to >=1 $? with %s bond}}' % (neg, b))
    for mp in ringgen.MOLPREFIX[4:]:
        out.append('%sfragment f{C? labeled x}' % mp)
    out += ['fragment f{C labeled a C labeled b double bond to a C labeled c single bond to a C labeled d single bond to b '
            'stereo double bond c %s%s to d for double bond between a and b}' % (n, k) for n in ('', '! ') for k in ('cis', 'trans', 'notspecified')]
    out += ['fragment f{C labeled c1 {connected to >=1 C, connected to =2 H, connected to =1 O}}',
            'fragment f{C labeled c1 {connected to >=1 C, connected to =2 H, connected to =1 O, ! in ring of size 3}}',
            'fragment f{O labeled o C labeled c1 single bond to o {connected to >=1 C, connected to =2 H, connected to =1 O}}',
            'fragment f{C labeled c1 {connected to =2 H, connected to >=1 C, ! connected to >=1 O, connected to <3 C, connected to =0 N}}',
            'fragment f{C labeled a C labeled b ring bond to a}', 'fragment f{C labeled a C labeled b nonring bond to a}',
            'fragment f{C labeled a C labeled b nonring bond to a C labeled c ring bond to b}',
            'fragment f{c labeled a c labeled b nonring bond to a}', 'fragment f{c labeled a c labeled b ring bond to a}']
    out += ['fragment f{C labeled a C labeled b single bond to a C labeled c single bond to b ringbond a single bond to c}',
            'fragment f{c labeled a c labeled b aromatic bond to a c labeled c aromatic bond to b}',
            'fragment f{C labeled c1 {connected to 0 Pt with any bond} $? labeled a1 single bond to c1 $? labeled a2 single bond to c1 '
            '$? labeled a3 single bond to c1 $? labeled a4 single bond to c1}']
    return out


def run(ctx):
    ctx.assumptions += [
        'models Ring/Reader.v (text -> fragment) and Graph/Match.v (own embedding enumeration + the three constraint filters) are hand-written; '
        'tie = correspondence on (fragment, molecule) pairs, matches compared as sets of tuples',
        'the molecule graph (hydrogens added) is exported from RDKit with public calls: atomic number, charge, radical count, aromatic flag, '
        'bond type/stereo/stereo atoms, ring list; RDKit\'s own Atom/Bond match primitives are rendered by qatom_ok/qbond_ok (calibrated by the '
        'bounded-exhaustive part of this run)',
        'guard: fewer than 10000 raw embeddings (the implementation caps there)']
    rng = ctx.rng
    mols = small_molecules()
    frags = small_fragments()
    hist = {'small_fragments': len(frags), 'small_molecules': len(mols)}
    jobs = []
    # bounded-exhaustive part: every small fragment against a slice of the small molecules
    per = ctx.n(5, 25)
    multiring = ['c1ccccc1c1ccccc1', 'C1CC1C1CC1', 'C1CC1C1CCC1', 'C1CC1CC1CC1', 'C1CCC2CC2C1', 'C1CC2CCC12', 'C1CC12CCCC2', 'C1CC2CC1CC2', 'C1CCC2(CC1)CC2', 'c1ccc2CCCc2c1', 'C1CC2CCCC2C1', 'C1CC2C1C2', 'C1CCCC1', 'C1CCCCC1']
    charged = ['CC(=O)[O-]', '[OH-]', '[CH3-]', 'C[O-]', '[NH4+]', '[CH3+]', 'C[NH3+]', '[O-][N+](=O)C', 'C[N+](C)(C)C', 'CC',
               # charged AND radical
               'C[CH+]', 'C[C+]', 'C[NH2+]', 'C[O+]', 'C[CH-]', 'C[N-]', '[CH2+]', '[NH3+]', '[O-]']
    for t in frags:
        sm = rng.sample(mols, per)
        if 'ring' in t:
            sm += rng.sample(multiring, ctx.n(4, 10))     # atoms in several rings of different sizes; rings bonded to rings
        if t.count('connected to') >= 3:
            sm += ['OCCN', 'OCC', 'CCO', 'OCCO', 'CC(O)C', 'NCCO', 'OC1CC1']
        if t.startswith(('positive', 'negative', 'neutral')) or '+' in t or '- ' in t or '-.' in t:
            sm += charged
        jobs.append({'op': 'match', 'text': t, 'smiles': sm, 'graphs': True, 'timeout': 30})
    for mp, body in (('negative ', 'O- labeled a C labeled b single bond to a'), ('positive ', 'N+ labeled a'), ('neutral ', 'C labeled a'),
                     ('negative ', 'C? labeled a'), ('positive ', '$? labeled a')):
        jobs.append({'op': 'match', 'text': '%sfragment f{%s}' % (mp, body), 'smiles': charged, 'graphs': True, 'timeout': 30})
    # an atom written with a bare suffix carries no per-atom constraint of its own: declared FIRST, the atoms after it must still be checked
    chg2 = charged + ['[CH2][CH2+]', 'C[CH2+]', '[CH2]C', '[CH2][O-]', 'C1CC1[CH2+]', 'C1CC1[CH2-]', 'C[NH2+]C', '[CH2][NH3+]', 'CC[O-]', '[O-]C(C)C',
                      'C=[OH+]', '[CH2-]C=C', '[CH]([CH2+])C']
    for sfx in ('+', '-', '?', '*'):
        for body in ('C%s labeled a C labeled b single bond to a', 'O%s labeled a C labeled b single bond to a {connected to =2 H}',
                     'C%s labeled a C labeled b single bond to a {in ring of size 3}', 'C%s labeled a nonringatom C labeled b single bond to a',
                     'N%s labeled a C. labeled b single bond to a', 'C%s labeled a ringatom C labeled b single bond to a C labeled c single bond to b',
                     'C labeled b C%s labeled a single bond to b', 'O%s labeled a C labeled b single bond to a {connected to >1 C}'):
            jobs.append({'op': 'match', 'text': 'fragment f{%s}' % (body % sfx), 'smiles': chg2, 'graphs': True, 'timeout': 30})
    # neighbour counts where SOME neighbours of the requested element fail their own radical count / prefix, met in either bond order
    nb_mols = ['[CH2]CC', 'CC[CH2]', 'C[CH]C', 'CC1CC1', 'C1C(C)C1', '[CH2]C[CH2]', 'CC(C)[CH2]', '[CH2]C(C)C', 'C[CH]CC', 'CC[CH]C', 'CC1CCC1C', 'C1CC1CC1CC1',
               'C[CH]C1CC1', 'C1CC1[CH]C', '[CH2]C(=O)C', 'CC(=O)[CH2]', 'C=CC[CH2]', '[CH2]CC=C', 'c1ccccc1C[CH2]', '[CH2]Cc1ccccc1']
    for body in ('C labeled a {connected to =1 C}', 'C labeled a {connected to =2 C}', 'C labeled a {connected to >0 C.}', 'C labeled a {connected to =1 C.}',
                 'ringatom C labeled a {connected to =1 nonringatom C}', 'ringatom C labeled a {connected to =2 ringatom C}', 'C labeled a {connected to =1 ringatom C}',
                 'C labeled a {connected to =1 C, connected to =1 C.}', 'C labeled a {! connected to >1 C}', 'C labeled a {connected to =1 nonaromatic C}',
                 'C labeled a {connected to =1 aromatic C}', 'C. labeled a {connected to =1 C}', 'C labeled a {connected to <2 C with single bond}'):
        jobs.append({'op': 'match', 'text': 'fragment f{%s}' % body, 'smiles': nb_mols, 'graphs': True, 'timeout': 30})
    # random larger fragments / molecules
    pool = [molgen.rnd_gas(rng) for _ in range(60)] + [molgen.rnd_surface(rng, 'Pt') for _ in range(30)]
    nrand = ctx.n(250, 6000)
    variants = []
    for _ in range(nrand):
        seed = rng.getrandbits(40)
        t = ringgen.fragment(random.Random(seed), lrng=random.Random(seed + 1))
        sm = rng.sample(mols, 2) + rng.sample(pool, 3)
        jobs.append({'op': 'match', 'text': t, 'smiles': sm, 'graphs': True, 'timeout': 30})
        k0 = len(jobs) - 1
        if rng.random() < 0.4:
            t2 = ringgen.fragment(random.Random(seed), lrng=random.Random(seed + 7), labels=ringgen.LABELS2)
            variants.append((len(jobs) - 1, len(jobs)))
            jobs.append({'op': 'match', 'text': t2, 'smiles': sm, 'graphs': False, 'timeout': 30})
        if rng.random() < 0.85:
            t3 = ringgen.fragment(random.Random(seed), lrng=random.Random(seed + 11), labels=ringgen.LABELS3)
            variants.append((k0, len(jobs)))
            jobs.append({'op': 'match', 'text': t3, 'smiles': sm, 'graphs': False, 'timeout': 30})
    hist['random_fragments'] = nrand
    hist['layout_label_variants'] = len(variants)
    vset = set(x for ab in variants for x in ab)
    for k, j in enumerate(jobs):
        if k not in vset and k % 2 == 0:
            j['respell'] = rng.getrandbits(30)
    res = vlib.run_impl_sharded('ring', jobs, timeout=2400)
    rows = []
    nmatch = 0
    for j, r in zip(jobs, res):
        if '_child_failed' in r:
            ctx.broken.append('implementation child failed: ' + r['_child_failed'][:300])
            break
        if 'read_exc' in r:
            ctx.count(j['text'], nontrivial=False)
            continue
        j['smiles'] = r.get('smiles', j['smiles'])        # with the respelled molecules the child appended
        for smi, x in zip(j['smiles'], r.get('results', [])):
            if x.get('bad_smiles'):
                continue
            key = 'match:%s|%s' % (j['text'][:80], smi)
            ctx.count((j['text'], smi), nontrivial=bool(x.get('matches')))
            if 'exc' in x:
                ctx.violate('match-exc:' + x['exc'], 'GetQueryMatches raised %s' % x['exc'], {'op': 'match', 'text': j['text'], 'smiles': [smi]}, 'matches', x)
                continue
            nmatch += len(x['matches'])
            for m in x['matches']:
                if len(set(m)) != len(m):
                    ctx.violate(key + '|distinct', 'a match maps two fragment atoms to one molecule atom', {'op': 'match', 'text': j['text'], 'smiles': [smi]}, 'distinct atoms', m)
            if j['graphs'] and len(x['matches']) < 3000:
                rows.append((j['text'], smi, x['graph'], x['matches']))
    # layout / label independence (direct oracle)
    for a, b in variants:
        ra, rb = res[a], res[b]
        if ('read_exc' in ra) != ('read_exc' in rb):
            ctx.violate('variant-read:' + jobs[a]['text'][:60], 'layout or label names change whether the fragment can be read',
                        {'a': jobs[a]['text'], 'b': jobs[b]['text']}, ra.get('read_exc'), rb.get('read_exc'))
        elif 'results' in ra:
            for smi, x, y in zip(jobs[a]['smiles'], ra['results'], rb['results']):
                if x.get('matches') != y.get('matches'):
                    ctx.violate('variant:' + jobs[a]['text'][:60] + '|' + smi, 'layout, whitespace or label names change the matches',
                                {'a': jobs[a]['text'], 'b': jobs[b]['text'], 'smiles': smi}, x.get('matches'), y.get('matches'))
    hist['pairs_compared'] = len(rows)
    hist['matches_total'] = nmatch
    for t, smi, _, ms in rows[100:103]:
        ctx.sample({'fragment': t, 'molecule': smi, 'matches': ms[:4]})
    # correspondence
    shards = []
    step = 120
    for s in range(0, len(rows), step):
        R = rows[s:s + step]
        body = ';\n'.join('(%s, %s, %s)' % (g_str(t), ringcorr.graph_lit(g), ringcorr.matches_lit(ms)) for t, _, g, ms in R)
        shards.append(ringcorr.header([t for t, _, _, _ in R]) + 'Definition cases : list (str * mol * list (list nat)) := [\n%s\n].\n'
                      'Fixpoint mm (i : nat) (l : list (str * mol * list (list nat))) : list nat :=\n'
                      '  match l with [] => [] | (t, g, ms) :: r =>\n'
                      '    if match R t with OFrag f => same_matches (matches f g) ms | _ => false end then mm (S i) r else i :: mm (S i) r end.\n'
                      'Eval vm_compute in mm 0 cases.\n' % body)
    nbad = 0
    for k, idx in ringcorr.run_shards(ctx, 'c08_' + ctx.tier, shards, timeout=2400):
        for i in idx:
            nbad += 1
            t, smi, _, ms = rows[k * step + i]
            ctx.violate('corr:%s|%s' % (t[:70], smi), 'model (denotational matcher) and implementation disagree on the matches of a fragment in a molecule',
                        {'op': 'match', 'text': t, 'smiles': [smi]}, 'model matches', ms[:10])
    ctx.coverage.update({
        'rule': 'bounded-exhaustive: every one-atom fragment over 11 symbols x 10 suffixes x 6 prefixes, every bond kind on 5 atom pairs, every '
                'constraint form x comparison x negation x small numbers, every molecule prefix, stereo and ring-closure fragments, each against '
                '%d of %d small molecules (all chains of <=3 heavy atoms over C/O/N with all bond orders, rings, radicals, charges, aromatics, metals); '
                'random fragments of 1..8 atoms against small and generated larger molecules; layout/label variants. non-trivial = at least one match'
                % (per, len(mols)),
        'histogram': hist, 'correspondence_cases': len(rows), 'correspondence_mismatches': nbad})


def replay(ctx, rec):
    c = rec['case']
    if not isinstance(c, dict) or c.get('op') != 'match':
        return True
    r, _ = vlib.run_impl('ring', {'cases': [dict(c, graphs=True, timeout=30)]})
    r = r['results'][0]
    if 'results' not in r:
        return False
    x = r['results'][0]
    if 'matches' not in x:
        return False
    body = '(%s, %s, %s)' % (g_str(c['text']), ringcorr.graph_lit(x['graph']), ringcorr.matches_lit(x['matches']))
    txt = ringcorr.header([c['text']]) + 'Eval vm_compute in match %s with (t, g, ms) => match R t with OFrag f => if same_matches (matches f g) ms then [] else [0%%nat] | _ => [1%%nat] end end.\n' % body
    ok, out = vlib.run_cases_file('c08_replay', txt)
    val = vlib.coq_eval_value(out) if ok else None
    return val is not None and not vlib.parse_nat_list(val)
