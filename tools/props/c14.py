"""C14 - every shipped database loads, is self-consistent and relocatable."""
import os
import shutil
import vlib
import gen
from vlib import g_str, g_list

GEN = ['grammar', 'elements', 'schemes', 'uq']
COQ_DEPS = ['Graph/Scheme_proofs.vo', 'Lib/DataDir.vo', 'Lib/Psd_cert.vo']

HEADER = '''From Coq Require Import List NArith Bool.
From PG Require Import Common.Strs Lib.DataDir.
Import ListNotations.
Definition oeq (a b : option str) : bool := match a, b with None, None => true | Some x, Some y => str_eqb x y | _, _ => false end.
Fixpoint leq (a b : list (option str)) : bool := match a, b with [], [] => true | x :: a', y :: b' => oeq x y && leq a' b' | _, _ => false end.
Definition ok (c : list (option str) * str * list str * list (option str)) : bool :=
  let '(envs, bundled_, dirs, answers) := c in
  let ws := map (fun e => {| env := e; bundled := Some bundled_; isdir := fun p => existsb (str_eqb p) dirs |}) envs in
  leq (fst (calls ws None)) answers.
'''


def run(ctx):
    ctx.assumptions += [
        'finite theorems (regenerated scheme files read by the Coq reader): every pattern readable, remaps well-formed and chain-free; '
        'theorems on the data-directory cache and the name-or-path decision (Lib/DataDir.v); tie for the cache = correspondence of call histories',
        'the three-way load (by name, by explicit path, from a relocated copy selected by pgradd_DATA_DIR), the evaluation of every group and the '
        'uncertainty-block checks are exhaustive runs on the implementation (the file system and YAML layer are runtime)',
        'uncertainty matrices: regenerated from the data files as exact integer matrices (tools/gen.py uq; tie: entry-for-entry equality with the matrix '
        'the loaded library object holds); square, symmetric and positive semi-definite by the kernel-checked certificate of Lib/Psd.v '
        '(C14_uq_certificates, C14_uq_psd; the Cholesky-type factor is untrusted input); a numerical eigenvalue check (1e-9) still runs on the '
        'implementation and supplies the failing direction when the certificate no longer checks']
    reloc = os.path.join(vlib.WORK, 'c14_relocated_data')
    if os.path.exists(reloc):
        shutil.rmtree(reloc)
    shutil.copytree(os.path.join(vlib.REPO, 'pgradd', 'data'), reloc)
    hist = {'libraries': len(gen.SHIPPED), 'groups': 0, 'evaluations': 0, 'uq_blocks': 0}
    # three ways, each in a fresh process
    for lib in gen.SHIPPED:
        modes = [('name', {'op': 'load', 'spec': lib}, None),
                 ('path', {'op': 'load', 'spec': os.path.join(vlib.REPO, 'pgradd', 'data', lib, 'library.yaml')}, None),
                 ('relocated', {'op': 'load', 'spec': lib, 'env': reloc}, None),
                 # explicit paths relative to the working directory: with a directory part, and the bare file name
                 ('relpath', {'op': 'load', 'spec': os.path.join(lib, 'library.yaml'), 'cwd': os.path.join(vlib.REPO, 'pgradd', 'data')}, None),
                 ('barefile', {'op': 'load', 'spec': 'library.yaml', 'cwd': os.path.join(vlib.REPO, 'pgradd', 'data', lib)}, None)]
        # the library's own directory relocated ALONE (no sibling libraries next to it): every library is self-contained
        alone = os.path.join(vlib.WORK, 'c14_alone_' + lib)
        if os.path.exists(alone):
            shutil.rmtree(alone)
        shutil.copytree(os.path.join(vlib.REPO, 'pgradd', 'data', lib), os.path.join(alone, lib))
        modes += [('alone-override', {'op': 'load', 'spec': lib, 'env': alone}, None),
                  ('alone-path', {'op': 'load', 'spec': os.path.join(alone, lib, 'library.yaml')}, None)]
        # the data directory reached through a symbolic link (a 'current -> release-1' layout), as override and as explicit path
        link = os.path.join(vlib.WORK, 'c14_link')
        if os.path.islink(link) or os.path.exists(link):
            os.remove(link)
        os.symlink(reloc, link)
        modes += [('symlink-override', {'op': 'load', 'spec': lib, 'env': link}, None),
                  ('symlink-path', {'op': 'load', 'spec': os.path.join(link, lib, 'library.yaml')}, None)]
        # a relocated copy whose FILES are symbolic links into a flat store elsewhere (real directories, linked files)
        flk = os.path.join(vlib.WORK, 'c14_filelinks')
        store = os.path.join(vlib.WORK, 'c14_filestore')
        if lib == gen.SHIPPED[0]:
            for d_ in (flk, store):
                if os.path.exists(d_):
                    shutil.rmtree(d_)
            os.makedirs(store)
            k_ = 0
            for root_, _, files_ in os.walk(reloc):
                rel = os.path.relpath(root_, reloc)
                os.makedirs(os.path.join(flk, rel), exist_ok=True)
                for fn in files_:
                    tgt = os.path.join(store, 'f%05d_%s' % (k_, fn))
                    k_ += 1
                    shutil.copyfile(os.path.join(root_, fn), tgt)
                    os.symlink(tgt, os.path.join(flk, rel, fn))
        modes += [('filelinks-override', {'op': 'load', 'spec': lib, 'env': flk}, None),
                  ('filelinks-path', {'op': 'load', 'spec': os.path.join(flk, lib, 'library.yaml')}, None)]
        # the override given as a RELATIVE path (relative to the working directory of the process)
        modes += [('relative-override', {'op': 'load', 'spec': lib, 'env': os.path.basename(reloc), 'cwd': os.path.dirname(reloc)}, None)]
        # loaded a second time by name after the first object was merged into (overwriting) from another shipped library
        others = [o for o in gen.SHIPPED if o != lib]
        modes += [('name-after-update', {'op': 'load', 'spec': lib, 'after_update': others[(gen.SHIPPED.index(lib) * 5 + 3) % len(others)]}, None)]
        fps = []
        from concurrent.futures import ThreadPoolExecutor
        with ThreadPoolExecutor(len(modes)) as ex:
            outs = list(ex.map(lambda mj: vlib.run_impl('libs', {'cases': [mj[1]]}, timeout=600), modes))
        for (mode, job, _), (r, diag) in zip(modes, outs):
            x = r['results'][0] if r else {'exc': 'child', 'msg': diag}
            ctx.count((lib, mode))
            if 'fp' not in x:
                ctx.violate('load:%s:%s' % (lib, mode), 'library %s does not load %s: %s' % (lib, mode, x.get('exc')), {'lib': lib, 'mode': mode}, 'loads', x)
            else:
                fps.append((mode, x['fp'], x['n'], x['path']))
        if len(set(f[1] for f in fps)) > 1:
            ctx.violate('contents:%s' % lib, 'library %s has different contents depending on how it is located' % lib, {'lib': lib}, 'identical', fps)
        if len(fps) >= 3 and fps[2][0] == 'relocated' and not fps[2][3].startswith(reloc):
            ctx.violate('override:%s' % lib, 'the data-directory override was not honoured', {'lib': lib}, reloc, fps[2][3])
        ctx.sample({'lib': lib, 'fingerprints': [f[:3] for f in fps]}, limit=3)
    # audit
    import gen as _gen
    try:
        uqgen = _gen.GENERATORS['uq']()
    except Exception as e:
        uqgen = {}
        ctx.broken.append('translator uq failed: %r' % (e,))
    res = vlib.run_impl_sharded('libs', [{'op': 'audit', 'spec': lib} for lib in gen.SHIPPED], timeout=1800)
    for lib, r in zip(gen.SHIPPED, res):
        if 'n_eval' not in r:
            ctx.violate('audit:%s' % lib, 'library %s could not be audited: %s' % (lib, r.get('exc')), {'lib': lib}, 'audit', r)
            continue
        hist['groups'] += r['n_groups']
        hist['evaluations'] += r['n_eval']
        for b in r['bad_eval']:
            ctx.violate('eval:%s:%s:%s' % (lib, b[0], b[1]), 'group %s of %s: %s at T=%r: %s' % (b[0], lib, b[1], b[2], b[3]), {'lib': lib, 'group': b[0], 'T': b[2]},
                        'finite plain number', b[3])
        hist['entries_vs_yaml'] = hist.get('entries_vs_yaml', 0) + r.get('n_presence', 0)
        for d_ in r.get('presence_diff', []):
            ctx.violate('presence:%s:%s' % (lib, d_[0]), 'entry %s of %s: the data files give [H, S, Cp table] = %r, the loaded library has %r' % (d_[0], lib, d_[1], d_[2]),
                        {'lib': lib, 'group': d_[0]}, d_[1], d_[2])
        for u in r['unreadable']:
            ctx.violate('pattern:%s:%s' % (lib, u[0]), 'a pattern of scheme %s is unreadable (%s)' % (lib, u[1]), {'lib': lib, 'pattern': u[0]}, 'readable', u[1])
        if r['remap_chains'] or r['remap_bad']:
            ctx.violate('remaps:%s' % lib, 'remap rules of %s are chained or malformed' % lib, {'lib': lib}, 'chain-free', [r['remap_chains'], r['remap_bad']])
        uq = r.get('uq')
        if bool(uq) != (lib in uqgen):
            ctx.violate('uq-translation:%s' % lib, 'the translator and the loaded library disagree on whether %s has uncertainty data' % lib,
                        {'lib': lib}, lib in uqgen, bool(uq))
        if uq:
            hist['uq_blocks'] += 1
            probs = []
            # tie of Gen/UqMats.v: integer / 2^scale is, entry for entry, the double the library object holds
            from fractions import Fraction
            g = uqgen.get(lib)
            if g and uq.get('mat_hex') is not None:
                same = len(g['M']) == len(uq['mat_hex']) and all(
                    len(a) == len(b) and all(Fraction(x, 2 ** g['s']) == Fraction(float.fromhex(y)) for x, y in zip(a, b))
                    for a, b in zip(g['M'], uq['mat_hex']))
                hist['uq_entries_tied'] = hist.get('uq_entries_tied', 0) + sum(len(a) for a in g['M'])
                if not same:
                    ctx.violate('uq-translation:%s' % lib, 'the regenerated integer matrix of %s is not the matrix the library object holds' % lib,
                                {'lib': lib}, 'identical entries', 'differs')
            if uq['shape'] != [uq['n'], uq['n']]:
                probs.append('matrix %r not sized to the basis of %d' % (uq['shape'], uq['n']))
            if not uq['symmetric']:
                probs.append('matrix not symmetric')
            if uq['min_eig'] is not None and uq['min_eig'] < -1e-9:
                probs.append('matrix not positive semi-definite (min eigenvalue %g)' % uq['min_eig'])
            if uq['missing']:
                probs.append('basis descriptors without data: %r' % uq['missing'][:5])
            if uq['dup_basis']:
                probs.append('duplicate basis descriptor')
            if probs:
                ctx.violate('uq:%s' % lib, 'uncertainty block of %s: %s' % (lib, '; '.join(probs)), {'lib': lib}, 'square symmetric PSD sized to basis with data', uq)
    # data-dir cache histories vs the model
    bundled = os.path.join(vlib.REPO, 'pgradd', 'data')
    pool = [None, reloc, '/nonexistent/dir', bundled, '']
    rows = []
    for _ in range(ctx.n(12, 80)):
        envs = [ctx.rng.choice(pool) for _ in range(ctx.rng.randint(1, 5))]
        r, diag = vlib.run_impl('libs', {'cases': [{'op': 'datadir', 'envs': envs}]}, timeout=120)
        if not r:
            ctx.broken.append('datadir child failed: ' + diag[:200])
            continue
        ans = r['results'][0]['answers']
        ctx.count(('datadir', tuple(envs)))
        rows.append((envs, ans))
        first = next((a for a in ans if isinstance(a, str)), None)
        if first is not None and any(isinstance(a, str) and a != first for a in ans):
            ctx.violate('datadir-cache:%r' % (envs,), 'the data directory changed after it had been determined', {'envs': envs}, first, ans)
    def ol(x):
        return 'None' if not isinstance(x, str) or x == '' else '(Some %s)' % g_str(x)
    body = ';\n'.join('(%s, %s, %s, %s)' % (g_list([ol(e) for e in envs]), g_str(bundled), g_list([g_str(reloc), g_str(bundled)]),
                                           g_list([ol(a) for a in ans])) for envs, ans in rows)
    ok, out = vlib.run_cases_file('c14_datadir', HEADER + 'Definition cases : list (list (option str) * str * list str * list (option str)) := [\n%s\n].\nFixpoint mm (i : nat) (l : list (list (option str) * str * list str * list (option str))) : list nat :=\n'
                                  '  match l with [] => [] | c :: r => if ok c then mm (S i) r else i :: mm (S i) r end.\nEval vm_compute in mm 0 cases.\n' % body)
    val = vlib.coq_eval_value(out) if ok else None
    nbad = 0
    if val is None:
        ctx.broken.append('correspondence C14(datadir) did not evaluate: %s' % out[-300:])
    else:
        for i in vlib.parse_nat_list(val):
            nbad += 1
            ctx.violate('corr-datadir:%r' % (rows[i][0],), 'model of the data-directory cache and implementation disagree on a call history',
                        {'envs': rows[i][0]}, 'model', rows[i][1])
    shutil.rmtree(reloc, ignore_errors=True)
    ctx.coverage.update({
        'rule': 'all nine bundled libraries x three ways of locating them (fresh process each) x every group evaluated at range ends, midpoint, T_ref and '
                'every tabulated temperature x every pattern, remap and uncertainty entry; plus histories of data-directory look-ups under changing environments',
        'histogram': hist, 'exhaustive': True, 'correspondence_cases': len(rows), 'correspondence_mismatches': nbad})


def replay(ctx, rec):
    run(ctx)
    return not any(v['key'] == rec['key'] for v in ctx.violations)
