"""C18 - a correlation written to YAML reads back as the same correlation."""
import math
import vlib
import thermogen
from props import c05
from vlib import g_list

COQ_DEPS = ['Thermo/YamlRound.vo']
UNIT_CHOICES = [
    None, {},
    {'molar enthalpy': 'kcal/mol', 'molar entropy': 'cal/(mol K)', 'molar heat capacity': 'cal/(mol K)', 'temperature': 'K'},
    {'molar enthalpy': 'kJ/mol', 'molar entropy': 'J/(mol K)', 'molar heat capacity': 'J/(mol K)'},
    {'molar enthalpy': 'J/mol', 'molar entropy': 'J/(mol K)', 'molar heat capacity': 'cal/(mol K)', 'temperature': 'mK'},
    {'temperature': 'kK'},
    {'molar enthalpy': 'kcal/mol'},
    {'molar entropy': 'cal/(mol*K)', 'molar heat capacity': 'kJ/(mol K)', 'temperature': 'K'},
    # magnitudes far below 1e-4 and far above 1e6 in the written units (the writer must not fall into exponent notation or lose digits)
    {'molar enthalpy': 'GJ/mol', 'molar entropy': 'MJ/(mol K)', 'molar heat capacity': 'GJ/(mol K)', 'temperature': 'GK'},
    {'molar enthalpy': 'mJ/mol', 'molar entropy': 'uJ/(mol K)', 'molar heat capacity': 'nJ/(mol K)', 'temperature': 'uK'},
]


def q(x):
    return vlib.g_Qf(x)


def r6(x):
    return float('%g' % x)


def close6(a, b, n=1):
    """within n roundings to six significant digits"""
    return abs(a - b) <= n * 5.5e-6 * max(abs(a), abs(b)) + 1e-300


def gen_corr(rng):
    n = rng.choice([0, 0, 1, 2, 3, 5, 9, 15])
    # (999.9996 K is 999999.6 mK: '%g' rounds it to 1e+06, just across the writer's switch to positional notation)
    pool = [100.0, 150.0, 200.0, 298.15, 300.0, 400.0, 500.0, 600.0, 700.0, 800.0, 900.0, 999.9996, 1000.0, 1100.0, 1234.5678, 1300.0, 1400.0, 1500.0]
    Ts = sorted(rng.sample(pool, n))
    if 999.9996 in Ts and 1000.0 in Ts:
        Ts.remove(1000.0)            # (two temperatures that are the same number to six digits are one table row when written)
    # (values whose repr is exponent notation WITHOUT a decimal point - 1e-05, 2e-07 - come back from YAML as strings)
    Cps = [rng.choice([0.0, round(rng.uniform(-3, 12), 6), 1.23456789012, 1e-05, 3e-07]) for _ in Ts]
    j = {'op': 'yaml_roundtrip', 'T_ref': rng.choice([298.15, 298.0, 300.0, 273.15]),
         'H': rng.choice([None, 0.0, -0.0, round(rng.uniform(-60, 40), 7), -12.345678901234, 1e-05, -4e-06, 1e+16]),
         'S': rng.choice([None, 0.0, round(rng.uniform(-5, 40), 7), 2e-07, -1e-05]),
         'Ts': Ts, 'Cps': Cps, 'range': None}
    if rng.random() < 0.08:
        # a reference enthalpy of 999999.7 J/mol (or its negative): six digits round it to 1e+06
        j['H'] = rng.choice([1, -1]) * 999999.7 / (8.314472 * j['T_ref'])
    if Ts and min(Ts) <= j['T_ref'] <= max(Ts) and rng.random() < 0.35:
        j['range'] = None          # no declared range: T_ref lies inside the tabulated span
    elif Ts:
        j['range'] = rng.choice([[50.0, 3000.0], [min(Ts + [j['T_ref']]), max(Ts + [j['T_ref']])], [99.5, 1666.66], [99.99996, 1999.9996], [0.0, 1500.0], [0.0, 3000.0]])  # (a bound of exactly 0 K is a bound: batch 12)
    elif rng.random() < 0.5:
        j['range'] = rng.choice([[100.0, 1500.0], [250.0, 1000.5], [0.0, 1500.0]])
    if rng.random() < 0.5:
        j['mutate'] = rng.choice(['del_H', 'del_S', 'del_Cp', 'set_range'])
    k = rng.random()
    if k < 0.25:
        j['np_scalars'] = True
    elif k < 0.45:
        j['via_update'] = True
    return j


def check_variant(ctx, key, job, before, v):
    units = v['units'] or {}
    if 'format_exc' in v:
        ctx.violate('format-raises:%s' % v['format_exc'], 'yaml_format raised %s' % v['format_exc'], dict(job, units=units), 'text', v)
        return
    if 'after' not in v:
        kind = 'np.float64-repr' if 'np.float64' in v.get('text', '') else v.get('load_exc')
        ctx.violate('reload-fails:%s' % kind, 'the text written by yaml_format could not be loaded back (%s)' % v.get('load_exc'),
                    dict(job, units=units, text=v.get('text')), 'loads', v.get('msg'))
        return
    a = v['after']
    bad = []
    if not close6(a['T_ref'], before['T_ref']):
        bad.append('T_ref')
    if (before['range'] is None) != (a['range'] is None) or (a['range'] and not all(close6(x, y) for x, y in zip(a['range'], before['range']))):
        bad.append('range')
    for nm, ukey in (('H', 'molar enthalpy'), ('S', 'molar entropy')):
        x, y = before[nm], a[nm]
        if (x is None) != (y is None):
            bad.append('%s presence (zero or missing part)' % nm)
        elif x is not None:
            if y['v'] is None:
                bad.append(nm + ' not a number')
            elif units.get(ukey):
                if not close6(x['v'], y['v'], 3):
                    bad.append(nm + ' beyond six digits')
            elif x['v'] != y['v'] and not (nm == 'H' and False):
                bad.append(nm + ' not exact in non-dimensional form')
    if len(a['tab']) != len(before['tab']):
        bad.append('table size')
    else:
        for (T0, c0), (T1, c1) in zip(sorted(before['tab']), sorted(a['tab'])):
            if not close6(T0, T1):
                bad.append('table temperature %r' % T0)
            if units.get('molar heat capacity'):
                if c1['v'] is None or not close6(c0['v'], c1['v'], 2):
                    bad.append('Cp(%r) beyond six digits' % T0)
            elif c1['v'] != c0['v']:
                bad.append('Cp(%r) not exact in non-dimensional form' % T0)
    if bad:
        ctx.violate(key + '|' + str(sorted(units.items())), 'round trip through YAML changed the correlation: ' + ', '.join(bad[:4]),
                    dict(job, units=units, text=v.get('text')), before, a)


def run(ctx):
    ctx.assumptions += [
        'value-level model Thermo/YamlRound.v: 6-significant-digit rounding and presence; the text layer (formatter output accepted by '
        'PyYAML + schema loader under the installed NumPy) is executed by this check, not modelled',
        "CPython: repr(float) round-trips exactly; '%g' is correct rounding to six significant digits",
        'H in the dimensional form passes through two roundings (H and T_ref) and a division: bound 3 x 5.5e-6']
    rng = ctx.rng
    jobs = []
    for _ in range(ctx.n(150, 4000)):
        j = gen_corr(rng)
        j['units'] = [None] + rng.sample(UNIT_CHOICES[1:], ctx.n(2, 5))
        if rng.random() < 0.3:
            j['units'].append(rng.choice(UNIT_CHOICES[-2:]))
        jobs.append(j)
    infos = vlib.run_impl_sharded('thermo', [{'op': 'libinfo', 'lib': s} for s in thermogen.SHIPPED], timeout=900)
    for lib, info in zip(thermogen.SHIPPED, infos):
        gs = [g for g in info.get('groups', []) if g['has']]
        if not ctx.thorough():
            gs = rng.sample(gs, min(12, len(gs)))
        for g in gs:
            jobs.append({'op': 'yaml_roundtrip', 'lib': lib, 'name': g['name'], 'units': [None, UNIT_CHOICES[2], rng.choice(UNIT_CHOICES[3:])]})
    res = c05.run_jobs(jobs)
    hist = {'synthetic': 0, 'shipped': 0, 'variants': 0, 'zero_or_missing_parts': 0}
    r6rows = []
    for j, r in zip(jobs, res):
        if 'before' not in r:
            if 'ctor_exc' in r:
                continue
            ctx.broken.append('implementation child failed: %s' % str(r)[:300])
            continue
        key = 'rt:%s' % (j.get('lib') and '%s|%s' % (j['lib'], j['name']) or repr((j['T_ref'], j['H'], j['S'], j['Ts'], j['Cps'], j['range'])))
        ctx.count(key)
        hist['shipped' if j.get('lib') else 'synthetic'] += 1
        b = r['before']
        if b['H'] is None or b['S'] is None or (b['H'] and b['H']['v'] == 0) or (b['S'] and b['S']['v'] == 0) or not b['tab'] \
                or any(c['v'] == 0 for _, c in b['tab']):
            hist['zero_or_missing_parts'] += 1
        if not r['unchanged']:
            ctx.violate(key + '|mutated', 'yaml_format modified the correlation', j, 'unchanged', None)
        mu = r.get('mutated')
        if mu and 'state' in mu:
            hist['reformatted_after_change'] = hist.get('reformatted_after_change', 0) + 1
            if 'after' not in mu:
                if mu.get('exc') not in ('IncompleteDataError',):
                    ctx.violate(key + '|reformat-exc:%s' % mu.get('exc'), 'formatting / loading after %s raised %s' % (mu['how'], mu.get('exc')), dict(j), 'text', mu)
            else:
                check_variant(ctx, key + '|after-' + mu['how'], j, mu['state'], {'units': r['variants'][0]['units'], 'after': mu['after'], 'text': mu.get('text')})
        for v in r['variants']:
            hist['variants'] += 1
            check_variant(ctx, key, j, b, v)
            if 'after' in v and len(r6rows) < ctx.n(300, 3000):
                for (T0, _), (T1, _) in zip(sorted(b['tab']), sorted(v['after']['tab'])):
                    if T0 > 0 and T1 > 0 and not (v['units'] or {}).get('temperature', 'K') != 'K':
                        r6rows.append((T0, T1))
        ctx.sample({'correlation': {k: j.get(k) for k in ('T_ref', 'H', 'S', 'Ts', 'Cps', 'range', 'lib', 'name')},
                    'text': r['variants'][0].get('text', '')[:200]}, limit=3)
    # correspondence of the rounding model: the temperature read back is the 6-digit rounding of the one written
    hdr = '''From Coq Require Import List NArith ZArith QArith Qabs Qround Bool.
Import ListNotations.
(* reference rounding to 6 significant digits (search for the decimal shift) *)
Fixpoint shift (fuel : nat) (x : Q) (k : Z) : Z :=
  match fuel with O => k | S f =>
    if Qle_bool (1000000 # 1) (x * Qpower 10 k) then shift f x (k - 1)
    else if Qle_bool (100000 # 1) (x * Qpower 10 k) then k else shift f x (k + 1) end.
Definition round6 (x : Q) : Q :=
  let k := shift 60 x 0 in inject_Z (Qfloor (x * Qpower 10 k + (1 # 2))) / Qpower 10 k.
Definition ok (c : Q * Q) : bool := Qeq_bool (round6 (fst c)) (snd c).
Fixpoint mm (i : nat) (l : list (Q * Q)) : list nat :=
  match l with [] => [] | c :: r => if ok c then mm (S i) r else i :: mm (S i) r end.
'''
    texts = []
    step = 300
    r6rows = list(dict.fromkeys(r6rows))
    for s in range(0, len(r6rows), step):
        texts.append(hdr + 'Definition cases := %s.\nEval vm_compute in mm 0 cases.\n'
                     % g_list(['(%s, %s)' % (q(a), q(b)) for a, b in r6rows[s:s + step]]))
    nbad = 0
    for k, (ok, out) in enumerate(vlib.run_cases_sharded('c18_' + ctx.tier, texts)):
        val = vlib.coq_eval_value(out) if ok else None
        if val is None:
            ctx.broken.append('correspondence C18 shard %d did not evaluate: %s' % (k, out[-300:]))
            continue
        for i in vlib.parse_nat_list(val):
            nbad += 1
            ctx.violate('corr-round6:%r' % (r6rows[k * step + i],), 'a temperature read back is not the 6-significant-digit rounding of the one written',
                        {'written_from': r6rows[k * step + i][0]}, 'round6', r6rows[k * step + i][1])
    ctx.coverage.update({
        'rule': 'random correlations (tables of 0..15 points incl. zero values and a 13-digit value, reference values present/absent/zero/negative/-0.0, '
                'ranges present/absent) x unit choices (default, {}, kcal|kJ|J per mol with matching or mixed entropy units, K / mK / kK, partial '
                'unit maps); groups of the shipped libraries (12 per library in quick, all in thorough). distinct by correlation content',
        'histogram': hist, 'correspondence_cases': len(r6rows), 'correspondence_mismatches': nbad})


def replay(ctx, rec):
    c = rec['case']
    if not isinstance(c, dict) or c.get('op') != 'yaml_roundtrip':
        return True
    job = {k: v for k, v in c.items() if k not in ('text',)}
    job['units'] = [c.get('units') or None]
    r = c05.run_jobs([job])[0]
    n0 = len(ctx.violations)
    if 'before' in r:
        for v in r['variants']:
            check_variant(ctx, 'replay', job, r['before'], v)
    return len(ctx.violations) == n0
