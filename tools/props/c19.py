"""C19 - group identity is the centre plus the multiset of peripherals."""
import itertools
import vlib
from vlib import g_str, g_list

COQ_DEPS = ['Group/GroupName.vo']

NAMES = ['C', 'H', 'O', 'C[d]', 'C[.]', 'CO', 'Pt']
EXTRA = ['N[A]', 'Cb', 'C2H', 'a b', '[Ru]', 'ét', '1a', 'H2', '-', 'C[t]', 'x9y', 'Co', 'co', 'PT', 'h', 'c']
# names that differ only in letter case are different names: all orders of multisets with repeated names and their case variants
CASEMS = [('CO', 'CO', 'Co'), ('CO', 'CO', 'Co', 'co'), ('PT', 'Pt', 'Pt'), ('H', 'H', 'h'), ('C', 'C', 'c', 'c'), ('CO', 'Co', 'Co', 'H'),
          ('C[d]', 'C[D]', 'C[d]'), ('c', 'C', 'CO', 'co')]
CENTRES = ['C', 'O', 'C[d]', 'CO', 'Pt', '', 'N[A]', 'C1']
MALFORMED = ['C(2)', 'C()3', '(3)', 'C((H))', 'C(H)(2)', 'C(H', 'C)H(', '', '()', ')(',
             'C(H)2(3)', 'C(H)23', 'C(H)0', 'C(H)1', 'C(H)01', 'C(H)(H)', 'C(H)2(H)',
             '7', 'C(12)(H)', 'C(H)2)3', 'C(H)(O)0(C)2', '((', 'C(H))2', '3(H)',
             'C( )2', 'C(H)2 ', 'C(H) 2', 'C(H)+2']


def spell(c, runs):
    return c + ''.join('(%s)%s' % (n, '' if k is None else str(k)) for n, k in runs)


def spellings_of(order, rng, limit):
    """run-length spellings of one ordering: every maximal block of equal
    adjacent names is cut into runs; a run of length 1 is written bare or with
    an explicit 1, a longer one needs its count."""
    blocks = [(n, len(list(g))) for n, g in itertools.groupby(order)]

    def comps(k):
        if k == 0:
            yield []
            return
        for first in range(1, k + 1):
            for rest in comps(k - first):
                yield [first] + rest
    per_block = []
    for n, k in blocks:
        opts = []
        for comp in comps(k):
            choices = [[(n, None), (n, 1)] if c == 1 else [(n, c)] for c in comp]
            for pick in itertools.product(*choices):
                opts.append(list(pick))
        per_block.append(opts)
    total = 1
    for o in per_block:
        total *= len(o)
    if total <= limit:
        for combo in itertools.product(*per_block):
            yield [r for blk in combo for r in blk]
    else:
        for _ in range(limit):
            yield [r for o in per_block for r in rng.choice(o)]


def classes(ctx):
    """(centre, multiset) classes with their member spellings."""
    rng = ctx.rng
    maxk = ctx.n(3, 4)
    out = []
    for c in CENTRES[:ctx.n(3, 4)]:
        for k in range(0, maxk + 1):
            for ms in itertools.combinations_with_replacement(NAMES, k):
                out.append((c, ms, True))
    for ms in CASEMS:
        out.append((rng.choice(CENTRES[:4]), tuple(sorted(ms)), True))
    for _ in range(ctx.n(60, 600)):
        k = rng.randint(1, 9)
        ms = tuple(sorted(rng.choice(NAMES + EXTRA) for _ in range(k)))
        out.append((rng.choice(CENTRES), ms, False))
    return out


def members_of(c, ms, exhaustive, ctx):
    rng = ctx.rng
    if exhaustive and len(ms) <= 5:
        orders = sorted(set(itertools.permutations(ms)))
    else:
        orders = []
        for _ in range(6):
            o = list(ms)
            rng.shuffle(o)
            orders.append(tuple(o))
    mem = []
    for o in orders:
        mem.append({'op': 'ctor', 'c': c, 'ps': list(o)})
    lim = (ctx.n(64, 24)) if exhaustive else 4
    for o in orders[:ctx.n(12, 24)]:
        for runs in spellings_of(o, rng, lim):
            mem.append({'op': 'parse', 'text': spell(c, runs), 'runs': runs})
    if ms and rng.random() < 0.3:   # explicit zero count of some other name
        mem.append({'op': 'parse',
                    'text': spell(c, [(n, None) for n in ms] + [('Zz', 0)])})
    return mem


def coq_case(spec, res):
    if spec['op'] == 'ctor':
        lhs = '(Ok (canon %s %s))' % (g_str(spec['c']),
                                     g_list([g_str(p) for p in spec['ps']]))
    else:
        lhs = '(parse_name %s)' % g_str(spec['text'])
    if 'ok' in res:
        rhs = '(Ok %s)' % g_str(res['ok'])
    elif res.get('exc') == 'GroupSyntaxError':
        rhs = '(Raise GroupSyntax)'
    else:
        rhs = '(Raise InternalErr)'
    return '(%s, %s)' % (lhs, rhs)


HEADER = '''From Coq Require Import List NArith Bool.
From PG Require Import Common.Strs Group.GroupName.
Import ListNotations.
Definition oeq (a b : outcome str) : bool :=
  match a, b with
  | Ok x, Ok y => str_eqb x y
  | Raise GroupSyntax, Raise GroupSyntax => true
  | Raise InternalErr, Raise InternalErr => true
  | _, _ => false end.
Fixpoint mism (i : nat) (l : list (outcome str * outcome str)) : list nat :=
  match l with [] => [] | (a, b) :: r => if oeq a b then mism (S i) r else i :: mism (S i) r end.
'''


def correspondence(ctx, specs, results, tag):
    """model vs implementation on outcome cases; returns mismatch indices"""
    shards = []
    step = 1500
    for s in range(0, len(specs), step):
        body = ';\n'.join(coq_case(sp, rs) for sp, rs in
                          zip(specs[s:s + step], results[s:s + step]))
        shards.append(HEADER + 'Definition cases : list (outcome str * outcome str) := [\n%s\n].\n'
                      'Eval vm_compute in mism 0 cases.\n' % body)
    outs = vlib.run_cases_sharded('c19_%s' % tag, shards)
    bad = []
    for k, (ok, out) in enumerate(outs):
        val = vlib.coq_eval_value(out) if ok else None
        if val is None:
            ctx.broken.append('correspondence C19 shard %d did not evaluate: %s'
                              % (k, out[-400:]))
            continue
        bad += [k * step + i for i in vlib.parse_nat_list(val)]
    return bad


def ascii_guard(spec):
    """the model's isdigit is the ASCII test: inputs on which CPython's
    str.isdigit differs are outside the model (none is generated; kept as a
    safety net for replayed cases)"""
    txt = spec['text'] if 'text' in spec else spec['c'] + ''.join(spec['ps'])
    return all((not ch.isdigit()) or ch in '0123456789' for ch in txt)


def run(ctx):
    ctx.assumptions += [
        'model Group/GroupName.v is hand-written; tie = correspondence on generated cases (names, exception classes) run in this check',
        'str.isdigit is modelled for ASCII digits only; other Unicode digits are outside the guard',
        'CPython: sorted() on str is code-point order; dict/hash behave as the language defines']
    cls = classes(ctx)
    class_cases = []
    specs = []
    for c, ms, ex in cls:
        mem = members_of(c, ms, ex, ctx)
        class_cases.append({'kind': 'class', 'members': mem, 'c': c, 'ms': list(ms)})
        specs += mem
    for t in MALFORMED:
        specs.append({'op': 'parse', 'text': t})
        for c in CENTRES[:3]:
            specs.append({'op': 'parse', 'text': c + t})
    rng = ctx.rng
    alphabet = list('CH()()()0123 [d].') + ['é']
    for _ in range(ctx.n(300, 5000)):
        specs.append({'op': 'parse', 'text': ''.join(
            rng.choice(alphabet) for _ in range(rng.randint(0, 12)))})
    specs = [s for s in specs if ascii_guard(s)]
    # --- implementation
    oc = vlib.run_impl_sharded('c19', [{'kind': 'outcome', 'spec': s} for s in specs])
    cr = vlib.run_impl_sharded('c19', class_cases)
    # cross-class pairs: neighbours in the list differ in centre or multiset
    pairs = []
    for i in range(len(cls) - 1):
        a, b = cls[i], cls[i + 1]
        if (a[0], a[1]) != (b[0], b[1]):
            pairs.append({'kind': 'cross', 'a': class_cases[i]['members'][0],
                          'b': class_cases[i + 1]['members'][-1],
                          'ida': [a[0], list(a[1])], 'idb': [b[0], list(b[1])]})
    xr = vlib.run_impl_sharded('c19', pairs)
    # --- direct oracle on the implementation
    hist = {'ctor': 0, 'parse': 0, 'malformed_or_random': 0}
    for s, r in zip(specs, oc):
        hist[s['op']] += 1
        ctx.count(('o', s['op'], s.get('text'), s.get('c'), tuple(s.get('ps', []))),
                  nontrivial=bool(s.get('ps')) or '(' in s.get('text', ''))
        if '_child_failed' in r:
            ctx.broken.append('implementation child failed: ' + r['_child_failed'])
            continue
        if 'exc' in r and r['exc'] != 'GroupSyntaxError':
            ctx.violate('internal-exception:' + r['exc'],
                        'Group construction/parsing escaped with %s' % r['exc'],
                        s, 'a group or GroupSyntaxError', r)
    for cc, r in zip(class_cases, cr):
        key = 'class:%s|%s' % (cc['c'], ','.join(cc['ms']))
        if 'exc' in r or '_child_failed' in r:
            ctx.violate(key, 'well-formed spellings of one group raised', cc['ms'],
                        'one group', r)
            continue
        ok = (len(set(r['names'])) == 1 and all(r['eq']) and all(r['hash'])
              and all(r['dict']) and r['dict_str'] and all(r['lib'])
              and r['lib_str'] and r['str_eq'] and r['reparse']
              and r['csg'] == cc['c'] and r['psgs'] == sorted(cc['ms']))
        if not ok:
            bad = [m for m, n in zip(cc['members'], r['names']) if n != r['names'][0]]
            ctx.violate(key, 'spellings of one centre+multiset are not one group '
                        '(==, hash, dict, library lookup, str interop or reparse)',
                        {'centre': cc['c'], 'multiset': cc['ms'],
                         'differing_members': bad[:3]}, 'all identical',
                        {k: v for k, v in r.items() if k != 'names'})
        ctx.sample({'centre': cc['c'], 'multiset': cc['ms'],
                    'spellings': len(cc['members']), 'name': r['names'][0]})
    for p, r in zip(pairs, xr):
        if r.get('exc') or r.get('eq') or r.get('dict') or r.get('streq'):
            ctx.violate('cross:%s' % (p['ida'],),
                        'groups with different centre/multiset compare equal',
                        {'a': p['a'], 'b': p['b']}, 'unequal', r)
    # --- correspondence with the model
    bad = correspondence(ctx, specs, oc, ctx.tier)
    for i in bad:
        ctx.violate('corr:%s' % (specs[i].get('text', specs[i].get('c')),),
                    'model (proved equal to the multiset semantics) and implementation disagree',
                    specs[i], 'model outcome (see Group/GroupName.v)', oc[i])
    ctx.coverage.update({
        'rule': 'classes = (centre, multiset) exhaustive up to size %d over %d names x %d centres, all orderings, '
                'all run-length spellings (<=64 per ordering) + random larger ones; malformed/random texts; '
                'non-trivial = has peripherals or parentheses; distinct by spelling'
                % (ctx.n(3, 4), len(NAMES), ctx.n(3, 4)),
        'histogram': dict(hist, classes=len(cls), cross_pairs=len(pairs)),
        'exhaustive': False,
        'correspondence_cases': len(specs), 'correspondence_mismatches': len(bad)})


def replay(ctx, rec):
    case = rec['case']
    if isinstance(case, dict) and case.get('op'):
        res, _ = vlib.run_impl('c19', {'cases': [{'kind': 'outcome', 'spec': case}]})
        r = res['results'][0]
        if 'exc' in r and r['exc'] != 'GroupSyntaxError':
            return False
        return not correspondence(ctx, [case], [r], 'replay')
    # class / cross findings are re-run through the whole check
    run(ctx)
    return not any(v['key'] == rec['key'] for v in ctx.violations)
