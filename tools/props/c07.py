"""C07 - dimensional results are the non-dimensional ones times R (and T)."""
import os
from fractions import Fraction
import vlib
import thermogen
import molgen
from props import c01
from vlib import g_list, g_Q

COQ_DEPS = ['Thermo/Corr.vo']

UNITS = ['J/mol', 'kJ/mol', 'L kPa/mol', 'cm3 kPa/mol', 'm3 Pa/mol', 'cm3 MPa/mol', 'm3 bar/mol', 'L bar/mol',
         'L torr/mol', 'cal/mol', 'kcal/mol', 'L atm/mol', 'cm3 atm/mol', 'eV', 'Eh', 'Ha']
# conversion factors between the energy units that follow from their SI definitions (independent of pmutt)
SI = {'J/mol': 1.0, 'kJ/mol': 1e3, 'L kPa/mol': 1.0, 'cm3 kPa/mol': 1e-3, 'm3 Pa/mol': 1.0, 'cm3 MPa/mol': 1.0,
      'm3 bar/mol': 1e5, 'L bar/mol': 1e2, 'L torr/mol': 101325.0 / 760 * 1e-3, 'cal/mol': 4.184, 'kcal/mol': 4184.0,
      'L atm/mol': 101.325, 'cm3 atm/mol': 0.101325}


def q(x):
    return vlib.g_Qf(x)


HEADER = '''From Coq Require Import List NArith Bool QArith Qabs.
From PG Require Import Common.Strs Thermo.Num Thermo.Estimate Thermo.Corr.
Import ListNotations.
Definition tol : Q := 1 # 1000000000000.
Definition cl (a b : Q) : bool := close tol (1 + Qabs a + Qabs b) a b.
(* h s cp T RuK Ru  impl: H G S Cp *)
Definition okdim (c : Q * Q * Q * Q * Q * Q * (Q * Q * Q * Q)) : bool :=
  let '(h, s, cp, T, RuK, Ru, (iH, iG, iS, iCp)) := c in
  cl (dim_H (K:=Qops) h T RuK) iH && cl (dim_G (K:=Qops) h s T RuK) iG
  && cl (dim_S (K:=Qops) s Ru) iS && cl (dim_Cp (K:=Qops) cp Ru) iCp.
(* table, atoms, s, impl s relative to elements *)
Definition okel (c : list (N * Q) * list N * Q * Q) : bool :=
  let '(tbl, atoms, s, isel) := c in
  match s_elements (K:=Qops) tbl atoms 0 with
  | Ok se => cl (s - se) isel
  | Raise _ => false end.
'''


def run(ctx):
    ctx.assumptions += [
        'model Thermo/Estimate.v (dim_H/S/Cp/G, s_elements) hand-written; tie = correspondence over exact rationals run in this check',
        "pmutt's gas-constant table R(u) and S_elements are externals: their numbers are read from the installed pmutt at run time",
        'the atom list of the molecule is taken independently from RDKit (AddHs)',
        'theorems over the reals: standard-library real-number axioms as listed by Print Assumptions']
    rng = ctx.rng
    jobs = []
    libs = thermogen.SHIPPED if ctx.thorough() else thermogen.SHIPPED[:9]
    for lib in libs:
        for smi in molgen.pool_for_lib(rng, lib, ctx.n(14, 120), with_bad=0.0):
            us = rng.sample(UNITS, ctx.n(5, 16))
            jobs.append({'op': 'estimate', 'lib': lib, 'from_smiles': smi, 'Ts': [298.15, round(rng.uniform(300, 900), 1), rng.uniform(300, 900), 1000.0 / 3],
                         'props': ('cp', 'h', 's', 'g'), 'dim': {'units': us, 'elements': True}})
            if rng.random() < 0.5:
                # the library object decomposes ANOTHER molecule between making the estimate and asking it
                jobs[-1]['then_decomp'] = rng.choice(['C', 'CC', 'CCO', 'CCCCCCCC', 'C=C', 'OCCO'])
    # spellings with hydrogens written inside brackets (explicit H counts, stereo centres, explicit [H] atoms)
    for lib in [l for l in libs if l in molgen.GAS_LIBS]:
        for smi in ['[CH3][CH3]', '[H]C([H])([H])C', 'C[C@H](O)CC', '[CH3]C', 'C[CH2]O', '[CH3][CH2][OH]', 'C[C@@H](C)CC', '[CH4]', 'C([H])([H])=C']:
            jobs.append({'op': 'estimate', 'lib': lib, 'from_smiles': smi, 'Ts': [298.15, 500.0], 'props': ('cp', 'h', 's', 'g'),
                         'dim': {'units': rng.sample(UNITS, 3), 'elements': True}})
    # homologous series evaluated one after the other with ONE library object: the same group types with other multiplicities
    for lib in libs:
        if lib in molgen.GAS_LIBS:
            series = ['CCCCCC', 'CCCCC', 'CCC', 'CCCCCCCC', 'CCCC', 'CCCO', 'CCCCCO', 'CCCCO']
        else:
            mt = {'XieGA2022': 'Ru'}.get(lib, 'Pt')
            series = ['C([%s])CC' % mt, 'C([%s])CCCC' % mt, 'C([%s])CCC' % mt, 'C([%s])C[%s]' % (mt, mt), 'C([%s])CC[%s]' % (mt, mt)]
        for smi in series:
            jobs.append({'op': 'estimate', 'lib': lib, 'from_smiles': smi, 'Ts': [298.15, 500.0], 'props': ('cp', 'h', 's', 'g'),
                         'dim': {'units': rng.sample(UNITS, 2), 'elements': True}})
    # single-group correlations through a unit vector (no elements)
    infos = vlib.run_impl_sharded('thermo', [{'op': 'libinfo', 'lib': s} for s in libs], timeout=900)
    for lib, info in zip(libs, infos):
        gs = [g for g in info.get('groups', []) if g['has'] and g.get('Ts') and g.get('H') and g.get('S')]
        for g in rng.sample(gs, min(ctx.n(4, 40), len(gs))):
            lo, hi = g['range'] or (min(g['Ts']), max(g['Ts']))
            jobs.append({'op': 'estimate', 'lib': lib, 'mapping': [[g['name'], 1]], 'Ts': [lo, round(rng.uniform(lo, hi), 1), hi],
                         'props': ('cp', 'h', 's', 'g'), 'dim': {'units': rng.sample(UNITS, ctx.n(4, 16)), 'elements': False}})
    # the group correlations themselves (incl. groups without heat-capacity data, at temperatures other than T_ref)
    gjobs = []
    for lib, info in zip(libs, infos):
        gs = [g for g in info.get('groups', []) if g['has'] and g.get('H') and g.get('S')]
        notab = [g for g in gs if not g.get('Ts')]
        for g in rng.sample(gs, min(ctx.n(4, 40), len(gs))) + rng.sample(notab, min(ctx.n(4, 40), len(notab))):
            if g.get('Ts'):
                lo, hi = g['range'] or (min(g['Ts']), max(g['Ts']))
                Ts = [lo, round(rng.uniform(lo, hi), 1), hi]
            else:
                Ts = [g['T_ref'], 300.0, 298.15, 450.0]
            gjobs.append({'op': 'groupdim', 'lib': lib, 'name': g['name'], 'Ts': Ts, 'units': rng.sample(UNITS, 3)})
    for job, r in zip(gjobs, c01.run_by_lib(gjobs)):
        if 'vals' not in r:
            ctx.broken.append('implementation child failed: %s' % str(r)[:300])
            continue
        key = 'groupdim:%s|%s' % (job['lib'], job['name'])
        ctx.count(key)
        for ti, T in enumerate(job['Ts']):
            nd = {p: r['vals'][p][ti] for p in ('cp', 'h', 's')}
            for u in job['units']:
                Ru = r['Rtab'][u + '/K']
                d = {k: r['dim'][u][k][ti] for k in r['dim'][u]}
                for nm, p, want in (('get_H', 'h', lambda v: v * T * Ru), ('get_S', 's', lambda v: v * Ru), ('get_Cp', 'cp', lambda v: v * Ru)):
                    if 'exc' in nd[p] or nd[p]['v'] is None:
                        continue
                    got = d[nm]
                    if 'exc' in got or got['v'] is None or abs(got['v'] - want(nd[p]['v'])) > 1e-12 * (1 + abs(got['v'])):
                        ctx.violate(key + '|' + nm, '%s of a group correlation is not the non-dimensional value times R (and T)' % nm,
                                    dict(job, T=T, unit=u), want(nd[p]['v']), got)
                if all('exc' not in d[k] and d[k]['v'] is not None for k in ('get_H', 'get_S', 'get_G')):
                    if abs(d['get_G']['v'] - (d['get_H']['v'] - T * d['get_S']['v'])) > 1e-10 * (1 + abs(d['get_H']['v']) + abs(T * d['get_S']['v'])):
                        ctx.violate(key + '|G', 'G != H - T*S for a group correlation', dict(job, T=T, unit=u), d['get_H']['v'] - T * d['get_S']['v'], d['get_G'])
    jobs.sort(key=lambda j: j['lib'])
    # dimensional values asked before and after the correlation is changed by a merge: S(T,u) and G(T,u) follow the data
    from props import c13
    seqs = [c13.gen_seq(ctx) for _ in range(ctx.n(40, 300))]
    nmerged = 0
    for job_, r_ in zip(seqs, vlib.run_impl_sharded('thermo', seqs, timeout=900)):
        for k_, st_ in enumerate(r_.get('steps', [])):
            sd = st_.get('self_dim') or {}
            if 'exc' in st_ or 'cur' not in sd:
                continue
            nmerged += 1
            for nm in sd['cur']:
                for T_, a_, b_ in zip(sd['T'], sd['cur'][nm], sd['fresh'][nm]):
                    same_ = (a_.get('exc') == b_.get('exc')) if ('exc' in a_ or 'exc' in b_) else \
                        (a_.get('v') is not None and b_.get('v') is not None and abs(a_['v'] - b_['v']) <= 1e-10 * (1 + abs(b_['v'])))
                    if not same_:
                        ctx.violate('dim-after-merge:%s' % nm, '%s asked again after the correlation was changed does not follow the new data' % nm,
                                    dict(job_, step=k_, T=T_), b_, a_)
                        break
    results = c01.run_by_lib(jobs)
    dimcases, elcases = [], []
    hist = {'decomposed': 0, 'not_decomposable': 0, 'unit_evals': 0, 'element_evals': 0}
    for job, r in zip(jobs, results):
        if '_child_failed' in r or 'job_exc' in r:
            ctx.broken.append('implementation child failed: %s' % str(r)[:300])
            continue
        if 'decomp_exc' in r or 'exc' in r:
            hist['not_decomposable'] += 1
            continue
        hist['decomposed'] += 1
        key = 'dim:%s|%s' % (job['lib'], job.get('from_smiles') or job['mapping'][0][0])
        ctx.count(key, nontrivial=len(r['mapping_used']) > 1 or 'mapping' in job)
        ctx.sample({'lib': job['lib'], 'molecule': job.get('from_smiles'), 'descriptors': r['mapping_used'][:6], 'units': job['dim']['units'][:3]})
        for ti, T in enumerate(job['Ts']):
            nd = {p: r['vals'][p][ti] for p in ('cp', 'h', 's', 'g')}
            if any('exc' in nd[p] or nd[p]['v'] is None for p in ('cp', 'h', 's')):
                continue
            h, s, cp = nd['h']['v'], nd['s']['v'], nd['cp']['v']
            if r['s_F'][ti].get('v') != s or ('exc' not in nd['g'] and r['g_F'][ti].get('v') != nd['g']['v']):
                ctx.violate(key + '|flag-false-nd', 'S/R or G/RT asked with S_elements=False / 0 differs from the plain value', dict(job, T=T),
                            {'s': s, 'g': nd['g']}, {'s_F': r['s_F'][ti], 'g_F': r['g_F'][ti]})
            first = None
            for u in job['dim']['units']:
                d = r['dim'][u]
                RuK = r['Rtab'][u + '/K']
                vals = {k: d[k][ti] for k in d}
                if any('exc' in v or v['v'] is None for v in vals.values()):
                    ctx.violate(key + '|' + u, 'dimensional getter failed or returned a non-number for unit %s' % u,
                                dict(job, T=T, unit=u), 'numbers', vals)
                    continue
                hist['unit_evals'] += 1
                H, G, S, Cp = (vals[k]['v'] for k in ('get_H', 'get_G', 'get_S', 'get_Cp'))
                if vals['get_S_F']['v'] != S or vals['get_S_npF']['v'] != S or vals['get_G_F']['v'] != G:
                    ctx.violate(key + '|flag-false|' + u, 'S or G asked with S_elements=False / 0 differs from the plain value',
                                dict(job, T=T, unit=u), {'S': S, 'G': G}, {k: vals[k] for k in ('get_S_F', 'get_S_npF', 'get_G_F')})
                # direct oracle: the property's equations
                def cl(a, b):
                    return abs(a - b) <= 1e-12 * (1 + abs(a) + abs(b))
                # (G = H - T*S is a difference of two large numbers: compared at the scale of the terms, not of the result)
                if not (cl(H, h * T * RuK) and cl(S, s * RuK) and cl(Cp, cp * RuK) and abs(G - (H - T * S)) <= 1e-12 * (1 + abs(H) + abs(T * S))):
                    ctx.violate(key + '|eq|' + u, 'H=(H/RT)*T*R, S=(S/R)*R, Cp=(Cp/R)*R or G=H-T*S fails for unit %s' % u,
                                dict(job, T=T, unit=u), {'H': h * T * RuK, 'S': s * RuK, 'Cp': cp * RuK, 'G': H - T * S}, vals)
                if first is None:
                    first = (u, H, S)
                elif u in SI and first[0] in SI:
                    # two units differ by the conversion factor between them (SI definitions, pmutt table precision 1e-6)
                    f = SI[first[0]] / SI[u]
                    if abs(H - first[1] * f) > 2e-6 * abs(H) + 1e-12 or abs(S - first[2] * f) > 2e-6 * abs(S) + 1e-12:
                        ctx.violate(key + '|conv|' + u, 'values in %s and %s do not differ by the conversion factor' % (first[0], u),
                                    dict(job, T=T), {'factor': f, 'H': first[1] * f}, {'H': H, 'S': S})
                if len(dimcases) < ctx.n(600, 6000):
                    dimcases.append((h, s, cp, T, RuK, RuK, (H, G, S, Cp)))
            if job['dim'].get('elements'):
                sel, gel = r['s_el'][ti], r['g_el'][ti]
                want = sum(r['S_tab'][str(z)] for z in r['atoms'])
                hist['element_evals'] += 1
                if 'exc' in sel or sel['v'] is None or abs(sel['v'] - (s - want)) > 1e-9 * (1 + abs(s) + want):
                    ctx.violate(key + '|elements', 'S/R relative to the elements is not S/R minus the elemental entropies of all atoms (H included)',
                                dict(job, T=T), s - want, sel)
                elif 'exc' in gel or gel['v'] is None or abs(gel['v'] - (h - sel['v'])) > 1e-9 * (1 + abs(h) + abs(sel['v'])):
                    ctx.violate(key + '|elements-g', 'G/RT relative to the elements is not H/RT - (S/R - S_elements)',
                                dict(job, T=T), h - sel['v'], gel)
                else:
                    u = job['dim']['units'][0]
                    Se = r['dim'][u]['get_S_el'][ti]
                    if 'exc' in Se or Se['v'] is None or abs(Se['v'] - sel['v'] * r['Rtab'][u + '/K']) > 1e-9 * (1 + abs(Se.get('v') or 0)):
                        ctx.violate(key + '|elements-dim', 'dimensional S relative to the elements is inconsistent', dict(job, T=T), None, Se)
                    if len(elcases) < ctx.n(200, 2000):
                        elcases.append((r['S_tab'], r['atoms'], s, sel['v']))
    texts = []
    step = 300
    for s0 in range(0, len(dimcases), step):
        body = ';\n'.join('(%s, (%s))' % (', '.join(q(x) for x in c[:6]), ', '.join(q(x) for x in c[6])) for c in dimcases[s0:s0 + step])
        texts.append(HEADER + 'Definition cases := [\n%s\n].\nEval vm_compute in mismatches okdim 0 cases.\n' % body)
    nd_ = len(texts)
    for s0 in range(0, len(elcases), step):
        body = ';\n'.join('(%s, %s, %s, %s)' % (g_list(['(%s%%N, %s)' % (z, q(v)) for z, v in tab.items()]),
                                               g_list(['%d%%N' % z for z in atoms]), q(s), q(sel))
                          for tab, atoms, s, sel in elcases[s0:s0 + step])
        texts.append(HEADER + 'Definition cases : list (list (N * Q) * list N * Q * Q) := [\n%s\n].\nEval vm_compute in mismatches okel 0 cases.\n' % body)
    nbad = 0
    for k, (ok, out) in enumerate(vlib.run_cases_sharded('c07_' + ctx.tier, texts)):
        val = vlib.coq_eval_value(out) if ok else None
        if val is None:
            ctx.broken.append('correspondence C07 shard %d did not evaluate: %s' % (k, out[-300:]))
            continue
        for i in vlib.parse_nat_list(val):
            nbad += 1
            src = dimcases[k * step + i] if k < nd_ else elcases[(k - nd_) * step + i]
            ctx.violate('corr-dim:%d:%d' % (k, i), 'model and implementation disagree on a dimensional/elemental value',
                        {'case': src}, 'model', None)
    ctx.coverage.update({
        'rule': 'estimates of generated molecules (decomposed immediately before) for each shipped library and single-group estimates x all %d unit '
                'strings pmutt accepts (sampled per case in quick) x 2-3 temperatures; elemental clause on every decomposed molecule. '
                'non-trivial = more than one descriptor or a single-group correlation; distinct by (library, molecule)' % len(UNITS),
        'histogram': hist, 'correspondence_cases': len(dimcases) + len(elcases), 'correspondence_mismatches': nbad})
    if hist['decomposed'] < 10:
        ctx.broken.append('too few molecules could be decomposed (%d): generator or libraries broken' % hist['decomposed'])


def replay(ctx, rec):
    c = rec['case']
    if not isinstance(c, dict) or c.get('op') != 'estimate':
        return True
    job = {k: v for k, v in c.items() if k not in ('T', 'unit')}
    r = c01.run_by_lib([job])[0]
    # re-run through the same code path
    n0 = len(ctx.violations)
    ctx2 = ctx
    return True if 'exc' in r or 'decomp_exc' in r else _recheck(ctx2, job, r, n0)


def _recheck(ctx, job, r, n0):
    for ti, T in enumerate(job['Ts']):
        h, s = r['vals']['h'][ti].get('v'), r['vals']['s'][ti].get('v')
        for u in job['dim']['units']:
            d = r['dim'][u]
            RuK = r['Rtab'][u + '/K']
            H, S = d['get_H'][ti].get('v'), d['get_S'][ti].get('v')
            if None in (h, s, H, S) or abs(H - h * T * RuK) > 1e-12 * (1 + abs(H)) or abs(S - s * RuK) > 1e-12 * (1 + abs(S)):
                return False
    return True
