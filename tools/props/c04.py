"""C04 - a mixture's descriptors are the sum of its components'."""
import vlib
import molgen
import gen
from props import c03

GEN = ['grammar', 'elements', 'schemes']
COQ_DEPS = ['Graph/Scheme_proofs.vo']
STRESS = {'BensonGA': ['C1CO1', 'C1CC1C', 'C1CCOCC1', 'c1ccccc1', 'Cc1ccccc1', 'C1COCCO1', 'CC=CC', 'CC=C(C)C', 'C/C=C\\C', 'CC(C)=C(C)C', 'CC(C)CC', 'C1CCCCC1', 'CCO',
                       'C1CC1', 'c1ccoc1', 'CC(C)(C)C', 'C=CC=C', 'CS', 'C[N+](C)(C)C'],
          'PPY': ['C1CCOCC1', 'c1ccccc1', 'CC=CC', 'CC=C(C)C', 'c1ccncc1', 'CC(C)=C(C)C', 'CS']}


def fused6(smi):
    """two six-membered rings sharing a bond: the decomposition depends on the ring order RDKit happens to give (C03's known finding)"""
    from rdkit import Chem
    m = Chem.MolFromSmiles(smi)
    if m is None:
        return False
    six = [set(r) for r in m.GetRingInfo().AtomRings() if len(r) == 6]
    return any(len(a & b) >= 2 for i, a in enumerate(six) for b in six[i + 1:])


def run(ctx):
    ctx.assumptions += [
        'the additivity is decided on the implementation for generated pairs / triples / self-pairs; theorem side: no shipped scheme uses a '
        'molecule-level prefix (finite, regenerated) which is what makes matching component-local',
        'theorems C04_groups_additive, C04_correction_descriptors_additive, C04_descriptors_additive (Graph/Descr_equiv.v): groups and correction '
        'descriptors of the disjoint union add entry-wise after remaps; the returned dictionary adds when no occurring correction-descriptor name is '
        'also an occurring group name (groups.update(descriptors) replaces, it does not add - hypothesis names_apart)',
        'RDKit: the ring list of a disconnected molecule is the union of the components\' ring lists (external)']
    rng = ctx.rng
    jobs, meta = [], []
    for lib in gen.SHIPPED:
        pool = list(dict.fromkeys(STRESS.get(lib, []) + c03.EXTRA.get(lib, [])[:6] + molgen.pool_for_lib(rng, lib, ctx.n(14, 120), with_bad=0.12)))
        pairs = []
        st = STRESS.get(lib, [])
        for a in st[:8]:
            for b in st[:8]:
                if rng.random() < ctx.n(0.5, 1.0):
                    pairs.append((a, b))
        for _ in range(ctx.n(25, 400)):
            k = rng.random()
            if k < 0.15:
                a = rng.choice(pool)
                pairs.append((a, a))
            elif k < 0.3:
                pairs.append(tuple(rng.sample(pool, 3)))
            else:
                pairs.append((rng.choice(pool), rng.choice(pool)))
        if lib in ('BensonGA', 'SalciccioliGA2012'):
            # large components: many pattern matches (several hundred each, more than a thousand together)
            big = ['C' * 21, 'C' * 22, 'CC(C)' * 7 + 'C', 'C' * 18]
            pairs += [(big[0], big[1]), (big[2], big[1]), (big[3], big[3]), (big[0], 'CCO')]
        # components that are exactly ONE group (as many atoms as the centre pattern that matches them), alone, doubled and mixed
        tiny = ['C', 'O', '[HH]', 'O=C=O', '[CH3]', '[OH]', 'C=O'] if lib in molgen.GAS_LIBS else ['C', 'O', '[HH]', '[Pt]', 'C[Pt]', 'O=C=O']
        for t in tiny:
            pairs += [(t, t), (t, 'CC'), ('CCO', t), (t, rng.choice(tiny))]
        for comp in pairs:
            jobs.append({'lib': lib, 'smiles': list(comp) + ['.'.join(comp)], 'timeout': 300, 'combine': True})
            meta.append((lib, comp))
    res = vlib.run_impl_sharded('scheme', jobs, timeout=3000)
    hist = {'pairs': 0, 'triples': 0, 'self_pairs': 0, 'undecomposable_component': 0}
    for (lib, comp), r in zip(meta, res):
        if 'results' not in r:
            ctx.broken.append('implementation child failed: %s' % str(r)[:300])
            continue
        if any(x.get('bad_smiles') for x in r['results']):
            continue
        outs = [x['impl'] for x in r['results']]
        parts, mix = outs[:-1], outs[-1]
        key = 'mix:%s:%s' % (lib, '.'.join(comp))
        cm = r['results'][-1].get('impl_combine')
        if cm is not None and cm != mix and not ('exc' in cm and 'exc' in mix) and not any(fused6(c_) for c_ in comp):
            ctx.violate(key + '|combine', 'the mixture assembled as one molecule object (CombineMols) decomposes differently from the dotted SMILES',
                        {'lib': lib, 'components': comp}, mix, cm)
        hist['triples' if len(comp) == 3 else 'self_pairs' if comp[0] == comp[1] else 'pairs'] += 1
        ctx.count(key, nontrivial=all('d' in p for p in parts))
        if any('exc' in p for p in parts):
            hist['undecomposable_component'] += 1
            if 'exc' not in mix:
                ctx.violate(key, 'a component cannot be decomposed but the mixture can', {'lib': lib, 'components': comp}, 'failure', mix)
            continue
        if 'exc' in mix:
            ctx.violate(key, 'every component decomposes but the mixture fails with %s' % mix['exc'], {'lib': lib, 'components': comp}, 'sum', mix)
            continue
        tot = {}
        for p in parts:
            for k, v in p['d']:
                tot[k] = tot.get(k, 0.0) + v
        got = dict(map(tuple, mix['d']))
        if set(tot) != set(got) or any(abs(tot[k] - got[k]) > 1e-9 for k in tot):
            diff = {k: (tot.get(k), got.get(k)) for k in set(tot) | set(got) if abs(tot.get(k, 0) - got.get(k, 0)) > 1e-9}
            ctx.violate(key, "the mixture's descriptors are not the sum of its components' descriptors", {'lib': lib, 'components': comp}, 'sum', diff)
        ctx.sample({'lib': lib, 'components': comp}, limit=4)
    ctx.coverage.update({
        'rule': 'per scheme: all ordered pairs of 8 stress molecules (hetero six-ring before/after an aromatic ring, direct and remapped cis corrections, ...), '
                'random pairs, self-pairs and triples of generated molecules incl. out-of-vocabulary ones; distinct by (scheme, components)',
        'histogram': hist})


def replay(ctx, rec):
    c = rec['case']
    if not isinstance(c, dict) or 'components' not in c:
        return True
    comp = list(c['components'])
    r = vlib.run_impl_sharded('scheme', [{'lib': c['lib'], 'smiles': comp + ['.'.join(comp)]}])[0]
    outs = [x['impl'] for x in r['results']]
    if any('exc' in p for p in outs[:-1]):
        return 'exc' in outs[-1]
    if 'exc' in outs[-1]:
        return False
    tot = {}
    for p in outs[:-1]:
        for k, v in p['d']:
            tot[k] = tot.get(k, 0.0) + v
    got = dict(map(tuple, outs[-1]['d']))
    return set(tot) == set(got) and all(abs(tot[k] - got[k]) < 1e-9 for k in tot)
