"""C03 - descriptors do not depend on how the molecule is written."""
import vlib
import molgen
import gen

GEN = ['grammar', 'elements', 'schemes']
COQ_DEPS = ['Graph/Scheme_proofs.vo']
FUSED = ['Cc1cccc2ccccc12', 'c1ccc2ccccc2c1', 'c1ccc2cc3ccccc3cc2c1', 'Cc1ccc2ccccc2c1', 'c1ccc2c(c1)CCC2', 'C1=CC2=CC=CC=C2C=C1',
         'c1ccc2c(c1)ccc1ccccc12', 'OC1=CC=CC2=CC=CC=C12']
# physisorbed species: a zero-order ('~') or dative bond to the surface atom, written metal-last and metal-first
PHYS = ['O=C(=O)~[Pt]', '[Pt]~C(=O)=O', 'O~[Pt]', '[Pt]~O', 'CO~[Pt]', 'C(=O)(O)~[Pt]', 'O=C(=O)->[Pt]', '[Pt]<-C(=O)=O', 'OC(~[Pt])=O']
# aromatic five-rings bound to the surface (as SMILES the ring is kekulised by sanitisation, as a molecule object by Kekulize)
FURANS = ['[Pt]c1cocc1[Pt]', 'Cc1occ([Pt])c1[Pt]', 'O=Cc1occ([Pt])c1[Pt]']
EXTRA = {'BensonGA': ['CCCC/C=C\\CCCCCC', 'CC1CCCCC1', 'C1(CCCCC1)C', 'Cc1ccccc1C', 'C1=CC=CCC1', 'C1CC=CC=C1', 'CC(C)CC(C)C', 'C/C=C\\C', 'CC=CC',
                      'CC(C)=C(C)C', 'c1ccoc1', 'c1ccncc1', 'C=C1C=CC=CC1=C', 'CC(C)(C)CC(C)(C)C', 'OC(=O)c1ccccc1',
                      # the same group type reached natively and through a remap, in either atom order (radical and closed-shell methyls)
                      'C[C]=CC', 'C[C]=C(C)C', 'CC(=O)CC', 'COCC', 'C[CH]C=CC',
                      # small fused / bridged bicyclics: the ring set used by the ring-count constraints must not depend on the numbering
                      'C1CC2CC12', 'C1C2CC12', 'C1CCC2CC2C1', 'C1CC2CCC12', 'C1CC2CC2C1'] + FUSED,
         'PPY': ['CC1CCCCC1', 'Cc1ccccc1C', 'C1=CC=CCC1', 'CCCC/C=C\\CCCCCC', 'c1ccncc1', 'c1ccsc1', 'Cc1cccs1', 'c1ccc2sccc2c1',
                 'C1CC2CC12', 'C1CCC2CC2C1'] + FUSED[:3],
         'SalciccioliGA2012': ['C([Pt])C[Pt]', 'C([Pt])([Pt])C([Pt])([Pt])C', '[Pt]C([Pt])C([Pt])([Pt])C=O', 'OC([Pt])C([Pt])O'] + FURANS,
         'GRWSurface2018': ['[Pt]C([Pt])C([Pt])([Pt])C=O', 'C([Pt])([Pt])C([Pt])C[Pt]', 'OC([Pt])([Pt])C([Pt])([Pt])C([Pt])([Pt])C([Pt])([Pt])'] + FURANS + PHYS,
         'GRWAqueous2018': PHYS, 'GuSolventGA2017Aq': PHYS, 'GuSolventGA2017Vac': PHYS, 'PtSurface2023': FURANS + PHYS,
         'XieGA2022': ['[Ru]C([Ru])C([Ru])([Ru])C', 'CCC', 'C([Ru])C[Ru]']}


def known_key(base, outs):
    """fused alternating six-rings: the Benson aromatisation depends on the ring order (recorded finding)"""
    return None


def run(ctx):
    ctx.assumptions += [
        'the invariance is decided on the implementation: every spelling (atom renumberings - all permutations for <= 6 heavy atoms -, random SMILES, '
        'Kekule form, explicit hydrogens, molecule object) must give the same descriptors or the same failure class',
        'theorems (Graph/Scheme_proofs.v): aromatisation of a single alternating ring is independent of where the ring list starts; its dependence on '
        'ring ORDER for fused alternating rings is proved as a refutation witness (known finding)',
        'theorem C03_descriptors_renumbering (Graph/Descr_equiv.v): for every scheme with reader-produced, prefix-free patterns and a chain-free remap table '
        'the whole descriptor dictionary (groups, correction descriptors, remaps, groups.update(descriptors)) of a renumbered prepared graph is the same map',
        'RDKit producing isomorphic prepared graphs for equivalent spellings is an external (decided by the spelling oracle)']
    rng = ctx.rng
    jobs = []
    for lib in gen.SHIPPED:
        pool = list(dict.fromkeys(EXTRA.get(lib, []) + molgen.pool_for_lib(rng, lib, ctx.n(14, 150), with_bad=0.08)))
        for s in range(0, len(pool), 4):
            jobs.append({'op': 'spell', 'lib': lib, 'smiles': pool[s:s + 4], 'n': ctx.n(8, 30), 'seed': rng.getrandbits(30), 'timeout': 600})
    res = vlib.run_impl_sharded('scheme', jobs, timeout=3000)
    hist = {'molecules': 0, 'spellings': 0, 'kinds': {}}
    for j, r in zip(jobs, res):
        if 'results' not in r:
            ctx.broken.append('implementation child failed: %s' % str(r)[:300])
            continue
        for base, x in zip(j['smiles'], r['results']):
            if x.get('bad_smiles'):
                continue
            outs = x['outs']
            hist['molecules'] += 1
            hist['spellings'] += len(outs)
            ref = outs[0][2]
            ctx.count((j['lib'], outs[0][1]), nontrivial=len(outs) > 3)
            for kind, s, o in outs:
                hist['kinds'][kind] = hist['kinds'].get(kind, 0) + 1
                if 'exc' in o and o['exc'] not in ('PatternMatchError',):
                    ctx.violate('spell-exc:%s:%s' % (kind, o['exc']), 'GetDescriptors on a %s spelling escaped with %s' % (kind, o['exc']),
                                {'lib': j['lib'], 'base': base, 'spelling': s, 'kind': kind}, 'descriptors or PatternMatchError', o)
                    continue
                same = (o.get('exc') == ref.get('exc')) if ('exc' in o or 'exc' in ref) else \
                    (len(o['d']) == len(ref['d']) and all(a[0] == b[0] and abs(a[1] - b[1]) < 1e-9 for a, b in zip(o['d'], ref['d'])))
                if not same:
                    fused = x.get('fused6')
                    ctx.violate('fused-ring-order' if fused else 'spell:%s:%s:%s' % (j['lib'], outs[0][1], kind),
                                'two spellings of one molecule give different descriptors (%s vs canonical)' % kind,
                                {'lib': j['lib'], 'base': outs[0][1], 'spelling': s, 'kind': kind}, ref, o)
                    break
            ctx.sample({'lib': j['lib'], 'molecule': outs[0][1], 'spellings': [s for _, s, _ in outs[:4]]}, limit=4)
    ctx.coverage.update({
        'rule': 'per scheme: fixed stress molecules (cis alkenes with distant atoms, substituted rings, ortho-disubstituted and fused aromatics, '
                'adsorbates) + generated molecules; per molecule: all atom permutations for <=6 heavy atoms (else %d random renumberings), random SMILES, '
                'Kekule spelling, explicit-hydrogen spellings, molecule object. distinct by (scheme, canonical SMILES)' % ctx.n(8, 30),
        'histogram': hist})


def _canon(smi):
    return smi


FUSED_CANON = {}


def replay(ctx, rec):
    c = rec['case']
    if not isinstance(c, dict) or 'spelling' not in c:
        return True
    r = vlib.run_impl_sharded('scheme', [{'lib': c['lib'], 'smiles': [c['base'], c['spelling']]}])[0]
    a, b = (x['impl'] for x in r['results'])
    return a == b
