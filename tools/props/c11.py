"""C11 - incompatible quantities never combine; compatible ones act as numbers."""
import itertools
import vlib
from vlib import g_str, g_list
from props import c10

COQ_DEPS = ['Units/DB.vo']

GEN = ['units']
DIMS = ['m', 'kg', 's', 'A', 'K', 'mol', 'cd', 'J', 'N', 'Pa', 'J/mol', 'm/s', 'J/(mol K)', 'm^2', '1/s', 'W']
ALT = {'m': 'ft', 'kg': 'lb', 's': 'min', 'J': 'kcal', 'N': 'dyn', 'Pa': 'atm', 'J/mol': 'kcal/mol', 'm/s': 'km/h',
       'J/(mol K)': 'cal/(mol K)', 'm^2': 'cm^2', '1/s': '1/min', 'W': 'hp', 'K': 'mK', 'mol': 'kmol', 'A': 'mA', 'cd': 'kcd'}
BINOPS = ['add', 'sub', 'lt', 'le', 'gt', 'ge', 'eq', 'ne', 'mul', 'div']
PY = {'add': lambda a, b: a + b, 'sub': lambda a, b: a - b, 'lt': lambda a, b: a < b, 'le': lambda a, b: a <= b,
      'gt': lambda a, b: a > b, 'ge': lambda a, b: a >= b, 'eq': lambda a, b: a == b, 'ne': lambda a, b: a != b}


def q(x):
    return vlib.g_Qf(x)


def qtext(v, u):
    return '(%r) %s' % (v, u) if v < 0 else '%r %s' % (v, u)


def values(rng):
    x = round(rng.uniform(-50, 50), 3)
    return [(x, x), (x, -x), (x, 0.0), (0.0, x), (0.0, 0.0), (x, round(rng.uniform(-50, 50), 3)), (2.0, 3.0), (3.0, 2.0)]


def operand_lit(o):
    if 'q' in o:
        return '(ev %s)' % g_str(o['q'])
    return '(UOk (Num %s))' % q(o['n'])


HEADER = c10.HEADER % ('[]', '[]', '[]') + '''
Inductive rr := RQ (x : ures qv) | RB (x : ures bool).
Definition bsame (m : ures bool) (i : ures bool) : bool :=
  match m, i with UOk a, UOk b => Bool.eqb a b | URaise UnitsErr, URaise UnitsErr => true | _, _ => false end.
Definition lift2 (f : qv -> qv -> ures qv) (a b : ures qv) : ures qv := ubind a (fun x => ubind b (fun y => f x y)).
Definition liftb (f : qv -> qv -> ures bool) (a b : ures qv) : ures bool := ubind a (fun x => ubind b (fun y => f x y)).
Definition isq (x : ures qv) : bool := match x with UOk (Qty _ _) => true | _ => false end.
(* Python's dispatch: the left operand's method when it is a Quantity, else the reflected method of the right one *)
Definition app (op : nat) (a b : ures qv) : rr :=
  let L := isq a in
  match op with
  | 0 => RQ (if L then lift2 q_add a b else lift2 q_radd b a)
  | 1 => RQ (if L then lift2 q_sub a b else lift2 q_rsub b a)
  | 2 => RB (if L then liftb q_lt a b else liftb q_gt b a)
  | 3 => RB (if L then liftb q_le a b else liftb q_ge b a)
  | 4 => RB (if L then liftb q_gt a b else liftb q_lt b a)
  | 5 => RB (if L then liftb q_ge a b else liftb q_le b a)
  | 6 => RB (if L then liftb (fun x y => UOk (q_eq x y)) a b else liftb (fun x y => UOk (q_eq x y)) b a)
  | 7 => RB (if L then liftb (fun x y => UOk (q_ne x y)) a b else liftb (fun x y => UOk (q_ne x y)) b a)
  | 8 => RQ (lift2 (fun x y => UOk (q_mul x y)) a b)
  | 9 => RQ (lift2 q_div a b)
  | 10 => RQ (lift2 (q_pow rpow) a b)
  | 11 => RQ (ubind a (fun x => UOk (q_neg x)))
  | _ => RQ (ubind a (fun x => UOk (q_abs x)))
  end%nat.
Definition okc (c : nat * ures qv * ures qv * rr) : bool :=
  let '(op, a, b, i) := c in
  match app op a b, i with
  | RQ m, RQ x => same m x
  | RB m, RB x => bsame m x
  | _, _ => false end.
Fixpoint mm (i : nat) (l : list (nat * ures qv * ures qv * rr)) : list nat :=
  match l with [] => [] | c :: r => if okc c then mm (S i) r else i :: mm (S i) r end.
'''
OPN = {'add': 0, 'sub': 1, 'lt': 2, 'le': 3, 'gt': 4, 'ge': 5, 'eq': 6, 'ne': 7, 'mul': 8, 'div': 9, 'pow': 10, 'neg': 11, 'abs': 12}


def res_lit(op, r):
    if op in ('lt', 'le', 'gt', 'ge', 'eq', 'ne'):
        if 'exc' in r:
            return '(RB (URaise %s))' % c10.EXC.get(r['exc'], 'InternalErr')
        if r.get('kind') == 'bool':
            return '(RB (UOk %s))' % ('true' if r['v'] else 'false')
        return '(RB (URaise InternalErr))'
    return '(RQ %s)' % c10.lit(r)


def run(ctx):
    ctx.assumptions += [
        'model Units/Model.v (operators with Python dispatch: left method, else reflected method) hand-written; tie = correspondence run in this check',
        'operands reach the model through its own evaluator (C10), the tables are regenerated from /repo',
        'array quantities are runtime (NumPy dispatch): checked by the direct oracle only (pointwise agreement, UnitsError guard)']
    rng = ctx.rng
    jobs = []
    # scalar x scalar, exhaustive over ordered dimension pairs and operators
    for da, db in itertools.product(DIMS, DIMS):
        vals = values(rng)
        for op in BINOPS:
            va, vb = vals[rng.randrange(len(vals))] if not ctx.thorough() else (None, None)
            for (x, y) in ([(va, vb)] if va is not None else vals):
                ua = ALT.get(da, da) if rng.random() < 0.3 else da
                ub = ALT.get(db, db) if rng.random() < 0.3 else db
                jobs.append({'op': op, 'a': {'q': qtext(x, ua)}, 'b': {'q': qtext(y, ub)}, 'dims': (da, db)})
    # quantity with bare number, both orders
    for d in DIMS:
        for op in BINOPS:
            for n in (0, 0.0, 2, -1.5, 5e-9, -2e-9, 1e-12, 1e-300):
                x = rng.choice([0.0, 1.25, -3.0])
                jobs.append({'op': op, 'a': {'q': qtext(x, d)}, 'b': {'n': n}, 'dims': (d, None)})
                jobs.append({'op': op, 'a': {'n': n}, 'b': {'q': qtext(x, d)}, 'dims': (None, d)})
        for e in (2, -1, 0, 3, 0.5):
            jobs.append({'op': 'pow', 'a': {'q': qtext(rng.choice([2.0, 4.0, 0.25]), d)}, 'b': {'n': e}, 'dims': (d, None)})
        jobs.append({'op': 'neg', 'a': {'q': qtext(rng.choice([2.0, -4.5, 0.0]), d)}, 'b': {'n': 0}, 'dims': (d, None)})
        jobs.append({'op': 'abs', 'a': {'q': qtext(rng.choice([2.0, -4.5, 0.0]), d)}, 'b': {'n': 0}, 'dims': (d, None)})
        jobs.append({'op': 'pow', 'a': {'n': 2}, 'b': {'q': qtext(2.0, d)}, 'dims': (None, d)})
    # magnitudes that are tiny in SI or differ only in the ninth digit: the operators act on the magnitudes themselves, not on
    # magnitudes "close enough" (batch 12: == through np.isclose with its default absolute tolerance)
    for d in DIMS:
        for (x, y) in (('0.000000001', '0.000000003'), ('0.000000001', '0.0'), ('0.0', '0.000000002'), ('1.0', '1.000000001'),
                       ('(-0.000000004)', '0.000000004'), ('0.000000000001', '0.000000000002')):
            for op in BINOPS:
                if op in ('mul', 'div', 'add', 'sub'):
                    continue          # (sums of nearly equal floats cancel: only the comparisons are asked here)
                jobs.append({'op': op, 'a': {'q': x + ' ' + d}, 'b': {'q': y + ' ' + d}, 'dims': (d, d + ':tiny')})
    for ua, ub in (('1.0 nm', '3.0 nm'), ('1.0 eV', '2.0 eV'), ('1.0 ns', '1.0 ps'), ('2.0 ug', '2.0 ng'), ('1.0 nm', '0.000000001 m')):
        for op in BINOPS:
            if op not in ('mul', 'div', 'add', 'sub'):
                jobs.append({'op': op, 'a': {'q': ua}, 'b': {'q': ub}, 'dims': (ua, ub)})
    # unit strings that differ only by white space but not in meaning (metre second / millisecond ...), same number in front, one after the
    # other in one process: what a string evaluates to must not depend on what was evaluated before
    for ua, ub in (('ms', 'm s'), ('m s', 'ms'), ('min', 'm in'), ('m in', 'min'), ('mmol', 'm mol'), ('m mol', 'mmol'), ('mm', 'm m'), ('m m', 'mm'),
                   ('mK', 'm K'), ('m K', 'mK')):
        for op in BINOPS:
            jobs.append({'op': op, 'a': {'q': '2.0 ' + ua}, 'b': {'q': '2.0 ' + ub}, 'dims': (ua, ub)})
    # arrays (oracle only)
    arr_jobs = []
    for d in DIMS[:9]:
        for op in ('eq', 'ne', 'lt', 'gt'):
            arr_jobs.append({'op': op, 'a': {'arr': [1.0, -2.0, 0.5], 'u': d}, 'b': {'arr': [1.0, 3.0, 0.25], 'u': d}, 'dims': (d, d)})
            arr_jobs.append({'op': op, 'a': {'arr': [1.0, 2.0, 0.5], 'u': d}, 'b': {'q': qtext(2.0, d)}, 'dims': (d, d)})
            arr_jobs.append({'op': op, 'a': {'arr': [1e-9, 2e-9, 0.0, 1.0], 'u': d}, 'b': {'arr': [3e-9, 2e-9, 1e-9, 1.000000001], 'u': d}, 'dims': (d, d)})
    for da, db in itertools.product(DIMS[:9], DIMS[:9]):
        op = rng.choice(['add', 'sub', 'lt', 'le', 'ge', 'eq', 'ne', 'mul', 'div'])
        arr_jobs.append({'op': op, 'a': {'arr': [1.0, -2.0, 0.5], 'u': da}, 'b': {'arr': [1.0, 3.0, 0.25], 'u': db}, 'dims': (da, db)})
        arr_jobs.append({'op': op, 'a': {'arr': [1.0, -2.0, 0.5], 'u': da}, 'b': {'q': qtext(2.0, db)}, 'dims': (da, db)})
        # a bare array that is not all zero, however small, is not the dimensionless zero
        arr_jobs.append({'op': rng.choice(['add', 'sub', 'lt', 'ge']), 'a': {'arr': [1.0, -2.0, 0.5], 'u': da}, 'b': {'arr': [1e-9, 0.0, -2e-9], 'u': None},
                         'dims': (da, 'tiny-bare')})
    # abs of an array quantity must not touch its operand
    ab_jobs = [{'op': 'abs_reuse', 'a': {'arr': [-1.5, 2.0, -0.25, 0.0], 'u': d}} for d in DIMS[:9]]
    for j, r in zip(ab_jobs, vlib.run_impl_sharded('units', ab_jobs)):
        ctx.count('abs-reuse:%s' % j['a']['u'])
        xs = j['a']['arr']
        try:
            f = r['abs']['v'][1] / 2.0          # SI factor of the unit
            ok = all(abs(g - abs(x) * f) <= 1e-12 * abs(g) + 1e-300 for g, x in zip(r['abs']['v'], xs)) \
                and all(abs(g - x * f) <= 1e-12 * abs(g) + 1e-300 for g, x in zip(r['a_after']['v'], xs)) \
                and all(abs(g - (x + abs(x)) * f) <= 1e-12 * abs(g) + 1e-300 for g, x in zip(r['sum']['v'], xs)) \
                and [bool(v) for v in r['lt']['v']] == [x < abs(x) for x in xs] \
                and all(abs(g - (abs(x) - x) * f) <= 1e-12 * abs(g) + 1e-300 for g, x in zip(r['diff']['v'], xs))
        except Exception:
            ok = False
        if not ok:
            ctx.violate('abs-reuse:%s' % j['a']['u'], 'abs of an array quantity changed its operand, or a + abs(a), a < abs(a), abs(a) - a disagree with the magnitudes',
                        j, [abs(x) for x in xs], r)
    # conversions of array quantities: compatible units give the ratio, incompatible ones are refused
    conv_jobs = []
    for da, db in itertools.product(DIMS[:9], DIMS[:9]):
        conv_jobs.append({'op': 'in_units', 'a': {'arr': [1.0, -2.0, 0.5], 'u': da}, 'u': db, 'dims': (da, db)})
        conv_jobs.append({'op': 'in_units_fn', 'a': {'arr': [1.0, -2.0, 0.5], 'u': da}, 'u': db, 'dims': (da, db)})
    cr = vlib.run_impl_sharded('units', conv_jobs)
    for j, r in zip(conv_jobs, cr):
        da, db = j['dims']
        ctx.count('arrconv:%s|%s|%s' % (j['op'], da, db))
        if da != db and r.get('exc') != 'UnitsError':
            ctx.violate('arrconv:%s|%s' % (da, db), 'converting an array quantity to units of another dimension did not raise UnitsError',
                        j, 'UnitsError', r)
        elif da == db and ('exc' in r or r.get('kind') != 'arr' or any(abs(x - y) > 1e-12 for x, y in zip(r['v'], [1.0, -2.0, 0.5]))):
            ctx.violate('arrconv-same:%s' % da, 'converting an array quantity to its own units does not give the numbers back', j, [1.0, -2.0, 0.5], r)
    # magnitudes of the operands (through the implementation's own evaluator)
    opers = list(dict.fromkeys(j[k]['q'] for j in jobs for k in ('a', 'b') if 'q' in j[k]))
    rv = dict(zip(opers, vlib.run_impl_sharded('units', [{'op': 'eval', 'text': t} for t in opers])))
    res = vlib.run_impl_sharded('units', jobs + arr_jobs)
    rs, ra = res[:len(jobs)], res[len(jobs):]
    hist = {}
    for j, r in zip(jobs, rs):
        if '_child_failed' in r:
            ctx.broken.append('implementation child failed: ' + r['_child_failed'][:300])
            break
        op = j['op']
        hist[op] = hist.get(op, 0) + 1
        key = 'op:%s|%s|%s' % (op, j['a'].get('q', j['a'].get('n')), j['b'].get('q', j['b'].get('n')))
        ctx.count(key)
        da, db = j['dims']
        A = rv[j['a']['q']] if 'q' in j['a'] else {'kind': 'num', 'v': float(j['a']['n']), 'exps': [0.0] * 7}
        B = rv[j['b']['q']] if 'q' in j['b'] else {'kind': 'num', 'v': float(j['b']['n']), 'exps': [0.0] * 7}
        ea, eb = A.get('exps', [0.0] * 7), B.get('exps', [0.0] * 7)
        if op in PY:
            bare_zero = (not any(eb) and B['v'] == 0 and any(ea)) or (not any(ea) and A['v'] == 0 and any(eb))
            compatible = ea == eb or bare_zero
            if not compatible:
                if op == 'eq':
                    bad = r.get('v') is not False
                elif op == 'ne':
                    bad = r.get('v') is not True
                else:
                    bad = r.get('exc') != 'UnitsError'
                if bad:
                    ctx.violate(key, '%s between quantities of different dimensions (or with a non-zero bare number) did not raise UnitsError / compare unequal' % op,
                                j, 'UnitsError' if op not in ('eq', 'ne') else (op == 'ne'), r)
            else:
                want = PY[op](A['v'], B['v'])
                got = r.get('v')
                ok = 'exc' not in r and (abs(got - want) <= 1e-9 * (1 + abs(want)) if op in ('add', 'sub') else got == want)
                if ok and op in ('add', 'sub'):
                    dims = ea if any(ea) else eb
                    ok = r.get('exps', [0.0] * 7) == dims and (r['kind'] == 'qty') == any(dims)
                if not ok:
                    ctx.violate(key, '%s of same-dimension quantities disagrees with the operation on their SI magnitudes' % op, j, want, r)
        elif op in ('mul', 'div'):
            if op == 'div' and B['v'] == 0:
                continue
            want = A['v'] * B['v'] if op == 'mul' else A['v'] / B['v']
            exps = [x + y if op == 'mul' else x - y for x, y in zip(ea, eb)]
            ok = 'exc' not in r and abs(r['v'] - want) <= 1e-9 * (1 + abs(want)) and r.get('exps', [0.0] * 7) == exps \
                and (r['kind'] == 'num') == (not any(exps))
            if not ok:
                ctx.violate(key, '%s does not combine exponents by %s / give a plain number when they cancel' % (op, 'adding' if op == 'mul' else 'subtracting'),
                            j, {'v': want, 'exps': exps}, r)
        elif op == 'pow' and 'q' in j['a']:
            e = j['b']['n']
            exps = [x * e for x in ea]
            ok = 'exc' not in r and abs(r['v'] - A['v'] ** e) <= 1e-9 * (1 + abs(A['v'] ** e)) and r.get('exps', [0.0] * 7) == exps
            if not ok:
                ctx.violate(key, 'power does not scale the exponents', j, {'exps': exps}, r)
        elif op in ('neg', 'abs'):
            want = -A['v'] if op == 'neg' else abs(A['v'])
            if 'exc' in r or r['v'] != want or r.get('exps') != ea:
                ctx.violate(key, '%s disagrees with the operation on the SI magnitude' % op, j, want, r)
    for j, r in zip(arr_jobs, ra):
        da, db = j['dims']
        key = 'arr:%s|%s|%s' % (j['op'], da, db)
        ctx.count(key)
        hist['array'] = hist.get('array', 0) + 1
        if db == 'tiny-bare':
            if r.get('exc') != 'UnitsError':
                ctx.violate(key, 'array %s with a tiny non-zero bare array did not raise UnitsError' % j['op'], j, 'UnitsError', r)
        elif da != db and j['op'] in ('add', 'sub', 'lt', 'le', 'ge'):
            if r.get('exc') != 'UnitsError':
                ctx.violate(key, 'array %s between different dimensions did not raise UnitsError' % j['op'], j, 'UnitsError', r)
        elif da == db and j['op'] in ('add', 'sub') and ('exc' in r or r.get('kind') != 'arrqty'):
            ctx.violate(key, 'array %s of same-dimension quantities failed' % j['op'], j, 'array quantity', r)
        elif da == db and j['op'] in ('eq', 'ne', 'lt', 'gt', 'le', 'ge'):
            ys = j['b']['arr'] if 'arr' in j['b'] else [2.0] * 3
            want = [bool(PY[j['op']](x, y)) for x, y in zip(j['a']['arr'], ys)]
            if 'exc' in r or r.get('kind') != 'arr' or [bool(v) for v in r['v']] != want:
                ctx.violate(key, 'array %s of same-dimension quantities is not the elementwise comparison of the magnitudes' % j['op'], j, want, r)
        elif da != db and j['op'] in ('eq', 'ne') and 'arr' in j['b']:
            if 'exc' in r or not all(bool(v) == (j['op'] == 'ne') for v in (r['v'] if isinstance(r.get('v'), list) else [r.get('v')])):
                ctx.violate(key, 'array %s between different dimensions is not plainly %s' % (j['op'], j['op'] == 'ne'), j, j['op'] == 'ne', r)
    c10.recombination_oracle(ctx)
    # correspondence (scalars)
    rows = []
    for j, r in zip(jobs, rs):
        if r.get('exc') in ('OverflowError',) or r.get('kind') in ('complex', 'other', 'arr', 'arrqty'):
            continue
        if j['op'] == 'pow' and isinstance(j['b'].get('n'), float) and j['b']['n'] != int(j['b']['n']):
            continue    # fractional powers of magnitudes are the host's (C10 covers them with its table)
        rows.append((j, '(%d%%nat, %s, %s, %s)' % (OPN[j['op']], operand_lit(j['a']), operand_lit(j['b']), res_lit(j['op'], r))))
    shards = []
    step = 400
    for s in range(0, len(rows), step):
        shards.append(HEADER + 'Definition cases : list (nat * ures qv * ures qv * rr) := [\n%s\n].\nEval vm_compute in mm 0 cases.\n' % ';\n'.join(x[1] for x in rows[s:s + step]))
    nbad = 0
    for k, (ok, out) in enumerate(vlib.run_cases_sharded('c11_' + ctx.tier, shards, timeout=1200)):
        val = vlib.coq_eval_value(out) if ok else None
        if val is None:
            ctx.broken.append('correspondence C11 shard %d did not evaluate: %s' % (k, out[-400:]))
            continue
        for i in vlib.parse_nat_list(val):
            nbad += 1
            j = rows[k * step + i][0]
            ctx.violate('corr:%s|%s|%s' % (j['op'], j['a'], j['b']), 'model and implementation disagree on an operator', j, 'model', rs[jobs.index(j)])
    ctx.sample(jobs[0])
    ctx.sample(jobs[len(jobs) // 2])
    ctx.coverage.update({
        'rule': 'all ordered pairs of %d dimensions x {+,-,<,<=,>,>=,==,!=,*,/} with equal / negated / zero / random magnitudes and alternative '
                'compatible units; quantity with bare numbers (0, 0.0, non-zero) on either side; powers, negation, abs; array operands '
                '(oracle only). distinct by (operator, operands)' % len(DIMS),
        'histogram': hist, 'exhaustive': False, 'correspondence_cases': len(rows), 'correspondence_mismatches': nbad})


def replay(ctx, rec):
    c = rec['case']
    if not isinstance(c, dict) or 'op' not in c:
        return True
    r, _ = vlib.run_impl('units', {'cases': [c]})
    r = r['results'][0]
    exp = rec.get('expected')
    if exp == 'UnitsError':
        return r.get('exc') == 'UnitsError'
    if isinstance(exp, (bool, int, float)) and 'v' in r:
        return r['v'] == exp or abs(r['v'] - exp) <= 1e-9 * (1 + abs(exp))
    return 'exc' not in r
