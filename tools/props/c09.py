"""C09 - reading RING text always ends with a query or a RING error."""
import time
import vlib
import ringgen
import ringcorr
from vlib import g_str

GEN = ['grammar', 'elements']
COQ_DEPS = ['Ring/PegCorr.vo', 'Ring/Peg_cert.vo', 'Gen/RingGrammar.vo', 'Gen/Elements.vo']
ALLOWED = ('RINGSyntaxError', 'RINGReaderError', 'NotImplementedError')


def gen_texts(ctx):
    rng = ctx.rng
    texts = list(ringgen.FIXED) + list(ringgen.RULES) + list(ringgen.BIMOLECULAR) + list(ringgen.BIGNUM) + list(ringgen.DEEP)
    hist = {'fixed': len(texts)}
    valid = [ringgen.fragment(rng, unsupported=rng.random() < 0.2, collide=rng.random() < 0.12) for _ in range(ctx.n(500, 15000))]
    hist['generated'] = len(valid)
    texts += valid
    # every prefix of a few valid texts
    pref = []
    for t in rng.sample(valid, ctx.n(8, 150)) + ringgen.RULES[:ctx.n(2, 7)]:
        pref += [t[:i] for i in range(len(t))]
    hist['prefixes'] = len(pref)
    texts += pref
    mal = [ringgen.malformed(rng, rng.choice(valid + ringgen.RULES)) for _ in range(ctx.n(700, 20000))]
    hist['malformed'] = len(mal)
    texts += mal
    # long but flat valid input: sizes the unmodified reader handles (its recursion limit is reached near 190 atoms / 190
    # transformations / 135 constraints: the known finding is about inputs BEYOND that)
    texts += [ringgen.long_chain(n) for n in (20, 60, 110, 150, 300)]
    texts += [ringgen.long_rule(n) for n in (60, 150)] + [ringgen.long_constraints(n) for n in (40, 100)]
    return list(dict.fromkeys(texts)), hist


def text_guard(t):
    return '\x00' not in t


def run(ctx):
    ctx.assumptions += [
        'models Ring/Peg.v (combinators, ParseState) and Ring/Reader.v (tree -> fragment) are hand-written; the grammar object is regenerated from '
        '/repo on every run (tools/gen.py grammar) and the element table from RDKit; tie = correspondence run in this check',
        'compared: outcome class, (line, column) of syntax errors, the parse tree of accepted texts; messages are not compared',
        'CPython str classification of non-ASCII characters (isdigit/isdecimal/isalpha/islower) is supplied with each shard',
        'wall-clock bound: each Read runs under a 5 s alarm in a child; the host recursion limit is runtime (known finding for very long chains)',
        'reaction-rule texts: parsing is compared here, reading them is C16']
    texts, hist = gen_texts(ctx)
    texts = [t for t in texts if text_guard(t)]
    t0 = time.time()
    rp = vlib.run_impl_sharded('ring', [{'op': 'parse', 'text': t, 'timeout': 5} for t in texts], timeout=1800)
    rr = vlib.run_impl_sharded('ring', [{'op': 'read', 'text': t, 'timeout': 5} for t in texts], timeout=1800)
    # one process reading several texts that use the same unknown element one after the other
    same = [t for t in ringgen.SAME_PROCESS if t not in texts]
    for op, dst in (('parse', rp), ('read', rr)):
        r1, diag = vlib.run_impl('ring', {'cases': [{'op': op, 'text': t, 'timeout': 5} for t in same]}, timeout=600)
        dst += r1['results'] if r1 else [{'_child_failed': diag} for _ in same]
    texts += same
    hist['same_process'] = len(same)
    hist['impl_wall_s'] = round(time.time() - t0, 1)
    kinds = {}
    for t, r in zip(texts, rr):
        if '_child_failed' in r:
            ctx.broken.append('implementation child failed: ' + r['_child_failed'][:300])
            break
        k = r.get('exc', 'query')
        kinds[k] = kinds.get(k, 0) + 1
        ctx.count(t, nontrivial=len(t) > 8)
        if k == 'Timeout':
            ctx.violate('hang:' + t[-30:], 'reading did not finish within 5 s', {'op': 'read', 'text': t}, 'bounded time', r)
        elif k in ('AssertionError', 'IndexError') and ringgen.has_group_or_duplicates(t):
            ctx.violate('rule-group-duplicates', 'a rule with a reactant group or a duplicated reactant cannot be read (%s)' % k,
                        {'op': 'read', 'text': t}, 'query or RING error', r)
        elif k == 'RecursionError':
            ctx.violate('recursion-long-chain' if (t.startswith('fragment a{C labeled c0 C labeled c1 single') and t.count(' labeled ') > 160) else 'recursion:%d:%s' % (len(t), t[:40]), 'reading escaped with RecursionError', {'op': 'read', 'text': t[:200] + '...', 'len': len(t)},
                        'query or RING error', r)
        elif k == 'TypeError' and 'labeled AtomLabel' in t:
            ctx.violate('label-named-AtomLabel', 'a label literally named AtomLabel makes reading fail with TypeError', {'op': 'read', 'text': t},
                        'query or RING error', r)
        elif k not in ALLOWED and k != 'query':
            ctx.violate('internal:%s:%s' % (k, r.get('msg', '')[:40]), 'reading escaped with the internal exception %s' % k,
                        {'op': 'read', 'text': t}, 'query or RING error', r)
        elif k == 'RINGSyntaxError':
            lines = t.split('\n')
            if not (1 <= r['line'] <= len(lines) + 1 and 1 <= r['col'] <= len(t) + 2):
                ctx.violate('syntax-pos:' + t[:40], 'syntax error position lies outside the text', {'op': 'read', 'text': t}, 'inside', r)
    # scaling series (thorough): time per Read must stay bounded
    if ctx.thorough():
        for n in (40, 80, 120):
            t = ringgen.long_chain(n)
            t1 = time.time()
            vlib.run_impl('ring', {'cases': [{'op': 'read', 'text': t, 'timeout': 20}]})
            hist['read_chain_%d_s' % n] = round(time.time() - t1, 2)
    for t in texts[len(ringgen.FIXED) + 7:len(ringgen.FIXED) + 10]:
        ctx.sample({'text': t})
    # correspondence: parse outcome and read outcome class
    shards = []
    step = 250
    for s in range(0, len(texts), step):
        T = texts[s:s + step]
        rows = []
        for t, a, b in zip(T, rp[s:s + step], rr[s:s + step]):
            cls, l, c = ringcorr.read_class(b)
            rows.append('(%s, %s, (%d%%nat, %d%%nat, %d%%nat))' % (g_str(t), ringcorr.parse_out_lit(a), cls, l, c))
        shards.append(ringcorr.header(T) + 'Definition cases : list (str * pout * (nat * nat * nat)) := [\n%s\n].\n'
                      'Fixpoint mm (i : nat) (l : list (str * pout * (nat * nat * nat))) : list nat :=\n'
                      '  match l with [] => [] | (t, p, (k, ln, cl)) :: r =>\n'
                      '    if pout_same (P t) p && rout_same (R t) k ln cl then mm (S i) r else i :: mm (S i) r end.\n'
                      'Eval vm_compute in mm 0 cases.\n' % ';\n'.join(rows))
    nbad = 0
    for k, idx in ringcorr.run_shards(ctx, 'c09_' + ctx.tier, shards):
        for i in idx:
            gi = k * step + i
            r = rr[gi]
            if r.get('exc') in ('Timeout', 'RecursionError'):
                continue        # already reported above as hang / recursion / rule finding
            nbad += 1
            ctx.violate('corr:' + texts[gi][:60], 'model (parser + reader) and implementation disagree on a text',
                        {'op': 'read', 'text': texts[gi]}, 'model outcome', {'parse': {k2: v for k2, v in rp[gi].items() if k2 != 'tree'} or 'tree', 'read': r})
    ctx.coverage.update({
        'rule': 'valid fragments from the grammar generator (1..8 atoms, every symbol class/prefix/suffix/bond kind/constraint form, random layout and '
                'labels, unsupported Booleans, label collisions/undefined labels), every prefix of sampled texts, single-token deletions / '
                'substitutions / duplications / insertions, random printable and non-ASCII text, empty and whitespace input, rule texts. '
                'distinct by text; non-trivial = longer than 8 characters',
        'histogram': dict(hist, outcomes=kinds), 'correspondence_cases': len(texts), 'correspondence_mismatches': nbad})


def replay(ctx, rec):
    c = rec['case']
    if not isinstance(c, dict) or 'text' not in c or c.get('len'):
        t = ringgen.long_chain(400) if isinstance(c, dict) and c.get('len') else None
        if t is None:
            return True
        c = {'text': t}
    r, _ = vlib.run_impl('ring', {'cases': [{'op': 'read', 'text': c['text'], 'timeout': 5}]})
    r = r['results'][0]
    return r.get('exc', 'query') in ALLOWED + ('query',)
