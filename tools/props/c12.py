"""C12 - loading a library does not depend on the units its data use."""
import os
import shutil
import vlib
from props import c05
from vlib import g_str, g_list

COQ_DEPS = ['Units/Loader.vo']
GEN = ['units']
RC = 8.314472
E_UNITS = {'J/mol': 1.0, 'kJ/mol': 1e3, 'kcal/mol': 4184.0, 'cal/mol': 4.184, 'eV/molecule': 1.602176487e-19 * 6.02214179e23,
           'MJ/kmol': 1e3, 'mJ/mmol': 1.0, 'kJ/kmol': 1.0, 'BTU/mol': 1054.35026444, 'erg/mol': 1e-7, 'J/mmol': 1e3,
           'daJ/mol': 10.0, 'dacal/mol': 41.84, 'hJ/mol': 100.0, 'J/damol': 0.1,
           # the same units written with negative powers
           'W h/mol': 3600.0, 'kW h/mol': 3.6e6, 'W min/mol': 60.0, 'mJ/mol': 1e-3, 'mcal/mol': 4.184e-3, 'kJ mol^-1': 1e3, 'J kmol^-1': 1e-3, 'cal mmol^-1': 4184.0, 'eV molecule^-1': 1.602176487e-19 * 6.02214179e23, 'MJ kmol^-1': 1e3}
S_UNITS = {'J/(mol K)': 1.0, 'J/(mol*K)': 1.0, 'J/mol/K': 1.0, 'cal/(mol K)': 4.184, 'cal/(mol*K)': 4.184, 'kJ/(mol K)': 1e3,
           'kcal/(kmol K)': 4.184, 'mJ/(mol mK)': 1.0, 'J/(mol kK)': 1e-3, 'eV/(molecule K)': 1.602176487e-19 * 6.02214179e23,
           'daJ/(mol K)': 10.0, 'J/(mol daK)': 0.1, 'mW h/(mol K)': 3.6, 'W s/(mol K)': 1.0, 'mJ/(mol K)': 1e-3, 'mcal/(mol K)': 4.184e-3, 'mcal/(mol*K)': 4.184e-3, 'mJ/mol/K': 1e-3, 'J mol^-1 K^-1': 1.0, 'J kmol^-1 K^-1': 1e-3, 'cal mol^-1 mK^-1': 4184.0, 'kJ kmol^-1 K^-1': 1.0}
T_UNITS = {'K': 1.0, 'mK': 1e-3, 'kK': 1e3, 'hK': 100.0, 'cK': 0.01, 'daK': 10.0, 'dK': 0.1}
GROUPS = ['C(C)(H)3', 'C(C)2(H)2', 'O(C)(H)', 'CO(C)(H)']


def q(x):
    return vlib.g_Qf(x)


def truth(rng):
    n = rng.choice([0, 1, 3, 5])
    Ts = sorted(rng.sample([100.0, 200.0, 300.0, 400.0, 500.0, 700.0, 1000.0, 1500.0], n))
    t = {'T_ref': rng.choice([298.15, 298.0, 300.0, 298.15, 298.12, 299.96, 298.04]),
         'H': rng.choice([0.0, 0, round(rng.uniform(-3e5, 2e5), 1), -41840.0, None]),
         'S': rng.choice([0.0, round(rng.uniform(-50, 300), 3), 4.184, None]),
         'tab': [(T, rng.choice([0.0, round(rng.uniform(-5, 90), 3)])) for T in Ts],
         'range': rng.choice([None, [50.0, 3000.0]]) if n == 0 else [50.0, 3000.0]}
    return t


def fmt_num(rng, x, dot=False):
    """a number as YAML text: int-looking when integral, sometimes; with dot=True sometimes without the digit before the point (.5, -.25)"""
    if float(x) == int(x) and rng.random() < 0.5:
        return str(int(x))
    r = repr(float(x))
    if 'e' in r or 'E' in r:       # the unit grammar has no exponent notation
        r = ('%.25f' % float(x)).rstrip('0')
        if r.endswith('.'):
            r += '0'
    if dot and 0 < abs(float(x)) < 1 and rng.random() < 0.5:
        r = r.replace('0.', '.', 1)
    return r


def present(rng, x_si, units, mode, default):
    """returns (yaml text, (kind_unit or None, ('num', v) | ('str', s)))"""
    if mode == 'default':
        f = units[default]
        v = x_si / f
        return fmt_num(rng, v), (default, ('num', float(fmt_num(rng, v)) if False else v))
    u = rng.choice(sorted(units))
    if 'm' + default in units and rng.random() < 0.25:
        u = 'm' + default           # the file's default unit with a prefix in front of it
    v = x_si / units[u]
    n_ = fmt_num(rng, v, dot=True)
    txt = '%s %s' % (n_, u) if v >= 0 else '(%s) %s' % (n_, u)
    if v < 0 and rng.random() < 0.7:
        txt = '%s %s' % (n_, u)
    return txt, (None, ('str', txt))


def render_group(rng, t, pres, defaults, omit_tref=False):
    """pres: 'default' | 'explicit' | 'nd' | 'mixed'"""
    lines = []
    coq = {}

    def mode():
        if pres == 'mixed':
            return rng.choice(['default', 'explicit'])
        return pres
    m = mode() if pres != 'nd' else rng.choice(['default', 'explicit'])
    txt, c = present(rng, t['T_ref'], T_UNITS, m, defaults['temperature'])
    if omit_tref and t['T_ref'] == 298.15:
        # the documented default of the record: 298.15 K whatever the file's default temperature unit is
        c = (None, ('str', '298.15 K'))
    else:
        lines.append('T_ref: %s' % txt)
    coq['T'] = c
    nd = pres == 'nd' or (pres == 'mixed' and rng.random() < 0.3)
    if t['H'] is not None:
        if nd:
            v = t['H'] / (RC * t['T_ref'])
            lines.append('ND_H_ref: %s' % fmt_num(rng, v))
            coq['H'] = ('nd', v)
        else:
            txt, c = present(rng, t['H'], E_UNITS, mode(), defaults['molar enthalpy'])
            lines.append('H_ref: %s' % txt)
            coq['H'] = c
    nd = pres == 'nd' or (pres == 'mixed' and rng.random() < 0.3)
    if t['S'] is not None:
        if nd:
            v = t['S'] / RC
            lines.append('ND_S_ref: %s' % fmt_num(rng, v))
            coq['S'] = ('nd', v)
        else:
            txt, c = present(rng, t['S'], S_UNITS, mode(), defaults['molar entropy'])
            lines.append('S_ref: %s' % txt)
            coq['S'] = c
    nd = pres == 'nd' or (pres == 'mixed' and rng.random() < 0.3)
    if t['tab']:
        lines.append('ND_Cp_data:' if nd else 'Cp_data:')
        coq['Cp'] = []
        for T, cp in t['tab']:
            tt, ct = present(rng, T, T_UNITS, mode(), defaults['temperature'])
            if nd:
                lines.append('  - [%s, %s]' % (tt, fmt_num(rng, cp / RC)))
                coq['Cp'].append((ct, ('nd', cp / RC)))
            else:
                tc, cc = present(rng, cp, S_UNITS, mode(), defaults['molar heat capacity'])
                lines.append('  - [%s, %s]' % (tt, tc))
                coq['Cp'].append((ct, cc))
    if t['range']:
        a, _ = present(rng, t['range'][0], T_UNITS, mode(), defaults['temperature'])
        b, _ = present(rng, t['range'][1], T_UNITS, mode(), defaults['temperature'])
        lines.append('range: [%s, %s]' % (a, b))
    if not lines:
        lines.append('T_ref: 298.15 K')     # a record has to be a mapping
    return lines, coq


def rnd_defaults(rng):
    return {'molar enthalpy': rng.choice(sorted(E_UNITS)), 'molar entropy': rng.choice(sorted(S_UNITS)),
            'molar heat capacity': rng.choice(sorted(S_UNITS)), 'temperature': rng.choice(sorted(T_UNITS))}


def write_lib(root, truths, pres, rng, with_units_block=True, split=False, omit_tref=False):
    """split: the groups are spread over library.yaml and an included file, EACH with its own (different) block of default units"""
    if os.path.exists(root):
        shutil.rmtree(root)
    os.makedirs(root)
    with open(os.path.join(root, 'scheme.yaml'), 'w') as f:
        f.write('patterns: []\n')
    names = list(truths)
    parts = [('library.yaml', names)]
    if split:
        k = rng.randint(0, len(names) - 1)
        parts = [('library.yaml', names[:k]), ('inc.yaml', names[k:])]
    coqs = {}
    for fname, gs in parts:
        defaults = rnd_defaults(rng)
        out = []
        if fname == 'library.yaml' and split:
            out.append('include: [inc.yaml]')
        if with_units_block:
            out.append('units:')
            out += ['  %s: %s' % (k, v) for k, v in defaults.items()]
        out.append('groups:' if gs else 'groups: {}')
        for g in gs:
            lines, coq = render_group(rng, truths[g], pres, defaults, omit_tref=omit_tref)
            coqs[g] = coq
            out.append("  '%s':\n    'thermochem':\n%s" % (g, '\n'.join('      ' + l for l in lines)))
        with open(os.path.join(root, fname), 'w') as f:
            f.write('\n'.join(out) + '\n')
    return os.path.join(root, 'library.yaml'), coqs


HEADER = '''From Coq Require Import List NArith ZArith QArith Qabs Bool.
From PG Require Import Common.Strs Units.Model Units.DB Units.Loader.
Import ListNotations.
Definition tol : Q := 1 # 10000000000.
Definition vclose (a b : Q) : bool := Qle_bool (Qabs (a - b)) (tol * (Qabs a + Qabs b)).
Definition getq (x : lres qv) : ures qv := match x with LOk q => UOk q | LRaise _ => URaise InternalErr end.
Definition okH (c : lres qv * lres qv * Q) : bool :=
  let '(h, t, i) := c in
  match ubind (getq h) (fun hq => ubind (getq t) (fun tq => nd_H hq tq)) with
  | UOk (Num x) => vclose x i | _ => false end.
Definition okS (c : lres qv * Q) : bool :=
  match ubind (getq (fst c)) nd_S with UOk (Num x) => vclose x (snd c) | _ => false end.
Definition okT (c : lres qv * Q) : bool :=
  match ubind (getq (fst c)) in_K with UOk x => vclose x (snd c) | _ => false end.
'''


def load_lit(c):
    ku, (kind, v) = c
    kul = 'None' if ku is None else '(Some %s)' % g_str(ku)
    yv = '(YNum %s)' % q(v) if kind == 'num' else '(YStr %s)' % g_str(v)
    return '(qty_load %s %s)' % (kul, yv)


def run(ctx):
    ctx.assumptions += [
        'model Units/Loader.v (qty_loader, with_units, non-dimensionalisation with Consts.GAS_CONSTANT) on top of the C10 evaluator; hand-written; '
        'tie = correspondence run in this check',
        'YAML text -> tree (PyYAML, yaml_io/schema.py dispatch) is outside the model: exercised by the direct oracle (all presentations must agree pairwise)',
        'values at 1e-10 relative']
    rng = ctx.rng
    jobs = []
    meta = []
    for i in range(ctx.n(40, 600)):
        truths = {g: truth(rng) for g in rng.sample(GROUPS, rng.randint(1, 3))}
        evalTs = [298.15, 300.0, 450.0, 1000.0]
        variants = []
        for k, pres in enumerate(['default', 'explicit', 'nd', 'mixed', 'mixed', 'split', 'notref']):
            root = os.path.join(vlib.WORK, 'c12_%d_%d' % (i, k))
            if pres == 'split':
                path, coqs = write_lib(root, truths, rng.choice(['default', 'mixed']), rng, split=True)
            elif pres == 'notref':
                path, coqs = write_lib(root, truths, rng.choice(['default', 'mixed', 'explicit', 'nd']), rng, omit_tref=True,
                                       split=rng.random() < 0.3)
            else:
                path, coqs = write_lib(root, truths, pres, rng)
            variants.append((pres, path, coqs))
            jobs.append({'op': 'load_tree', 'path': path, 'evalTs': evalTs})
            meta.append((i, pres, truths, coqs))
    # dimensional values without any unit: must be rejected
    miss = []
    for i in range(ctx.n(16, 60)):
        t = truth(rng)
        t['H'] = 1234.5
        root = os.path.join(vlib.WORK, 'c12_miss_%d' % i)
        os.makedirs(root, exist_ok=True)
        open(os.path.join(root, 'scheme.yaml'), 'w').write('patterns: []\n')
        open(os.path.join(root, 'library.yaml'), 'w').write(
            "groups:\n  'C(C)(H)3':\n    'thermochem':\n      T_ref: 298.15 K\n      %s\n"
            % rng.choice(['H_ref: 12.5', 'S_ref: 3', 'Cp_data:\n        - [300 K, 2.5]', 'Cp_data:\n        - [300, 2.5 J/(mol K)]',
                          'H_ref: 0', 'H_ref: 0.0', 'S_ref: -0.0', 'S_ref: 0', 'Cp_data:\n        - [300 K, 0]', 'Cp_data:\n        - [300 K, 0.0]']))
        miss.append({'op': 'load_tree', 'path': os.path.join(root, 'library.yaml')})
    res = c05.run_jobs(jobs + miss)
    rj, rm = res[:len(jobs)], res[len(jobs):]
    for j, r in zip(miss, rm):
        ctx.count(j['path'])
        if r.get('exc') != 'InputDataError':
            ctx.violate('missing-unit:' + open(j['path']).read()[-40:], 'a dimensional value without any unit was not rejected with InputDataError',
                        {'path': j['path'], 'text': open(j['path']).read()}, 'InputDataError', str(r)[:200])
    hist = {'libraries': len(jobs), 'missing_unit': len(miss)}
    by = {}
    rows_H, rows_S, rows_T = [], [], []
    for (i, pres, truths, coqs), j, r in zip(meta, jobs, rj):
        ctx.count(j['path'])
        hist[pres] = hist.get(pres, 0) + 1
        key = 'lib:%d:%s' % (i, pres)
        if 'contents' not in r:
            ctx.violate('load-failed:%s:%s' % (pres, r.get('exc')), 'a library in presentation %r failed to load: %s' % (pres, r.get('exc')),
                        {'path': j['path'], 'text': open(j['path']).read()[:1500]}, 'loads', str(r)[:300])
            continue
        for g, t in truths.items():
            c = r['contents'].get(g)
            want_H = None if t['H'] is None else t['H'] / (RC * t['T_ref'])
            want_S = None if t['S'] is None else t['S'] / RC
            got = {'H': c['H'], 'S': c['S'], 'T_ref': c['T_ref'], 'tab': c['tab']}
            bad = []
            for nm, want in (('H', want_H), ('S', want_S)):
                x = got[nm]
                if (want is None) != (x is None):
                    bad.append(nm + ' presence')
                elif x is not None and (x['v'] is None or x['type'] not in ('float', 'float64', 'int')):
                    bad.append(nm + ' is not a plain number (%s)' % x['type'])
                elif x is not None and abs(x['v'] - want) > 1e-9 * (1e-9 + abs(want)):
                    bad.append(nm + ' value')
            if abs(c['T_ref'] - t['T_ref']) > 1e-9 * t['T_ref']:
                bad.append('T_ref')
            tab = sorted((tt, v) for tt, v in c['tab'])
            if len(tab) != len(t['tab']):
                bad.append('table size')
            else:
                for (tt, v), (T, cp) in zip(tab, sorted(t['tab'])):
                    if abs(tt - T) > 1e-9 * T or v['v'] is None or v['type'] not in ('float', 'float64') or abs(v['v'] - cp / RC) > 1e-9 * (1e-9 + abs(cp / RC)):
                        bad.append('Cp(%r)' % T)
            if bad:
                ctx.violate(key + '|' + g, 'loaded values depend on the unit presentation or are not plain numbers: %s' % ', '.join(bad[:4]),
                            {'path': j['path'], 'group': g, 'presentation': pres, 'text': open(j['path']).read()[:1500]},
                            {'H': want_H, 'S': want_S}, {k: (v if not isinstance(v, list) else v[:3]) for k, v in got.items()})
            by.setdefault((i, g), []).append((pres, r['vals'].get(g)))
            cq = coqs[g]
            if len(rows_T) < ctx.n(150, 1500):
                if isinstance(cq['T'][1], tuple):
                    rows_T.append('(%s, %s)' % (load_lit(cq['T']), q(c['T_ref'])))
                if 'H' in cq and cq['H'][0] != 'nd' and c['H'] and c['H']['v'] is not None:
                    rows_H.append('(%s, %s, %s)' % (load_lit(cq['H']), load_lit(cq['T']), q(c['H']['v'])))
                if 'S' in cq and cq['S'][0] != 'nd' and c['S'] and c['S']['v'] is not None:
                    rows_S.append('(%s, %s)' % (load_lit(cq['S']), q(c['S']['v'])))
                for (ct, cc), (tt, v) in zip(cq.get('Cp', []), c['tab']):
                    if cc[0] != 'nd' and v['v'] is not None:
                        rows_S.append('(%s, %s)' % (load_lit(cc), q(v['v'])))
    # evaluated properties agree pairwise across presentations
    for (i, g), lst in by.items():
        base = lst[0][1]
        for pres, v in lst[1:]:
            if not base or not v:
                continue
            for p in ('cp', 'h', 's'):
                for a, b in zip(base[p], v[p]):
                    if ('exc' in a) != ('exc' in b) or ('exc' not in a and (a['v'] is None or b['v'] is None or abs(a['v'] - b['v']) > 1e-8 * abs(a['v']) + 1e-9)):
                        ctx.violate('pair:%d:%s:%s' % (i, g, pres), 'evaluated %s differs between presentations %s and %s' % (p, lst[0][0], pres),
                                    {'lib': i, 'group': g}, a, b)
                        break
    ctx.sample({'text': open(jobs[0]['path']).read()[:600]})
    ctx.sample({'text': open(jobs[3]['path']).read()[:600]})
    texts = []
    step = 200
    groups = [('okH', rows_H), ('okS', rows_S), ('okT', rows_T)]
    idx = []
    for fn, rows in groups:
        for s in range(0, len(rows), step):
            texts.append(HEADER + 'Definition cases := [\n%s\n].\nFixpoint mm {A} (f : A -> bool) (i : nat) (l : list A) : list nat := '
                         'match l with [] => [] | c :: r => if f c then mm f (S i) r else i :: mm f (S i) r end.\n'
                         'Eval vm_compute in mm %s 0 cases.\n' % (';\n'.join(rows[s:s + step]), fn))
            idx.append((fn, s, rows))
    nbad = 0
    for k, (ok, out) in enumerate(vlib.run_cases_sharded('c12_' + ctx.tier, texts, timeout=1200)):
        val = vlib.coq_eval_value(out) if ok else None
        if val is None:
            ctx.broken.append('correspondence C12 shard %d did not evaluate: %s' % (k, out[-400:]))
            continue
        for i in vlib.parse_nat_list(val):
            nbad += 1
            fn, s, rows = idx[k]
            ctx.violate('corr:%s:%d' % (fn, s + i), 'model loader and implementation disagree on a loaded value', {'case': rows[s + i]}, 'model', None)
    ctx.coverage.update({
        'rule': 'synthetic libraries of 1..3 groups (tables of 0/1/3/5 points, reference values incl. 0, int 0 and negative, ranges) written in 5 '
                'presentations each: default-unit block, explicit unit strings (11 enthalpy, 10 entropy, 5 temperature spellings incl. prefixes), '
                'non-dimensional keys, two random mixtures; plus dimensional values with no unit available. distinct by file',
        'histogram': hist, 'correspondence_cases': len(rows_H) + len(rows_S) + len(rows_T), 'correspondence_mismatches': nbad})


def replay(ctx, rec):
    c = rec['case']
    if isinstance(c, dict) and c.get('path') and os.path.exists(c['path']):
        r = c05.run_jobs([{'op': 'load_tree', 'path': c['path'], 'evalTs': [298.15]}])[0]
        if rec['key'].startswith('missing-unit'):
            return r.get('exc') == 'InputDataError'
        return 'contents' in r and all(v is None or all(x is None or x.get('type') in ('float', 'float64', 'int') for x in (v['H'], v['S'])) for v in r['contents'].values())
    return True
