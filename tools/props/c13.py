"""C13 - merging library files is a conflict-checked, order-free union."""
import itertools
import os
import shutil
import vlib
import thermogen
from props import c05
from vlib import g_list, g_str

COQ_DEPS = ['Thermo/Corr.vo']
ERR = {'ReadOnlyDataError': 'ReadOnlyData', 'ValueError': 'ValueErr', 'AssertionError': 'AssertErr',
       'IncompleteDataError': 'IncompleteData', 'KeyError': 'KeyErr'}
WIDE = [50.0, 3000.0]


def q(x):
    return vlib.g_Qf(x)


def truth(rng):
    n = rng.choice([2, 3, 4, 6])
    Ts = sorted(rng.sample([100.0, 200.0, 298.15, 300.0, 400.0, 500.0, 600.0, 800.0, 1000.0, 1500.0], n))
    return {'T_ref': rng.choice([298.15, 300.0, 500.0]), 'H': rng.choice([0.0, round(rng.uniform(-30, 30), 3)]),
            'S': rng.choice([0.0, round(rng.uniform(0, 40), 3)]), 'tab': {T: round(rng.uniform(0.0, 12), 3) for T in Ts}}


def piece(rng, tr, conflict=False):
    p = {'T_ref': tr['T_ref'], 'H': None, 'S': None, 'Ts': [], 'Cps': [], 'range': None}
    k = rng.random()
    if rng.random() < 0.5:
        p['H'] = tr['H']
    if rng.random() < 0.5:
        p['S'] = tr['S']
    if rng.random() < 0.7:
        Ts = rng.sample(sorted(tr['tab']), rng.randint(1, len(tr['tab'])))
        p['Ts'] = Ts
        p['Cps'] = [tr['tab'][T] for T in Ts]
        p['range'] = list(WIDE)
        if rng.random() < 0.5:
            # a range that just covers this piece: merging then has to WIDEN the range of what it is merged into
            lo, hi = min(Ts + [tr['T_ref']]), max(Ts + [tr['T_ref']])
            p['range'] = [max(WIDE[0], lo - rng.choice([0.0, 10.0, 48.15])), min(WIDE[1], hi + rng.choice([0.0, 25.0, 200.0]))]
    elif rng.random() < 0.3:
        p['range'] = rng.choice([list(WIDE), [100.0, 1500.0]])
    if conflict:
        opts = [x for x in ('H', 'S') if p[x] is not None] + (['Cp'] if p['Ts'] else [])
        if not opts:
            p['H'] = tr['H']
            opts = ['H']
        c = rng.choice(opts)
        if c == 'Cp':
            i = rng.randrange(len(p['Cps']))
            if rng.random() < 0.3:
                # a relative difference far below any "close enough" tolerance is still a different value
                p['Cps'][i] = p['Cps'][i] * (1 + rng.choice([3e-10, -2e-11, 5e-13])) if p['Cps'][i] else 1e-12
            else:
                p['Cps'][i] = round(p['Cps'][i] + rng.choice([0.5, -1.0, 1e-6]), 7)
        else:
            p[c] = round(p[c] + rng.choice([1.0, -0.25, 1e-6]), 7)
        p['conflict'] = c
    return p


def inc_lit(st):
    def oq(x):
        return 'None' if x is None else '(Some %s)' % q(x['v'] if isinstance(x, dict) else x)
    tab = g_list(['(%s, %s)' % (q(t), q(v['v'] if isinstance(v, dict) else v)) for t, v in st['tab']])
    rng_ = 'None' if not st['range'] else '(Some (%s, %s))' % (q(st['range'][0]), q(st['range'][1]))
    return '(Build_inc (K:=Qops) %s %s %s %s %s)' % (oq(st['H']), oq(st['S']), tab, q(st['T_ref']), rng_)


def rec_state(p):
    return {'H': p['H'], 'S': p['S'], 'tab': list(zip(p['Ts'], p['Cps'])), 'T_ref': p['T_ref'], 'range': p['range']}


HEADER = '''From Coq Require Import List NArith Bool QArith.
From PG Require Import Common.Strs Thermo.Num Thermo.RawData Thermo.Merge Thermo.Corr.
Import ListNotations.
Definition tol : Q := 1 # 100000000000.
'''


def plain(x):
    return None if x is None else x['v']


def r12(x):
    """canonical form for comparing merged values (merging through a table
    re-computes H as (H*T)/T: one ulp of noise is not a different datum)"""
    return None if x is None else float('%.11e' % x)


def oracle_seq(ctx, job, res, key):
    prev = rec_state(job['init'])
    prev['tab'] = [[t, v] for t, v in prev['tab']]
    for k, (st, r) in enumerate(zip(job['steps'], res['steps'])):
        if 'other_exc' in r:
            continue
        o = st['other']
        now = {'H': plain(r['state']['H']), 'S': plain(r['state']['S']), 'tab': [[t, v['v']] for t, v in r['state']['tab']],
               'T_ref': r['state']['T_ref'], 'range': r['state']['range']}
        kk = '%s|step%d' % (key, k)
        if not r['other_unchanged']:
            ctx.violate(kk + '|other', 'update modified the correlation it was reading from', job, 'unchanged', r)
        ptab, otab = dict(map(tuple, prev['tab'])), dict(zip(o['Ts'], o['Cps']))
        conflicts = [T for T in otab if T in ptab and ptab[T] != otab[T]]
        for nm in ('H', 'S'):
            if o[nm] is not None and prev[nm] is not None and abs(o[nm] - prev[nm]) > 1e-15 * max(abs(o[nm]), abs(prev[nm])):
                conflicts.append(nm)
        if 'exc' in r:
            if now != prev and r['exc'] == 'ReadOnlyDataError':
                ctx.violate(kk + '|atomic', 'a rejected merge changed the correlation', dict(job, step=k), prev, now)
            elif now != prev:
                ctx.violate('update-raises-after-commit:' + r['exc'], 'update raised %s after it had already stored the merged data' % r['exc'],
                            dict(job, step=k), prev, now)
            if r['exc'] == 'ReadOnlyDataError' and (not conflicts or st.get('overwrite')):
                ctx.violate(kk + '|spurious', 'ReadOnlyDataError without a conflicting datum (or with overwrite requested)', dict(job, step=k), 'merge', r)
            if r['exc'] not in ('ReadOnlyDataError',):
                ctx.violate('update-exc:' + r['exc'], 'update of compatible correlations raised %s' % r['exc'], dict(job, step=k), 'merge or ReadOnlyDataError', r)
        else:
            if conflicts and not st.get('overwrite'):
                ctx.violate(kk + '|missed-conflict', 'two different values for the same datum were merged without the read-only-data error',
                            dict(job, step=k), 'ReadOnlyDataError', {'conflicts': conflicts, 'state': now})
            want_tab = dict(ptab)
            want_tab.update(otab)
            want = {'H': o['H'] if o['H'] is not None else prev['H'], 'S': o['S'] if o['S'] is not None else prev['S']}
            ok = dict(map(tuple, now['tab'])) == want_tab
            for nm in ('H', 'S'):
                if (want[nm] is None) != (now[nm] is None) or (want[nm] is not None and abs(want[nm] - now[nm]) > 1e-12 * (1 + abs(want[nm]))):
                    ok = False
            lo = [x['range'][0] for x in (prev, o) if x['range']]
            hi = [x['range'][1] for x in (prev, o) if x['range']]
            if now['range'] != ([min(lo), max(hi)] if lo else None) or now['T_ref'] != prev['T_ref']:
                ok = False
            if not ok:
                ctx.violate(kk + '|union', 'the merged correlation is not the union of the data (other wins on overwrite)', dict(job, step=k),
                            {'H': want['H'], 'S': want['S'], 'tab': want_tab}, now)
            sv = r.get('self_vals') or {}
            if 'cur' in sv:
                def same_val(a, b):
                    if 'exc' in a or 'exc' in b:
                        return a.get('exc') == b.get('exc')
                    if a.get('v') is None or b.get('v') is None:
                        return a.get('v') == b.get('v')
                    return abs(a['v'] - b['v']) <= 1e-10 * (1 + abs(b['v']))
                for pn in ('cp', 'h', 's'):
                    bad = [T for T, a, b in zip(sv['T'], sv['cur'][pn], sv['fresh'][pn]) if not same_val(a, b)]
                    if bad:
                        ctx.violate(kk + '|stale', 'after a merge the correlation does not evaluate like one constructed afresh from its merged state (%s)' % pn,
                                    dict(job, step=k, T=bad[0]), 'as a fresh correlation', {'T': bad[:4]})
                        break
            sd = r.get('self_dim') or {}
            for nm in sd.get('cur', {}):
                badT = [T for T, a, b in zip(sd['T'], sd['cur'][nm], sd['fresh'][nm]) if not same_val(a, b)] if 'cur' in sv else []
                if badT:
                    ctx.violate(kk + '|stale-dim', 'after a merge %s does not answer like a correlation constructed afresh from the merged state' % nm,
                                dict(job, step=k, T=badT[0]), 'as a fresh correlation', {'T': badT[:4]})
                    break
            if st.get('twice_of') is not None and now != prev and not conflicts:
                ctx.violate(kk + '|idempotent', 'merging the same data twice changed the correlation', dict(job, step=k), prev, now)
        prev = now


def gen_seq(ctx):
    rng = ctx.rng
    tr = truth(rng)
    init = piece(rng, tr)
    steps = []
    for _ in range(rng.randint(1, 7)):
        k = rng.random()
        if k < 0.2 and steps:
            s = dict(steps[-1])
            s['twice_of'] = len(steps) - 1
            s['overwrite'] = rng.choice([False, None, True])
            steps.append(s)
        else:
            steps.append({'other': piece(rng, tr, conflict=rng.random() < 0.25), 'overwrite': rng.choice([False, None, True, False])})
    return {'op': 'update_seq', 'init': init, 'steps': steps}


# ---------- library files ----------
def write_tree(root, files, main, phys=None):
    """files: logical name -> (groups, included logical names); phys: logical name -> path below root
    (include entries are written relative to the including file, as the loader resolves them)"""
    phys = phys or {n: n for n in files}
    if os.path.exists(root):
        shutil.rmtree(root)
    os.makedirs(root)
    for d in sorted(set(os.path.dirname(p) for p in phys.values())):
        os.makedirs(os.path.join(root, d), exist_ok=True)
        with open(os.path.join(root, d, 'scheme.yaml'), 'w') as f:
            f.write('patterns: []\n')
    for name, (groups, incs) in files.items():
        out = []
        here = os.path.dirname(phys[name])
        if incs:
            out.append('include:')
            out += ['  - %s' % os.path.relpath(phys[i], here or '.') for i in incs]
        out.append('groups:')
        for g, p in groups:
            c = {'T_ref': p['T_ref'], 'H': p['H'], 'S': p['S'], 'Ts': p['Ts'], 'Cps': p['Cps'], 'range': p['range']}
            out.append("  '%s':\n    'thermochem':\n%s" % (g, thermogen.corr_yaml_nd(c)))
        if not groups:
            out[-1] = 'groups: {}'
        with open(os.path.join(root, phys[name]), 'w') as f:
            f.write('\n'.join(out) + '\n')
    return os.path.join(root, phys[main])


GROUPS = ['C(C)(H)3', 'C(C)2(H)2', 'O(C)(H)']
ALT_SPELLS = {'C(C)(H)3': ['C(H)3(C)', 'C(H)(C)(H)2', 'C(H)2(C)(H)', 'C(H)(H)(H)(C)', 'C(C)1(H)3', 'C(H)(H)2(C)', 'C(C)(H)(H)2'],
              'C(C)2(H)2': ['C(H)2(C)2', 'C(H)(C)2(H)', 'C(C)(H)2(C)', 'C(H)(C)(H)(C)', 'C(C)(C)(H)2', 'C(H)(C)(C)(H)1'],
              'O(C)(H)': ['O(H)(C)', 'O(H)1(C)', 'O(C)1(H)1']}
ALT_SPELL = {k: v[0] for k, v in ALT_SPELLS.items()}


def gen_tree(ctx, idx):
    """splits of each group's data over 1..4 files; returns the variants
    (include orders / nestings) that must all load to the same contents"""
    rng = ctx.rng
    trs = {g: truth(rng) for g in GROUPS[:rng.randint(1, 3)]}
    nfiles = rng.randint(1, 4)
    names = ['library.yaml'] + ['part%d.yaml' % i for i in range(1, nfiles)]
    per = {n: [] for n in names}
    kind = rng.choice(['clean', 'clean', 'conflict', 'dup'])
    for g, tr in trs.items():
        for n in rng.sample(names, rng.randint(1, len(names))):
            per[n].append((g, piece(rng, tr)))
    if kind == 'conflict':
        g = rng.choice(sorted(trs))
        holders = [n for n in names if any(x[0] == g for x in per[n])]
        n2 = rng.choice(names)
        if not any(x[0] == g for x in per[n2]):
            bad = piece(rng, trs[g], conflict=True)
            per[n2].append((g, bad))
            # a conflict needs a second file giving the clean value
            n3 = rng.choice([n for n in names if n != n2] or [n2])
            clean = {k: v for k, v in bad.items()}
            c = bad['conflict']
            if c == 'Cp':
                clean = dict(bad, Cps=[trs[g]['tab'][T] for T in bad['Ts']])
            else:
                clean = dict(bad, **{c: trs[g][c]})
            if n3 != n2 and not any(x[0] == g for x in per[n3]):
                per[n3].append((g, clean))
            else:
                kind = 'clean-ish'
        else:
            kind = 'clean-ish'
    if kind == 'dup':
        n = rng.choice(names)
        g = rng.choice(sorted(trs))
        if not any(x[0] == g for x in per[n]):
            per[n].append((g, piece(rng, trs[g])))
        per[n].append((rng.choice(ALT_SPELLS[g]), piece(rng, trs[g])))
    elif rng.random() < 0.4:
        # the same group under ANOTHER spelling in some of the files: still one group
        for n in names:
            per[n] = [(rng.choice(ALT_SPELLS[g]) if rng.random() < 0.5 else g, p_) for g, p_ in per[n]]
    shapes = []
    others = names[1:]
    perms = list(itertools.permutations(others))
    rng.shuffle(perms)
    for perm in perms[:ctx.n(3, 6)]:
        shapes.append({'library.yaml': list(perm), **{o: [] for o in others}})          # star
        chain = {'library.yaml': list(perm[:1])}
        for a, b in zip(perm, perm[1:] + (None,)):
            chain[a] = [b] if b else []
        shapes.append(chain)                                                             # chain
    if not others:
        shapes = [{'library.yaml': []}]
    variants = []
    for si, sh in enumerate(shapes):
        files = {n: (per[n], sh.get(n, [])) for n in names}
        root = os.path.join(vlib.WORK, 'c13_tree_%d_%d' % (idx, si))
        variants.append({'op': 'load_tree', 'path': write_tree(root, files, 'library.yaml'), 'files': files, 'kind': kind})
    if len(names) == 4:
        # the same tree spread over directories: two DIFFERENT files are included under the same relative string 'extra.yaml'
        a, b, c = others
        files = {'library.yaml': (per['library.yaml'], [a, b]), a: (per[a], []), b: (per[b], [c]), c: (per[c], [])}
        phys = {'library.yaml': 'library.yaml', a: 'extra.yaml', b: 'sub/mid.yaml', c: 'sub/extra.yaml'}
        root = os.path.join(vlib.WORK, 'c13_tree_%d_dirs' % idx)
        variants.append({'op': 'load_tree', 'path': write_tree(root, files, 'library.yaml', phys), 'files': files, 'kind': kind})
        files2 = {'library.yaml': (per['library.yaml'], [b, a]), a: (per[a], []), b: (per[b], [c]), c: (per[c], [])}
        root = os.path.join(vlib.WORK, 'c13_tree_%d_dirs2' % idx)
        variants.append({'op': 'load_tree', 'path': write_tree(root, files2, 'library.yaml', phys), 'files': files2, 'kind': kind})
        # the library directory reached through a symbolic link while one include climbs out of it with '..'
        phys3 = {'library.yaml': 'deep/lib/library.yaml', a: 'deep/a.yaml', b: 'deep/lib/b.yaml', c: 'deep/lib/sub/c.yaml'}
        root = os.path.join(vlib.WORK, 'c13_tree_%d_link' % idx)
        write_tree(root, files, 'library.yaml', phys3)
        os.symlink(os.path.join(root, 'deep', 'lib'), os.path.join(root, 'link'))
        with open(os.path.join(root, 'a.yaml'), 'w') as f_:
            f_.write("groups:\n  'Zz(Q)':\n    'thermochem':\n      T_ref: 298.15 K\n      ND_H_ref: 1.0\n")      # a decoy where a textual '..' would land
        variants.append({'op': 'load_tree', 'path': os.path.join(root, 'link', 'library.yaml'), 'files': files, 'kind': kind})
    return variants


def gen_lib_updates(ctx, idx):
    """a target library that lacks a group, and two source libraries that each give a piece of it"""
    rng = ctx.rng
    g, other = GROUPS[0], GROUPS[1]
    tr, tro = truth(rng), truth(rng)
    root = os.path.join(vlib.WORK, 'c13_upd_%d' % idx)
    files = {'target.yaml': ([(other, piece(rng, tro))], []), 'src1.yaml': ([(g, piece(rng, tr))], []), 'src2.yaml': ([(g, piece(rng, tr))], []),
             'src3.yaml': ([(g, piece(rng, tr)), (other, piece(rng, tro))], [])}
    if idx % 2:
        # the target already has a piece of the group the sources complete (an overwriting update must still keep what only the target has)
        files['target.yaml'] = ([(other, piece(rng, tro)), (g, piece(rng, tr))], [])
    write_tree(root, files, 'target.yaml')
    names = ['target.yaml'] + rng.sample(['src1.yaml', 'src2.yaml', 'src3.yaml'], rng.choice([2, 3]))
    pieces = {}
    for n in names:
        for gg, p in files[n][0]:
            pieces.setdefault(gg, []).append(p)
    return {'op': 'lib_updates', 'paths': [os.path.join(root, n) for n in names], 'overwrite': rng.random() < 0.4, 'pieces': pieces}


def file_lit(files, name):
    groups, incs = files[name]
    gl = g_list(['(%s, %s)' % (g_str(canon(g)), inc_lit(rec_state(p))) for g, p in groups])
    return '(File %s %s)' % (gl, g_list([file_lit(files, i) for i in incs]))


def canon(g):
    return {v: k for k, vs in ALT_SPELLS.items() for v in vs}.get(g, g)


def run(ctx):
    ctx.assumptions += [
        'model Thermo/Merge.v (corr_update, lib_update, load over an abstract include tree) hand-written; tie = correspondence run in this check',
        'files share one reference temperature (the property\'s quantifier): translation of reference values between different T_ref is C05\'s subject',
        'YAML text -> tree (PyYAML, schema machinery) is outside the model; group-name canonicalisation is C19\'s model',
        'compared: exception class, H, S, table (insertion order), range, T_ref after every step; values at 1e-11']
    seqs = [gen_seq(ctx) for _ in range(ctx.n(200, 5000))]
    trees = []
    groups_of = []
    for i in range(ctx.n(40, 400)):
        vs = gen_tree(ctx, i)
        groups_of.append((len(trees), len(vs)))
        trees += vs
    # every other variant is loaded a SECOND time in its process (after an accepted or a refused first load); some of those after the
    # first object was merged into, overwriting, from another tree's library
    for i_, v_ in enumerate(trees):
        if i_ % 2:
            v_['twice'] = True
            if i_ % 4 == 1 and i_ >= 7:
                v_['then_update'] = trees[i_ - 7]['path']
    upds = [gen_lib_updates(ctx, i) for i in range(ctx.n(12, 120))]
    res = c05.run_jobs(seqs + trees + upds)
    rs, rt, ru = res[:len(seqs)], res[len(seqs):len(seqs) + len(trees)], res[len(seqs) + len(trees):]
    for job, r in zip(upds, ru):
        ctx.count(('libupd', job['paths'][0]))
        if 'changed' not in r:
            ctx.broken.append('implementation child failed: %s' % str(r)[:300])
        elif r['changed']:
            ctx.violate('update-changes-source', 'GroupLibrary.Update changed a library it was only reading from', job, 'sources unchanged',
                        {'changed_sources': r['changed'], 'excs': r['excs']})
        else:
            # all pieces of a group come from one truth (no conflicts): whatever the overwrite flag, nothing may be rejected and the
            # target ends with the UNION of the data (table points, H and S presence, widest range)
            jj = {k: v for k, v in job.items() if k != 'pieces'}
            if any(r['excs']):
                ctx.violate('libupd-rejected', 'GroupLibrary.Update rejected data that does not conflict', jj, 'merged', r['excs'])
                continue
            for gg, ps in job['pieces'].items():
                got = r['target'].get(gg)
                wantT = sorted(set(T for p in ps for T in p['Ts']))
                wantH, wantS = any(p['H'] is not None for p in ps), any(p['S'] is not None for p in ps)
                rs_ = [p['range'] for p in ps if p['range']]
                wantR = [min(x[0] for x in rs_), max(x[1] for x in rs_)] if rs_ else None
                ok = got is not None and sorted(t for t, _ in got['tab']) == wantT and (got['H'] is not None) == wantH \
                    and (got['S'] is not None) == wantS and got['range'] == wantR
                if not ok:
                    ctx.violate('libupd-union:%s' % ('ow' if job['overwrite'] else 'plain'),
                                'after GroupLibrary.Update the target does not hold the union of the data of a group', dict(jj, group=gg),
                                {'Ts': wantT, 'H': wantH, 'S': wantS, 'range': wantR}, got)
    hist = {'sequences': len(seqs), 'trees': len(groups_of), 'tree_variants': len(trees), 'steps': 0, 'rejected': 0, 'tree_kinds': {}}
    for i, (job, r) in enumerate(zip(seqs, rs)):
        if 'steps' not in r:
            ctx.broken.append('implementation child failed: %s' % str(r)[:300])
            continue
        key = 'seq:%s' % (repr((job['init'], job['steps']))[:4000],)
        ctx.count(('seq', i), nontrivial=len(job['steps']) > 1)
        hist['steps'] += len(job['steps'])
        hist['rejected'] += sum(1 for x in r['steps'] if 'exc' in x)
        oracle_seq(ctx, job, r, 'seq:%d' % i)
    ctx.sample({'init': seqs[0]['init'], 'steps': seqs[0]['steps'][:2]})
    # trees: every variant of one split loads to the same contents (or fails alike)
    for (s0, n) in groups_of:
        vs, rr = trees[s0:s0 + n], rt[s0:s0 + n]
        kind = vs[0]['kind']
        hist['tree_kinds'][kind] = hist['tree_kinds'].get(kind, 0) + 1
        ctx.count(('tree', s0), nontrivial=n > 1)
        key = 'tree:%s' % vs[0]['path']
        outs = []
        for v, r in zip(vs, rr):
            if r.get('same_as_first') is False:
                ctx.violate(key + '|reload', 'a library loaded a second time from the same files%s differs from the first load'
                            % (' (the first object was merged into in between)' if v.get('then_update') else ''),
                            {'path': v['path'], 'then_update': v.get('then_update')}, 'same contents', 'different')
            if 'exc' in r:
                outs.append(('exc', r['exc']))
            elif 'contents' in r:
                outs.append(('ok', {g: (None if c is None else (r12(plain(c['H'])), r12(plain(c['S'])), tuple(sorted((t, r12(x['v'])) for t, x in c['tab'])),
                                                                 tuple(c['range']) if c['range'] else None, c['T_ref']))
                                    for g, c in r['contents'].items()}))
            else:
                ctx.broken.append('implementation child failed: %s' % str(r)[:300])
                outs.append(('broken', None))
        if kind == 'dup' and any(o != ('exc', 'KeyError') for o in outs):
            ctx.violate(key + '|dup', 'a group given under two spellings in one file was not rejected with KeyError',
                        {'files': {k: str(v)[:300] for k, v in vs[0]['files'].items()}}, 'KeyError', [o[0] if o[0] != 'exc' else o for o in outs])
        elif kind == 'conflict' and any(o != ('exc', 'ReadOnlyDataError') for o in outs):
            ctx.violate(key + '|conflict', 'conflicting values in included files were not rejected with ReadOnlyDataError',
                        {'files': {k: str(v)[:300] for k, v in vs[0]['files'].items()}}, 'ReadOnlyDataError', [o[0] if o[0] != 'exc' else o for o in outs])
        elif kind.startswith('clean'):
            if any(o != outs[0] for o in outs):
                ctx.violate(key + '|order', 'library contents depend on the include order or nesting',
                            {'paths': [v['path'] for v in vs]}, str(outs[0])[:300], [str(o)[:200] for o in outs if o != outs[0]][:2])
            if outs[0][0] == 'exc' and kind == 'clean':
                ctx.violate(key + '|load', 'consistent files failed to load: %s' % outs[0][1], {'path': vs[0]['path']}, 'loads', outs[0])
    ctx.sample({'tree': {k: [g for g, _ in v[0]] + ['includes'] + v[1] for k, v in trees[0]['files'].items()}, 'kind': trees[0]['kind']})
    # ---- correspondence
    rows = []
    for job, r in zip(seqs, rs):
        if 'steps' not in r:
            continue
        steps = []
        for st, x in zip(job['steps'], r['steps']):
            if 'other_exc' in x:
                continue
            err = 'None' if 'exc' not in x else '(Some %s)' % ERR.get(x['exc'], 'InternalErr')
            steps.append('(%s, %s, (%s, %s))' % (inc_lit(rec_state(st['other'])), 'true' if st.get('overwrite') else 'false',
                                                inc_lit(x['state']), err))
        rows.append('run_steps tol %s %s' % (inc_lit(rec_state(job['init'])), g_list(steps)))
    trows = []
    for v, r in zip(trees, rt):
        if 'exc' in r:
            exp = '(Raise %s)' % ERR.get(r['exc'], 'InternalErr')
            trows.append('match Qload %s with Raise e => terr_same e %s | Ok _ => false end'
                         % (file_lit(v['files'], 'library.yaml'), ERR.get(r['exc'], 'InternalErr')))
        elif 'contents' in r:
            checks = ' && '.join('match lib_get l %s with Some c => inc_same tol c %s | None => false end'
                                 % (g_str(g), inc_lit(c)) for g, c in r['contents'].items() if c is not None) or 'true'
            trows.append('match Qload %s with Ok l => Nat.eqb (length l) %d && (%s) | Raise _ => false end'
                         % (file_lit(v['files'], 'library.yaml'), len(r['contents']), checks))
    hdr = HEADER + 'Definition Qload := load (K:=Qops) eq0 eq0 eq0 isclose15.\n'
    texts = []
    step = 60
    allrows = rows + trows
    for s in range(0, len(allrows), step):
        texts.append(hdr + 'Definition cases : list bool := [\n%s\n].\nEval vm_compute in mismatches (fun b : bool => b) 0 cases.\n'
                     % ';\n'.join(allrows[s:s + step]))
    nbad = 0
    for k, (ok, out) in enumerate(vlib.run_cases_sharded('c13_' + ctx.tier, texts, timeout=1200)):
        val = vlib.coq_eval_value(out) if ok else None
        if val is None:
            ctx.broken.append('correspondence C13 shard %d did not evaluate: %s' % (k, out[-400:]))
            continue
        for i in vlib.parse_nat_list(val):
            nbad += 1
            gi = k * step + i
            if gi < len(rows):
                ctx.violate('corr-seq:%d' % gi, 'model corr_update and implementation disagree on an update sequence', seqs[gi], 'model', rs[gi])
            else:
                v = trees[gi - len(rows)]
                ctx.violate('corr-tree:%s' % v['path'], 'model load and implementation disagree on an include tree', {'path': v['path']}, 'model',
                            str(rt[gi - len(rows)])[:400])
    ctx.coverage.update({
        'rule': 'update sequences (1..7 steps) of pieces of one truth record (H, S, subsets of Cp points, range) sharing T_ref, with injected '
                'conflicts (25%), repeated pieces, overwrite on/off/default; library trees: data of 1..3 groups split over 1..4 files, '
                'all include orders (up to 6 permutations) as star and as chain, with injected conflict or duplicate spelling. '
                'non-trivial = more than one step / more than one variant',
        'histogram': hist, 'correspondence_cases': len(allrows), 'correspondence_mismatches': nbad})


def replay(ctx, rec):
    c = rec['case']
    if isinstance(c, dict) and c.get('op') == 'update_seq':
        job = {k: v for k, v in c.items() if k != 'step'}
        r = c05.run_jobs([job])[0]
        n0 = len(ctx.violations)
        oracle_seq(ctx, job, r, 'replay')
        return len(ctx.violations) == n0
    return True
