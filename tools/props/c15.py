"""C15 - results do not depend on what the library object did before."""
import os
import vlib
import molgen
import gen

COQ_DEPS = ['Lib/History_proofs.vo']
LIBS = ['BensonGA', 'GRWSurface2018', 'XieGA2022', 'SalciccioliGA2012', 'PPY']
MOLS = {'BensonGA': ['CC', 'CCO', 'CCCCCC', 'C1CO1', 'CC(C)C', 'C=CC', 'c1ccccc1', 'CC(=O)C', 'C/C=C\\C', 'CC=CC',
                     # two spellings of one fused aromatic: each must decompose as it does in a fresh process
                     'C1(C)=CC2=CC=CC=C2C=C1', 'C1(C)=CC2C(C=C1)=CC=CC=2', 'OCC', 'C(O)C'],
        'PPY': ['CC', 'CCO', 'CCCCCC', 'c1ccccc1', 'CC(C)C'],
        'GRWSurface2018': ['[Pt]C([Pt])C([Pt])([Pt])C=O', 'C([Pt])C[Pt]', 'C([Pt])([Pt])C', 'OC([Pt])C'],
        'XieGA2022': ['[Ru]C([Ru])C([Ru])([Ru])C', 'CCC', 'C([Ru])C[Ru]', 'CC'],
        'SalciccioliGA2012': ['C([Pt])C[Pt]', 'C([Pt])([Pt])C([Pt])([Pt])C', 'OC([Pt])C']}


UQ_LIBS = ('GRWSurface2018',)
TAGLIB = os.path.join(vlib.WORK, 'c15_taglib', 'library.yaml')
UNITLIB = os.path.join(vlib.WORK, 'c15_unitlib', 'library.yaml')
PROJ_A = os.path.join(vlib.WORK, 'c15_projA')
PROJ_B = os.path.join(vlib.WORK, 'c15_projB')
PROPS = ['cp', 'h', 's', 'g', 's', 'g']


def pick_prop(rng, lib):
    if lib in UQ_LIBS and rng.random() < 0.45:
        return rng.choice(['cp_se', 'h_se', 's_se'])
    return rng.choice(PROPS)


def gen_history(rng, n, kind='random'):
    """returns (ops, objs) ; objs maps object name -> library whose scheme it carries"""
    ops = []
    objs = {}
    decs = []
    ests = []

    def load(obj, lib):
        objs[obj] = lib
        ops.append({'op': 'load', 'obj': obj, 'lib': lib})

    def dec(obj, smi):
        ops.append({'op': 'decompose', 'obj': obj, 'smiles': smi})
        if (obj, smi) not in decs:
            decs.append((obj, smi))

    def ev(obj, smi, prop=None):
        ops.append({'op': 'eval', 'obj': obj, 'smiles': smi, 'prop': prop or pick_prop(rng, objs[obj]),
                    'T': rng.choice([298.15, 400.0, 500.0, 750.0]), 'elements': rng.random() < 0.4})
    if kind == 'merge':
        # A <- B, A <- C (overwrite), then B and C must still behave like freshly loaded libraries
        la, lb, lc = rng.sample(LIBS, 3)
        load('A', la), load('B', lb), load('C', lc)
        if rng.random() < 0.5:
            dec('B', rng.choice(MOLS[lb]))
        ops.append({'op': 'merge', 'obj': 'A', 'src': 'B'})
        ops.append({'op': 'merge', 'obj': 'A', 'src': 'C'})
        if rng.random() < 0.5:
            ops.append({'op': 'merge', 'obj': 'A', 'src': rng.choice(['B', 'C'])})
        for o in rng.sample(['A', 'B', 'C', 'B', 'C'], 4):
            k = rng.random()
            if k < 0.4:
                ops.append({'op': 'fingerprint', 'obj': o})
            else:
                smi = rng.choice(MOLS[objs[o]])
                dec(o, smi)
                ev(o, smi)
        ops.append({'op': 'fingerprint', 'obj': 'B'})
        ops.append({'op': 'fingerprint', 'obj': 'C'})
        return ops, objs
    if kind == 'deferred':
        # estimate made right after its own decomposition, evaluated after ANOTHER molecule went through the same object
        lib = rng.choice(LIBS)
        load('D', lib)
        a, b = rng.sample(MOLS[lib], 2)
        dec('D', a)
        ops.append({'op': 'estimate', 'obj': 'D', 'smiles': a, 'eid': 0})
        dec('D', b)
        for prop in ('s', 'g', 'h'):
            ops.append({'op': 'evalest', 'obj': 'D', 'smiles': a, 'eid': 0, 'prop': prop, 'T': rng.choice([298.15, 500.0]), 'elements': prop != 'h'})
        ops.append({'op': 'estimate', 'obj': 'D', 'smiles': b, 'eid': 1})
        dec('D', a)
        ops.append({'op': 'evalest', 'obj': 'D', 'smiles': b, 'eid': 1, 'prop': 's', 'T': 400.0, 'elements': True})
        return ops, objs
    if kind == 'reload':
        # a library object is merged into; the SAME library loaded again afterwards is as in a fresh process
        la = rng.choice(['SalciccioliGA2012', 'GRWSurface2018', 'BensonGA', 'PPY'])
        lb = {'SalciccioliGA2012': 'GRWSurface2018', 'GRWSurface2018': 'SalciccioliGA2012', 'BensonGA': 'PPY', 'PPY': 'BensonGA'}[la]
        load('X0', la), load('Y', lb)
        ops.append({'op': 'merge', 'obj': 'X0', 'src': 'Y'})
        load('X1', la)
        ops.append({'op': 'fingerprint', 'obj': 'X1'})
        smi = rng.choice(MOLS[la])
        dec('X1', smi)
        ev('X1', smi, 'h')
        ops.append({'op': 'fingerprint', 'obj': 'Y'})
        return ops, objs
    if kind == 'molobj':
        # ONE molecule object (explicit hydrogens) handed to several library objects, and to the same one again
        la = rng.choice(LIBS)
        lb = rng.choice(LIBS)
        load('M1', la), load('M2', lb)
        smi = rng.choice(MOLS[la])
        for o in ('M1', 'M2', 'M1', 'M2'):
            ops.append({'op': 'decompose_mol', 'obj': o, 'smiles': smi, 'mid': 0})
        return ops, objs
    if kind == 'spellings':
        # two spellings of one species through ONE object, in both orders (for fused aromatics they decompose differently:
        # whatever each gives in a fresh process it must give here)
        load('P', 'BensonGA')
        pair = rng.choice([('C1(C)=CC2=CC=CC=C2C=C1', 'C1(C)=CC2C(C=C1)=CC=CC=2'), ('c1ccc2cc3ccccc3cc2c1', 'C1=CC2=CC3=CC=CC=C3C=C2C=C1'),
                           ('Oc1cccc2ccccc12', 'OC1=CC=CC2=CC=CC=C12')])
        if rng.random() < 0.5:
            pair = pair[::-1]
        for smi in pair:
            dec('P', smi)
            ev('P', smi, 'h')
        dec('P', pair[0])
        return ops, objs
    if kind == 'nodata':
        # estimates that FAIL because the library has no data for some group of the molecule: looking is not changing - the library, and
        # anything merged from it afterwards, is as in a fresh process
        load('N', 'BensonGA')
        load('M', rng.choice([l for l in LIBS if l != 'BensonGA']))
        for smi in rng.sample(['C=C=C', 'O=C=O', 'C#CC#C', 'C=CO', 'C=C=CC', 'OC=C=C'], 3):
            dec('N', smi)
            ops.append({'op': 'estimate', 'obj': 'N', 'smiles': smi, 'eid': len(ops)})
            ev('N', smi, 'h')
        ops.append({'op': 'fingerprint', 'obj': 'N'})
        ops.append({'op': 'merge', 'obj': 'M', 'src': 'N'})
        ops.append({'op': 'fingerprint', 'obj': 'M'})
        return ops, objs
    if kind == 'unitsblock':
        # two libraries with DIFFERENT blocks of default units loaded in one process, in either order
        first, second = ('BensonGA', UNITLIB) if rng.random() < 0.5 else (UNITLIB, 'BensonGA')
        load('F', first)
        load('S', second)
        objs['F'] = objs['S'] = 'BensonGA'
        ops.append({'op': 'fingerprint', 'obj': 'S'})
        ops.append({'op': 'fingerprint', 'obj': 'F'})
        dec('F' if first == 'BensonGA' else 'S', 'CCO')
        ev('F' if first == 'BensonGA' else 'S', 'CCO', 'h')
        return ops, objs
    if kind == 'relpath':
        # the same RELATIVE library path in two project directories (different schemes), one after the other
        da, db = (PROJ_A, PROJ_B) if rng.random() < 0.5 else (PROJ_B, PROJ_A)
        objs['PA'] = objs['PB'] = 'BensonGA'
        ops.append({'op': 'cd_load', 'obj': 'PA', 'cwd': da, 'lib': 'ga/library.yaml'})
        dec('PA', 'CC(C)C(C)C')
        ops.append({'op': 'cd_load', 'obj': 'PB', 'cwd': db, 'lib': 'ga/library.yaml'})
        dec('PB', 'CC(C)C(C)C')
        ev('PB', 'CC(C)C(C)C', 'h')
        dec('PA', 'CC(C)C(C)C')
        return ops, objs
    if kind == 'tagtype':
        # a user-defined property-set type registered AFTER other libraries were loaded and used, then a library carrying such data
        lib = rng.choice(LIBS)
        load('L', lib)
        dec('L', rng.choice(MOLS[lib]))
        objs['T'] = 'BensonGA'
        ops.append({'op': 'tagload', 'obj': 'T', 'path': TAGLIB})
        ops.append({'op': 'fingerprint', 'obj': 'T'})
        return ops, objs
    if kind == 'sharedscheme':
        # two library objects carrying one scheme object: a decomposition through the sibling between decomposing and estimating
        load('A', 'BensonGA')
        objs['B'] = 'BensonGA'
        ops.append({'op': 'share', 'obj': 'B', 'of': 'A'})
        a, b = rng.sample(['CC', 'CCO', 'CCC', 'C=C', 'CCCCO'], 2)
        dec('A', a)
        dec('B', b)
        ops.append({'op': 'estimate', 'obj': 'A', 'smiles': a, 'eid': 0})
        for pr in ('s', 'g'):
            ops.append({'op': 'evalest', 'obj': 'A', 'smiles': a, 'eid': 0, 'prop': pr, 'T': 400.0, 'elements': True})
        dec('A', a)
        dec('B', b)
        ev('A', a, 's')
        ops[-1]['elements'] = True
        return ops, objs
    if kind == 'handbuilt':
        # libraries put together by hand (empty, then merged into) next to each other in one process: what one receives
        # - uncertainty data included - is not seen by the others
        objs['X'] = objs['Y'] = objs['Z'] = 'BensonGA'
        ops.append({'op': 'new', 'obj': 'X', 'lib': 'BensonGA'})
        load('U', rng.choice(UQ_LIBS))
        ops.append({'op': 'merge', 'obj': 'X', 'src': 'U'})
        ops.append({'op': 'new', 'obj': 'Y', 'lib': 'BensonGA'})
        load('B', 'BensonGA')
        ops.append({'op': 'merge', 'obj': 'Y', 'src': 'B'})
        ops.append({'op': 'fingerprint', 'obj': 'Y'})
        dec('Y', 'CCO')
        ev('Y', 'CCO', 'h')
        ops.append({'op': 'new', 'obj': 'Z', 'lib': 'BensonGA'})
        ops.append({'op': 'fingerprint', 'obj': 'Z'})
        ops.append({'op': 'fingerprint', 'obj': 'X'})
        return ops, objs
    if kind == 'smemo':
        # entropy asked at one temperature before and after the library was merged into (overwriting)
        la, lc = rng.sample(['BensonGA', 'SalciccioliGA2012', 'PPY'], 2)
        load('A', la)
        smi = rng.choice(['CCO', 'CCC', 'CC(C)O', 'CCCCO'])
        T = rng.choice([400.0, 500.0])
        dec('A', smi)
        for pr in ('s', 'g', 'h'):
            ops.append({'op': 'eval', 'obj': 'A', 'smiles': smi, 'prop': pr, 'T': T, 'elements': False})
        load('C', lc)
        ops.append({'op': 'merge', 'obj': 'A', 'src': 'C'})
        dec('A', smi)
        for pr in ('s', 'g', 'h', 'cp'):
            ops.append({'op': 'eval', 'obj': 'A', 'smiles': smi, 'prop': pr, 'T': T, 'elements': False})
        return ops, objs
    if kind == 'uq':
        # several estimates with different group sets on ONE library object, then standard errors
        lib = rng.choice(UQ_LIBS)
        load('U', lib)
        ms = rng.sample(MOLS[lib], min(len(MOLS[lib]), rng.randint(2, 4)))
        for smi in ms:
            dec('U', smi)
            ev('U', smi, rng.choice(['h', 'cp_se']))
        for smi in ms[::-1]:
            ev('U', smi, rng.choice(['cp_se', 'h_se', 's_se']))
        return ops, objs
    for _ in range(n):
        k = rng.random()
        if not objs or k < 0.12:
            lib = rng.choice(LIBS)
            obj = '%s#%d' % (lib, rng.randint(0, 1))
            load(obj, lib)
            decs = [d for d in decs if d[0] != obj]
            ests[:] = [e for e in ests if e[0] != obj]
        elif k < 0.42 or not decs:
            obj = rng.choice(sorted(objs))
            dec(obj, rng.choice(MOLS[objs[obj]]))
        elif k < 0.72:
            obj, smi = rng.choice(decs)
            ev(obj, smi)
        elif k < 0.78:
            # the estimate is made now and evaluated later (possibly after other molecules were decomposed with the object)
            obj, smi = rng.choice(decs)
            eid = len(ests)
            ests.append((obj, smi, eid))
            ops.append({'op': 'estimate', 'obj': obj, 'smiles': smi, 'eid': eid})
        elif k < 0.84 and ests:
            obj, smi, eid = rng.choice(ests)
            ops.append({'op': 'evalest', 'obj': obj, 'smiles': smi, 'eid': eid, 'prop': pick_prop(rng, objs[obj]),
                        'T': rng.choice([298.15, 400.0, 500.0, 750.0]), 'elements': rng.random() < 0.6})
        elif k < 0.92 and len(objs) >= 2:
            a, b = rng.sample(sorted(objs), 2)
            ops.append({'op': 'merge', 'obj': a, 'src': b})
        else:
            ops.append({'op': 'fingerprint', 'obj': rng.choice(sorted(objs))})
    return ops, objs


def recipes(ops):
    """for every operation, the construction recipe (load / merges-into) of the object it addresses:
    nested tuples ('load', lib) | ('merge', dst_recipe, src_recipe).  Being only the SOURCE of a merge, and
    every decompose / eval / fingerprint, is not part of a recipe: that is what history-freedom claims."""
    rec = {}
    out = []
    for o in ops:
        if o['op'] in ('load', 'new'):
            rec[o['obj']] = (o['op'], o['lib'])
        elif o['op'] == 'tagload':
            rec[o['obj']] = ('tagload', o['path'])
        elif o['op'] == 'cd_load':
            rec[o['obj']] = ('cd_load', o['cwd'], o['lib'])
        elif o['op'] == 'share':
            rec[o['obj']] = ('share', rec[o['of']])
        elif o['op'] == 'merge':
            rec[o['obj']] = ('merge', rec[o['obj']], rec[o['src']])
        out.append(rec[o['obj']])
    return out


def flatten(tree, ops, names):
    if tree[0] in ('load', 'new'):
        name = 'r%d' % len(names)
        names.append(name)
        ops.append({'op': tree[0], 'obj': name, 'lib': tree[1]})
        return name
    if tree[0] == 'cd_load':
        name = 'r%d' % len(names)
        names.append(name)
        ops.append({'op': 'cd_load', 'obj': name, 'cwd': tree[1], 'lib': tree[2]})
        return name
    if tree[0] == 'tagload':
        name = 'r%d' % len(names)
        names.append(name)
        ops.append({'op': 'tagload', 'obj': name, 'path': tree[1]})
        return name
    if tree[0] == 'share':
        a_ = flatten(tree[1], ops, names)
        name = 'r%d' % len(names)
        names.append(name)
        ops.append({'op': 'share', 'obj': name, 'of': a_})
        return name
    d = flatten(tree[1], ops, names)
    s_ = flatten(tree[2], ops, names)
    ops.append({'op': 'merge', 'obj': d, 'src': s_})
    return d


def ref_key(tree, op):
    return (tree, op['op'], op.get('smiles'), op.get('prop'), op.get('T'), op.get('elements'))


def reference(tree, op):
    """the same operation as the first thing a fresh process does with an object built by the same recipe"""
    ops = []
    x = flatten(tree, ops, [])
    if op['op'] in ('decompose', 'eval'):
        ops.append({'op': 'decompose', 'obj': x, 'smiles': op['smiles']})
    if op['op'] == 'eval':
        ops.append(dict(op, obj=x))
    if op['op'] == 'decompose_mol':
        ops.append(dict(op, obj=x, mid=0))
    if op['op'] in ('estimate', 'evalest'):
        ops.append({'op': 'decompose', 'obj': x, 'smiles': op['smiles']})
        ops.append({'op': 'estimate', 'obj': x, 'smiles': op['smiles'], 'eid': 0})
    if op['op'] == 'evalest':
        ops.append(dict(op, obj=x, eid=0))
    if op['op'] == 'fingerprint':
        ops.append({'op': 'fingerprint', 'obj': x})
    # for a merge the recipe ends with that very merge: its own record (fingerprint or exception) is the reference
    r, diag = vlib.run_impl('history', {'cases': [{'ops': ops}]}, timeout=600)
    return r['results'][0]['outs'][-1] if r else {'exc': 'child: ' + diag[:100]}


def same(a, b):
    if 'exc' in a or 'exc' in b:
        return a.get('exc') == b.get('exc')
    if 'v' in a:
        return abs(a['v'] - b['v']) <= 1e-9 * (1 + abs(a['v']))
    return a == b


def run(ctx):
    ctx.assumptions += [
        'model Lib/History.v: the only state a library object carries between calls is its contents (changed by Update only) and the molecule of its '
        'last decomposition; decomposition / estimation / elemental entropies are abstract pure functions. Theorems by induction over the operation list',
        'process state inside third-party libraries (RDKit, NumPy, pmutt) is not modelled: covered only by this differential test against '
        'single operations in fresh processes',
        'reference for an operation = the same operation as the first thing a fresh process does with an object built by the same recipe '
        '(its load and the merges INTO it, each merge source built by its own recipe); being the source of a merge and all '
        'decompose/estimate/fingerprint operations are not part of a recipe',
        'standard errors (get_*_SE) of libraries with uncertainty data are evaluated as further abstract pure functions of the contents']
    rng = ctx.rng
    from concurrent.futures import ThreadPoolExecutor
    hist = {'histories': 0, 'operations': 0, 'by_op': {}}
    hs = [gen_history(rng, rng.randint(2, ctx.n(14, 40))) for _ in range(ctx.n(12, 300))]
    hs += [gen_history(rng, 0, 'merge') for _ in range(ctx.n(4, 60))]
    hs += [gen_history(rng, 0, 'uq') for _ in range(ctx.n(2, 30))]
    hs += [gen_history(rng, 0, 'deferred') for _ in range(ctx.n(3, 40))]
    hs += [gen_history(rng, 0, 'spellings') for _ in range(ctx.n(3, 20))]
    hs += [gen_history(rng, 0, 'reload') for _ in range(ctx.n(2, 20))]
    hs += [gen_history(rng, 0, 'molobj') for _ in range(ctx.n(3, 30))]
    hs += [gen_history(rng, 0, 'nodata') for _ in range(ctx.n(2, 12))]
    hs += [gen_history(rng, 0, 'handbuilt') for _ in range(ctx.n(1, 6))]
    hs += [gen_history(rng, 0, 'smemo') for _ in range(ctx.n(2, 12))]
    os.makedirs(os.path.dirname(TAGLIB), exist_ok=True)
    open(os.path.join(os.path.dirname(TAGLIB), 'scheme.yaml'), 'w').write('patterns: []\n')
    open(TAGLIB, 'w').write("groups:\n  'C(C)(H)3':\n    'thermochem':\n      T_ref: 298.15 K\n      ND_H_ref: -4.0\n      ND_S_ref: 15.0\n"
                            "      ND_Cp_data:\n        - [300 K, 3.0]\n        - [600 K, 5.0]\n      range: [200 K, 1000 K]\n    'tag':\n      value: 7.5\n")
    os.makedirs(os.path.dirname(UNITLIB), exist_ok=True)
    open(os.path.join(os.path.dirname(UNITLIB), 'scheme.yaml'), 'w').write('patterns: []\n')
    open(UNITLIB, 'w').write("units:\n  molar enthalpy: kJ/mol\n  molar entropy: J/(mol K)\n  molar heat capacity: J/(mol K)\n  temperature: K\n"
                             "groups:\n  'C(C)(H)3':\n    'thermochem':\n      T_ref: 298.15\n      H_ref: -42.5\n      S_ref: 127.3\n"
                             "      Cp_data:\n        - [300, 25.9]\n        - [600, 45.2]\n      range: [200, 1000]\n")
    import shutil
    for d_, coef in ((PROJ_A, None), (PROJ_B, 3)):
        if os.path.exists(d_):
            shutil.rmtree(d_)
        shutil.copytree(os.path.join(vlib.REPO, 'pgradd', 'data', 'BensonGA'), os.path.join(d_, 'ga'))
        if coef:
            sp_ = os.path.join(d_, 'ga', 'scheme.yaml')
            t_ = open(sp_).read()
            assert "'AlkaneGauchex2': [[2,'AlkaneGauche']]" in t_
            open(sp_, 'w').write(t_.replace("'AlkaneGauchex2': [[2,'AlkaneGauche']]", "'AlkaneGauchex2': [[%d,'AlkaneGauche']]" % coef))
    hs += [gen_history(rng, 0, 'unitsblock') for _ in range(ctx.n(2, 6))]
    hs += [gen_history(rng, 0, 'relpath') for _ in range(ctx.n(2, 6))]
    hs += [gen_history(rng, 0, 'tagtype') for _ in range(ctx.n(1, 4))]
    hs += [gen_history(rng, 0, 'sharedscheme') for _ in range(ctx.n(2, 8))]
    with ThreadPoolExecutor(vlib.NCPU) as ex:
        runs = list(ex.map(lambda h: vlib.run_impl('history', {'cases': [{'ops': h[0]}]}, timeout=900), hs))
    # the single-operation references, each in a fresh process
    need = {}
    for ops, objs in hs:
        for o, tree in zip(ops, recipes(ops)):
            need[ref_key(tree, o)] = (tree, o)
    cache = {}
    with ThreadPoolExecutor(vlib.NCPU) as ex:
        for k, v in zip(need, ex.map(lambda kv: reference(kv[0], kv[1]), need.values())):
            cache[k] = v
    for h, ((ops, objs), (r, diag)) in enumerate(zip(hs, runs)):
        if not r:
            ctx.broken.append('history child failed: ' + diag[:200])
            continue
        outs = r['results'][0]['outs']
        hist['histories'] += 1
        ctx.count(('hist', h), nontrivial=len(ops) > 2)
        last_dec = {}
        made_after = {}
        made_tree = {}
        trees = recipes(ops)
        for i, (o, x) in enumerate(zip(ops, outs)):
            hist['operations'] += 1
            hist['by_op'][o['op']] = hist['by_op'].get(o['op'], 0) + 1
            if o['op'] == 'decompose':
                last_dec[o['obj']] = o['smiles']
            if o['op'] == 'estimate':
                made_after[o['eid']] = last_dec.get(o['obj'])
                made_tree[(o['obj'], o['eid'])] = trees[i]
            if o['op'] == 'evalest' and made_tree.get((o['obj'], o['eid'])) != trees[i]:
                # guard: the library was merged into between making the estimate and asking it - the reference (estimate made from the
                # library as it is NOW) is a different question; merges are explicit changes of the data, not hidden history
                hist['straddling_merge_skipped'] = hist.get('straddling_merge_skipped', 0) + 1
                continue
            ref = cache[ref_key(trees[i], o)]
            if not same(x, ref):
                # the known finding: the elemental reference is the molecule decomposed last WHEN THE ESTIMATE WAS MADE
                stale = (o['op'] == 'eval' and o.get('elements') and last_dec.get(o['obj']) != o['smiles']) or \
                        (o['op'] == 'evalest' and o.get('elements') and made_after.get(o['eid']) != o['smiles'])
                ctx.violate('elements-uses-last-decomposed' if stale else 'history:%s:%d' % (o['op'], h),
                            'the result of %s differs from the same operation in a fresh process%s'
                            % (o['op'], ' (elemental reference taken from the molecule decomposed last, not from the one the estimate is for)' if stale else ''),
                            {'ops': ops[:i + 1]}, ref, x)
        ctx.sample({'history': [dict(o) for o in ops[:5]]}, limit=3)
    ctx.coverage.update({
        'rule': 'random interleavings (length 2..%d) of load / decompose / estimate+evaluate (Cp, H, S, G with and without the elemental reference, standard '
                'errors) / merge-with-overwrite / fingerprint over %d libraries, two objects per library; structured merge histories (A<-B, A<-C, then B and C '
                'are used) and repeated-estimate histories on a library with uncertainty data; every result compared with the same single operation in a '
                'fresh process on an object built by the same recipe' % (ctx.n(14, 40), len(LIBS)),
        'histogram': hist})


def replay(ctx, rec):
    c = rec['case']
    if not isinstance(c, dict) or 'ops' not in c:
        return True
    ops = c['ops']
    r, _ = vlib.run_impl('history', {'cases': [{'ops': ops}]}, timeout=900)
    x = r['results'][0]['outs'][-1]
    ref = reference(recipes(ops)[-1], ops[-1])
    return same(x, ref)
