"""C15 - results do not depend on what the library object did before."""
import vlib
import molgen
import gen

COQ_DEPS = ['Lib/History_proofs.vo']
LIBS = ['BensonGA', 'GRWSurface2018', 'XieGA2022', 'SalciccioliGA2012', 'PPY']
MOLS = {'BensonGA': ['CC', 'CCO', 'CCCCCC', 'C1CO1', 'CC(C)C', 'C=CC', 'c1ccccc1', 'CC(=O)C', 'C/C=C\\C', 'CC=CC'],
        'PPY': ['CC', 'CCO', 'CCCCCC', 'c1ccccc1', 'CC(C)C'],
        'GRWSurface2018': ['[Pt]C([Pt])C([Pt])([Pt])C=O', 'C([Pt])C[Pt]', 'C([Pt])([Pt])C', 'OC([Pt])C'],
        'XieGA2022': ['[Ru]C([Ru])C([Ru])([Ru])C', 'CCC', 'C([Ru])C[Ru]', 'CC'],
        'SalciccioliGA2012': ['C([Pt])C[Pt]', 'C([Pt])([Pt])C([Pt])([Pt])C', 'OC([Pt])C']}


def gen_history(rng, n):
    ops = []
    objs = {}
    decs = []
    for _ in range(n):
        k = rng.random()
        if not objs or k < 0.12:
            lib = rng.choice(LIBS)
            obj = '%s#%d' % (lib, rng.randint(0, 1))
            objs[obj] = lib
            ops.append({'op': 'load', 'obj': obj, 'lib': lib})
            decs = [d for d in decs if d[0] != obj]
        elif k < 0.45 or not decs:
            obj = rng.choice(sorted(objs))
            smi = rng.choice(MOLS[objs[obj]])
            ops.append({'op': 'decompose', 'obj': obj, 'smiles': smi})
            if (obj, smi) not in decs:
                decs.append((obj, smi))
        elif k < 0.9:
            obj, smi = rng.choice(decs)
            ops.append({'op': 'eval', 'obj': obj, 'smiles': smi, 'prop': rng.choice(['cp', 'h', 's', 'g', 's', 'g']),
                        'T': rng.choice([298.15, 400.0, 500.0, 750.0]), 'elements': rng.random() < 0.4})
        else:
            ops.append({'op': 'fingerprint', 'obj': rng.choice(sorted(objs))})
    return ops, objs


def reference(cache, lib, op):
    """the same operation as the first thing a fresh process does"""
    key = (lib, op['op'], op.get('smiles'), op.get('prop'), op.get('T'), op.get('elements'))
    if key not in cache:
        ops = [{'op': 'load', 'obj': 'x', 'lib': lib}]
        if op['op'] in ('decompose', 'eval'):
            ops.append({'op': 'decompose', 'obj': 'x', 'smiles': op['smiles']})
        if op['op'] == 'eval':
            ops.append(dict(op, obj='x'))
        if op['op'] == 'fingerprint':
            ops.append({'op': 'fingerprint', 'obj': 'x'})
        r, diag = vlib.run_impl('history', {'cases': [{'ops': ops}]}, timeout=600)
        cache[key] = r['results'][0]['outs'][-1] if r else {'exc': 'child: ' + diag[:100]}
    return cache[key]


def same(a, b):
    if 'exc' in a or 'exc' in b:
        return a.get('exc') == b.get('exc')
    if 'v' in a:
        return abs(a['v'] - b['v']) <= 1e-9 * (1 + abs(a['v']))
    return a == b


def run(ctx):
    ctx.assumptions += [
        'model Lib/History.v: the only state a library object carries between calls is its contents (changed by Update only) and the molecule of its '
        'last decomposition; decomposition / estimation / elemental entropies are abstract pure functions. Theorems by induction over the operation list',
        'process state inside third-party libraries (RDKit, NumPy, pmutt) is not modelled: covered only by this differential test against '
        'single operations in fresh processes',
        'merge histories: only fingerprint equality after non-merge operations is checked']
    rng = ctx.rng
    from concurrent.futures import ThreadPoolExecutor
    hist = {'histories': 0, 'operations': 0, 'by_op': {}}
    hs = [gen_history(rng, rng.randint(2, ctx.n(14, 40))) for _ in range(ctx.n(14, 300))]
    with ThreadPoolExecutor(vlib.NCPU) as ex:
        runs = list(ex.map(lambda h: vlib.run_impl('history', {'cases': [{'ops': h[0]}]}, timeout=900), hs))
    # the single-operation references, each in a fresh process
    need = {}
    for ops, objs in hs:
        for o in ops:
            if o['op'] != 'merge':
                need[(objs[o['obj']], o['op'], o.get('smiles'), o.get('prop'), o.get('T'), o.get('elements'))] = (objs[o['obj']], o)
    cache = {}
    with ThreadPoolExecutor(vlib.NCPU) as ex:
        for k, v in zip(need, ex.map(lambda kv: reference({}, kv[0], kv[1]), need.values())):
            cache[k] = v
    for h, ((ops, objs), (r, diag)) in enumerate(zip(hs, runs)):
        if not r:
            ctx.broken.append('history child failed: ' + diag[:200])
            continue
        outs = r['results'][0]['outs']
        hist['histories'] += 1
        ctx.count(('hist', h), nontrivial=len(ops) > 2)
        last_dec = {}
        for i, (o, x) in enumerate(zip(ops, outs)):
            hist['operations'] += 1
            hist['by_op'][o['op']] = hist['by_op'].get(o['op'], 0) + 1
            if o['op'] == 'decompose':
                last_dec[o['obj']] = o['smiles']
            if o['op'] == 'merge':
                continue
            ref = cache[(objs[o['obj']], o['op'], o.get('smiles'), o.get('prop'), o.get('T'), o.get('elements'))]
            if not same(x, ref):
                stale = o['op'] == 'eval' and o.get('elements') and last_dec.get(o['obj']) != o['smiles']
                ctx.violate('elements-uses-last-decomposed' if stale else 'history:%s:%d' % (o['op'], h),
                            'the result of %s differs from the same operation in a fresh process%s'
                            % (o['op'], ' (elemental reference taken from the molecule decomposed last, not from the one the estimate is for)' if stale else ''),
                            {'ops': ops[:i + 1]}, ref, x)
        ctx.sample({'history': [dict(o) for o in ops[:5]]}, limit=3)
    ctx.coverage.update({
        'rule': 'random interleavings (length 2..%d) of load / decompose / estimate+evaluate (with and without the elemental reference) / fingerprint over '
                '%d libraries, two objects per library; every result compared with the same single operation in a fresh process' % (ctx.n(14, 40), len(LIBS)),
        'histogram': hist})


def replay(ctx, rec):
    c = rec['case']
    if not isinstance(c, dict) or 'ops' not in c:
        return True
    ops = c['ops']
    r, _ = vlib.run_impl('history', {'cases': [{'ops': ops}]}, timeout=900)
    x = r['results'][0]['outs'][-1]
    objs = {o['obj']: o['lib'] for o in ops if o['op'] == 'load'}
    ref = reference({}, objs[ops[-1]['obj']], ops[-1])
    return same(x, ref)
