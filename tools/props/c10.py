"""C10 - unit expressions evaluate to the exact SI value and dimension."""
import itertools
import math
import vlib
import gen
from vlib import g_str, g_list

COQ_DEPS = ['Units/DB.vo']

GEN = ['units']
NONASCII = ['µ', 'Ω', 'é', '°', '²', '\xa0', 'Å', '·']
EXC = {'UnitsParseError': 'UnitsParse', 'UnitsError': 'UnitsErr', 'ZeroDivisionError': 'ZeroDiv',
       'TypeError': 'TypeErr'}


def q(x):
    return vlib.g_Qf(x)


class Gen(object):
    def __init__(self, rng, data):
        self.rng = rng
        self.names = [b[0] for b in data['base']] + [d[0] for d in data['derived']] + [d[0] for d in data['other']]
        self.prefixes = [p[0] for p in data['prefixes']]

    def unit(self):
        r = self.rng
        n = r.choice(self.names)
        if r.random() < 0.4:
            n = r.choice(self.prefixes) + n
        return n

    def number(self):
        r = self.rng
        return r.choice(['2', '3', '10', '0.5', '1.5', '2.54', '100', '1000', '12', '0.001', '7', '.5', '4.184', '60'])

    def power(self, frac_ok=True):
        r = self.rng
        k = r.random()
        if k < 0.45:
            return str(r.choice([2, 3, 1, 0, 4]))
        if k < 0.7:
            return r.choice(['-1', '-2', '-3'])
        if k < 0.85:
            return '(' + r.choice(['-1', '-2', '2', '3']) + ')'
        if frac_ok:
            return r.choice(['0.5', '1.5', '(-0.5)', '.5', '2.0'])
        return '2'

    def factor(self, depth, fracs):
        r = self.rng
        k = r.random()
        if depth > 0 and k < 0.15:
            base = '(' + self.expr(depth - 1, fracs) + ')'
            simple = False
        elif k < 0.3:
            base = self.number()
            simple = True
        else:
            base = self.unit()
            simple = True
        if r.random() < 0.35:
            p = self.power(frac_ok=simple)
            if '.' in p and p not in ('2.0',):
                fracs.append((base, float(p.strip('()'))))
            return base + '^' + p
        return base

    def expr(self, depth, fracs):
        r = self.rng
        n = r.choice([1, 1, 2, 2, 3, 4])
        s = self.factor(depth, fracs)
        for _ in range(n - 1):
            sep = r.choice([' ', ' ', '*', '/', ' * ', ' / ', '  '])
            s += sep + self.factor(depth, fracs)
        return s

    def malformed(self, text):
        r = self.rng
        k = r.random()
        if k < 0.25 and text:
            i = r.randrange(len(text))
            return text[:i] + text[i + 1:]
        if k < 0.5:
            i = r.randrange(len(text) + 1)
            return text[:i] + r.choice(list('()^*/-. x') + ['xyz', 'nan', 'inf', '^^', '1..2'] + NONASCII) + text[i:]
        if k < 0.7 and text:
            i = r.randrange(len(text))
            return text[:i] + r.choice(list('()^*/-.2qZ')) + text[i + 1:]
        if k < 0.85:
            return text[:r.randrange(len(text) + 1)]
        return ''.join(r.choice(list('mkgs()^*/-.0123 ') + NONASCII) for _ in range(r.randint(0, 8)))


FIXED = ['m^2.000004', '(5 m^0.33333)^3', 'kg^12.0001', 'm^1.00001', 's^-3.00002', 'K^0.99999', 'mol^2.00001', 'J^5.00004', 'm^0.000004 s', '(2 m^0.499999)^2',
         '', ' ', 'nan', 'inf', 'Infinity', 'NaN', '2 nan', 'm^nan', 'dam', 'dag', 'daJ', 'L', 'mL', 'kg m/s^2', 'J/(mol K)',
         '8.314472 J/(mol K)', '6.626068*10^-34 J s', '1/(6.02214179*10^23) mol', '1/0', 'm/0', '0^-1', 'm^m', '2^m', '(m', 'm)',
         '()', '(())', 'm^', '^2', 'm^(2', 'm^(2))', 'm^()', '1..2', '-', '--1', '-m', '- 1', 'm*', '*m', 'm//s', 'm**2',
         'm^2^3', '2 3', '2(3)', '(2)(3)', 'kkg', 'mm', 'cd', 'mcd', 'min', 'hp', 'ft lbf', 'psi', 'Pa', 'P', 'PPa', 'T', 'Tt',
         'molecule', 'kmolecule', 'eV/molecule', 'kcal/mol', 'cal/(mol*K)', 'cal/(mol K)', '298.15 K', '100K', '1500 K',
         'm^0.5', 'm^.5 m^.5', 'm^0.5*m^0.5', 'm^0.3333333 m^0.3333333 m^0.3333334', 'm^1.00000001', 'm^0.9999999',
         'm/m', 'J/(N m)', '5', '5.0', '-5', '.5', '5.', 'µm', 'Ω', 'é', '2\xa0m', 'm\nkg', 'm\tkg', '1e3', '1E3 m', 'e', 'E',
         '0 m', '0.0 kJ/mol', '-0.0 m', 'kg^2/kg', 'h', 'hh', 'ha', 'a', 'aa', 'u', 'uu', 'dm', 'dd', 'd', 'da', 'Y', 'YY',
         # negative magnitudes and powers
         '(-4)^0.5', '(-4)^(0.5)', '(-4)^0.5 m', '-4^0.5', '4.1-4^(-0.5)', '(-2 m)^0.5', '(-2 m)^3', '(-4)^2.0 m', '(-4)^2', '0^0.5',
         '(-1 kJ/mol)^1.5', '-1^0.3333333', '3 * 4.1-4^(-0.5)  3*V', '(0-4)^0.5', '-0.0^0.5',
         # magnitudes outside the range of a double (guarded in the correspondence, still subject to the direct oracle)
         '(kPa/F / Zhp^4)^4', 'dyn^220 klb', 'N dyn^4 12 * (u^20/dt s  BTU)', '0.5 mmin^4 (100 (torr * MA^-210 12)/psi)^(-2)*cal/2^-1',
         '-3 t/(fu^4)^3', 'Ym^20', 'ym^20 Ym^20']


def bounded(ctx):
    alpha = ['m', 'kg', 's', '2', '0.5', 'kJ', '(', ')', '*', '/', '^', '-1', ' ']
    out = []
    for n in range(1, ctx.n(3, 4) + 1):
        for tup in itertools.product(alpha, repeat=n):
            out.append(''.join(tup))
    if not ctx.thorough():
        out = out[:200] + ctx.rng.sample(out[200:], 1500)
    return out


def lit(res):
    import math
    if 'exc' in res:
        return '(URaise %s)' % EXC.get(res['exc'], 'InternalErr')
    if res.get('kind') in ('num', 'qty') and not all(math.isfinite(x) for x in [res['v']] + list(res.get('exps') or [])):
        return '(URaise InternalErr)'       # inf / nan is never what the model gives: shows up as a mismatch
    if res['kind'] == 'num':
        return '(UOk (Num %s))' % q(res['v'])
    if res['kind'] == 'qty':
        return '(UOk (Qty %s %s))' % (q(res['v']), g_list([q(e) for e in res['exps']]))
    return '(URaise InternalErr)'


HEADER = '''From Coq Require Import List NArith ZArith QArith Qabs Bool.
From PG Require Import Common.Strs Units.Model Units.DB Gen.UnitsTable.
Import ListNotations.
Definition tol : Q := 1 # 100000000000.
Definition vclose (a b : Q) : bool := Qle_bool (Qabs (a - b)) (tol * (Qabs a + Qabs b)).
Definition rtab : list (Q * Q * Q) := %s.
Definition rpow (b e : Q) : option Q :=
  match find (fun t => Qeq_bool (snd (fst t)) e && Qle_bool (Qabs (fst (fst t) - b)) ((1 # 1000000000) * Qabs b)) rtab with
  | Some t => Some (snd t) | None => None end.
Definition xspace (c : N) : bool := existsb (N.eqb c) %s.
Definition xalpha (c : N) : bool := existsb (N.eqb c) %s.
Definition ev (t : str) : ures qv := eval_text rpow xspace xalpha prefixes the_db t.
Definition same (m i : ures qv) : bool :=
  match m, i with
  | UOk (Num a), UOk (Num b) => vclose a b
  | UOk (Qty a d), UOk (Qty b d') => vclose a b && dim_eqb d d'
  | URaise UnitsParse, URaise UnitsParse | URaise ZeroDiv, URaise ZeroDiv
  | URaise TypeErr, URaise TypeErr | URaise UnitsErr, URaise UnitsErr => true
  | URaise NoOracle, _ => true     (* a host floating-point power the table does not contain: not comparable *)
  | _, _ => false end.
(* guard: an expression some sub-expression of which has an exact magnitude outside the range of a double
   (underflow to 0.0, overflow) is not comparable with the host's floating point *)
Fixpoint subs (t : tree) : list tree :=
  t :: match t with TMul a b | TDiv a b | TPow a b => subs a ++ subs b | _ => [] end.
Definition edge : Q := inject_Z (Z.pow 10 290).
Definition out_of_range (v : Q) : bool := negb (Qeq_bool v 0) && (Qle_bool (Qabs v * edge) 1 || Qle_bool edge (Qabs v)).
Definition risky (t : str) : bool :=
  match parse xspace xalpha t with
  | UOk tr => existsb (fun s => match eval rpow prefixes the_db s with UOk x => out_of_range (qval x) | _ => false end) (subs tr)
  | _ => false end.
Fixpoint mism (i : nat) (l : list (str * ures qv)) : list nat :=
  match l with [] => [] | (t, r) :: rest => if same (ev t) r || risky t then mism (S i) rest else i :: mism (S i) rest end.
'''


def correspondence(ctx, texts, results, rtab, tag):
    xs = sorted(set(ord(c) for t in texts for c in t if ord(c) >= 128))
    xspace = g_list(['%d%%N' % c for c in xs if chr(c).isspace()])
    xalpha = g_list(['%d%%N' % c for c in xs if chr(c).isalpha()])
    rt = g_list(['(%s, %s, %s)' % (q(b), q(e), q(v)) for b, e, v in rtab])
    hdr = HEADER % (rt, xspace, xalpha)
    shards = []
    step = 500
    for s in range(0, len(texts), step):
        body = ';\n'.join('(%s, %s)' % (g_str(t), lit(r)) for t, r in zip(texts[s:s + step], results[s:s + step]))
        shards.append(hdr + 'Definition cases : list (str * ures qv) := [\n%s\n].\nEval vm_compute in mism 0 cases.\n' % body)
    bad = []
    for k, (ok, out) in enumerate(vlib.run_cases_sharded('c10_' + tag, shards, timeout=1200)):
        val = vlib.coq_eval_value(out) if ok else None
        if val is None:
            ctx.broken.append('correspondence C10 shard %d did not evaluate: %s' % (k, out[-400:]))
            continue
        bad += [k * step + i for i in vlib.parse_nat_list(val)]
    return bad


def in_guard(t):
    """outside the model: code points that Python's \\d / float() treat as digits"""
    return not any(ord(c) >= 128 and (c.isdigit() or c.isdecimal() or c.isnumeric()) and c != '²' for c in t)


def run(ctx):
    ctx.assumptions += [
        'model Units/Model.v (tokeniser, parser, lookup, evaluator, quantity algebra) is hand-written; tie = correspondence run in this check',
        'unit/prefix tables are regenerated from /repo on every run (tools/gen.py units) and the finite theorems re-checked against them',
        'Units/SIspec.v is the independent SI reference (exact rationals; 1e-8 for the documented 9-digit constants)',
        'magnitudes are exact rationals in the model and floats in the implementation: compared at 1e-11 relative; exponents exactly',
        'non-integer powers of magnitudes are host floating point: supplied as a table; str classification of non-ASCII characters supplied per case',
        'Python \\d/float() on non-ASCII digits and float overflow are outside the model (not generated)']
    data = gen.GENERATORS['units']()
    g = Gen(ctx.rng, data)
    texts = list(FIXED)
    hist = {'fixed': len(FIXED)}
    names = g.names
    for n in names:
        texts.append(n)
        for p in g.prefixes:
            texts.append(p + n)
    hist['name_x_prefix'] = len(names) * (len(g.prefixes) + 1)
    fracs = []
    valid = []
    for _ in range(ctx.n(700, 20000)):
        t = g.expr(ctx.rng.choice([0, 1, 1, 2]), fracs)
        if ctx.rng.random() < 0.3:
            t = ctx.rng.choice(['2 ', '0.5 ', '-3 ', '12.5 ', '1000 ']) + t
        valid.append(t)
    texts += valid
    hist['generated_valid'] = len(valid)
    mal = [g.malformed(ctx.rng.choice(valid)) for _ in range(ctx.n(500, 12000))]
    texts += mal
    hist['malformed'] = len(mal)
    be = bounded(ctx)
    texts += be
    hist['bounded_exhaustive'] = len(be)
    texts = [t for t in dict.fromkeys(texts) if in_guard(t)]
    res = vlib.run_impl_sharded('units', [{'op': 'eval', 'text': t} for t in texts])
    # fractional-power oracle table: base values from the implementation itself
    fb = list(dict.fromkeys(fracs))
    rb = vlib.run_impl_sharded('units', [{'op': 'eval', 'text': b} for b, _ in fb])
    rtab = []
    for (b, e), r in zip(fb, rb):
        if 'v' in r and r.get('v') is not None and r['v'] > 0:
            try:
                rtab.append((r['v'], e, r['v'] ** e))
            except OverflowError:
                pass
    for b in (1.0, 2.0, 0.5, 1000.0, 0.001, 1e-3, 4.0, 0.25):
        for e in (0.5, 1.5, -0.5, 1.00000001, 0.9999999, 0.3333333, 0.3333334, 2.5):
            rtab.append((b, e, b ** e))
    for e in (2.000004, 12.0001, 1.00001, -3.00002, 0.99999, 2.00001, 5.00004, 0.000004, 0.33333, 0.499999):
        rtab.append((1.0, e, 1.0))          # the exponents of the near-integer fixed cases (base units have SI magnitude 1)
    rtab = list(dict.fromkeys(rtab))[:520]
    # direct oracle
    kinds = {}
    for t, r in zip(texts, res):
        if '_child_failed' in r:
            ctx.broken.append('implementation child failed: ' + r['_child_failed'][:300])
            break
        k = r.get('exc') or r['kind']
        kinds[k] = kinds.get(k, 0) + 1
        ctx.count(t, nontrivial=len(t.strip()) > 1)
        if 'exc' in r and r['exc'] not in ('UnitsParseError', 'ZeroDivisionError', 'OverflowError'):
            ctx.violate('eval-exc:%s' % r['exc'], 'eval_qty escaped with %s instead of the units parse error' % r['exc'],
                        {'op': 'eval', 'text': t}, 'value or UnitsParseError', r)
        if r.get('kind') in ('complex', 'other'):
            ctx.violate('eval-not-a-magnitude:%s' % r['kind'], 'eval_qty returned a value that is neither a number nor a quantity (%s)' % r.get('type', r['kind']),
                        {'op': 'eval', 'text': t}, 'number, quantity or UnitsParseError', r)
        if r.get('kind') == 'qty' and not any(r['exps']):
            ctx.violate('eval-dimensionless-qty', 'a quantity with all exponents zero was returned instead of a plain number',
                        {'op': 'eval', 'text': t}, 'number', r)
    conv_oracle(ctx, g)
    helpers_oracle(ctx, valid)
    recombination_oracle(ctx)
    keep = [i for i, r in enumerate(res) if r.get('exc') != 'OverflowError' and r.get('kind') not in ('complex', 'other')
            and not (r.get('exc') == 'Timeout')]
    T = [texts[i] for i in keep]
    R = [res[i] for i in keep]
    bad = correspondence(ctx, T, R, rtab, ctx.tier)
    for i in bad:
        ctx.violate('corr:%s' % T[i], 'model (SI-table-checked evaluator) and implementation disagree on an expression',
                    {'op': 'eval', 'text': T[i]}, 'model value (Units/Model.v)', R[i])
    for t in (valid[:3] + mal[:2]):
        ctx.sample({'text': t})
    ctx.coverage.update({
        'rule': 'every unit name x every prefix (exhaustive); random expression trees (products, quotients, juxtaposition, parentheses, '
                'integer/negative/parenthesised/fractional powers, numeric factors); token-edit malformed variants; all token strings up to '
                'length %d over a 13-token alphabet (sampled in quick); fixed corner cases. distinct by text; non-trivial = more than one character'
                % ctx.n(3, 4),
        'histogram': dict(hist, outcomes=kinds), 'correspondence_cases': len(T), 'correspondence_mismatches': len(bad)})


RECOMB = [
    ('m^0.7*m^0.2*m^0.1', [1, 0, 0, 0, 0, 0, 0]), ('m^0.7 m^0.2 m^0.1', [1, 0, 0, 0, 0, 0, 0]),
    ('m / m^0.7 / m^0.2 / m^0.1', None), ('(m^0.1 m^0.2)^10', [3, 0, 0, 0, 0, 0, 0]), ('(s^0.28)^25', [0, 0, 7, 0, 0, 0, 0]),
    ('((K^0.1)^3)^10', [0, 0, 0, 0, 3, 0, 0]), ('(kg^0.3)^10/kg^3', None), ('J^0.1 J^0.2 J^0.3 J^0.4', [2, 1, -2, 0, 0, 0, 0]),
    ('(m^0.7)^10', [7, 0, 0, 0, 0, 0, 0]), ('m^2.2*m^0.7*m^0.1', [3, 0, 0, 0, 0, 0, 0]), ('(mol^0.6 mol^0.3 mol^0.1)^3', [0, 0, 0, 0, 0, 3, 0]),
    ('s^0.1/s^0.3/s^0.7*s^0.9', None), ('(A^0.2)^5 (A^0.3)^10/A^4', None), ('((m^0.1)^7 (m^0.1)^3)^2', [2, 0, 0, 0, 0, 0, 0]),
]


def recombination_oracle(ctx):
    """fractional exponents that add / scale to an integer must come out as
    exactly that integer (the package rounds exponents within 1e-7), and as a
    plain number when everything cancels"""
    res = vlib.run_impl_sharded('units', [{'op': 'eval', 'text': t} for t, _ in RECOMB])
    for (t, want), r in zip(RECOMB, res):
        ctx.count('recomb:' + t)
        if want is None:
            if r.get('kind') != 'num':
                ctx.violate('recomb:' + t, 'exponents that cancel do not give a plain number', {'op': 'eval', 'text': t}, 'plain number', r)
        elif r.get('kind') != 'qty' or r.get('exps') != [float(x) for x in want]:
            ctx.violate('recomb:' + t, 'exponents that add or scale to an integer are not that integer', {'op': 'eval', 'text': t}, want, r)


def helpers_oracle(ctx, valid):
    """with_units / to_SI_from / from_SI_to agree with eval_qty on every unit string, whatever strings were asked before"""
    rng = ctx.rng
    seqs = [['ms', 'm s'], ['m s', 'ms'], ['min', 'm in'], ['m in', 'min'], ['kg', 'k g'], ['k g', 'kg'], ['25 m', '2 5 m'], ['2 5 m', '25 m'],
            ['kJ/mol', 'k J/mol', 'kJ / mol'], ['Pa', 'P a'], ['cd', 'c d'], ['hp', 'h p'], ['m^2', 'm ^ 2', 'm^ 2'], ['nm', 'n m', 'N m', 'Nm']]
    for _ in range(ctx.n(20, 300)):
        t = rng.choice(valid)
        vs = [t, t.replace(' ', ''), ' '.join(t), t.replace(' ', '  '), t.replace('*', ' ')]
        rng.shuffle(vs)
        seqs.append(vs[:rng.randint(2, 5)])
    res = vlib.run_impl_sharded('units', [{'op': 'helpers_seq', 'units': q_} for q_ in seqs])
    for sq, r in zip(seqs, res):
        for e in r.get('seq', []):
            ctx.count(('helper', e['u']))
            ev = e['eval']
            if ev.get('kind') == 'num' or not any(ch.isalpha() for ch in e['u']) or ev.get('exc') == 'OverflowError':
                continue            # a plain number (or a numeric expression beyond the range of a double) is not a unit: outside what the helpers are for
            for nm in ('to_si', 'from_si', 'with'):
                h = e[nm]
                if nm == 'from_si' and ev.get('v') == 0:
                    continue
                if 'exc' in ev or 'exc' in h:
                    ok = ev.get('exc') == h.get('exc') or (ev.get('kind') == 'num' and 'exc' not in h)
                else:
                    want = {'to_si': 2.5 * ev['v'], 'from_si': 2.5 / ev['v'] if ev['v'] else None, 'with': 2.5 * ev['v']}[nm]
                    ok = want is None or (h.get('v') is not None and abs(h['v'] - want) <= 1e-12 * abs(want) + 1e-300)
                    if ok and nm == 'with' and ev.get('kind') == 'qty':
                        ok = h.get('exps') == ev.get('exps')
                if not ok:
                    ctx.violate('helper:%s|%s' % (nm, e['u']), 'the helper %s disagrees with eval_qty on a unit string (asked after %r)' % (nm, sq[:sq.index(e['u'])]),
                                {'op': 'helpers_seq', 'units': sq}, ev, h)
                    break


def conv_oracle(ctx, g):
    """conversion clauses on the implementation: ratio, there-and-back, incompatibility"""
    rng = ctx.rng
    groups = [['m', 'cm', 'in', 'ft', 'km', 'dam'], ['J', 'kJ', 'cal', 'kcal', 'eV', 'erg', 'BTU', 'L atm', 'N m'],
              ['Pa', 'bar', 'atm', 'torr', 'psi', 'kPa'], ['kg', 'g', 'lb', 't', 'u', 'mg'], ['s', 'min', 'h', 'ms'],
              ['J/mol', 'kJ/mol', 'kcal/mol', 'cal/mol', 'eV/molecule'], ['J/(mol K)', 'cal/(mol K)', 'kJ/(mol*K)'],
              ['L', 'm^3', 'cm^3', 'mL', 'dm^3']]
    jobs = []
    meta = []
    for _ in range(ctx.n(150, 3000)):
        grp = rng.choice(groups)
        u, w = rng.choice(grp), rng.choice(grp)
        x = rng.choice([1.0, 2.5, -3.75, 0.0, 1e-3, 12345.678, round(rng.uniform(-100, 100), 4)])
        jobs += [{'op': 'in_units', 'a': {'q': '%r %s' % (x, u) if x >= 0 else '(%r) %s' % (x, u)}, 'u': u},
                 {'op': 'roundtrip', 'x': x, 'u': u, 'w': w},
                 {'op': 'in_units', 'a': {'q': u}, 'u': w}, {'op': 'in_units', 'a': {'q': w}, 'u': u}]
        meta += [('same', x, u, w), ('rt', x, u, w), ('ratio1', x, u, w), ('ratio2', x, u, w)]
        other = rng.choice([h for h in groups if h is not grp])
        jobs.append({'op': 'in_units', 'a': {'q': '2 ' + u}, 'u': rng.choice(other)})
        meta.append(('incompat', x, u, w))
    # the same dimension reached through different floating-point arithmetic on fractional exponents
    frac = [('m^0.1 m^0.2', 'm^0.3', 1.0), ('m^0.7/m^0.4', 'm^0.3', 1.0), ('(s^0.1)^3', 's^0.3', 1.0), ('Pa^0.1 Pa^0.2', 'Pa^0.3', 1.0),
            ('5 m^0.7/m^0.4', 'm^0.3', 5.0), ('K^0.6 K^0.1', 'K^0.7', 1.0), ('(kg^0.3)^0.5', 'kg^0.15', 1.0), ('2 J^0.2 J^0.1', 'J^0.3', 2.0),
            ('m^0.3', 'm^0.1 m^0.2', 1.0), ('mol^1.1/mol^0.8', 'mol^0.3', 1.0)]
    fr = vlib.run_impl_sharded('units', [{'op': 'in_units', 'a': {'q': a}, 'u': u} for a, u, _ in frac])
    for (a, u, want), r in zip(frac, fr):
        ctx.count('conv:frac|%s|%s' % (a, u))
        if 'exc' in r or r.get('v') is None or abs(r['v'] - want) > 1e-12 * want:
            ctx.violate('conv:frac|%s|%s' % (a, u), 'converting between two spellings of one fractional-exponent dimension does not give the ratio of magnitudes',
                        {'op': 'in_units', 'a': {'q': a}, 'u': u}, want, r)
    res = vlib.run_impl_sharded('units', jobs)
    pend = None
    for (kind, x, u, w), j, r in zip(meta, jobs, res):
        key = 'conv:%s|%r|%s|%s' % (kind, x, u, w)
        ctx.count(key)
        if kind == 'incompat':
            if r.get('exc') != 'UnitsError':
                ctx.violate(key, 'conversion between incompatible units did not raise UnitsError', j, 'UnitsError', r)
        elif kind == 'same' and x >= 0:
            if 'exc' in r or abs(r['v'] - x) > 1e-12 * (1 + abs(x)):
                ctx.violate(key, 'x units converted to the same units is not x', j, x, r)
        elif kind == 'rt':
            if 'exc' in r or abs(r['v'] - x) > 1e-11 * (1 + abs(x)):
                ctx.violate(key, 'converting there and back does not return the original number', j, x, r)
        elif kind == 'ratio1':
            pend = r
        elif kind == 'ratio2':
            if 'exc' in r or pend is None or 'exc' in pend or abs(r['v'] * pend['v'] - 1) > 1e-11:
                ctx.violate(key, 'u->w and w->u conversion factors are not reciprocal', j, 1.0, [pend, r])


def replay(ctx, rec):
    c = rec['case']
    if str(rec.get('key', '')).startswith('si:'):
        gen.GENERATORS['units']()
        vlib.coq_make(['Units/DB.vo'])
        search(ctx)
        return not any(v['key'] == rec['key'] for v in ctx.violations)
    if not isinstance(c, dict) or 'op' not in c:
        return True
    r, _ = vlib.run_impl('units', {'cases': [c]})
    r = r['results'][0]
    if c['op'] == 'eval':
        if 'exc' in r and r['exc'] not in ('UnitsParseError', 'ZeroDivisionError', 'OverflowError'):
            return False
        return not correspondence(ctx, [c['text']], [r], [], 'replay')
    return 'exc' not in r


SEARCH = '''From Coq Require Import List NArith ZArith QArith Qabs Bool.
From PG Require Import Common.Strs Units.Model Units.DB Units.SIspec Gen.UnitsTable.
Import ListNotations.
Definition rel_close (tol a b : Q) : bool := Qle_bool (Qabs (a - b)) (tol * Qabs b).
Definition entry_ok (s : spec) : bool :=
  match eval_ascii (s_name s) with
  | UOk q => rel_close (s_tol s) (qval q) (s_val s) && dim_eqb (qdim q) (s_dim s)
  | URaise _ => false end.
Definition prefix_ok (p : str * Z) : bool :=
  match pref_get prefixes (fst p) with Some v => Qeq_bool v (Qpower 10 (snd p)) | None => false end.
Definition idx {A} (ok : A -> bool) (l : list A) : list nat :=
  map fst (filter (fun p => negb (ok (snd p))) (combine (seq 0 (length l)) l)).
Eval vm_compute in (idx entry_ok si_table, idx prefix_ok si_prefixes).
'''

SI_NAMES = ['m', 'g', 's', 'A', 'K', 'mol', 'cd', 'N', 'Pa', 'J', 'W', 'C', 'V', 'F', 'Ohm', 'in', 'ft', 'L', 'min', 'h', 'lb', 't',
            'dyn', 'lbf', 'bar', 'atm', 'torr', 'psi', 'cal', 'erg', 'BTU', 'hp', 'P', 'St', 'u', 'eV', 'molecule']
SI_PREFIXES = ['Y', 'Z', 'E', 'P', 'T', 'G', 'M', 'k', 'h', 'da', 'd', 'c', 'm', 'u', 'n', 'p', 'f', 'a', 'z', 'y']
SI_POW = [24, 21, 18, 15, 12, 9, 6, 3, 2, 1, -1, -2, -3, -6, -9, -12, -15, -18, -21, -24]


def search(ctx):
    """a theorem about the regenerated tables broke: find the entries that
    contradict the SI specification and confirm them on the implementation"""
    ok, out = vlib.run_cases_file('c10_search', SEARCH, timeout=600)
    val = vlib.coq_eval_value(out) if ok else None
    if val is None:
        return
    import re
    parts = re.findall(r'\[[^\]]*\]', val)
    bad_units = vlib.parse_nat_list(parts[0]) if parts else []
    bad_pref = vlib.parse_nat_list(parts[1]) if len(parts) > 1 else []
    jobs = [{'op': 'eval', 'text': SI_NAMES[i]} for i in bad_units] + \
           [{'op': 'eval', 'text': SI_PREFIXES[i] + 'm'} for i in bad_pref]
    if not jobs:
        return
    res = vlib.run_impl_sharded('units', jobs)
    for j, r in zip(jobs, res):
        exp = 'the SI definition in Units/SIspec.v'
        if j['text'].endswith('m') and j['text'][:-1] in SI_PREFIXES and j['text'] not in SI_NAMES:
            k = SI_POW[SI_PREFIXES.index(j['text'][:-1])]
            if r.get('kind') == 'qty' and abs(r['v'] / 10.0 ** k - 1) < 1e-9:
                continue
            exp = '1e%d m' % k
        ctx.violate('si:%s' % j['text'], 'unit %r does not evaluate to its SI definition' % j['text'], j, exp, r)
