"""C16 - a RING reaction rule applies exactly its declared edit per match."""
import random
import vlib
import ringgen
import ringcorr
from vlib import g_str, g_list

GEN = ['grammar', 'elements']
COQ_DEPS = ['Ring/PegCorr.vo', 'Ring/Peg_cert.vo', 'Graph/Reaction.vo', 'Gen/RingGrammar.vo', 'Gen/Elements.vo']
MOLS = ['C', 'CC', 'CCC', 'C=C', 'C#C', 'CO', 'C=O', 'CCO', '[CH3]', '[CH2]C', '[CH2][CH2]', 'C[CH]C', '[OH]', 'OO', 'C1CC1', 'CC=C', 'C[O]',
        '[CH2]C=C', 'N', 'CN', '[CH2+]C', 'C[O-]', 'O=C=O', 'CC(C)C', '[CH]=C', 'C=CC=C', 'c1ccccc1', 'C[Pt]']

HEADER_EXTRA = '''From PG Require Import Graph.Reaction.
Definition atoms_same (a : list matom) (b : list (N * Z * N)) : bool :=
  Nat.eqb (length a) (length b)
  && forallb (fun p => let '(x, (z, c, r)) := p in N.eqb (a_z x) z && Z.eqb (a_chg x) c && N.eqb (a_rad x) r) (combine a b).
Definition bond_in (bs : list (nat * nat * btype)) (b : mbond) : bool :=
  existsb (fun t => let '(u, v, ty) := t in
    ((Nat.eqb u (b_u b) && Nat.eqb v (b_v b)) || (Nat.eqb u (b_v b) && Nat.eqb v (b_u b))) && btype_eqb ty (b_t b)) bs.
Definition prod_same (m : option mol) (p : list (N * Z * N) * list (nat * nat * btype)) : bool :=
  match m with
  | Some g => atoms_same (atoms g) (fst p) && Nat.eqb (length (bonds g)) (length (snd p)) && forallb (bond_in (snd p)) (bonds g)
  | None => false end.
Definition RR (s : str) : option rule :=
  match R s with ORule c => match read_rule elements (fun _ => false) c with ROk' r => Some r | RErr' _ => None end | _ => None end.
(* class of reading a rule text: 0 query, 2 reader error, 3 not implemented, 4 internal, 1 syntax *)
Definition rule_class (s : str) : nat :=
  match R s with
  | ORule c => match read_rule elements (fun _ => false) c with
               | ROk' _ => 0 | RErr' EReader => 2 | RErr' ENotImpl => 3 | RErr' EInternal => 4 end
  | ORSyntax _ _ => 1 | ORReader => 2 | ORNotImpl => 3 | _ => 4 end%nat.
Definition prods_same (ms : list (option mol)) (ps : list (list (N * Z * N) * list (nat * nat * btype))) : bool :=
  Nat.eqb (length ms) (length ps)
  && forallb (fun p => existsb (fun m => prod_same m p) ms) ps
  && forallb (fun m => existsb (fun p => prod_same m p) ps) ms.
'''


def prod_lit(p):
    atoms = g_list(['(%d%%N, (%d)%%Z, %d%%N)' % tuple(a) for a in p['atoms']])
    bonds = g_list(['(%d%%nat, %d%%nat, %s)' % (b[0], b[1], ringcorr.BT.get(b[2], 'BtOther')) for b in p['bonds']])
    return '(%s, %s)' % (atoms, bonds)


def molgen_respell(smi, rng):
    """the same species written with another atom order (None if it has a single heavy atom)"""
    from rdkit import Chem
    m = Chem.MolFromSmiles(smi)
    if m is None or m.GetNumAtoms() < 2:
        return None
    perm = list(range(m.GetNumAtoms()))
    rng.shuffle(perm)
    out = Chem.MolToSmiles(Chem.RenumberAtoms(m, perm), canonical=False)
    return out if out != smi else None


def run(ctx):
    ctx.assumptions += [
        'models Graph/Reaction.v (rule reader with doubled electron balance, edit application per match) on top of the C09 reader and C08 matcher; '
        'hand-written; tie = correspondence on (rule, molecule) pairs: reading class and the full product graph of every match (atoms keep their '
        'identity through atom-map numbers set by the harness)',
        'guard: unimolecular rules with one reactant fragment (groups, duplicates, constraints and atom-type modification are unsupported constructs)']
    rng = ctx.rng
    rules = list(ringgen.RULES)
    n = ctx.n(220, 5000)
    for i in range(n):
        rules.append(ringgen.rule(random.Random(rng.getrandbits(40)), balanced=(i % 4 != 0)))
    rules = list(dict.fromkeys(rules))
    jobs = [{'op': 'run_rule', 'text': t, 'smiles': rng.sample(MOLS, ctx.n(4, 10)), 'timeout': 30} for t in rules]
    # one rule object meets the same species again under another atom numbering (what it remembers about a molecule must not be applied to another numbering)
    for j in jobs[:40]:
        j['smiles'] = list(j['smiles']) + [s_ for s_ in (molgen_respell(x_, rng) for x_ in j['smiles'][:3]) if s_]
    # the first fixed rules (C-H, C-C scission, dehydrogenation) always meet molecules that one match cuts into two IDENTICAL pieces
    for j in jobs[:3]:
        j['smiles'] = list(dict.fromkeys(j['smiles'] + ['CC', 'CCCC', '[H][H]', 'OO', 'C=C', 'CCCCCC']))
    # one rule object run on a molecule where the edit cannot be applied (bond exists / no radical left) and THEN on molecules where it
    # can: a failed run must leave nothing behind in the rule object
    SEQ = [('rule rc{ reactant r{ C. labeled a C labeled m single bond to a C. labeled b single bond to m} form bond (a,b) '
            'decrease number of radical (a) decrease number of radical (b)}', ['[CH]1C[CH]1', '[CH2]C[CH2]', 'C[CH]C[CH]C', '[CH]1C[CH]1', '[CH2]C[CH2]']),
           ('rule rd{ reactant r{ C labeled a C labeled b single bond to a} increase bond order (a,b) decrease number of radical (a) '
            'decrease number of radical (b)}', ['CC', '[CH2][CH2]', 'C[CH][CH2]', 'CC', '[CH2][CH2]']),
           ('rule ro{ reactant r{ O labeled o H labeled h single bond to o} break bond (o,h) increase number of radical (o) '
            'decrease number of radical (h)}', ['O', 'CO', 'OO'])]
    jobs += [{'op': 'run_rule', 'text': t, 'smiles': sm, 'timeout': 30} for t, sm in SEQ]
    rules = rules + [t for t, _ in SEQ]
    res = vlib.run_impl_sharded('ring', jobs, timeout=2400)
    hist = {'rules': len(rules), 'readable': 0, 'rejected': 0, 'product_sets': 0, 'applications': 0}
    rows, crow = [], []
    for j, r in zip(jobs, res):
        t = j['text']
        if '_child_failed' in r:
            ctx.broken.append('implementation child failed: ' + r['_child_failed'][:300])
            break
        ctx.count(t)
        if 'read_exc' in r:
            hist['rejected'] += 1
            cls = {'RINGSyntaxError': 1, 'RINGReaderError': 2, 'NotImplementedError': 3}.get(r['read_exc'], 4)
            if cls == 4 and r['read_exc'] in ('IndexError', 'AssertionError') and ringgen.has_group_or_duplicates(t):
                ctx.violate('rule-group-duplicates', 'a rule with a reactant group or a duplicated reactant cannot be read (%s)' % r['read_exc'],
                            {'op': 'run_rule', 'text': t, 'smiles': []}, 'query or RING error', r)
            elif cls == 4:
                ctx.violate('rule-read-exc:%s' % r['read_exc'], 'reading a rule text escaped with %s' % r['read_exc'], {'op': 'run_rule', 'text': t, 'smiles': []},
                            'query or RING error', r)
            crow.append((t, cls))
            continue
        hist['readable'] += 1
        crow.append((t, 0))
        for smi, x in zip(j['smiles'], r['results']):
            if x.get('bad_smiles'):
                continue
            key = 'rule:%s|%s' % (t[:90], smi)
            hist['applications'] += 1
            if 'exc' in x:
                # an edit that cannot be applied to this molecule (e.g. radical decrease on a closed-shell atom): compared with the model below
                rows.append((t, smi, x['graph'], None))
                continue
            ps = x['products']
            hist['product_sets'] += len(ps)
            # direct oracle: one product set per match; atoms of every element conserved
            if len(ps) != x['nmatch']:
                ctx.violate(key + '|count', 'number of product sets differs from the number of matches of the reactant pattern', {'op': 'run_rule', 'text': t, 'smiles': [smi]},
                            x['nmatch'], len(ps))
            pl = x.get('plain')
            if pl is not None and (len(pl) != len(ps) or any(q_['natoms'] != x['natoms'] for q_ in pl)
                                   or sorted(q_['nfrag'] for q_ in pl) != sorted(p_['nfrag'] for p_ in ps)):
                ctx.violate(key + '|plain', 'on the plain molecule (no atom-map numbers) a product set loses atoms or fragments', {'op': 'run_rule', 'text': t, 'smiles': [smi]},
                            {'natoms': x['natoms'], 'nfrag': sorted(p_['nfrag'] for p_ in ps)}, pl[:6])
            zs = sorted(a[0] for a in x['graph']['atoms'])
            for p in ps:
                if None in p['atoms'] or sorted(a[0] for a in p['atoms']) != zs:
                    ctx.violate(key + '|atoms', 'a product set does not conserve the atoms of the reactant', {'op': 'run_rule', 'text': t, 'smiles': [smi]}, zs, p['atoms'])
                    break
            if len(ps) <= 40:
                rows.append((t, smi, x['graph'], ps))
    for t, smi, _, ps in rows[5:8]:
        ctx.sample({'rule': t, 'molecule': smi, 'product_sets': None if ps is None else len(ps)})
    shards = []
    step = 60
    for s in range(0, len(rows), step):
        Rw = rows[s:s + step]
        body = ';\n'.join('(%s, %s, %s)' % (g_str(t), ringcorr.graph_lit(g), 'None' if ps is None else '(Some %s)' % g_list([prod_lit(p) for p in ps]))
                          for t, _, g, ps in Rw)
        shards.append(ringcorr.header([t for t, _, _, _ in Rw]) + HEADER_EXTRA +
                      'Definition cases : list (str * mol * option (list (list (N * Z * N) * list (nat * nat * btype)))) := [\n%s\n].\n'
                      'Fixpoint mm (i : nat) (l : list (str * mol * option (list (list (N * Z * N) * list (nat * nat * btype))))) : list nat :=\n'
                      '  match l with [] => [] | (t, g, ps) :: r =>\n'
                      '    if match RR t, ps with\n'
                      '       | Some ru, Some ps\' => prods_same (run_rule ru g) ps\'\n'
                      '       | Some ru, None => existsb (fun o => match o with None => true | Some _ => false end) (run_rule ru g)\n'
                      '       | None, _ => false end then mm (S i) r else i :: mm (S i) r end.\n'
                      'Eval vm_compute in mm 0 cases.\n' % body)
    nC = len(shards)
    for s in range(0, len(crow), 200):
        Cw = crow[s:s + 200]
        shards.append(ringcorr.header([t for t, _ in Cw]) + HEADER_EXTRA + 'Definition cases := [\n%s\n].\n'
                      'Fixpoint mm (i : nat) (l : list (str * nat)) : list nat := match l with [] => [] | (t, k) :: r => '
                      'if Nat.eqb (rule_class t) k then mm (S i) r else i :: mm (S i) r end.\nEval vm_compute in mm 0 cases.\n'
                      % ';\n'.join('(%s, %d%%nat)' % (g_str(t), k) for t, k in Cw))
    nbad = 0
    for k, idx in ringcorr.run_shards(ctx, 'c16_' + ctx.tier, shards, timeout=2400):
        for i in idx:
            nbad += 1
            if k < nC:
                t, smi, _, ps = rows[k * step + i]
                ctx.violate('corr:%s|%s' % (t[:80], smi), 'model and implementation disagree on the products of a rule on a molecule',
                            {'op': 'run_rule', 'text': t, 'smiles': [smi]}, 'model products', None if ps is None else ps[:2])
            else:
                t, c = crow[(k - nC) * 200 + i]
                ctx.violate('corr-read:%s' % t[:80], 'model and implementation disagree on whether a rule text is readable / balanced',
                            {'op': 'run_rule', 'text': t, 'smiles': []}, 'model class', c)
    if hist['readable'] < 20:
        ctx.broken.append('too few rule texts are readable (%d): rule reading is broken' % hist['readable'])
    ctx.coverage.update({
        'rule': 'unimolecular rules: reactant fragment of 1..4 atoms + edit sequences composed of electron-neutral blocks (break/form/modify/increase/'
                'decrease bond with radical changes, charge changes), every 4th deliberately unbalanced or with an undefined label; x %d of %d small '
                'molecules and radicals. distinct by rule text' % (ctx.n(4, 10), len(MOLS)),
        'histogram': hist, 'correspondence_cases': len(rows) + len(crow), 'correspondence_mismatches': nbad})


def replay(ctx, rec):
    c = rec['case']
    if not isinstance(c, dict) or c.get('op') != 'run_rule':
        return True
    r, _ = vlib.run_impl('ring', {'cases': [dict(c, timeout=30)]})
    r = r['results'][0]
    if 'read_exc' in r:
        return r['read_exc'] in ('RINGSyntaxError', 'RINGReaderError', 'NotImplementedError')
    return all('exc' not in x and len(x.get('products', [])) == x.get('nmatch') for x in r['results'] if not x.get('bad_smiles'))
