"""C06 - no property is returned outside the valid range unsignalled."""
import math
import os
import json
from fractions import Fraction
import vlib
import thermogen
from props import c05, c01
from vlib import g_list, g_Q

COQ_DEPS = ['Thermo/Corr.vo']

HEADER = '''From Coq Require Import List NArith Bool QArith.
From PG Require Import Common.Strs Thermo.Num Thermo.Estimate Thermo.Corr.
Import ListNotations.
Definition oq (a b : option (Q * Q)) : bool :=
  match a, b with
  | None, None => true
  | Some (x, y), Some (x', y') => Qeq_bool x x' && Qeq_bool y y'
  | _, _ => false end.
Definition okrange (c : list (option (Q * Q)) * res (option (Q * Q))) : bool :=
  match est_range (K:=Qops) (fst c), snd c with
  | Ok a, Ok b => oq a b
  | Raise a, Raise b => terr_same a b
  | _, _ => false end.
'''


def q(x):
    return vlib.g_Qf(x)


def oq(r):
    return 'None' if not r else '(Some (%s, %s))' % (q(r[0]), q(r[1]))


def range_correspondence(ctx, rows):
    texts = []
    step = 300
    for s in range(0, len(rows), step):
        body = ';\n'.join('(%s, %s)' % (g_list([oq(r) for r in parts]),
                                       '(Raise AssertErr)' if est == 'AssertionError' else
                                       '(Raise InternalErr)' if isinstance(est, str) else '(Ok %s)' % oq(est))
                          for parts, est in rows[s:s + step])
        texts.append(HEADER + 'Definition cases : list (list (option (Q * Q)) * res (option (Q * Q))) := [\n%s\n].\nEval vm_compute in mismatches okrange 0 cases.\n' % body)
    bad = []
    for k, (ok, out) in enumerate(vlib.run_cases_sharded('c06r_' + ctx.tier, texts)):
        val = vlib.coq_eval_value(out) if ok else None
        if val is None:
            ctx.broken.append('correspondence C06(range) shard %d did not evaluate: %s' % (k, out[-300:]))
            continue
        bad += [k * step + i for i in vlib.parse_nat_list(val)]
    return bad


def finite(r):
    return 'exc' not in r and r.get('v') is not None and math.isfinite(r['v'])


def oracle_corr(ctx, c, res):
    if 'exc' in res:
        return
    key = c05.case_key(c)
    has_tab = bool(c['Ts'])
    if c.get('range'):
        lo, hi = c['range']
    elif has_tab:
        lo, hi = min(c['Ts']), max(c['Ts'])
    else:
        lo, hi = -math.inf, math.inf
    if res.get('range') != (None if (not c.get('range') and (c['cls'] == 'inc' or not has_tab)) else [lo, hi]) and c['cls'] == 'inc':
        if res.get('range') != c.get('range'):
            ctx.violate(key + '|get_range', 'get_range() is not the range given', c, c.get('range'), res.get('range'))
    data = {'cp': has_tab, 'h': c['H'] is not None, 's': c['S'] is not None,
            'g': c['H'] is not None and c['S'] is not None}
    for kind, a in (res.get('cp_arrays') or {}).items():
        if a.get('outside') and has_tab and 'exc' not in a:
            ctx.violate(key + '|array-outside:' + kind, 'get_CpoR accepted an array-like temperature argument with a member outside the valid range',
                        dict(c, array=kind, T=a['T']), 'error', a['v'])
    for i, T in enumerate(c['evalTs']):
        inside = lo <= T <= hi
        for p in ('cp', 'h', 's', 'g'):
            r = res['vals'][p][i]
            if inside:
                if data[p] and (has_tab or p != 'cp') and not finite(r):
                    ctx.violate(key + '|inside', '%s is not a finite number inside the valid range' % p,
                                dict(c, T=T, prop=p), 'finite number', r)
            else:
                if 'exc' in r:
                    if r['exc'] not in ('OutsideCorrelationError', 'IncompleteDataError'):
                        ctx.violate(key + '|outside-exc', 'outside the range an unrelated exception escaped: %s' % r['exc'],
                                    dict(c, T=T, prop=p), 'OutsideCorrelationError/IncompleteDataError', r)
                elif has_tab or c['cls'] == 'raw':
                    ctx.violate(key + '|outside', '%s returned outside the valid range of a correlation with heat-capacity data' % p,
                                dict(c, T=T, prop=p), 'error', r)
                elif not r.get('w'):
                    k2 = 'no-table-silent-at-Tref' if T == c['T_ref'] else key + '|outside-silent'
                    ctx.violate(k2, '%s returned outside the valid range without error or warning (no heat-capacity data)' % p,
                                dict(c, T=T, prop=p), 'IncompleteDataWarning', r)


def est_jobs(ctx, lib, info, n):
    rng = ctx.rng
    gs = [g for g in info['groups'] if g['has']]
    jobs = []
    for _ in range(n):
        sel = rng.sample(gs, min(rng.choice([1, 2, 3, 5, 8]), len(gs)))
        rs = [g['range'] for g in sel if g.get('range')]
        Ts = [298.15]
        if rs:
            lo, hi = max(r[0] for r in rs), min(r[1] for r in rs)
            Ts = sorted(set([lo, hi, round(lo - 1e-6, 7), round(hi + 1e-6, 7), lo - 40.0, hi + 777.0, 0.0, -10.0,
                             round((lo + hi) / 2, 2)]))
        counts = [c01.rnd_count(rng) for g in sel]      # zero counts included: a zero-weight constituent still bounds the range
        if rs and rng.random() < 0.3:
            # the constituent that bounds the common range gets weight zero
            k = rng.choice([i for i, g in enumerate(sel) if g.get('range') and (g['range'][0] == lo or g['range'][1] == hi)])
            counts[k] = rng.choice([0, 0.0])
        jobs.append({'op': 'estimate', 'lib': lib, 'mapping': [[g['name'], c] for g, c in zip(sel, counts)],
                     'Ts': Ts, 'props': ('cp', 'h', 's', 'g'), 'sel': [g['name'] for g in sel]})
    return jobs


def oracle_est(ctx, job, res, byname):
    key = 'est:%s|%s' % (os.path.basename(os.path.dirname(job['lib'])) or job['lib'], ','.join(n for n, _ in job['mapping']))
    if 'exc' in res:
        if res['exc'] == 'AssertionError':
            rs = [byname[n]['range'] for n, _ in job['mapping'] if byname[n].get('range')]
            if rs and max(r[0] for r in rs) <= min(r[1] for r in rs):
                ctx.violate(key + '|assert', 'estimate construction failed although the ranges intersect', job, 'estimate', res)
            return
        ctx.violate(key + '|exc', 'Estimate raised %s' % res['exc'], job, 'estimate', res)
        return
    prs = [p['range'] for p in res['parts']]
    rs = [r for r in prs if r]
    want = [max(r[0] for r in rs), min(r[1] for r in rs)] if rs else None
    if res['range'] != want:
        ctx.violate(key + '|range', "the estimate's range is not the intersection of its constituents' ranges",
                    job, want, res['range'])
    if not want:
        return
    for i, T in enumerate(job['Ts']):
        inside = want[0] <= T <= want[1]
        for p in ('cp', 'h', 's'):
            r = res['vals'][p][i]
            parts = [pt['vals'][p][i] for pt in res['parts']]
            if inside:
                if all('exc' not in x for x in parts) and not finite(r):
                    ctx.violate(key + '|inside', '%s of the estimate is not a finite number inside its range' % p,
                                dict(job, T=T, prop=p), 'finite', r)
            elif 'exc' not in r:
                excl_with_table = [pt for pt in res['parts'] if pt['range'] and not (pt['range'][0] <= T <= pt['range'][1]) and pt['has_table']]
                if excl_with_table or not r.get('w'):
                    silent_ok = False
                    if not excl_with_table and not r.get('w'):
                        # only table-less constituents exclude T and T is their T_ref: the known finding
                        silent_ok = all(byname[n].get('T_ref') == T for (n, _), pt in zip(job['mapping'], res['parts'])
                                        if pt['range'] and not (pt['range'][0] <= T <= pt['range'][1]))
                    ctx.violate('no-table-silent-at-Tref' if silent_ok else key + '|outside',
                                '%s of the estimate returned outside its range without error or warning' % p,
                                dict(job, T=T, prop=p), 'error or IncompleteDataWarning', r)


def run(ctx):
    ctx.assumptions += c05.ASSUME
    cases = c05.build_cases(ctx, ctx.n(40, 500), ctx.n(50, 600), ctx.n(10, 80))
    # table-less correlations whose reference temperature is outside their range
    for T_ref, rg in ((298.0, [300.0, 1000.0]), (1200.0, [300.0, 1000.0])):
        cases.append({'op': 'corr', 'cls': 'inc', 'Ts': [], 'Cps': [], 'T_ref': T_ref, 'range': rg, 'H': 1.5, 'S': 2.5,
                      'evalTs': [T_ref, 299.0, 500.0, 1000.5], 'tref_region': 'tref-outside'})
    res = c05.run_jobs(cases)
    hist = {}
    for c, r in zip(cases, res):
        if '_child_failed' in r or 'job_exc' in r:
            ctx.broken.append('implementation child failed: %s' % str(r)[:300])
            continue
        ctx.count(c05.case_key(c))
        hist[c['cls']] = hist.get(c['cls'], 0) + 1
        oracle_corr(ctx, c, r)
    ctx.sample({k: cases[0][k] for k in ('cls', 'Ts', 'Cps', 'T_ref', 'range', 'evalTs')})
    bad = c05.correspondence(ctx, cases, res, 'c06' + ctx.tier)
    for i in bad:
        ctx.violate(c05.case_key(cases[i]) + '|corr', 'model and implementation disagree on a correlation (range handling or evaluation)',
                    cases[i], 'model', {k: v for k, v in res[i].items() if k != 'oracle'})
    # correlations that got their range by MERGING (update): inside the reported range everything with data is defined
    from props import c13
    seqs = [c13.gen_seq(ctx) for _ in range(ctx.n(40, 400))]
    sres = vlib.run_impl_sharded('thermo', seqs, timeout=900)
    hist['merged'] = 0
    for job, r in zip(seqs, sres):
        for k, st in enumerate(r.get('steps', [])):
            sv = st.get('self_vals') or {}
            if 'cur' not in sv or not st.get('state') or not st['state']['range'] or not st['state']['tab']:
                continue            # (a REFUSED merge counts too: whatever range the object reports afterwards must be honoured)
            hist['merged'] += 1
            ctx.count(('merged', json.dumps(job['init'], sort_keys=True), k))
            lo, hi = st['state']['range']
            for T, v in zip(sv['T'], sv['cur']['cp']):
                if lo <= T <= hi and ('exc' in v or v.get('v') is None):
                    ctx.violate('merged-inside:%s' % v.get('exc'), 'Cp/R raised %s inside the range a merged correlation reports' % v.get('exc'),
                                dict(job, step=k, T=T), 'number', v)
                    break
    # estimates: shipped + synthetic libraries
    libs = list(thermogen.SHIPPED)
    syn = [thermogen.rnd_library(ctx.rng, os.path.join(vlib.WORK, 'c06_syn_%d' % i))['path'] for i in range(ctx.n(8, 60))]
    infos = vlib.run_impl_sharded('thermo', [{'op': 'libinfo', 'lib': s} for s in libs + syn], timeout=900)
    jobs = []
    names = {}
    for spec, info in zip(libs + syn, infos):
        if 'groups' not in info:
            ctx.broken.append('library %s did not load: %s' % (spec, str(info)[:200]))
            continue
        names[spec] = {g['name']: g for g in info['groups']}
        jobs += est_jobs(ctx, spec, info, ctx.n(12, 150))
    # the same estimate asked again after the library was merged into from a copy of itself with WIDER ranges
    import re
    for spec in syn[:ctx.n(6, 30)]:
        if spec not in names:
            continue
        wide = os.path.join(os.path.dirname(spec) + '_wide', 'library.yaml')
        os.makedirs(os.path.dirname(wide), exist_ok=True)
        open(os.path.join(os.path.dirname(wide), 'scheme.yaml'), 'w').write('patterns: []\n')
        txt = open(spec).read()
        open(wide, 'w').write(re.sub(r'range: \[[^\]]*\]', 'range: [20.0 K, 4000.0 K]', txt))
        for j in est_jobs(ctx, spec, {'groups': list(names[spec].values())}, 2):
            j['copied_then_widened'] = wide
            j['Ts'] = sorted(set(j['Ts'] + [25.0, 3500.0, 1234.5]))
            jobs.append(j)
        for j in est_jobs(ctx, spec, {'groups': list(names[spec].values())}, 3):
            j['update_from'] = wide
            j['Ts'] = sorted(set(j['Ts'] + [25.0, 3500.0, 1234.5]))
            j['widened'] = True
            jobs.append(j)
    jobs.sort(key=lambda j: j['lib'])
    results = c01.run_by_lib(jobs)
    rows = []
    for job, r in zip(jobs, results):
        if '_child_failed' in r or 'job_exc' in r:
            ctx.broken.append('implementation child failed: %s' % str(r)[:300])
            continue
        ctx.count(('est', job['lib'], tuple(job['sel'])))
        hist['estimate'] = hist.get('estimate', 0) + 1
        oracle_est(ctx, job, r, names[job['lib']])
        if job.get('widened'):
            continue            # (the constituents' ranges are those after the merge: reported by the child in r['parts'])
        prs = [names[job['lib']][n].get('range') for n in job['sel']]
        rows.append((prs, r['exc'] if 'exc' in r else r['range']))
    ctx.sample({'estimate': jobs[0]['mapping'], 'Ts': jobs[0]['Ts']})
    badr = range_correspondence(ctx, rows)
    for i in badr:
        ctx.violate('corr-range:%d' % i, 'model est_range and implementation disagree', {'parts': rows[i][0]}, 'model', rows[i][1])
    ctx.coverage.update({
        'rule': 'correlations as in C05 evaluated just inside, at, just outside (1e-6), far outside each bound, at 0 and at negative T; '
                'table-less correlations incl. reference temperature outside the range; estimates over 1..8 constituents of shipped and '
                'synthetic libraries at the same kinds of temperatures. distinct by case content',
        'histogram': hist, 'correspondence_cases': len(cases) + len(rows),
        'correspondence_mismatches': len(bad) + len(badr)})


def replay(ctx, rec):
    c = rec['case']
    if isinstance(c, dict) and c.get('op') == 'corr':
        c = {k: v for k, v in c.items() if k not in ('T', 'prop')}
        r = c05.run_jobs([c])[0]
        n0 = len(ctx.violations)
        oracle_corr(ctx, c, r)
        return len(ctx.violations) == n0
    return True
